#!/bin/sh
# Builds the whole framework offline from files on disk: translator -> tables, Rust harness
# (against /repo's current tree, hooks enabled), Lean models + proofs + native driver.
set -e
cd /verif
mkdir -p .build evidence replays
export CARGO_NET_OFFLINE=true
python3 translator/extract.py lean/TgModel/Generated/Tables.lean .build/tables.json
python3 translator/extract_grammar.py .build/tables.json lean/TgModel/Generated/DocGrammar.lean .build/docgrammar.json
python3 translator/extract_ast.py lean/TgModel/Generated/AstTable.lean harness/src/ast_walk_gen.rs .build/asttable.json
(cd harness && cargo build --release --features verif --offline 2>&1 | tail -3)
(cd /repo && CARGO_TARGET_DIR=/verif/.build/cargo-repo cargo build --release -p lsp --offline 2>&1 | tail -1)
(cd lean && lake build TgModel tgdrive 2>&1 | tail -3)
echo "setup done"
