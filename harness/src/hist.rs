//! `hist <json>`: {"ops": [["edit", path, text] | ["editroot", path, text] | ["root", path] | ["disk", path, text]]}
//! Runs the history on a real AnalysisHost + in-memory file system, then runs the full query set
//! on the final workspace, and the same query set on a freshly started host given only the
//! final file contents and the final root. Prints {"hist": <answers>, "fresh": <answers>, "state": ..}.
use std::path::Path;
use std::sync::Arc;

use ide::analysis::AnalysisHost;
use ide::file_system::{FilePath, FileSystem};
use serde_json::{json, Value};

use crate::ws::{query, MemFs};

fn full_queries(host: &AnalysisHost, fs: &MemFs) -> Value {
    let an = host.analysis();
    let diags = query(&an, fs, &json!(["diagnostics"]));
    let mut files: Vec<String> = diags
        .as_array()
        .map(|a| a.iter().filter_map(|e| e[0].as_str().map(|s| s.to_string())).collect())
        .unwrap_or_default();
    files.sort();
    let mut per_file = Vec::new();
    for p in &files {
        let text = fs.files.get(&FilePath::from(Path::new(p))).cloned().unwrap_or_default();
        let len = text.len() as u64;
        let mut qs = vec![
            json!(["document_symbol", p]),
            json!(["folding_range", p]),
            json!(["document_link", p]),
            json!(["inlay_hint", p, 0, len]),
            json!(["idents", p]),
        ];
        let ids = query(&an, fs, &json!(["idents", p]));
        if let Some(a) = ids.as_array() {
            for (i, id) in a.iter().enumerate() {
                if i >= 40 {
                    break;
                }
                let off = id[0].as_u64().unwrap_or(0);
                qs.push(json!(["goto", p, off]));
                qs.push(json!(["references", p, off]));
                qs.push(json!(["hover", p, off]));
                qs.push(json!(["completion", p, off + 1, null]));
            }
        }
        let answers: Vec<Value> = qs
            .iter()
            .map(|q| {
                std::panic::catch_unwind(std::panic::AssertUnwindSafe(|| query(&an, fs, q)))
                    .unwrap_or(json!({"panic": true}))
            })
            .collect();
        per_file.push(json!([p, answers]));
    }
    json!({"diagnostics": diags, "files": per_file})
}

pub fn run(rest: &str) -> String {
    let spec: Value = match serde_json::from_str(rest) {
        Ok(v) => v,
        Err(e) => return format!("bad-json {}", e),
    };
    std::env::remove_var("INCLUDE_DIR");
    let mut fs = MemFs::default();
    let mut host = AnalysisHost::new();
    let mut root: Option<String> = None;
    // files whose text the host has been given explicitly (edit / editroot / root)
    let mut known: std::collections::HashSet<String> = std::collections::HashSet::new();
    let empty = vec![];
    for op in spec["ops"].as_array().unwrap_or(&empty) {
        let kind = op[0].as_str().unwrap_or("");
        let path = op[1].as_str().unwrap_or("").to_string();
        let fp = FilePath::from(Path::new(&path));
        match kind {
            // the client edits a file: file system and host learn the text, the current root is re-selected
            "edit" => {
                known.insert(path.clone());
                let text = op[2].as_str().unwrap_or("").to_string();
                fs.files.insert(fp.clone(), text.clone());
                let id = fs.assign_or_get_file_id(fp);
                host.set_file_content(id, Arc::from(text.as_str()));
                if let Some(r) = &root {
                    let rid = fs.assign_or_get_file_id(FilePath::from(Path::new(r)));
                    host.set_root_file(&mut fs, rid);
                }
            }
            // like the LSP server: the edited document becomes the root
            "editroot" => {
                known.insert(path.clone());
                let text = op[2].as_str().unwrap_or("").to_string();
                fs.files.insert(fp.clone(), text.clone());
                let id = fs.assign_or_get_file_id(fp);
                host.set_file_content(id, Arc::from(text.as_str()));
                host.set_root_file(&mut fs, id);
                root = Some(path);
            }
            // the file changes on disk behind the host's back (an included file that is not open); the server notices
            // when it collects the sources of the current root the next time
            "disk" => {
                let text = op[2].as_str().unwrap_or("").to_string();
                fs.files.insert(fp.clone(), text);
                if let Some(r) = &root {
                    let rid = fs.assign_or_get_file_id(FilePath::from(Path::new(r)));
                    host.set_root_file(&mut fs, rid);
                }
            }
            // `set_root_file` alone, for a file whose text the host has been given before (by an earlier edit or as an include):
            // nothing is sent again
            "rootbare" => {
                if fs.files.contains_key(&fp) && known.contains(&path) {
                    let id = fs.assign_or_get_file_id(fp);
                    host.set_root_file(&mut fs, id);
                    root = Some(path);
                }
            }
            "root" => {
                if let Some(text) = fs.files.get(&fp).cloned() {
                    known.insert(path.clone());
                    let id = fs.assign_or_get_file_id(fp);
                    host.set_file_content(id, Arc::from(text.as_str()));
                    host.set_root_file(&mut fs, id);
                    root = Some(path);
                }
            }
            _ => {}
        }
        // "each": the editor queries after every operation, so the derived queries (parse, index, line tables) are computed
        // in every intermediate state and have to be re-validated / recomputed by the next operation
        if spec["each"].as_bool().unwrap_or(false) && root.is_some() {
            let _ = std::panic::catch_unwind(std::panic::AssertUnwindSafe(|| full_queries(&host, &fs)));
        }
    }
    let Some(root) = root else {
        return json!({"hist": null, "fresh": null}).to_string();
    };
    let hist = full_queries(&host, &fs);
    // fresh host from the final file contents and root only - on a thread of its own, so that nothing a thread keeps between
    // analyses (a thread-local) carries over from the history into the reference
    let files2 = fs.files.clone();
    let root2 = root.clone();
    let fresh = match std::thread::spawn(move || {
        let mut fs2 = MemFs::default();
        fs2.files = files2;
        let mut host2 = AnalysisHost::new();
        let rp = FilePath::from(Path::new(&root2));
        let rid = fs2.assign_or_get_file_id(rp.clone());
        let rtext = fs2.files.get(&rp).cloned().unwrap_or_default();
        host2.set_file_content(rid, Arc::from(rtext.as_str()));
        host2.set_root_file(&mut fs2, rid);
        full_queries(&host2, &fs2)
    })
    .join()
    {
        Ok(v) => v,
        Err(e) => std::panic::resume_unwind(e),
    };
    json!({"hist": hist, "fresh": fresh, "root": root}).to_string()
}
