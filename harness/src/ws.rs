//! `ws <json>`: build an in-memory workspace on a real `AnalysisHost` and run queries.
//! {"files": {"/a.td": "..."}, "root": "/a.td", "include_dir": null|"/inc",
//!  "queries": [["diagnostics"], ["document_symbol","/a.td"], ["goto","/a.td",5], ...]}
//! Answer: JSON array, one entry per query; a panicking query yields {"panic": msg}.
use std::collections::HashMap;
use std::path::Path;
use std::sync::Arc;

use ide::analysis::{Analysis, AnalysisHost};
use ide::file_system::{FileId, FilePath, FilePosition, FileRange, FileSet, FileSystem};
use ide::handlers::document_symbol::DocumentSymbol;
use serde_json::{json, Value};
use text_size::{TextRange, TextSize};

#[derive(Default)]
pub struct MemFs {
    pub files: HashMap<FilePath, String>,
    pub set: FileSet,
    pub next: u32,
    pub paths: Vec<(FileId, String)>,
}

impl MemFs {
    pub fn path_str(&self, id: FileId) -> String {
        self.paths
            .iter()
            .find(|(i, _)| *i == id)
            .map(|(_, p)| p.clone())
            .unwrap_or_else(|| format!("?{}", id.0))
    }
    pub fn id_of(&self, p: &str) -> Option<FileId> {
        self.set.file_for_path(&FilePath::from(Path::new(p)))
    }
}

impl FileSystem for MemFs {
    fn assign_or_get_file_id(&mut self, path: FilePath) -> FileId {
        if let Some(id) = self.set.file_for_path(&path) {
            return id;
        }
        let id = FileId(self.next);
        self.next += 1;
        self.paths.push((id, path.0.to_string_lossy().to_string()));
        self.set.insert(id, path);
        id
    }
    fn path_for_file(&self, file_id: &FileId) -> &FilePath {
        self.set.path_for_file(file_id)
    }
    fn read_content(&self, p: &FilePath) -> Option<String> {
        self.files.get(p).cloned()
    }
}

pub fn fr(fs: &MemFs, r: FileRange) -> Value {
    json!([fs.path_str(r.file), u32::from(r.range.start()), u32::from(r.range.end())])
}

fn sym(s: &DocumentSymbol) -> Value {
    json!({"name": s.name.to_string(), "typ": s.typ.to_string(), "kind": format!("{:?}", s.kind),
           "range": [u32::from(s.range.start()), u32::from(s.range.end())],
           "children": s.children.iter().map(sym).collect::<Vec<_>>()})
}

pub fn query(an: &Analysis, fs: &MemFs, q: &Value) -> Value {
    let name = q[0].as_str().unwrap_or("");
    let file = |i: usize| -> Option<FileId> { q[i].as_str().and_then(|p| fs.id_of(p)) };
    let num = |i: usize| -> u32 { q[i].as_u64().unwrap_or(0) as u32 };
    match name {
        "diagnostics" => {
            let mut m: Vec<(String, Value)> = an
                .diagnostics()
                .into_iter()
                .map(|(f, ds)| {
                    (
                        fs.path_str(f),
                        Value::Array(
                            ds.iter()
                                .map(|d| json!([fs.path_str(d.location.file), u32::from(d.location.range.start()), u32::from(d.location.range.end()), d.message]))
                                .collect(),
                        ),
                    )
                })
                .collect();
            m.sort_by(|a, b| a.0.cmp(&b.0));
            Value::Array(m.into_iter().map(|(k, v)| json!([k, v])).collect())
        }
        "document_symbol" => match file(1) {
            None => json!("no-file"),
            Some(f) => match an.document_symbol(f) {
                None => Value::Null,
                Some(v) => Value::Array(v.iter().map(sym).collect()),
            },
        },
        "folding_range" => match file(1) {
            None => json!("no-file"),
            Some(f) => match an.folding_range(f) {
                None => Value::Null,
                Some(v) => Value::Array(v.iter().map(|r| json!([u32::from(r.range.start()), u32::from(r.range.end())])).collect()),
            },
        },
        "document_link" => match file(1) {
            None => json!("no-file"),
            Some(f) => match an.document_link(f) {
                None => Value::Null,
                Some(v) => Value::Array(
                    v.iter()
                        .map(|l| json!([u32::from(l.range.start()), u32::from(l.range.end()), fs.path_str(l.target)]))
                        .collect(),
                ),
            },
        },
        "goto" => match file(1) {
            None => json!("no-file"),
            Some(f) => match an.goto_definition(FilePosition::new(f, TextSize::from(num(2)))) {
                None => Value::Null,
                Some(r) => fr(fs, r),
            },
        },
        "references" => match file(1) {
            None => json!("no-file"),
            Some(f) => match an.references(FilePosition::new(f, TextSize::from(num(2)))) {
                None => Value::Null,
                Some(v) => Value::Array(v.into_iter().map(|r| fr(fs, r)).collect()),
            },
        },
        "hover" => match file(1) {
            None => json!("no-file"),
            Some(f) => match an.hover(FilePosition::new(f, TextSize::from(num(2)))) {
                None => Value::Null,
                Some(h) => json!({"signature": h.signature, "document": h.document}),
            },
        },
        "inlay_hint" => match file(1) {
            None => json!("no-file"),
            Some(f) => {
                let r = FileRange::new(f, TextRange::new(TextSize::from(num(2)), TextSize::from(num(3).max(num(2)))));
                match an.inlay_hint(r) {
                    None => Value::Null,
                    Some(v) => Value::Array(
                        v.iter()
                            .map(|h| json!([u32::from(h.position), h.label, format!("{:?}", h.kind)]))
                            .collect(),
                    ),
                }
            }
        },
        "completion" => match file(1) {
            None => json!("no-file"),
            Some(f) => {
                let trig = q[3].as_str().map(|s| s.to_string());
                match an.completion(FilePosition::new(f, TextSize::from(num(2))), trig) {
                    None => Value::Null,
                    Some(v) => Value::Array(
                        v.iter()
                            .map(|c| json!([c.label, c.insert_text_snippet, format!("{:?}", c.kind)]))
                            .collect(),
                    ),
                }
            }
        },
        "idents" => match file(1) {
            None => json!("no-file"),
            Some(f) => {
                let text = fs.files.get(fs.path_for_file(&f)).cloned().unwrap_or_default();
                let p = syntax::parse(&text);
                let mut v = Vec::new();
                for el in p.syntax_node().descendants_with_tokens() {
                    if let Some(t) = el.as_token() {
                        if t.kind() == syntax::syntax_kind::SyntaxKind::Id {
                            v.push(json!([u32::from(t.text_range().start()), u32::from(t.text_range().end()), t.text()]));
                        }
                    }
                }
                Value::Array(v)
            }
        },
        _ => json!("bad-query"),
    }
}

#[cfg(feature = "verif")]
fn oplog(an: &Analysis, fs: &MemFs) -> Value {
    use ide::verif_hooks::SymbolOp;
    ide::verif_hooks::clear();
    let _ = an.index();
    let ops = ide::verif_hooks::take();
    Value::Array(
        ops.into_iter()
            .map(|op| match op {
                SymbolOp::Define { name, loc } => json!(["D", name, fs.path_str(loc.file), u32::from(loc.range.start()), u32::from(loc.range.end())]),
                SymbolOp::DefineAnon { name, loc } => json!(["A", name, fs.path_str(loc.file), u32::from(loc.range.start()), u32::from(loc.range.end())]),
                SymbolOp::Reference { symbol, loc } => json!(["R", symbol, fs.path_str(loc.file), u32::from(loc.range.start()), u32::from(loc.range.end())]),
            })
            .collect(),
    )
}

#[cfg(not(feature = "verif"))]
fn oplog(_an: &Analysis, _fs: &MemFs) -> Value {
    json!("no-hook")
}

pub fn build(spec: &Value) -> (AnalysisHost, MemFs, FileId) {
    let mut fs = MemFs::default();
    if let Some(files) = spec["files"].as_object() {
        for (p, c) in files {
            fs.files.insert(FilePath::from(Path::new(p)), c.as_str().unwrap_or("").to_string());
        }
    }
    match spec["include_dir"].as_str() {
        Some(d) => std::env::set_var("INCLUDE_DIR", d),
        None => std::env::remove_var("INCLUDE_DIR"),
    }
    let rootp = spec["root"].as_str().unwrap_or("/main.td").to_string();
    let root = fs.assign_or_get_file_id(FilePath::from(Path::new(&rootp)));
    let mut host = AnalysisHost::new();
    let text = fs.files.get(&FilePath::from(Path::new(&rootp))).cloned().unwrap_or_default();
    host.set_file_content(root, Arc::from(text.as_str()));
    host.set_root_file(&mut fs, root);
    (host, fs, root)
}

pub fn run(rest: &str) -> String {
    let spec: Value = match serde_json::from_str(rest) {
        Ok(v) => v,
        Err(e) => return format!("bad-json {}", e),
    };
    let (host, fs, _root) = build(&spec);
    let an = host.analysis();
    let mut out = Vec::new();
    let ops = if spec["oplog"].as_bool() == Some(true) {
        Some(std::panic::catch_unwind(std::panic::AssertUnwindSafe(|| oplog(&an, &fs))).unwrap_or(json!({"panic": "index"})))
    } else {
        None
    };
    if let Some(qs) = spec["queries"].as_array() {
        for q in qs {
            let r = std::panic::catch_unwind(std::panic::AssertUnwindSafe(|| query(&an, &fs, q)));
            out.push(match r {
                Ok(v) => v,
                Err(e) => {
                    let msg = e
                        .downcast_ref::<&str>()
                        .map(|s| s.to_string())
                        .or_else(|| e.downcast_ref::<String>().cloned())
                        .unwrap_or_else(|| "?".into());
                    json!({ "panic": msg })
                }
            });
        }
    }
    if !spec["sweep"].is_null() {
        return sweep(&an, &fs, &spec["sweep"]).to_string();
    }
    match ops {
        Some(ops) => json!({"r": out, "ops": ops}).to_string(),
        None => Value::Array(out).to_string(),
    }
}

fn panic_msg(e: Box<dyn std::any::Any + Send>) -> String {
    e.downcast_ref::<&str>()
        .map(|s| s.to_string())
        .or_else(|| e.downcast_ref::<String>().cloned())
        .unwrap_or_else(|| "?".into())
}

/// C03/C17: every query kind at every character boundary of every workspace file (stride for long
/// files), inlay hints for all (or sampled) sub-ranges; reports the number of calls, the panics and
/// the set of distinct ranges found in the answers, tagged by where they came from.
fn sweep(an: &Analysis, fs: &MemFs, opt: &Value) -> Value {
    use std::collections::BTreeSet;
    let max_points = opt["max_points"].as_u64().unwrap_or(400) as usize;
    let max_hint_ranges = opt["max_hint_ranges"].as_u64().unwrap_or(300) as usize;
    let mut calls = 0u64;
    let mut panics: Vec<Value> = Vec::new();
    let mut ranges: BTreeSet<(String, String, u32, u32)> = BTreeSet::new();
    let mut answered = 0u64;
    macro_rules! guarded {
        ($label:expr, $at:expr, $body:expr) => {{
            calls += 1;
            match std::panic::catch_unwind(std::panic::AssertUnwindSafe(|| $body)) {
                Ok(v) => Some(v),
                Err(e) => {
                    if panics.len() < 8 {
                        panics.push(json!([$label, $at, panic_msg(e)]));
                    }
                    None
                }
            }
        }};
    }
    if let Some(ds) = guarded!("diagnostics", Value::Null, an.diagnostics()) {
        for (_f, v) in ds {
            for d in v {
                ranges.insert(("diagnostic".into(), fs.path_str(d.location.file), d.location.range.start().into(), d.location.range.end().into()));
            }
        }
    }
    let files: Vec<(FileId, String)> = fs.paths.clone();
    for (f, path) in &files {
        let Some(text) = fs.files.get(fs.path_for_file(f)).cloned() else { continue };
        fn syms(path: &str, v: &[DocumentSymbol], child: bool, out: &mut std::collections::BTreeSet<(String, String, u32, u32)>) {
            for s in v {
                out.insert((if child { "symbol-child".into() } else { "symbol".into() }, path.to_string(), s.range.start().into(), s.range.end().into()));
                syms(path, &s.children, true, out);
            }
        }
        if let Some(Some(v)) = guarded!("document_symbol", json!(path), an.document_symbol(*f)) {
            syms(path, &v, false, &mut ranges);
        }
        if let Some(Some(v)) = guarded!("folding_range", json!(path), an.folding_range(*f)) {
            for r in v {
                ranges.insert(("fold".into(), path.clone(), r.range.start().into(), r.range.end().into()));
            }
        }
        if let Some(Some(v)) = guarded!("document_link", json!(path), an.document_link(*f)) {
            for l in v {
                ranges.insert(("link".into(), path.clone(), l.range.start().into(), l.range.end().into()));
                ranges.insert(("link-target".into(), fs.path_str(l.target), 0, 0));
            }
        }
        let mut bounds: Vec<u32> = text.char_indices().map(|(i, _)| i as u32).collect();
        bounds.push(text.len() as u32);
        let pts: Vec<u32> = if bounds.len() <= max_points {
            bounds.clone()
        } else {
            let step = bounds.len() as f64 / max_points as f64;
            let mut v: Vec<u32> = (0..max_points).map(|i| bounds[(i as f64 * step) as usize]).collect();
            v.push(*bounds.last().unwrap());
            v
        };
        for &o in &pts {
            let pos = FilePosition::new(*f, TextSize::from(o));
            if let Some(Some(r)) = guarded!("goto", json!([path, o]), an.goto_definition(pos)) {
                answered += 1;
                ranges.insert(("definition".into(), fs.path_str(r.file), r.range.start().into(), r.range.end().into()));
            }
            if let Some(Some(v)) = guarded!("references", json!([path, o]), an.references(pos)) {
                for r in v {
                    ranges.insert(("reference".into(), fs.path_str(r.file), r.range.start().into(), r.range.end().into()));
                }
            }
            if let Some(Some(_)) = guarded!("hover", json!([path, o]), an.hover(pos)) {
                answered += 1;
            }
            let _ = guarded!("completion", json!([path, o]), an.completion(pos, None));
            let _ = guarded!("completion!", json!([path, o]), an.completion(pos, Some("!".to_string())));
        }
        // inlay hints: all sub-ranges over the chosen points when few, else a deterministic sample
        let n = pts.len();
        let total = n * (n + 1) / 2;
        let mut k = 0usize;
        for i in 0..n {
            for j in i..n {
                k += 1;
                if total > max_hint_ranges && (k * 2654435761usize) % total >= max_hint_ranges && !(i == 0 && j == n - 1) {
                    continue;
                }
                let r = FileRange::new(*f, TextRange::new(TextSize::from(pts[i]), TextSize::from(pts[j])));
                if let Some(Some(v)) = guarded!("inlay_hint", json!([path, pts[i], pts[j]]), an.inlay_hint(r)) {
                    for h in v {
                        ranges.insert(("hint".into(), path.clone(), h.position.into(), h.position.into()));
                        if u32::from(h.position) < pts[i] || u32::from(h.position) > pts[j] {
                            ranges.insert(("hint-outside-request".into(), path.clone(), pts[i], pts[j]));
                        }
                    }
                }
            }
        }
    }
    json!({"calls": calls, "answered": answered, "panics": panics,
           "files": files.iter().map(|(_, p)| json!([p, fs.files.get(&FilePath::from(Path::new(p))).map(|t| t.len()).unwrap_or(0)])).collect::<Vec<_>>(),
           "ranges": ranges.into_iter().map(|(k, f, a, b)| json!([k, f, a, b])).collect::<Vec<_>>()})
}
