//! tgverif: line-protocol harness that drives the real tablegen-lsp code in-process.
//! One request per input line: `<cmd> <args..>`; text payloads are hex-encoded UTF-8.
//! One canonical answer line per request. Every case runs under catch_unwind.
use std::io::{BufRead, Write};

mod syn;
mod ast_walk_gen;
mod util;
mod li;
mod ws;
mod hist;
mod srv;
mod sched;

fn main() {
    if std::env::var("VERIF_PANIC_LOG").is_ok() {
        std::panic::set_hook(Box::new(|info| eprintln!("panic: {}", info)));
    } else {
        std::panic::set_hook(Box::new(|_| {}));
    }
    let args: Vec<String> = std::env::args().collect();
    if args.len() > 1 && args[1] == "chars" {
        util::dump_chars();
        return;
    }
    let stdin = std::io::stdin();
    let stdout = std::io::stdout();
    let mut out = std::io::BufWriter::with_capacity(1 << 20, stdout.lock());
    for line in stdin.lock().lines() {
        let line = match line {
            Ok(l) => l,
            Err(_) => break,
        };
        let line = line.trim_end();
        if line.is_empty() {
            continue;
        }
        let (cmd, rest) = match line.find(' ') {
            Some(i) => (&line[..i], &line[i + 1..]),
            None => (line, ""),
        };
        // every request runs under a parser step budget (hook), so a parser that stops making
        // progress panics with a marker instead of hanging or exhausting memory
        #[cfg(feature = "verif")]
        syntax::verif_hooks::reset(1000 * (rest.len() as u64 + 1) + 100_000);
        let res = std::panic::catch_unwind(std::panic::AssertUnwindSafe(|| dispatch(cmd, rest)));
        match res {
            Ok(s) => writeln!(out, "{}", s).unwrap(),
            Err(e) => {
                let msg = if let Some(s) = e.downcast_ref::<&str>() {
                    s.to_string()
                } else if let Some(s) = e.downcast_ref::<String>() {
                    s.clone()
                } else {
                    "?".to_string()
                };
                writeln!(out, "PANIC {}", msg.replace('\n', " ")).unwrap()
            }
        }
        out.flush().unwrap();
    }
}

fn dispatch(cmd: &str, rest: &str) -> String {
    match cmd {
        "lex" => syn::lex(&util::unhex_str(rest)),
        "prep" => syn::prep(&util::unhex_str(rest)),
        "parse" => syn::parse(&util::unhex_str(rest), false),
        "parseh" => syn::parse(&util::unhex_str(rest), true),
        "astwalk" => syn::astwalk(&util::unhex_str(rest)),
        "oracle01" => syn::oracle01(&util::unhex_str(rest)),
        "steps" => syn::steps(&util::unhex_str(rest)),
        "li" => li::run(rest),
        "lir" => li::run_ranges(rest),
        "ws" => ws::run(rest),
        "hist" => hist::run(rest),
        "srv" => srv::run(rest),
        "sched" => sched::run(rest),
        _ => format!("bad-cmd {}", cmd),
    }
}
