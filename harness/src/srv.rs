//! `srv <json>`: drive the real `lsp::server::Server` in-process over an in-memory transport.
//! {"dir": abs dir for on-disk files, "disk": {rel: text}, "script": [...], "timeout_ms": n}
//! script steps: ["open", rel, text] | ["change", rel, text] | ["close", rel] | ["req", id, kind, rel, a, b, c, d] | ["idle"]
//! optional "caps": "full" (initialize with an editor's full capability set; default: empty capabilities)
//! Answer: {"msgs": [...], "timeout": bool, "unanswered": [ids]}
use std::sync::{Arc, Mutex};
use std::time::{Duration, Instant};


use async_lsp::server::LifecycleLayer;
use serde_json::{json, Value};
use tokio::io::{AsyncReadExt, AsyncWriteExt};
use tokio_util::compat::{TokioAsyncReadCompatExt, TokioAsyncWriteCompatExt};
use tower::ServiceBuilder;

async fn send(w: &mut (impl AsyncWriteExt + Unpin), v: Value) {
    let s = v.to_string();
    let _ = w.write_all(format!("Content-Length: {}\r\n\r\n{}", s.len(), s).as_bytes()).await;
    let _ = w.flush().await;
}

async fn recv(r: &mut (impl AsyncReadExt + Unpin)) -> Option<Value> {
    let mut hdr = Vec::new();
    loop {
        let b = r.read_u8().await.ok()?;
        hdr.push(b);
        if hdr.ends_with(b"\r\n\r\n") {
            break;
        }
    }
    let h = String::from_utf8(hdr).ok()?;
    let n: usize = h.lines().find_map(|l| l.strip_prefix("Content-Length: "))?.trim().parse().ok()?;
    let mut buf = vec![0u8; n];
    r.read_exact(&mut buf).await.ok()?;
    serde_json::from_slice(&buf).ok()
}

struct Tx(tokio::sync::mpsc::UnboundedSender<Value>);
impl Tx {
    fn send(&self, v: Value) {
        let _ = self.0.send(v);
    }
}

/// what a current editor announces (every `refreshSupport`, progress, configuration, dynamic registration ...)
fn full_capabilities() -> Value {
    json!({
        "workspace": {"applyEdit": true, "workspaceEdit": {"documentChanges": true, "resourceOperations": ["create", "rename", "delete"]},
            "configuration": true, "workspaceFolders": true, "didChangeConfiguration": {"dynamicRegistration": true},
            "didChangeWatchedFiles": {"dynamicRegistration": true, "relativePatternSupport": true},
            "symbol": {"dynamicRegistration": true}, "executeCommand": {"dynamicRegistration": true},
            "semanticTokens": {"refreshSupport": true}, "codeLens": {"refreshSupport": true}, "inlayHint": {"refreshSupport": true},
            "inlineValue": {"refreshSupport": true}, "diagnostics": {"refreshSupport": true}, "foldingRange": {"refreshSupport": true},
            "fileOperations": {"dynamicRegistration": true, "didCreate": true, "didRename": true, "didDelete": true}},
        "textDocument": {
            "publishDiagnostics": {"relatedInformation": true, "versionSupport": true, "tagSupport": {"valueSet": [1, 2]}, "codeDescriptionSupport": true, "dataSupport": true},
            "synchronization": {"dynamicRegistration": true, "willSave": true, "willSaveWaitUntil": true, "didSave": true},
            "completion": {"dynamicRegistration": true, "contextSupport": true, "completionItem": {"snippetSupport": true, "commitCharactersSupport": true,
                "documentationFormat": ["markdown", "plaintext"], "deprecatedSupport": true, "preselectSupport": true, "insertReplaceSupport": true, "labelDetailsSupport": true},
                "completionList": {"itemDefaults": ["commitCharacters", "editRange", "insertTextFormat", "insertTextMode", "data"]}},
            "hover": {"dynamicRegistration": true, "contentFormat": ["markdown", "plaintext"]},
            "definition": {"dynamicRegistration": true, "linkSupport": true}, "references": {"dynamicRegistration": true},
            "documentSymbol": {"dynamicRegistration": true, "hierarchicalDocumentSymbolSupport": true, "labelSupport": true},
            "foldingRange": {"dynamicRegistration": true, "rangeLimit": 5000, "lineFoldingOnly": true, "foldingRangeKind": {"valueSet": ["comment", "imports", "region"]}},
            "documentLink": {"dynamicRegistration": true, "tooltipSupport": true},
            "inlayHint": {"dynamicRegistration": true, "resolveSupport": {"properties": ["tooltip", "textEdits", "label.tooltip", "label.location", "label.command"]}},
            "diagnostic": {"dynamicRegistration": true, "relatedDocumentSupport": false}},
        "window": {"showMessage": {"messageActionItem": {"additionalPropertiesSupport": true}}, "showDocument": {"support": true}, "workDoneProgress": true},
        "general": {"staleRequestSupport": {"cancel": true, "retryOnContentModified": []}, "positionEncodings": ["utf-16"],
            "regularExpressions": {"engine": "ECMAScript", "version": "ES2020"}, "markdown": {"parser": "marked", "version": "1.1.0"}}
    })
}

fn uri(dir: &str, rel: &str) -> String {
    format!("file://{}/{}", dir, rel)
}

#[cfg(feature = "verif")]
fn counts() -> (u64, u64) {
    lsp::verif_hooks::task_counts()
}
#[cfg(not(feature = "verif"))]
fn counts() -> (u64, u64) {
    (0, 0)
}

pub fn request(dir: &str, step: &Value) -> Value {
    let id = step[1].clone();
    let kind = step[2].as_str().unwrap_or("");
    let rel = step[3].as_str().unwrap_or("");
    let td = json!({"uri": uri(dir, rel)});
    let pos = json!({"line": step[4], "character": step[5]});
    let (method, params) = match kind {
        "definition" => ("textDocument/definition", json!({"textDocument": td, "position": pos})),
        "references" => ("textDocument/references", json!({"textDocument": td, "position": pos, "context": {"includeDeclaration": true}})),
        "hover" => ("textDocument/hover", json!({"textDocument": td, "position": pos})),
        "completion" => ("textDocument/completion", json!({"textDocument": td, "position": pos})),
        "documentSymbol" => ("textDocument/documentSymbol", json!({"textDocument": td})),
        "foldingRange" => ("textDocument/foldingRange", json!({"textDocument": td})),
        "documentLink" => ("textDocument/documentLink", json!({"textDocument": td})),
        "inlayHint" => (
            "textDocument/inlayHint",
            json!({"textDocument": td, "range": {"start": pos, "end": {"line": step[6], "character": step[7]}}}),
        ),
        _ => ("bad", json!({})),
    };
    json!({"jsonrpc": "2.0", "id": id, "method": method, "params": params})
}

/// `contentChanges` of a didChange: one full-text entry, or several when the step carries a list of texts
pub fn content_changes(v: &Value) -> Value {
    match v.as_array() {
        Some(a) => Value::Array(a.iter().map(|t| json!({"text": t})).collect()),
        None => json!([{"text": v}]),
    }
}

/// LSP position of a byte offset (lines end at `\n`, `\r\n` or `\r`; columns count UTF-16 code units)
fn lsp_pos(text: &str, off: usize) -> Value {
    let (mut line, mut col) = (0u64, 0u64);
    let b = text.as_bytes();
    let mut i = 0;
    for c in text.chars() {
        if i >= off {
            break;
        }
        if c == '\n' || (c == '\r' && b.get(i + 1) != Some(&b'\n')) {
            line += 1;
            col = 0;
        } else if c == '\r' {
            col += 1;
        } else {
            col += c.len_utf16() as u64;
        }
        i += c.len_utf8();
    }
    json!({"line": line, "character": col})
}

/// ranged edits that turn `old` into `new`, as one notification: a scratch line is inserted at the top, the differing middle is
/// replaced (in the coordinates the first edit left), the scratch line is removed again
fn ranged_changes(old: &str, new: &str) -> Value {
    let mut p = old.bytes().zip(new.bytes()).take_while(|(a, b)| a == b).count();
    while !old.is_char_boundary(p) || !new.is_char_boundary(p) {
        p -= 1;
    }
    // (do not split a CRLF)
    if p > 0 && old.as_bytes().get(p - 1) == Some(&b'\r') {
        p -= 1;
    }
    let mut q = old[p..].bytes().rev().zip(new[p..].bytes().rev()).take_while(|(a, b)| a == b).count();
    while !old.is_char_boundary(old.len() - q) || !new.is_char_boundary(new.len() - q) {
        q -= 1;
    }
    if q > 0 && old.as_bytes().get(old.len() - q) == Some(&b'\n') && old.len() - q > p && old.as_bytes().get(old.len() - q - 1) == Some(&b'\r') {
        q -= 1;
    }
    let scratch = "// scratch\n";
    let t1 = format!("{}{}", scratch, old);
    let (a, b) = (scratch.len() + p, scratch.len() + old.len() - q);
    let t2 = format!("{}{}{}", &t1[..a], &new[p..new.len() - q], &t1[b..]);
    json!([
        {"range": {"start": lsp_pos(old, 0), "end": lsp_pos(old, 0)}, "text": scratch},
        {"range": {"start": lsp_pos(&t1, a), "end": lsp_pos(&t1, b)}, "text": &new[p..new.len() - q]},
        {"range": {"start": lsp_pos(&t2, 0), "end": lsp_pos(&t2, scratch.len())}, "text": ""},
    ])
}

pub fn run(rest: &str) -> String {
    let spec: Value = match serde_json::from_str(rest) {
        Ok(v) => v,
        Err(e) => return format!("bad-json {}", e),
    };
    let dir = spec["dir"].as_str().unwrap_or("/verif/.build/tmp/srv").to_string();
    let _ = std::fs::remove_dir_all(&dir);
    let _ = std::fs::create_dir_all(&dir);
    if let Some(disk) = spec["disk"].as_object() {
        for (rel, text) in disk {
            let p = std::path::Path::new(&dir).join(rel);
            if let Some(parent) = p.parent() {
                let _ = std::fs::create_dir_all(parent);
            }
            let _ = std::fs::write(&p, text.as_str().unwrap_or(""));
        }
    }
    std::env::remove_var("INCLUDE_DIR");
    let timeout = Duration::from_millis(spec["timeout_ms"].as_u64().unwrap_or(4000));
    let script: Vec<Value> = spec["script"].as_array().cloned().unwrap_or_default();
    // "caps": "full" -> initialize as a current editor does (all capabilities announced); the client answers server requests either way
    let full_caps = spec["caps"].as_str() == Some("full");
    // "jitter": seed -> snapshot tasks are delayed pseudo-randomly at their schedule points (older tasks may
    // be overtaken by younger ones wherever the server itself does not order them)
    #[cfg(feature = "verif")]
    {
        match spec["jitter"].as_u64() {
            Some(seed) => {
                lsp::verif_hooks::set_point_callback(Some(Arc::new(move |name: &'static str| {
                    if !name.starts_with("task:") || name == "task:end" {
                        return;
                    }
                    let t = lsp::verif_hooks::current_task().unwrap_or(0);
                    let mut h = seed ^ (t.wrapping_mul(0x9E3779B97F4A7C15)) ^ (name.len() as u64).wrapping_mul(0xC2B2AE3D27D4EB4F);
                    h ^= h >> 29;
                    h = h.wrapping_mul(0xBF58476D1CE4E5B9);
                    h ^= h >> 32;
                    let ms = [0u64, 0, 5, 25, 60][(h % 5) as usize];
                    if ms > 0 {
                        std::thread::sleep(Duration::from_millis(ms));
                    }
                })));
            }
            None => lsp::verif_hooks::set_point_callback(None),
        }
    }
    let rt = tokio::runtime::Builder::new_multi_thread().worker_threads(2).enable_all().build().unwrap();
    let msgs: Arc<Mutex<Vec<Value>>> = Arc::new(Mutex::new(Vec::new()));
    let msgs2 = msgs.clone();
    let dir2 = dir.clone();
    let (timed_out, unanswered) = rt.block_on(async move {
        let (c2s_w, c2s_r) = tokio::io::duplex(1 << 22);
        let (s2c_w, s2c_r) = tokio::io::duplex(1 << 22);
        let (mainloop, _) = async_lsp::MainLoop::new_server(|client| {
            ServiceBuilder::new()
                .layer(LifecycleLayer::default())

                .service(lsp::server::Server::new_router(client))
        });
        tokio::spawn(async move {
            let _ = mainloop.run_buffered(c2s_r.compat(), s2c_w.compat_write()).await;
        });
        // one writer task owns the client's end; the script and the collector (which answers the server's own requests,
        // as a conforming client does) both queue their messages here
        let (tx, mut rx) = tokio::sync::mpsc::unbounded_channel::<Value>();
        let mut cw = c2s_w;
        tokio::spawn(async move {
            while let Some(v) = rx.recv().await {
                send(&mut cw, v).await;
            }
        });
        let w = Tx(tx.clone());
        let mut r = s2c_r;
        let collected = msgs2.clone();
        let answer_tx = tx.clone();
        tokio::spawn(async move {
            while let Some(v) = recv(&mut r).await {
                if v.get("method").is_some() {
                    if let Some(id) = v.get("id") {
                        let _ = answer_tx.send(json!({"jsonrpc":"2.0","id": id, "result": null}));
                    }
                }
                collected.lock().unwrap().push(v);
            }
        });
        let caps = if full_caps { full_capabilities() } else { json!({}) };
        let init_params = if full_caps {
            json!({"processId": 4242, "clientInfo": {"name": "Visual Studio Code", "version": "1.93.0"}, "locale": "en",
                   "rootPath": dir2.clone(), "rootUri": format!("file://{}", dir2), "capabilities": caps, "trace": "off",
                   "workspaceFolders": [{"uri": format!("file://{}", dir2), "name": "ws"}]})
        } else {
            json!({"capabilities": caps})
        };
        w.send(json!({"jsonrpc":"2.0","id":"init","method":"initialize","params":init_params}));
        // a conforming client: it waits for the answer to `initialize` and sends document changes in the form the server asked for
        // (`textDocumentSync`: 1 = the full text, 2 = ranged edits, each in the coordinates of the text the previous one left)
        let mut sync_kind = 1u64;
        let t0 = Instant::now();
        while t0.elapsed() < Duration::from_secs(10) {
            let got = msgs2.lock().unwrap().iter().find(|m| m.get("id") == Some(&json!("init")) && m.get("method").is_none()).cloned();
            if let Some(m) = got {
                let ts = &m["result"]["capabilities"]["textDocumentSync"];
                sync_kind = ts.as_u64().or_else(|| ts["change"].as_u64()).unwrap_or(1);
                break;
            }
            tokio::time::sleep(Duration::from_millis(2)).await;
        }
        let mut doc_texts: std::collections::HashMap<String, String> = std::collections::HashMap::new();
        w.send(json!({"jsonrpc":"2.0","method":"initialized","params":{}}));
        // versions as editors send them: 1 at didOpen (again after a close), +1 per didChange
        let mut versions: std::collections::HashMap<String, i64> = std::collections::HashMap::new();
        let mut expected: Vec<Value> = Vec::new();
        let mut timed_out = false;
        let base = counts();
        for step in &script {
            match step[0].as_str().unwrap_or("") {
                "open" => {
                    w.send(json!({"jsonrpc":"2.0","method":"textDocument/didOpen","params":{"textDocument":{
                        "uri": uri(&dir2, step[1].as_str().unwrap_or("")), "languageId":"tablegen","version":1,"text": step[2]}}}));
                    versions.insert(step[1].as_str().unwrap_or("").to_string(), 1);
                    doc_texts.insert(step[1].as_str().unwrap_or("").to_string(), step[2].as_str().unwrap_or("").to_string());
                }
                "close" => {
                    w.send(json!({"jsonrpc":"2.0","method":"textDocument/didClose","params":{"textDocument":{
                        "uri": uri(&dir2, step[1].as_str().unwrap_or(""))}}}));
                }
                "change" => {
                    let version = {
                        let v = versions.entry(step[1].as_str().unwrap_or("").to_string()).or_insert(1);
                        *v += 1;
                        *v
                    };
                    let name = step[1].as_str().unwrap_or("").to_string();
                    let last_text = match step[2].as_array() {
                        Some(a) => a.last().and_then(|t| t.as_str()).map(|t| t.to_string()),
                        None => step[2].as_str().map(|t| t.to_string()),
                    };
                    let changes = match (sync_kind, doc_texts.get(&name), &last_text) {
                        (2, Some(old), Some(new)) => ranged_changes(old, new),
                        _ => content_changes(&step[2]),
                    };
                    if let Some(t) = last_text {
                        doc_texts.insert(name, t);
                    }
                    w.send(json!({"jsonrpc":"2.0","method":"textDocument/didChange","params":{"textDocument":{
                        "uri": uri(&dir2, step[1].as_str().unwrap_or("")), "version":version},"contentChanges":changes}}));
                }
                "req" => {
                    expected.push(step[1].clone());
                    w.send(request(&dir2, step));
                }
                // a document named by a literal URI (not necessarily a file below the session directory)
                "openuri" => {
                    w.send(json!({"jsonrpc":"2.0","method":"textDocument/didOpen","params":{"textDocument":{
                        "uri": step[1], "languageId":"tablegen","version":1,"text": step[2]}}}));
                }
                "changeuri" => {
                    w.send(json!({"jsonrpc":"2.0","method":"textDocument/didChange","params":{"textDocument":{
                        "uri": step[1], "version":2},"contentChanges":content_changes(&step[2])}}));
                }
                // any notification / request, parameters as given (`$DIR` in strings is replaced by the session directory URI)
                "notify" => {
                    let params: Value = serde_json::from_str(&step[2].to_string().replace("$DIR", &format!("file://{}", dir2))).unwrap_or(Value::Null);
                    w.send(json!({"jsonrpc":"2.0","method": step[1], "params": params}));
                }
                "reqraw" => {
                    expected.push(step[1].clone());
                    let params: Value = serde_json::from_str(&step[3].to_string().replace("$DIR", &format!("file://{}", dir2))).unwrap_or(Value::Null);
                    w.send(json!({"jsonrpc":"2.0","id": step[1], "method": step[2], "params": params}));
                }
                "idle" => {
                    if !wait_idle(&msgs2, &expected, base, timeout).await {
                        timed_out = true;
                        break;
                    }
                }
                _ => {}
            }
        }
        if !timed_out && !wait_idle(&msgs2, &expected, base, timeout).await {
            timed_out = true;
        }
        let got = msgs2.lock().unwrap().clone();
        let unanswered: Vec<Value> = expected
            .iter()
            .filter(|id| !got.iter().any(|m| m.get("id") == Some(id) && m.get("method").is_none()))
            .cloned()
            .collect();
        (timed_out, unanswered)
    });
    rt.shutdown_timeout(Duration::from_millis(200));
    #[cfg(feature = "verif")]
    lsp::verif_hooks::set_point_callback(None);
    let got = msgs.lock().unwrap().clone();
    let _ = std::fs::remove_dir_all(&dir);
    json!({"msgs": got, "timeout": timed_out, "unanswered": unanswered}).to_string()
}

/// wait until every request sent so far is answered and every spawned snapshot task finished
/// (and the counters stayed equal for a little while, so that a notification still being handled
/// by the main loop gets the chance to spawn its task)
async fn wait_idle(msgs: &Arc<Mutex<Vec<Value>>>, expected: &[Value], _base: (u64, u64), timeout: Duration) -> bool {
    let start = Instant::now();
    let mut stable_since: Option<Instant> = None;
    let mut last = (u64::MAX, u64::MAX, usize::MAX);
    loop {
        let (s, f) = counts();
        let n = msgs.lock().unwrap().len();
        let answered = {
            let got = msgs.lock().unwrap();
            expected.iter().all(|id| got.iter().any(|m| m.get("id") == Some(id) && m.get("method").is_none()))
        };
        if s == f && answered && (s, f, n) == last {
            match stable_since {
                Some(t) if t.elapsed() > Duration::from_millis(40) => return true,
                None => stable_since = Some(Instant::now()),
                _ => {}
            }
        } else {
            stable_since = None;
        }
        last = (s, f, n);
        if start.elapsed() > timeout {
            return false;
        }
        tokio::time::sleep(Duration::from_millis(5)).await;
    }
}
