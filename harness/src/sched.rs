//! `sched <json>`: replay a schedule of the synchronisation model on the real server.
//! {"dir":..., "disk":{..}, "jobs":[["open"|"change", rel, text] | ["req", id, kind, rel, a,b,c,d]],
//!  "schedule":["M","T0",...], "step_timeout_ms": n}
//! "M" = next step of the main loop, "T<i>" = next step of the i-th *live* task (as in the model).
//! Threads of the real server are paused at the schedule points of the `verif` hook and released
//! one step at a time in the given order. Answer: {"ok":bool,"failed_at":i,"reason":..,"trace":[..]}
#![allow(clippy::type_complexity)]
use std::collections::HashMap;
use std::sync::{Arc, Condvar, Mutex};
use std::time::{Duration, Instant};

use serde_json::{json, Value};

#[derive(Clone, Copy, PartialEq, Eq, Hash, Debug)]
enum Key {
    Main,
    Task(u64),
}

#[derive(Default)]
struct Ctl {
    parked: HashMap<Key, &'static str>, // thread -> point it is parked at
    grants: HashMap<Key, u64>,          // number of grants given
    taken: HashMap<Key, u64>,           // number of grants consumed
    free_run: bool,
}

struct Shared {
    m: Mutex<Ctl>,
    cv: Condvar,
}

#[cfg(feature = "verif")]
pub fn run(rest: &str) -> String {

    use async_lsp::server::LifecycleLayer;
    use tokio_util::compat::{TokioAsyncReadCompatExt, TokioAsyncWriteCompatExt};
    use tower::ServiceBuilder;

    let spec: Value = match serde_json::from_str(rest) {
        Ok(v) => v,
        Err(e) => return format!("bad-json {}", e),
    };
    let dir = spec["dir"].as_str().unwrap_or("/verif/.build/tmp/sched").to_string();
    let _ = std::fs::remove_dir_all(&dir);
    let _ = std::fs::create_dir_all(&dir);
    if let Some(disk) = spec["disk"].as_object() {
        for (rel, text) in disk {
            let _ = std::fs::write(std::path::Path::new(&dir).join(rel), text.as_str().unwrap_or(""));
        }
    }
    std::env::remove_var("INCLUDE_DIR");
    let step_timeout = Duration::from_millis(spec["step_timeout_ms"].as_u64().unwrap_or(1500));
    let jobs: Vec<Value> = spec["jobs"].as_array().cloned().unwrap_or_default();
    let schedule: Vec<String> = spec["schedule"].as_array().map(|a| a.iter().filter_map(|v| v.as_str().map(|s| s.to_string())).collect()).unwrap_or_default();

    let shared = Arc::new(Shared { m: Mutex::new(Ctl::default()), cv: Condvar::new() });
    let base = lsp::verif_hooks::task_counts().0;
    {
        let sh = shared.clone();
        lsp::verif_hooks::set_point_callback(Some(Arc::new(move |name: &'static str| {
            let key = if name.starts_with("main:") {
                Key::Main
            } else {
                match lsp::verif_hooks::current_task() {
                    Some(s) => Key::Task(s),
                    None => return,
                }
            };
            let mut g = sh.m.lock().unwrap();
            if g.free_run {
                return;
            }
            g.parked.insert(key, name);
            sh.cv.notify_all();
            loop {
                let granted = *g.grants.get(&key).unwrap_or(&0);
                let taken = *g.taken.get(&key).unwrap_or(&0);
                if g.free_run || granted > taken {
                    if !g.free_run {
                        g.taken.insert(key, taken + 1);
                    }
                    g.parked.remove(&key);
                    sh.cv.notify_all();
                    return;
                }
                g = sh.cv.wait(g).unwrap();
            }
        })));
    }

    let rt = tokio::runtime::Builder::new_multi_thread().worker_threads(2).enable_all().build().unwrap();
    let dir2 = dir.clone();
    let sh = shared.clone();
    let result = rt.block_on(async move {
        use tokio::io::{AsyncReadExt, AsyncWriteExt};
        let (c2s_w, c2s_r) = tokio::io::duplex(1 << 22);
        let (s2c_w, mut s2c_r) = tokio::io::duplex(1 << 22);
        let (mainloop, _) = async_lsp::MainLoop::new_server(|client| {
            ServiceBuilder::new()
                .layer(LifecycleLayer::default())

                .service(lsp::server::Server::new_router(client))
        });
        tokio::spawn(async move {
            let _ = mainloop.run_buffered(c2s_r.compat(), s2c_w.compat_write()).await;
        });
        let answered: Arc<Mutex<Vec<Value>>> = Arc::new(Mutex::new(Vec::new()));
        let answered2 = answered.clone();
        tokio::spawn(async move {
            loop {
                let mut hdr = Vec::new();
                loop {
                    match s2c_r.read_u8().await {
                        Ok(b) => hdr.push(b),
                        Err(_) => return,
                    }
                    if hdr.ends_with(b"\r\n\r\n") {
                        break;
                    }
                }
                let h = String::from_utf8_lossy(&hdr).to_string();
                let n: usize = h.lines().find_map(|l| l.strip_prefix("Content-Length: ")).and_then(|x| x.trim().parse().ok()).unwrap_or(0);
                let mut buf = vec![0u8; n];
                if s2c_r.read_exact(&mut buf).await.is_err() {
                    return;
                }
                if let Ok(v) = serde_json::from_slice::<Value>(&buf) {
                    if v.get("id").is_some() && v.get("method").is_none() {
                        answered2.lock().unwrap().push(v["id"].clone());
                    }
                }
            }
        });
        let mut w = c2s_w;
        async fn send(w: &mut (impl AsyncWriteExt + Unpin), v: Value) {
            let s = v.to_string();
            let _ = w.write_all(format!("Content-Length: {}\r\n\r\n{}", s.len(), s).as_bytes()).await;
            let _ = w.flush().await;
        }
        send(&mut w, json!({"jsonrpc":"2.0","id":"init","method":"initialize","params":{"capabilities":{}}})).await;
        send(&mut w, json!({"jsonrpc":"2.0","method":"initialized","params":{}})).await;

        // helpers over the controller state (blocking waits run on a blocking thread)
        let wait_parked = |sh: Arc<Shared>, key: Key, point: Option<&'static str>, timeout: Duration| async move {
            tokio::task::spawn_blocking(move || {
                let start = Instant::now();
                let mut g = sh.m.lock().unwrap();
                loop {
                    if let Some(p) = g.parked.get(&key) {
                        if point.map(|q| q == *p).unwrap_or(true) {
                            return Some(*p);
                        }
                    }
                    let left = timeout.checked_sub(start.elapsed())?;
                    let (g2, _) = sh.cv.wait_timeout(g, left).unwrap();
                    g = g2;
                }
            })
            .await
            .unwrap()
        };
        let grant = |sh: &Arc<Shared>, key: Key| {
            let mut g = sh.m.lock().unwrap();
            *g.grants.entry(key).or_insert(0) += 1;
            sh.cv.notify_all();
        };

        let mut next_job = 0usize;
        let mut main_in_handler = false;
        let mut main_in_transit = false;
        let mut live: Vec<u64> = Vec::new(); // live task seqs (model order)
        let mut next_seq = base;
        let mut version = 1;
        let mut trace: Vec<String> = Vec::new();
        let mut expected_ids: Vec<Value> = Vec::new();
        let mut fail: Option<(usize, String)> = None;

        'outer: for (idx, entry) in schedule.iter().enumerate() {
            if entry == "M!" {
                // probe: the model says the main loop is blocked here (it waits for the snapshot tasks)
                grant(&sh, Key::Main);
                let short = Duration::from_millis(150);
                if wait_parked(sh.clone(), Key::Main, Some("main:before_vfs_write"), short).await.is_some() {
                    fail = Some((idx, "main loop passed wait_for_snapshots although a snapshot task is alive (model says blocked)".into()));
                    break 'outer;
                }
                main_in_transit = true;
                trace.push("M:blocked(as in model)".into());
            } else if entry == "M" && main_in_transit {
                if wait_parked(sh.clone(), Key::Main, Some("main:before_vfs_write"), step_timeout).await.is_none() {
                    fail = Some((idx, "main loop still blocked after the tasks finished".into()));
                    break 'outer;
                }
                main_in_transit = false;
                trace.push("M:beforeW".into());
            } else if entry == "M" {
                if !main_in_handler {
                    let Some(job) = jobs.get(next_job) else {
                        fail = Some((idx, "model schedules a main step but no job is left".into()));
                        break;
                    };
                    next_job += 1;
                    match job[0].as_str().unwrap_or("") {
                        "open" | "change" => {
                            let u = format!("file://{}/{}", dir2, job[1].as_str().unwrap_or(""));
                            if job[0] == "open" {
                                send(&mut w, json!({"jsonrpc":"2.0","method":"textDocument/didOpen","params":{"textDocument":{"uri":u,"languageId":"tablegen","version":version,"text":job[2]}}})).await;
                            } else {
                                send(&mut w, json!({"jsonrpc":"2.0","method":"textDocument/didChange","params":{"textDocument":{"uri":u,"version":version},"contentChanges":crate::srv::content_changes(&job[2])}})).await;
                            }
                            version += 1;
                            if wait_parked(sh.clone(), Key::Main, Some("main:enter"), step_timeout).await.is_none() {
                                fail = Some((idx, "main loop did not reach main:enter".into()));
                                break 'outer;
                            }
                            main_in_handler = true;
                            trace.push("M:enter".into());
                        }
                        _ => {
                            expected_ids.push(job[1].clone());
                            send(&mut w, crate::srv::request(&dir2, job)).await;
                            let seq = next_seq;
                            next_seq += 1;
                            if wait_parked(sh.clone(), Key::Task(seq), Some("task:start"), step_timeout).await.is_none() {
                                fail = Some((idx, "request task did not start".into()));
                                break 'outer;
                            }
                            live.push(seq);
                            trace.push(format!("M:spawn{}", seq - base));
                        }
                    }
                } else {
                    let at = { sh.m.lock().unwrap().parked.get(&Key::Main).copied() };
                    match at {
                        Some("main:enter") => {
                            grant(&sh, Key::Main);
                            if wait_parked(sh.clone(), Key::Main, Some("main:before_vfs_write"), step_timeout).await.is_none() {
                                fail = Some((idx, "main loop blocked waiting for snapshots (model says enabled)".into()));
                                break 'outer;
                            }
                            trace.push("M:beforeW".into());
                        }
                        Some("main:before_vfs_write") => {
                            grant(&sh, Key::Main);
                            if wait_parked(sh.clone(), Key::Main, Some("main:holding_vfs_write"), step_timeout).await.is_none() {
                                fail = Some((idx, "main loop blocked taking the vfs write lock (model says enabled)".into()));
                                break 'outer;
                            }
                            trace.push("M:holdingW".into());
                        }
                        Some("main:holding_vfs_write") => {
                            grant(&sh, Key::Main);
                            let seq = next_seq;
                            next_seq += 1;
                            if wait_parked(sh.clone(), Key::Task(seq), Some("task:start"), step_timeout).await.is_none() {
                                fail = Some((idx, "main loop blocked in the database write while holding the vfs lock (model says enabled)".into()));
                                break 'outer;
                            }
                            live.push(seq);
                            main_in_handler = false;
                            trace.push(format!("M:done,spawn{}", seq - base));
                        }
                        other => {
                            fail = Some((idx, format!("main loop at unexpected point {:?}", other)));
                            break 'outer;
                        }
                    }
                }
            } else if let Some(i) = entry.strip_prefix('T').and_then(|x| x.parse::<usize>().ok()) {
                let Some(&seq) = live.get(i) else {
                    fail = Some((idx, format!("model steps task {} but only {} are live", i, live.len())));
                    break;
                };
                let key = Key::Task(seq);
                let at = { sh.m.lock().unwrap().parked.get(&key).copied() };
                match at {
                    Some("task:end") => {
                        grant(&sh, key);
                        live.remove(i);
                        trace.push(format!("T{}:finish", seq - base));
                    }
                    Some(p) => {
                        grant(&sh, key);
                        // it must arrive at its next point (a read, or the end)
                        let sh2 = sh.clone();
                        let arrived = tokio::task::spawn_blocking(move || {
                            let start = Instant::now();
                            let mut g = sh2.m.lock().unwrap();
                            // first wait until it left the current point (grant consumed), then until parked again
                            loop {
                                let consumed = g.taken.get(&key).copied().unwrap_or(0) >= g.grants.get(&key).copied().unwrap_or(0);
                                if consumed && g.parked.contains_key(&key) {
                                    return true;
                                }
                                let Some(left) = step_timeout.checked_sub(start.elapsed()) else { return false };
                                let (g2, _) = sh2.cv.wait_timeout(g, left).unwrap();
                                g = g2;
                            }
                        })
                        .await
                        .unwrap();
                        if !arrived {
                            fail = Some((idx, format!("task {} blocked after {} (model says enabled)", seq - base, p)));
                            break 'outer;
                        }
                        trace.push(format!("T{}:{}", seq - base, p));
                    }
                    None => {
                        fail = Some((idx, format!("task {} is not parked at a schedule point", seq - base)));
                        break 'outer;
                    }
                }
            }
        }
        // let everything run freely and check that the server drains
        {
            let mut g = sh.m.lock().unwrap();
            g.free_run = true;
            sh.cv.notify_all();
        }
        let start = Instant::now();
        let mut drained = false;
        while start.elapsed() < Duration::from_millis(3000) {
            let (s, f) = lsp::verif_hooks::task_counts();
            let all = { let a = answered.lock().unwrap(); expected_ids.iter().all(|id| a.contains(id)) };
            if s == f && all {
                drained = true;
                break;
            }
            tokio::time::sleep(Duration::from_millis(5)).await;
        }
        (fail, trace, drained)
    });
    lsp::verif_hooks::set_point_callback(None);
    rt.shutdown_timeout(Duration::from_millis(200));
    let _ = std::fs::remove_dir_all(&dir);
    let (fail, trace, drained) = result;
    match fail {
        None => json!({"ok": true, "drained": drained, "trace": trace}).to_string(),
        Some((i, why)) => json!({"ok": false, "failed_at": i, "reason": why, "drained": drained, "trace": trace}).to_string(),
    }
}

#[cfg(not(feature = "verif"))]
pub fn run(_rest: &str) -> String {
    "no-hook".to_string()
}
