pub fn unhex(s: &str) -> Vec<u8> {
    let b = s.trim().as_bytes();
    let mut out = Vec::with_capacity(b.len() / 2);
    let v = |c: u8| -> u8 {
        match c {
            b'0'..=b'9' => c - b'0',
            b'a'..=b'f' => c - b'a' + 10,
            b'A'..=b'F' => c - b'A' + 10,
            _ => 0,
        }
    };
    let mut i = 0;
    while i + 1 < b.len() {
        out.push(v(b[i]) * 16 + v(b[i + 1]));
        i += 2;
    }
    out
}

pub fn unhex_str(s: &str) -> String {
    String::from_utf8(unhex(s)).expect("payload is not UTF-8")
}

pub fn hex(s: &str) -> String {
    let mut o = String::with_capacity(s.len() * 2);
    for b in s.bytes() {
        o.push_str(&format!("{:02x}", b));
    }
    o
}

pub struct Fnv(pub u64);
impl Fnv {
    pub fn new() -> Self {
        Fnv(0xcbf29ce484222325)
    }
    pub fn feed(&mut self, s: &str) {
        for b in s.bytes() {
            self.0 ^= b as u64;
            self.0 = self.0.wrapping_mul(0x100000001b3);
        }
    }
}

/// Dump the Unicode predicates of Rust's std that the lexer relies on, as ranges.
pub fn dump_chars() {
    fn ranges(f: impl Fn(char) -> bool) -> Vec<(u32, u32)> {
        let mut out = Vec::new();
        let mut start: Option<u32> = None;
        for cp in 0..=0x10ffffu32 {
            let v = char::from_u32(cp).map(|c| f(c)).unwrap_or(false);
            match (v, start) {
                (true, None) => start = Some(cp),
                (false, Some(s)) => {
                    out.push((s, cp - 1));
                    start = None
                }
                _ => {}
            }
        }
        if let Some(s) = start {
            out.push((s, 0x10ffff));
        }
        out
    }
    let p = |name: &str, r: Vec<(u32, u32)>| {
        let s: Vec<String> = r.iter().map(|(a, b)| format!("{}-{}", a, b)).collect();
        println!("{} {}", name, s.join(","));
    };
    p("alphabetic", ranges(|c| c.is_alphabetic()));
    p("whitespace", ranges(|c| c.is_whitespace()));
    p("ascii_whitespace", ranges(|c| c.is_ascii_whitespace()));
}
