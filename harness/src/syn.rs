use crate::util::Fnv;
use syntax::lexer::Lexer;
use syntax::preprocessor::PreProcessor;
use syntax::token_kind::TokenKind;
use syntax::token_stream::TokenStream;
use syntax::{SyntaxElement, SyntaxNode};

fn toks<T: TokenStream>(mut ts: T) -> String {
    let mut out = Vec::new();
    loop {
        let start = ts.cursor();
        let k = ts.eat();
        let end = ts.cursor();
        let mut s = format!("{:?}:{}", k, end - start);
        if k == TokenKind::Error {
            match ts.take_error() {
                Some(m) if !m.is_empty() => s.push_str(":E"),
                Some(_) => s.push_str(":EMPTY"),
                None => s.push_str(":NOMSG"),
            }
        }
        if k == TokenKind::Eof {
            // a message still parked when the stream ends (an unterminated conditional):
            // `ParserBase::finish` reports it at the end of the text
            match ts.take_error() {
                Some(m) if !m.is_empty() => s.push_str(":P"),
                Some(_) => s.push_str(":PEMPTY"),
                None => {}
            }
            out.push(s);
            break;
        }
        out.push(s);
    }
    out.join(" ")
}

pub fn lex(text: &str) -> String {
    toks(Lexer::new(text))
}

pub fn prep(text: &str) -> String {
    toks(PreProcessor::new(Lexer::new(text)))
}

fn dump(node: &SyntaxNode, out: &mut Vec<String>) {
    out.push(format!("({:?}", node.kind()));
    for ch in node.children_with_tokens() {
        match ch {
            SyntaxElement::Node(n) => dump(&n, out),
            SyntaxElement::Token(t) => out.push(format!("{:?}:{}", t.kind(), t.text().len())),
        }
    }
    out.push(")".to_string());
}

/// `steps <hex>`: parse under a step budget (hook): `steps=<n> ntok=<tokens>`; a parser that
/// stops consuming panics with the budget marker instead of hanging.
pub fn steps(text: &str) -> String {
    #[cfg(feature = "verif")]
    {
        let budget = 400 * (text.len() as u64 + 1) + 10_000;
        syntax::verif_hooks::reset(budget);
        let p = syntax::parse(text);
        let n = syntax::verif_hooks::steps();
        let ntok = p
            .syntax_node()
            .descendants_with_tokens()
            .filter(|e| e.as_token().is_some())
            .count();
        return format!("steps={} ntok={}", n, ntok);
    }
    #[cfg(not(feature = "verif"))]
    {
        let _ = text;
        "no-hook".to_string()
    }
}

pub fn parse(text: &str, hashed: bool) -> String {
    let p = syntax::parse(text);
    let mut out = Vec::new();
    dump(&p.syntax_node(), &mut out);
    let tree = out.join(" ");
    let errs: Vec<String> = p
        .errors()
        .iter()
        .map(|e| {
            format!(
                "{}-{}{}",
                u32::from(e.range.start()),
                u32::from(e.range.end()),
                if e.message.is_empty() { "!EMPTY" } else { "" }
            )
        })
        .collect();
    if hashed {
        let mut h = Fnv::new();
        h.feed(&tree);
        let mut he = Fnv::new();
        he.feed(&errs.join(";"));
        format!("tree#{:016x} n={} errs#{:016x} ne={}", h.0, out.len(), he.0, errs.len())
    } else {
        format!("tree={} errs={}", tree, errs.join(";"))
    }
}

/// C04: everything the typed accessors of ast.rs reach from the root, in accessor order
pub fn astwalk(text: &str) -> String {
    let p = syntax::parse(text);
    let mut out = Vec::new();
    crate::ast_walk_gen::walk(&p.syntax_node(), &mut out);
    format!("walk={} ne={}", out.join(" "), p.errors().len())
}

/// C01/C02 oracle on the implementation: leaves concatenate to the input, token ranges are
/// running offsets, error ranges lie inside the text on char boundaries with non-empty message.
pub fn oracle01(text: &str) -> String {
    let p = syntax::parse(text);
    let root = p.syntax_node();
    let mut bad = Vec::new();
    if root.text().to_string() != text {
        bad.push("text-mismatch".to_string());
    }
    let mut off: u32 = 0;
    let mut concat = String::new();
    let mut ntok = 0usize;
    for el in root.descendants_with_tokens() {
        if let SyntaxElement::Token(t) = el {
            ntok += 1;
            let r = t.text_range();
            if u32::from(r.start()) != off {
                bad.push(format!("token-start {} != {}", u32::from(r.start()), off));
            }
            off = r.end().into();
            concat.push_str(t.text());
        }
    }
    if concat != text {
        bad.push("leaves-mismatch".to_string());
    }
    if off as usize != text.len() {
        bad.push("end-mismatch".to_string());
    }
    for e in p.errors() {
        let (s, t): (usize, usize) = (e.range.start().into(), e.range.end().into());
        if e.message.is_empty() {
            bad.push("empty-message".to_string());
        }
        if !(s <= t && t <= text.len() && text.is_char_boundary(s) && text.is_char_boundary(t)) {
            bad.push(format!("bad-error-range {}-{}", s, t));
        }
    }
    if bad.is_empty() {
        format!("ok ntok={} nerr={}", ntok, p.errors().len())
    } else {
        format!("FAIL {}", bad.join(","))
    }
}
