//! `li <hex> <maxcol>`: every char-boundary offset -> LSP position (to_proto::position) and every
//! (line, col) with line <= numLines, col <= maxcol -> offset (from_proto::position).
//! Same enumeration and format as the Lean driver. Each conversion runs under catch_unwind.
use async_lsp::lsp_types::Position;
use ide::line_index::LineIndex;
use text_size::TextSize;

fn num_lines(text: &str) -> usize {
    let b = text.as_bytes();
    let mut n = 1;
    for i in 0..b.len() {
        if b[i] == b'\n' || (b[i] == b'\r' && b.get(i + 1) != Some(&b'\n')) {
            n += 1;
        }
    }
    n
}

/// `lir <hex>`: ranges through the conversion layer - for every pair of character boundaries i <= j (texts up to 48 boundaries; a
/// spread sample beyond that), `from_proto::range` of the two converted positions must be i..j. Prints "ok <pairs>" or the first mismatches.
pub fn run_ranges(rest: &str) -> String {
    let text = crate::util::unhex_str(rest.split(' ').next().unwrap_or(""));
    let li = match std::panic::catch_unwind(|| LineIndex::new(&text)) {
        Ok(li) => li,
        Err(_) => return "PANIC LineIndex::new".to_string(),
    };
    let li = std::panic::AssertUnwindSafe(li);
    let mut bounds: Vec<usize> = (0..=text.len()).filter(|o| text.is_char_boundary(*o)).collect();
    if bounds.len() > 48 {
        let step = bounds.len() / 48 + 1;
        bounds = bounds.into_iter().step_by(step).collect();
    }
    let mut bad = Vec::new();
    let mut n = 0;
    for (a, i) in bounds.iter().enumerate() {
        for j in &bounds[a..] {
            n += 1;
            let r = std::panic::catch_unwind(|| {
                let s = lsp::to_proto::position(&li, TextSize::from(*i as u32));
                let e = lsp::to_proto::position(&li, TextSize::from(*j as u32));
                lsp::from_proto::range(&li, async_lsp::lsp_types::Range::new(s, e))
            });
            match r {
                Ok(tr) if usize::from(tr.start()) == *i && usize::from(tr.end()) == *j => {}
                Ok(tr) => bad.push(format!("{}..{}->{}..{}", i, j, usize::from(tr.start()), usize::from(tr.end()))),
                Err(_) => bad.push(format!("{}..{}->PANIC", i, j)),
            }
            if bad.len() >= 4 {
                return format!("bad {}", bad.join(" "));
            }
        }
    }
    if bad.is_empty() {
        format!("ok {}", n)
    } else {
        format!("bad {}", bad.join(" "))
    }
}

pub fn run(rest: &str) -> String {
    let mut it = rest.split(' ');
    let text = crate::util::unhex_str(it.next().unwrap_or(""));
    let maxcol: u32 = it.next().unwrap_or("0").parse().unwrap_or(0);
    let mode = it.next();
    let all_offsets = mode == Some("all");
    // "big": also columns and lines at the ends of the u32 range (clients send `u32::MAX` for "end of line")
    let big = mode == Some("big");
    let li = match std::panic::catch_unwind(|| LineIndex::new(&text)) {
        Ok(li) => li,
        Err(_) => return "PANIC LineIndex::new".to_string(),
    };
    let li = std::panic::AssertUnwindSafe(li);
    let mut fw = Vec::new();
    for o in 0..=text.len() {
        let boundary = text.is_char_boundary(o);
        if !boundary && !all_offsets {
            continue;
        }
        let r = std::panic::catch_unwind(|| lsp::to_proto::position(&li, TextSize::from(o as u32)));
        match (r, boundary) {
            (Ok(p), true) => fw.push(format!("{}={},{}", o, p.line, p.character)),
            (Ok(_), false) => {}
            (Err(_), _) => fw.push(format!("{}=P", o)),
        }
    }
    let nl = num_lines(&text);
    let mut bw = Vec::new();
    for l in 0..=nl {
        for c in 0..=maxcol {
            let r = std::panic::catch_unwind(|| lsp::from_proto::position(&li, Position::new(l as u32, c)));
            match r {
                Ok(o) => bw.push(format!("{},{}={}", l, c, u32::from(o))),
                Err(_) => bw.push(format!("{},{}=P", l, c)),
            }
        }
    }
    if big {
        const BIGC: [u32; 8] = [2147483647, 2147483648, 4294967290, 4294967291, 4294967292, 4294967293, 4294967294, 4294967295];
        let mut lines: Vec<u32> = (0..=(nl as u32 + 1)).collect();
        lines.push(4294967295);
        for l in lines {
            for c in BIGC {
                let r = std::panic::catch_unwind(|| lsp::from_proto::position(&li, Position::new(l, c)));
                match r {
                    Ok(o) => bw.push(format!("{},{}={}", l, c, u32::from(o))),
                    Err(_) => bw.push(format!("{},{}=P", l, c)),
                }
            }
        }
    }
    format!("T {} F {}", fw.join(";"), bw.join(";"))
}
