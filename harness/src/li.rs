pub fn run(_rest: &str) -> String { "todo".into() }
