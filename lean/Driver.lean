/-
tgdrive: line-protocol driver for the executable models. Same protocol as the Rust harness
`tgverif`: one request per line (`<cmd> <hex payload / args>`), one canonical answer line each.
Imports model files only (no Mathlib), so it links as a native executable.
-/
import TgModel.Grammar
import TgModel.AstWalk
import TgModel.LineIndex
import TgModel.Include
import TgModel.SymbolMap
import TgModel.Host
import TgModel.Sched
import TgModel.Session
import TgModel.Ide.Handlers
import TgModel.Lsp
import Lean.Data.Json

open Tg

def hexVal (c : Char) : Nat :=
  if '0' ≤ c ∧ c ≤ '9' then c.toNat - '0'.toNat
  else if 'a' ≤ c ∧ c ≤ 'f' then c.toNat - 'a'.toNat + 10
  else if 'A' ≤ c ∧ c ≤ 'F' then c.toNat - 'A'.toNat + 10 else 0

def unhex (s : String) : ByteArray := Id.run do
  let cs := s.toList.toArray
  let mut out := ByteArray.emptyWithCapacity (cs.size / 2)
  let mut i := 0
  while i + 1 < cs.size do
    out := out.push (UInt8.ofNat (hexVal cs[i]! * 16 + hexVal cs[i+1]!))
    i := i + 2
  return out

def payload (s : String) : Option (List Char) :=
  (String.fromUTF8? (unhex s)).map (·.toList)

def fnvFeed (h : UInt64) (s : String) : UInt64 :=
  s.toUTF8.foldl (fun h b => (h ^^^ b.toUInt64) * 0x100000001b3) h

def fnvInit : UInt64 := 0xcbf29ce484222325

def hex16 (n : UInt64) : String :=
  let ds := (Nat.toDigits 16 n.toNat)
  String.ofList (List.replicate (16 - ds.length) '0' ++ ds)

/-- all tokens of a token source, in the harness format -/
partial def tokLoop (eat : Src → Tok × Src) (takeErr : Src → Option String × Src) (s : Src) (acc : Array String) : Array String :=
  let (t, s1) := eat s
  let base := s!"{t.kind.name}:{byteLen t.text}"
  let (str, s2) :=
    if t.kind == .Error then
      match takeErr s1 with
      | (some m, s2) => (base ++ (if m.isEmpty then ":EMPTY" else ":E"), s2)
      | (none, s2) => (base ++ ":NOMSG", s2)
    else if t.kind == .Eof then
      -- a message still parked when the stream ends: `ParserBase::finish` reports it
      match takeErr s1 with
      | (some m, s2) => (base ++ (if m.isEmpty then ":PEMPTY" else ":P"), s2)
      | (none, s2) => (base, s2)
    else (base, s1)
  let acc := acc.push str
  if t.kind == .Eof then acc else tokLoop eat takeErr s2 acc

def lexTakeErr (s : Src) : Option String × Src := (s.lexErr, { s with lexErr := none })

def cmdLex (input : List Char) : String :=
  " ".intercalate (tokLoop Src.lexEat lexTakeErr (Src.init input) #[]).toList

def cmdPrep (input : List Char) : String :=
  " ".intercalate (tokLoop Src.eat Src.takeError (Src.init input) #[]).toList

partial def dumpTree (t : Tree) (acc : Array String) : Array String :=
  match t with
  | .token k text => acc.push s!"{k.name}:{byteLen text}"
  | .node k cs =>
    let acc := acc.push s!"({k.name}"
    let acc := cs.foldl (fun a c => dumpTree c a) acc
    acc.push ")"

def errStr (e : SynError) : String :=
  s!"{e.start}-{e.stop}" ++ (if e.msg.isEmpty then "!EMPTY" else "")

def cmdParse (input : List Char) (hashed : Bool) : String :=
  match Grammar.parse input with
  | .panic w => s!"PANIC {repr w}"
  | .outOfFuel => "OUT-OF-FUEL"
  | .ok r =>
    let parts := dumpTree r.tree #[]
    let tree := " ".intercalate parts.toList
    let errs := ";".intercalate (r.errors.map errStr)
    if hashed then
      s!"tree#{hex16 (fnvFeed fnvInit tree)} n={parts.size} errs#{hex16 (fnvFeed fnvInit errs)} ne={r.errors.length}"
    else s!"tree={tree} errs={errs}"

def cmdAstWalk (input : List Char) : String :=
  match Grammar.parse input with
  | .panic w => s!"PANIC {repr w}"
  | .outOfFuel => "OUT-OF-FUEL"
  | .ok r => s!"walk={" ".intercalate (AstWalk.walkTree r.tree)} ne={r.errors.length}"

partial def countLeaves (t : Tree) : Nat :=
  match t with
  | .token _ _ => 1
  | .node _ cs => cs.foldl (fun n c => n + countLeaves c) 0

def cmdSteps (input : List Char) : String :=
  match Grammar.parse input with
  | .panic w => s!"PANIC {repr w}"
  | .outOfFuel => "OUT-OF-FUEL"
  | .ok r => s!"steps={r.steps} ntok={countLeaves r.tree}"

/-- `graph <n> <root> <f0>;<f1>;…` where `<fi>` is a comma-separated list of targets, `-` = unresolved -/
def cmdGraph (rest : String) : String :=
  match rest.splitOn " " with
  | [ns, rs, spec] =>
    let n := ns.toNat!
    let root := rs.toNat!
    let rows : Array (List (Option Nat)) := (spec.splitOn ";").toArray.map fun row =>
      if row.isEmpty || row == "." then [] else (row.splitOn ",").map fun t => if t == "-" then none else some t.toNat!
    let w : Include.World := { n := n, incs := fun f => rows.getD f [] }
    match Include.fileSet w root with
    | none => "OUT-OF-FUEL"
    | some vs =>
      let files := (vs.toArray.qsort (· < ·)).toList
      let (order, diags) := Include.indexOrder w root
      let links := files.map fun f => s!"{f}:" ++ ",".intercalate ((Include.links w f).map fun (i, t) => s!"{i}>{t}")
      s!"files={files} order={order.reverse} diags={diags} links={" ".intercalate links}"
  | _ => "bad-args"

/-- `symmap <ops> <queries>`: ops `;`-separated `D,<hexname>,<file>,<s>,<e>` | `A,…` | `R,<sym>,<file>,<s>,<e>`;
queries `,`-separated `<file>:<pos>`. One answer per query: `G<loc>|G- R[<locs>]|R-`. -/
def cmdSymmap (rest : String) : String :=
  match rest.splitOn " " with
  | [opsS, qsS] =>
    let ops : List SymbolMap.Op := (opsS.splitOn ";").filterMap fun o =>
      match o.splitOn "," with
      | ["D", nm, f, a, b] => some (.define ((payload nm).getD []) ⟨f.toNat!, a.toNat!, b.toNat!⟩)
      | ["A", nm, f, a, b] => some (.defineAnon ((payload nm).getD []) ⟨f.toNat!, a.toNat!, b.toNat!⟩)
      | ["R", sy, f, a, b] => some (.reference sy.toNat! ⟨f.toNat!, a.toNat!, b.toNat!⟩)
      | _ => none
    let st := SymbolMap.run ops
    let locS := fun (l : SymbolMap.Loc) => s!"{l.file}:{l.start}:{l.stop}"
    let answers := (qsS.splitOn ",").map fun q =>
      match q.splitOn ":" with
      | [f, p] =>
        let g := match SymbolMap.gotoDef st f.toNat! p.toNat! with | some l => "G" ++ locS l | none => "G-"
        let r := match SymbolMap.references st f.toNat! p.toNat! with
          | some ls => "R[" ++ ",".intercalate (ls.map locS) ++ "]" | none => "R-"
        g ++ "|" ++ r
      | _ => "bad-query"
    " ".intercalate answers
  | _ => "bad-args"

/-- `host <texts> <ops>`: texts `;`-separated, text id = position, each a `,`-separated list of include
names (a name is the path id it denotes; flat directory: a name resolves iff the file system has that
path); ops `;`-separated `e:<path>:<text>` | `r:<path>`. Prints the observable inputs of the final db. -/
def cmdHost (rest : String) : String :=
  match rest.splitOn " " with
  | [textsS, opsS] =>
    let texts : Array (List Nat) := (textsS.splitOn ";").toArray.map fun row =>
      if row.isEmpty || row == "." then [] else (row.splitOn ",").map (·.toNat!)
    let env : Host.Env := { incs := fun t => texts.getD t [], resolve := fun fs _ n => if (fs n).isSome then some n else none }
    let ops : List Host.Op := (opsS.splitOn ";").filterMap fun o =>
      match o.splitOn ":" with
      | ["e", p, t] => some (.edit p.toNat! t.toNat!)
      | ["r", p] => some (.selectRoot p.toNat!)
      | ["d", p, t] => some (.disk p.toNat! t.toNat!)
      | _ => none
    let st := Host.run env 10000 ops
    match st.db with
    | none => "PANIC"
    | some db =>
      let o := Host.observe db
      let files := (o.files.toArray.qsort (· < ·)).toList
      let rows := files.map fun f => s!"{f}={(db.content f).getD 999999}:" ++ ",".intercalate ((db.incMap f).map fun (i, t) => s!"{i}>{t}")
      s!"root={o.root.getD 999999} files={files} {" ".intercalate rows}"
  | _ => "bad-args"

/-- all maximal schedules of the model from a state (DFS, capped) -/
partial def schedDfs (fixed : Bool) (s : Sched.State) (pre : List String) (acc : Array String × Nat) (cap : Nat) :
    Array String × Nat :=
  if acc.1.size ≥ cap then acc else
  let acts : List Sched.Act := .main :: (List.range s.tasks.length).map .task
  let nexts := acts.filterMap fun a => (Sched.step fixed s a).map fun s' => (a, s')
  if nexts.isEmpty then
    let tag := if s.jobs.isEmpty && s.pc == .idle && s.tasks.isEmpty then "F" else "D"
    (acc.1.push (tag ++ ":" ++ ",".intercalate pre.reverse), acc.2 + (if tag == "D" then 1 else 0))
  else
    nexts.foldl (fun acc (a, s') =>
      let name := match a with | .main => "M" | .task i => s!"T{i}"
      schedDfs fixed s' (name :: pre) acc cap) acc

/-- `sched <fixed 0|1> <cap> <jobs>`; jobs `,`-separated `e<r>` (edit, r reads) | `q<r>` (request) -/
def cmdSched (rest : String) : String :=
  match rest.splitOn " " with
  | [fx, cap, js] =>
    let jobs : List (Sched.Job × Nat) := (js.splitOn ",").filterMap fun j =>
      match j.toList with
      | 'e' :: r => some (.edit, (String.ofList r).toNat!)
      | 'q' :: r => some (.request, (String.ofList r).toNat!)
      | _ => none
    let (scheds, dead) := schedDfs (fx == "1") (Sched.init jobs) [] (#[], 0) cap.toNat!
    s!"n={scheds.size} deadlocks={dead} " ++ " ".intercalate scheds.toList
  | _ => "bad-args"

/-- `session <texts> <disk> <ops>`: texts as for `host`; disk `,`-separated `<path>:<text>` (or `.`);
ops `;`-separated `<path>:<text>` (didOpen/didChange of that document with that text).
The diagnostics of a file are modelled as "the id of the text that was analysed". -/
def cmdSession (rest : String) : String :=
  match rest.splitOn " " with
  | [textsS, diskS, opsS] =>
    let texts : Array (List Nat) := (textsS.splitOn ";").toArray.map fun row =>
      if row.isEmpty || row == "." then [] else (row.splitOn ",").map (·.toNat!)
    let env : Host.Env := { incs := fun t => texts.getD t [], resolve := fun fs _ n => if (fs n).isSome then some n else none }
    let diskL : List (Nat × Nat) := if diskS == "." then [] else (diskS.splitOn ",").filterMap fun e =>
      match e.splitOn ":" with | [p, t] => some (p.toNat!, t.toNat!) | _ => none
    let disk : Host.Fs := fun p => (diskL.lookup p)
    let ops : List (Nat × Nat) := (opsS.splitOn ";").filterMap fun e =>
      match e.splitOn ":" with | [p, t] => some (p.toNat!, t.toNat!) | _ => none
    let diag : Session.DiagFn Nat := fun o f =>
      match (o.files.zip o.contents).lookup f with | some (some t) => [t] | _ => []
    let st := Session.run env diag 10000 disk ops
    match st.db with
    | none => "PANIC"
    | some db =>
      let files := (db.files.toArray.qsort (· < ·)).toList
      let paths := ((diskL.map (·.1)) ++ (ops.map (·.1))).eraseDups.toArray.qsort (· < ·) |>.toList
      let views := paths.map fun p => match st.view p with
        | some pb => s!"{p}={pb.diags}@{pb.version}" | none => s!"{p}=-"
      s!"files={files} view: {" ".intercalate views} version={st.version}"
  | _ => "bad-args"


/-! ### `ws <json>`: the IDE model on an in-memory workspace (same protocol as `harness/src/ws.rs`) -/
section Ws
open Lean (Json)
open Tg.Ide

def jNat (n : Nat) : Json := Lean.toJson n
def jOptStr : Option String → Json
  | some s => Json.str s
  | none => Json.null

def jLoc (ws : Workspace) (l : SymbolMap.Loc) : Json :=
  Json.arr #[Json.str (ws.pathStr l.file), jNat l.start, jNat l.stop]

partial def jSym (s : Handlers.DocumentSymbol) : Json :=
  Json.mkObj [("name", Json.str s.name), ("typ", Json.str s.typ), ("kind", Json.str s.kind.debug),
    ("range", Json.arr #[jNat s.range.1, jNat s.range.2]),
    ("children", Json.arr (s.children.map jSym).toArray)]

def jPanic (msg : String) : Json := Json.mkObj [("panic", Json.str msg)]

def jResult {α : Type} (r : Except String (Option α)) (f : α → Json) : Json :=
  match r with
  | .error e => jPanic e
  | .ok none => Json.null
  | .ok (some a) => f a

def wsQuery (an : Analysis) (q : Json) : Json :=
  let ws := an.ws
  let name := match q.getArrVal? 0 with | .ok (.str s) => s | _ => ""
  let file (i : Nat) : Option Nat := match q.getArrVal? i with | .ok (.str p) => ws.idOf p | _ => none
  let num (i : Nat) : Nat := match q.getArrVal? i with
    | .ok j => (match j.getNat? with | .ok n => n | _ => 0)
    | _ => 0
  let withFile (k : Nat → Json) : Json := match file 1 with | none => Json.str "no-file" | some f => k f
  match name with
  | "diagnostics" =>
    match Handlers.diagnosticsExec an with
    | .error e => jPanic e
    | .ok m =>
      let rows := (m.map fun (f, ds) => (ws.pathStr f, ds)).toArray.qsort (fun a b => a.1 < b.1)
      Json.arr (rows.map fun (p, ds) => Json.arr #[Json.str p, Json.arr (ds.map fun d =>
        Json.arr #[Json.str (ws.pathStr d.location.file), jNat d.location.start, jNat d.location.stop, Json.str d.message]).toArray])
  | "document_symbol" => withFile fun f =>
    jResult (Handlers.documentSymbolExec an f) fun v => Json.arr (v.map jSym).toArray
  | "folding_range" => withFile fun f =>
    jResult (Handlers.foldingRangeExec an f) fun v => Json.arr (v.map fun r => Json.arr #[jNat r.1, jNat r.2]).toArray
  | "document_link" => withFile fun f =>
    jResult (Handlers.documentLinkExec an f) fun v =>
      Json.arr (v.map fun (r, t) => Json.arr #[jNat r.1, jNat r.2, Json.str (ws.pathStr t)]).toArray
  | "goto" => withFile fun f => jResult (Handlers.gotoDefinitionExec an f (num 2)) (jLoc ws)
  | "references" => withFile fun f =>
    jResult (Handlers.referencesExec an f (num 2)) fun v => Json.arr (v.map (jLoc ws)).toArray
  | "hover" => withFile fun f =>
    jResult (Handlers.hoverExec an f (num 2)) fun h =>
      Json.mkObj [("signature", Json.str h.signature), ("document", jOptStr h.document)]
  | "inlay_hint" => withFile fun f =>
    jResult (Handlers.inlayHintExec an f (num 2) (max (num 3) (num 2))) fun v =>
      Json.arr (v.map fun h => Json.arr #[jNat h.position, Json.str h.label, Json.str h.kind.debug]).toArray
  | "completion" => withFile fun f =>
    let trig := match q.getArrVal? 3 with | .ok (.str s) => some s | _ => none
    jResult (Handlers.completionExec an f (num 2) trig) fun v =>
      Json.arr (v.map fun c => Json.arr #[Json.str c.label, jOptStr c.insertTextSnippet, Json.str c.kind.debug]).toArray
  | _ => Json.str "bad-query"

def jOp (ws : Workspace) : SymbolMap.Op → Json
  | .define n l => Json.arr #[Json.str "D", Json.str (String.ofList n), Json.str (ws.pathStr l.file), jNat l.start, jNat l.stop]
  | .defineAnon n l => Json.arr #[Json.str "A", Json.str (String.ofList n), Json.str (ws.pathStr l.file), jNat l.start, jNat l.stop]
  | .reference s l => Json.arr #[Json.str "R", jNat s, Json.str (ws.pathStr l.file), jNat l.start, jNat l.stop]

def cmdWs (rest : String) : String :=
  match Json.parse rest with
  | .error e => s!"bad-json {e}"
  | .ok spec =>
    let files : List (String × String) := match spec.getObjVal? "files" with
      | .ok (.obj kvs) => kvs.foldl (fun acc k v => match v with | .str s => acc ++ [(k, s)] | _ => acc ++ [(k, "")]) []
      | _ => []
    let includeDir := match spec.getObjVal? "include_dir" with | .ok (.str d) => some d | _ => none
    let rootp := match spec.getObjVal? "root" with | .ok (.str r) => r | _ => "/main.td"
    match buildWorkspace files rootp includeDir with
    | .error e => "PANIC " ++ e
    | .ok ws =>
      let an := Analysis.new ws
      let qs := match spec.getObjVal? "queries" with | .ok (.arr a) => a | _ => #[]
      let out := Json.arr (qs.map (wsQuery an))
      match spec.getObjVal? "oplog" with
      | .ok (.bool true) =>
        let ops := match an.index with
          | .ok r => Json.arr (r.symbolMap.ops.map (jOp ws))
          | .error _ => jPanic "index"
        (Json.mkObj [("r", out), ("ops", ops)]).compress
      | _ => out.compress

/-- `wscheck <json>`: does the array implementation of the symbol-map model agree with `SymbolMap.run`? -/
def cmdWsCheck (rest : String) : String :=
  match Json.parse rest with
  | .error e => s!"bad-json {e}"
  | .ok spec =>
    let files : List (String × String) := match spec.getObjVal? "files" with
      | .ok (.obj kvs) => kvs.foldl (fun acc k v => match v with | .str s => acc ++ [(k, s)] | _ => acc ++ [(k, "")]) []
      | _ => []
    let includeDir := match spec.getObjVal? "include_dir" with | .ok (.str d) => some d | _ => none
    let rootp := match spec.getObjVal? "root" with | .ok (.str r) => r | _ => "/main.td"
    match buildWorkspace files rootp includeDir with
    | .error e => "PANIC " ++ e
    | .ok ws =>
      match Index.index ws with
      | .error e => s!"index-panic {e}"
      | .ok r =>
        let a := SymbolMap.run r.symbolMap.ops.toList
        let b := SymRun.runFast r.symbolMap.ops
        s!"ops={r.symbolMap.ops.size} equal={SymRun.stateEq a b}"

end Ws

/-! ### `lspmap <json>`: the conversion layer (`TgModel/Lsp.lean`) on an ide-level answer

Input: one JSON object `{"files": {<path>: <text>, …}, "kind": <handler>, "file": <path>, "answer": <answer>}`;
`files` are the documents of the snapshot (path and current text), `file` the requested document (for the
handlers that have one), `answer` the ide-level answer in the format the `ws` command prints it.  A path that
does not occur in `files` denotes a document with empty text.  Output: the LSP answer, compact JSON, positions
as `[line, character]`, ranges as `[[line, character], [line, character]]`. -/
section LspMap
open Lean (Json)
open Tg.Ide

partial def jStrings (j : Json) (acc : Array String) : Array String :=
  match j with
  | .str s => acc.push s
  | .arr a => a.foldl (fun acc x => jStrings x acc) acc
  | .obj kvs => kvs.foldl (fun acc _ v => jStrings v acc) acc
  | _ => acc

def jnat (j : Json) : Nat := match j.getNat? with | .ok n => n | _ => 0
def jstr (j : Json) : String := match j with | .str s => s | _ => ""
def jidx (j : Json) (i : Nat) : Json := match j.getArrVal? i with | .ok v => v | _ => Json.null
def jfield (j : Json) (k : String) : Json := match j.getObjVal? k with | .ok v => v | _ => Json.null
def jlist (j : Json) : List Json := match j with | .arr a => a.toList | _ => []

def jPos (p : Lsp.Position) : Json := Json.arr #[jNat p.line, jNat p.character]
def jRange (r : Lsp.Range) : Json := Json.arr #[jPos r.start, jPos r.stop]
def jLocation (l : Lsp.Location) : Json := Json.mkObj [("uri", Json.str l.uri), ("range", jRange l.range)]

partial def jLspSym (s : Lsp.DocumentSymbol) : Json :=
  Json.mkObj [("name", Json.str s.name), ("detail", Json.str s.detail), ("kind", Json.str s.kind.name),
    ("range", jRange s.range), ("selection_range", jRange s.selectionRange),
    ("children", match s.childrenOpt with
      | none => Json.null
      | some cs => Json.arr (cs.map jLspSym).toArray)]

def symKindOf : String → Handlers.DocumentSymbolKind
  | "Class" => .cls | "TemplateArgument" => .templateArgument | "Field" => .field | "Def" => .def_
  | "Variable" => .variable_ | "Defset" => .defset | _ => .multiclass

partial def symOfJson (j : Json) : Handlers.DocumentSymbol :=
  { name := jstr (jfield j "name"), typ := jstr (jfield j "typ"), kind := symKindOf (jstr (jfield j "kind")),
    range := (jnat (jidx (jfield j "range") 0), jnat (jidx (jfield j "range") 1)),
    children := (jlist (jfield j "children")).map symOfJson }

def jOpt {α : Type} (o : Option α) (f : α → Json) : Json := match o with | none => Json.null | some a => f a

def cmdLspMap (rest : String) : String :=
  match Json.parse rest with
  | .error e => s!"bad-json {e}"
  | .ok spec =>
    let files : Array (String × List Char) := match spec.getObjVal? "files" with
      | .ok (.obj kvs) => kvs.foldl (fun acc k v => acc.push (k, (jstr v).toList)) #[]
      | _ => #[]
    let answer := jfield spec "answer"
    -- every other path that is mentioned: a document with empty text
    let mentioned := jStrings answer (jStrings (jfield spec "file") #[])
    let files := mentioned.foldl (fun acc p => if acc.any (·.1 == p) then acc else acc.push (p, [])) files
    let snap : Lsp.Snapshot := { path := fun f => (files.getD f ("", [])).1, text := fun f => (files.getD f ("", [])).2 }
    let fid (j : Json) : Nat := (files.findIdx? (·.1 == jstr j)).getD files.size
    let file := fid (jfield spec "file")
    let loc (j : Json) : SymbolMap.Loc := ⟨fid (jidx j 0), jnat (jidx j 1), jnat (jidx j 2)⟩
    let isNull := answer.isNull
    let out : Json := match jstr (jfield spec "kind") with
      | "definition" =>
        jOpt (Lsp.definition snap (if isNull then none else some (loc answer))) jLocation
      | "references" =>
        jOpt (Lsp.references snap (if isNull then none else some ((jlist answer).map loc)))
          fun ls => Json.arr (ls.map jLocation).toArray
      | "document_symbol" =>
        jOpt (Lsp.documentSymbols snap file (if isNull then none else some ((jlist answer).map symOfJson)))
          fun ss => Json.arr (ss.map jLspSym).toArray
      | "folding_range" =>
        jOpt (Lsp.foldingRanges snap file
            (if isNull then none else some ((jlist answer).map fun r => (jnat (jidx r 0), jnat (jidx r 1)))))
          fun fs => Json.arr (fs.map fun f => Json.arr #[jNat f.startLine, jNat f.endLine]).toArray
      | "document_link" =>
        jOpt (Lsp.documentLinks snap file
            (if isNull then none else some ((jlist answer).map fun r => ((jnat (jidx r 0), jnat (jidx r 1)), fid (jidx r 2)))))
          fun ds => Json.arr (ds.map fun d => Json.mkObj [("range", jRange d.range), ("target", Json.str d.target)]).toArray
      | "inlay_hint" =>
        jOpt (Lsp.inlayHints snap file
            (if isNull then none else some ((jlist answer).map fun h =>
              { position := jnat (jidx h 0), label := jstr (jidx h 1),
                kind := if jstr (jidx h 2) == "TemplateArg" then .templateArg else .fieldLet })))
          fun hs => Json.arr (hs.map fun h => Json.mkObj [("position", jPos h.position), ("label", Json.str h.label),
            ("padding_left", Json.bool h.paddingLeft), ("padding_right", Json.bool h.paddingRight)]).toArray
      | "diagnostics" =>
        let groups : List (Nat × List Ide.Diagnostic) := (jlist answer).map fun g =>
          (fid (jidx g 0), (jlist (jidx g 1)).map fun d =>
            { location := ⟨fid (jidx d 0), jnat (jidx d 1), jnat (jidx d 2)⟩, message := jstr (jidx d 3) })
        Json.arr ((Lsp.publishDiagnostics snap groups).map fun (p, ds) =>
          Json.arr #[Json.str p, Json.arr (ds.map fun d =>
            Json.mkObj [("range", jRange d.range), ("message", Json.str d.message)]).toArray]).toArray
      | _ => Json.str "bad-kind"
    out.compress

end LspMap

def dispatch (cmd rest : String) : String :=
  match cmd with
  | "lex" => match payload rest with | some s => cmdLex s | none => "bad-utf8"
  | "prep" => match payload rest with | some s => cmdPrep s | none => "bad-utf8"
  | "parse" => match payload rest with | some s => cmdParse s false | none => "bad-utf8"
  | "parseh" => match payload rest with | some s => cmdParse s true | none => "bad-utf8"
  | "astwalk" => match payload rest with | some s => cmdAstWalk s | none => "bad-utf8"
  | "steps" => match payload rest with | some s => cmdSteps s | none => "bad-utf8"
  | "li" => LineIndex.cmd rest
  | "graph" => cmdGraph rest
  | "symmap" => cmdSymmap rest
  | "host" => cmdHost rest
  | "sched" => cmdSched rest
  | "session" => cmdSession rest
  | "ws" => cmdWs rest
  | "wscheck" => cmdWsCheck rest
  | "lspmap" => cmdLspMap rest
  | _ => s!"bad-cmd {cmd}"

partial def loop (h : IO.FS.Stream) (out : IO.FS.Stream) : IO Unit := do
  let line ← h.getLine
  if line.isEmpty then return ()
  let line := line.trimAscii.toString
  if line.isEmpty then loop h out else
  let (cmd, rest) := match line.splitOn " " with
    | [] => ("", "")
    | c :: r => (c, " ".intercalate r)
  out.putStrLn (dispatch cmd rest)
  out.flush
  loop h out

def main : IO Unit := do loop (← IO.getStdin) (← IO.getStdout)
