/-
C04 specification side: what "derivable from the documented grammar" means, and the token
sequence a parser state is looking at.

`Generated/DocGrammar.lean` is regenerated on every run from `/repo/syntax.md` and the rule
comments of `grammar/*.rs`; this file gives it a meaning (`Derives`) and does not mention the
parser's grammar functions at all.
-/
import TgModel.Generated.DocGrammar
import TgModel.Dsl

namespace Tg
namespace Doc

/-- `Derives e w`: the token-kind sequence `w` is derivable from the EBNF expression `e` -/
inductive Derives : E → List TokenKind → Prop where
  | tok {ks : List TokenKind} {k : TokenKind} : k ∈ ks → Derives (.tok ks) [k]
  | nt {n : NT} {w : List TokenKind} : Derives (rule n) w → Derives (.nt n) w
  | eps : Derives .eps []
  | seq {a b : E} {u v : List TokenKind} : Derives a u → Derives b v → Derives (.seq a b) (u ++ v)
  | altL {a b : E} {w : List TokenKind} : Derives a w → Derives (.alt a b) w
  | altR {a b : E} {w : List TokenKind} : Derives b w → Derives (.alt a b) w
  | optNone {a : E} : Derives (.opt a) []
  | optSome {a : E} {w : List TokenKind} : Derives a w → Derives (.opt a) w
  | starNil {a : E} : Derives (.star a) []
  | starCons {a : E} {u v : List TokenKind} : Derives a u → Derives (.star a) v → Derives (.star a) (u ++ v)
  | plus {a : E} {u v : List TokenKind} : Derives a u → Derives (.star a) v → Derives (.plus a) (u ++ v)

/-- a program of the documented grammar, as a sequence of token kinds -/
def Sentence (w : List TokenKind) : Prop := Derives (.nt .SourceFile_) w

end Doc

/-- The token kinds the parser is going to see from look-ahead `k` and token source `src`:
`k`, then whatever `Src.eat` (lexer + preprocessor) delivers, without trivia, up to `Eof`.
Mirrors `PState.eat`: an `Error` look-ahead first takes its parked message out of the source. -/
def feed : Nat → TokenKind → Src → List TokenKind
  | 0, _, _ => []
  | fuel+1, k, src =>
    if k == .Eof then []
    else
      let src1 := if k == .Error then src.takeError.2 else src
      let r := src1.eat
      if k.isTrivia then feed fuel r.1.kind r.2 else k :: feed fuel r.1.kind r.2

/-- the remaining input of a parser state as token kinds (`Eof` excluded) -/
def PState.kinds (s : PState) : List TokenKind := feed (s.src.rest.length + 2) s.cur s.src

end Tg
