/-
`crates/syntax/src/grammar.rs`, `grammar/statement.rs`, `grammar/type.rs`, `grammar/value.rs`
written as `Prog` terms: one definition per Rust function, same names, same order of primitive
calls.  The dispatch tables and token sets come from the generated `Tables`.
-/
import TgModel.Dsl

namespace Tg
namespace Grammar
open Prog

def seqs : List Prog → Prog
  | [] => nop
  | [p] => p
  | p :: ps => seq p (seqs ps)

/-- `match p.peek() { arms.., _ => dflt }` -/
def matchPeek (arms : List (List TokenKind × Prog)) (dflt : Prog) : Prog :=
  match arms with
  | [] => dflt
  | (ks, p) :: rest => ifAt ks p (matchPeek rest dflt)

/-- `x(p).or_error(p, msg)` -/
def orError (p : Prog) (msg : String) : Prog := seq p (ifFlag nop (error msg))

/-- `while !p.at_set(ks) && !p.eof() { body }` -/
def whileNotAt (ks : List TokenKind) (body : Prog) : Prog :=
  loop (ifAt (TokenKind.Eof :: ks) (retB false) (retB true)) body

/-- `while !p.eof() { item; if !p.eat_if(sep) { break } }` -/
def sepLoop (item : Prog) (sep : TokenKind) : Prog :=
  loop (ifAt [TokenKind.Eof] (retB false) (seq item (eatIf sep))) nop

/-- `grammar::delimited` -/
def delimited (bra ket delim : TokenKind) (parser : Prog) : Prog :=
  seqs [expect bra none,
        loop (ifAt [ket, TokenKind.Eof] (retB false) (seq parser (eatIf delim))) nop,
        expect ket none]

def ifEatIf (k : TokenKind) (t e : Prog) : Prog := seq (eatIf k) (ifFlag t e)

/-- the shape shared by `integer`, `code`, `var_name`, `identifier`, `uninitialized` -/
def leaf1 (node : SyntaxKind) (k : TokenKind) : Prog :=
  seqs [startNode node, ifEatIf k (seq finishNode (retB true)) (seq finishNode (retB false))]

def valueList (bra ket : TokenKind) : Prog :=
  seqs [startNode .ValueList, delimited bra ket .Comma (call .value), finishNode]

def keywordType (node : SyntaxKind) (k : TokenKind) : Prog :=
  seqs [startNode node, assertTok k, finishNode]

def statementArms : List (List TokenKind × Prog) := [
  ([.Include], call .include), ([.Assert], call .assert_), ([.Class], call .class_),
  ([.Def], call .def_), ([.Defm], call .defm), ([.Defset], call .defset), ([.Defvar], call .defvar),
  ([.Dump], call .dump), ([.Foreach], call .foreach), ([.If], call .if_), ([.Let], call .let_),
  ([.MultiClass], call .multi_class)]

def mcStatementArms : List (List TokenKind × Prog) := [
  ([.Assert], call .assert_), ([.Def], call .def_), ([.Defm], call .defm), ([.Defvar], call .defvar),
  ([.Dump], call .dump), ([.Foreach], call .foreach), ([.Let], call .let_), ([.If], call .if_)]

def typeArms : List (List TokenKind × Prog) := [
  ([.Bit], call .bit_type), ([.Int], call .int_type), ([.String], call .string_type),
  ([.Dag], call .dag_type), ([.Bits], call .bits_type), ([.List], call .list_type),
  ([.Code], call .code_type), ([.Id], call .class_id)]

def simpleValueArms : List (List TokenKind × Prog) := [
  ([.IntVal, .BinaryIntVal], call .integer), ([.StrVal], call .string_), ([.CodeFragment], call .code),
  ([.TrueVal, .FalseVal], call .boolean), ([.Question], call .uninitialized), ([.LBrace], call .bits),
  ([.LSquare], call .list_), ([.LParen], call .dag), ([.Id], call .identifier_or_class_value),
  (Tables.bangOps, call .bang_operator), ([.XCond], call .cond_operator)]

def bodyItemArms : List (List TokenKind × Prog) := [
  ([.Let], seq (call .field_let) (retB true)), ([.Defvar], seq (call .defvar) (retB true)),
  ([.Assert], seq (call .assert_) (retB true)), ([.Dump], seq (call .dump) (retB true))]

def classValueTail : Prog :=
  seqs [startNodeAtCp .ClassValue, call .arg_value_list,
        expect .Greater (some "expected '>' at end of value list"), finishNode, retB true]

def defs : Defs
  -- grammar.rs
  | .source_file => seqs [startNode .SourceFile, call .statement_list_top,
      ifAt [.Eof] nop (error "unexpected input at top level"), finishNode]
  -- statement.rs
  | .statement_list_top => seqs [startNode .StatementList, skip, whileNotAt [] (call .statement), finishNode]
  | .statement_list_block => seqs [startNode .StatementList, skip, expect .LBrace none,
      whileNotAt [.RBrace] (call .statement), expect .RBrace none, finishNode]
  | .statement_list_single_or_block => seqs [startNode .StatementList, skip,
      ifEatIf .LBrace (seq (whileNotAt [.RBrace] (call .statement)) (expect .RBrace none)) (call .statement),
      finishNode]
  | .statement => matchPeek statementArms
      (errorAndEat "expected class, def, defm, defset, dump, multiclass, let or foreach")
  | .include => seqs [startNode .Include, assertTok .Include,
      orError (call .string_) "expected filename after include", finishNode]
  | .class_ => seqs [startNode .Class, assertTok .Class,
      orError (call .identifier) "expected class name after 'class' keyword",
      call .opt_template_arg_list, call .record_body, finishNode]
  | .def_ => seqs [startNode .Def, assertTok .Def, call .object_name, call .record_body, finishNode]
  | .object_name => ifAt [.Colon, .Semi, .LBrace] nop (call .opt_name_value)
  | .let_ => seqs [startNode .Let, assertTok .Let, call .let_list,
      expect .In (some "expected 'in' at end of top-level 'let'"),
      call .statement_list_single_or_block, finishNode]
  | .let_list => seqs [startNode .LetList, sepLoop (call .let_item) .Comma, finishNode]
  | .let_item => seqs [startNode .LetItem,
      orError (call .identifier) "expected identifier in let expression",
      ifEatIf .Less (seq (call .range_list) (expect .Greater (some "expected '>' at end of range list"))) nop,
      expect .Equal (some "expected '=' in let expression"), call .value, finishNode]
  | .multi_class => seqs [startNode .MultiClass, assertTok .MultiClass,
      orError (call .identifier) "expected identifier after multiclass for name",
      call .opt_template_arg_list, call .parent_class_list,
      expect .LBrace (some "expected '{' in multiclass definition"),
      call .multi_class_statements, finishNode]
  | .multi_class_statements => seqs [startNode .StatementList, call .multi_class_statement,
      whileNotAt [.RBrace] (call .multi_class_statement), expect .RBrace none, finishNode]
  | .multi_class_statement => matchPeek mcStatementArms
      (errorAndEat "expected 'assert', 'def', 'defm', 'defvar', 'dump', 'foreach', 'let', or 'if' in multiclass body")
  | .defm => seqs [startNode .Defm, assertTok .Defm, call .object_name, call .parent_class_list,
      expect .Semi (some "expected ';' at end of defm"), finishNode]
  | .defset => seqs [startNode .Defset, assertTok .Defset, call .type_,
      orError (call .identifier) "expected identifier after type in defset",
      expect .Equal none, call .statement_list_block, finishNode]
  | .defvar => seqs [startNode .Defvar, assertTok .Defvar,
      orError (call .identifier) "expected identifier after defvar", expect .Equal none,
      call .value, expect .Semi none, finishNode]
  | .dump => seqs [startNode .Dump, assertTok .Dump, call .value, expect .Semi none, finishNode]
  | .foreach => seqs [startNode .Foreach, assertTok .Foreach, call .foreach_iterator, expect .In none,
      call .statement_list_single_or_block, finishNode]
  | .foreach_iterator => seqs [startNode .ForeachIterator,
      orError (call .identifier) "expected identifier in foreach declaration",
      expect .Equal (some "expected '=' in foreach declaration"), call .foreach_iterator_init, finishNode]
  | .foreach_iterator_init => matchPeek [
      ([.LBrace], seqs [assertTok .LBrace, call .range_list,
          expect .RBrace (some "expected '}' at end of bit range list")]),
      ([.IntVal], call .range_piece)] (call .value)
  | .if_ => seqs [startNode .If, assertTok .If, call .value, expect .Then none,
      call .statement_list_single_or_block,
      ifEatIf .ElseKw (call .statement_list_single_or_block) nop, finishNode]
  | .assert_ => seqs [startNode .Assert, assertTok .Assert, call .value, expect .Comma none,
      call .value, expect .Semi none, finishNode]
  | .opt_template_arg_list => ifAt [.Less] (call .template_arg_list) nop
  | .template_arg_list => seqs [startNode .TemplateArgList,
      delimited .Less .Greater .Comma (call .template_arg_decl), finishNode]
  | .template_arg_decl => seqs [startNode .TemplateArgDecl, call .type_,
      orError (call .identifier) "expected identifier in declaration",
      ifEatIf .Equal (call .value) nop, finishNode]
  | .record_body => seqs [startNode .RecordBody, call .parent_class_list, call .body, finishNode]
  | .parent_class_list => seqs [startNode .ParentClassList,
      ifEatIf .Colon (sepLoop (call .class_ref) .Comma) nop, finishNode]
  | .class_ref => seqs [startNode .ClassRef, orError (call .identifier) "expected name of a class or multiclass",
      ifEatIf .Less (seq (call .arg_value_list) (expect .Greater (some "expected '>' in template value list"))) nop,
      finishNode]
  | .arg_value_list => seqs [startNode .ArgValueList,
      ifAt Tables.valueStart (seqs [pushLocal, sepLoop (call .arg_value) .Comma, popLocal]) nop,
      finishNode]
  | .arg_value => seqs [pushCp, call .value,
      ifEatIf .Equal
        (seqs [startNodeAtCp .NamedArgValue, call .value, finishNode, setLocal])
        (seqs [startNodeAtCp .PositionalArgValue, finishNode,
               ifLocal (error "positional argument should be put before named argument") nop]),
      popCp]
  | .body => seqs [startNode .Body,
      ifEatIf .Semi nop (seqs [expect .LBrace (some "expected ';' or '{' to start body"),
        loop (ifAt [.RBrace, .Eof] (retB false) (call .body_item)) nop,
        expect .RBrace none]),
      finishNode]
  | .body_item => ifAt (Tables.typeFirst ++ [.Field]) (seq (call .field_def) (retB true))
      (matchPeek bodyItemArms (retB false))
  | .field_def => seqs [startNode .FieldDef, eatIf .Field, call .type_,
      orError (call .identifier) "expected identifier in declaration",
      ifEatIf .Equal (call .value) nop,
      expect .Semi (some "expected ';' after declaration"), finishNode]
  | .field_let => seqs [startNode .FieldLet, assertTok .Let,
      orError (call .identifier) "expected field identifier after let",
      ifEatIf .LBrace (seq (call .range_list) (expect .RBrace (some "expected '}' at end of bit list"))) nop,
      expect .Equal none,
      orError (call .value) "expected '=' in let expression",
      expect .Semi (some "expected ';' after let expression"), finishNode]
  -- type.rs
  | .type_ => matchPeek typeArms (errorAndRecover "unknown token when expecting a type")
  | .bit_type => keywordType .BitType .Bit
  | .int_type => keywordType .IntType .Int
  | .string_type => keywordType .StringType .String
  | .dag_type => keywordType .DagType .Dag
  | .bits_type => seqs [startNode .BitsType, assertTok .Bits,
      expect .Less (some "expected '<' after bits type"),
      orError (call .integer) "expected integer in bits<n> type",
      expect .Greater (some "expected '>' at end of bits<n> type"), finishNode]
  | .list_type => seqs [startNode .ListType, assertTok .List,
      expect .Less (some "expected '<' after list type"), call .type_,
      expect .Greater (some "expected '>' at end of list<ty> type"), finishNode]
  | .class_id => seqs [startNode .ClassId, orError (call .identifier) "expected name for ClassID", finishNode]
  | .code_type => keywordType .CodeType .Code
  -- value.rs
  | .opt_value => ifAt Tables.valueStart (call .value) nop
  | .value => seqs [startNode .Value, call .inner_value, loop (eatIf .Paste) (call .inner_value),
      finishNode, retB true]
  | .inner_value => seqs [startNode .InnerValue, call .simple_value,
      ifFlag (seqs [loop (call .value_suffix) nop, finishNode, retB true]) (seq finishNode (retB false))]
  | .opt_name_value => ifAt Tables.valueStart (call .name_value) nop
  | .name_value => seqs [startNode .Value, call .inner_name_value,
      loop (eatIf .Paste) (call .inner_name_value), finishNode, retB true]
  | .inner_name_value => seqs [startNode .InnerValue, call .simple_value,
      ifFlag (seqs [loop (ifAt [.LBrace] (retB false) (call .value_suffix)) nop, finishNode, retB true])
             (seq finishNode (retB false))]
  | .value_suffix => matchPeek [
      ([.LBrace], seq (call .range_suffix) (retB true)),
      ([.LSquare], seq (call .slice_suffix) (retB true)),
      ([.Dot], seq (call .field_suffix) (retB true))] (retB false)
  | .range_suffix => seqs [startNode .RangeSuffix, assertTok .LBrace, call .range_list,
      expect .RBrace (some "expected '}' at end of bit range list"), finishNode, retB true]
  | .range_list => seqs [startNode .RangeList, sepLoop (call .range_piece) .Comma, finishNode, retB true]
  | .range_piece => seqs [startNode .RangePiece,
      orError (call .integer) "expected integer or bitrange",
      ifAt [.DotDotDot, .Minus]
        (seq eat (orError (call .integer) "expected integer value as end of range"))
        (ifAt [.IntVal] (orError (call .integer) "expected integer value as end of range") nop),
      finishNode, retB true]
  | .slice_suffix => seqs [startNode .SliceSuffix, assertTok .LSquare, call .slice_elements,
      expect .RSquare (some "expected ']' at end of list slice"), finishNode, retB true]
  | .slice_elements => seqs [startNode .SliceElements,
      loop (ifAt [.Eof] (retB false)
             (seqs [call .slice_element,
                    ifEatIf .Comma (ifAt [.RSquare] (retB false) (retB true)) (retB false)])) nop,
      finishNode, retB true]
  | .slice_element => seqs [startNode .SliceElement, call .value,
      ifAt [.DotDotDot, .Minus] (seq eat (call .value)) (ifAt [.IntVal] (seqs [startNode .Value, startNode .InnerValue, call .integer, finishNode, finishNode]) nop),
      finishNode, retB true]
  | .field_suffix => seqs [startNode .FieldSuffix, assertTok .Dot,
      orError (call .identifier) "expected field identifier after '.'", finishNode, retB true]
  | .simple_value => matchPeek simpleValueArms
      (seq (errorAndRecover "unknown token when parsing a value") (retB false))
  | .integer => seqs [startNode .Integer,
      ifEatIf .IntVal (seq finishNode (retB true))
        (ifEatIf .BinaryIntVal (seq finishNode (retB true)) (seq finishNode (retB false)))]
  | .string_ => seqs [startNode .String,
      ifAt [.StrVal] (seqs [loop (eatIf .StrVal) nop, finishNode, retB true]) (seq finishNode (retB false))]
  | .code => leaf1 .Code .CodeFragment
  | .boolean => seqs [startNode .Boolean,
      ifEatIf .TrueVal (seq finishNode (retB true))
        (ifEatIf .FalseVal (seq finishNode (retB true)) (seq finishNode (retB false)))]
  | .uninitialized => leaf1 .Uninitialized .Question
  | .bits => seqs [startNode .Bits, valueList .LBrace .RBrace, finishNode, retB true]
  | .list_ => seqs [startNode .List, valueList .LSquare .RSquare,
      ifEatIf .Less (seq (call .type_) (expect .Greater (some "expected '>' at end of list element type"))) nop,
      finishNode, retB true]
  | .dag => seqs [startNode .Dag, expect .LParen none,
      ifAt [.Id, .XCast, .Question, .XGetDagOp]
        (seqs [call .dagarg, ifAt [.RParen] nop (call .dagarg_list),
               expect .RParen (some "expected ')' in dag init"), finishNode, retB true])
        (seqs [error "expected identifier in dag init", finishNode, retB false])]
  | .dagarg_list => seqs [startNode .DagArgList, sepLoop (call .dagarg) .Comma, finishNode, retB true]
  | .dagarg => seqs [startNode .DagArg,
      ifEatIf .VarName (seq finishNode (retB true))
        (seqs [call .value,
               ifEatIf .Colon (orError (call .var_name) "expected variable name in dag literal") nop,
               finishNode, retB true])]
  | .var_name => leaf1 .VarName .VarName
  | .identifier => leaf1 .Identifier .Id
  | .identifier_or_class_value => seqs [pushCp, call .identifier,
      ifFlag (ifEatIf .Less classValueTail (retB true)) (ifEatIf .Less classValueTail (retB false)),
      popCp]
  | .bang_operator => seqs [startNode .BangOperator,
      ifAt Tables.bangOps
        (seqs [eat, ifEatIf .Less (seq (call .type_) (expect .Greater none)) nop,
               delimited .LParen .RParen .Comma (call .value), finishNode, retB true])
        (seqs [errorAndRecover "expected bang operator", finishNode, retB false])]
  | .cond_operator => seqs [startNode .CondOperator, expect .XCond none,
      delimited .LParen .RParen .Comma (call .cond_clause), finishNode, retB true]
  | .cond_clause => seqs [startNode .CondClause, call .value, expect .Colon none, call .value,
      finishNode, retB true]

/-- fuel that `parse` hands to `exec`; far above what any terminating run needs
(each loop iteration and each nesting level costs a bounded number of fuel units) -/
def parseFuel (input : List Char) : Nat := 128 * input.length + 4096

structure ParseResult where
  tree : Tree
  errors : List SynError   -- in report order
  steps : Nat

inductive ParseOut where
  | ok (r : ParseResult)
  | panic (why : Why)
  | outOfFuel

/-- `syntax::parse`; `ParserBase::finish` = the error epilogue `PState.finish` (which leaves the
builder alone) followed by the builder's `finish` -/
def parse (input : List Char) : ParseOut :=
  match exec defs Tables.recoverTokens (parseFuel input) (call .source_file) (PState.init input) with
  | .ok s =>
    match s.b.cur, s.b.parents with
    | [t], [] => .ok { tree := t, errors := s.finish.errors.reverse, steps := s.steps }
    | _, _ => .panic .rootCount
  | .panic w => .panic w
  | .outOfFuel => .outOfFuel

end Grammar
end Tg
