/-
`symbol_map.rs` + `symbol_map/*.rs`: the arenas, the name maps, the per-file symbol lists, and the
mutating API.  Every allocation / `add_reference` also appends the operation that the `verif` hook
of the real code logs (`verif_hooks.rs`), as a `Tg.SymbolMap.Op`; the position map and the reference
lists are *not* duplicated here: they are `Tg.SymbolMap.run ops`.

`HashMap` = `Std.HashMap` (insert replaces: "last insert wins"); `IndexMap` = association array
where inserting an existing key replaces the value in place (keeps the position).
-/
import Std.Data.HashMap
import TgModel.SymbolMap
import TgModel.Ide.Typ

namespace Tg
namespace Ide

structure FileRange where
  file : Nat
  start : Nat
  stop : Nat
deriving BEq, Inhabited, Repr

def FileRange.toLoc (r : FileRange) : Tg.SymbolMap.Loc := ⟨r.file, r.start, r.stop⟩

/-- `IndexMap::insert` -/
def indexMapInsert (m : Array (String × Nat)) (k : String) (v : Nat) : Array (String × Nat) :=
  match m.findIdx? (fun e => e.1 == k) with
  | some i => m.set! i (k, v)
  | none => m.push (k, v)

def indexMapGet (m : Array (String × Nat)) (k : String) : Option Nat :=
  (m.find? (fun e => e.1 == k)).map (·.2)

inductive RecordKind where
  | cls
  | def_
deriving BEq, Inhabited, Repr

structure Record where
  name : String
  kind : RecordKind
  nameToTemplateArg : Array (String × Nat) := #[]
  nameToRecordField : Array (String × Nat) := #[]
  parentList : Array Nat := #[]
  defineLoc : FileRange
deriving Inhabited

structure TemplateArgument where
  name : String
  typ : Ty
  hasDefaultValue : Bool
  defineLoc : FileRange
deriving Inhabited

structure RecordField where
  name : String
  typ : Ty
  parent : Nat
  defineLoc : FileRange
deriving Inhabited

inductive VariableKind where
  | defvar | foreach | xFilter | xFoldl | xForeach
deriving BEq, Inhabited, Repr

structure Variable where
  name : String
  typ : Ty
  kind : VariableKind
  defineLoc : FileRange
deriving Inhabited

structure Defset where
  name : String
  typ : Ty
  defList : Array Nat := #[]
  defineLoc : FileRange
deriving Inhabited

structure Multiclass where
  name : String
  nameToTemplateArg : Array (String × Nat) := #[]
  parentList : Array Nat := #[]
  defineLoc : FileRange
deriving Inhabited

structure Defm where
  name : String
  parentList : Array Nat := #[]
  defineLoc : FileRange
deriving Inhabited

inductive SymbolId where
  | record (id : Nat)
  | templateArgument (id : Nat)
  | recordField (id : Nat)
  | var (id : Nat)
  | defset (id : Nat)
  | multiclass (id : Nat)
  | defm (id : Nat)
deriving BEq, Inhabited, Repr

structure SymMap where
  recordList : Array Record := #[]
  templateArgList : Array TemplateArgument := #[]
  recordFieldList : Array RecordField := #[]
  variableList : Array Variable := #[]
  defsetList : Array Defset := #[]
  multiclassList : Array Multiclass := #[]
  defmList : Array Defm := #[]
  nameToClass : Std.HashMap String Nat := {}
  nameToDef : Std.HashMap String Nat := {}
  nameToMulticlass : Std.HashMap String Nat := {}
  nameToDefset : Std.HashMap String Nat := {}
  /-- `file_to_symbol_list`, as (file, symbols) pairs -/
  fileToSymbolList : Array (Nat × Array SymbolId) := #[]
  /-- the hook log (`verif_hooks::define` / `reference`) -/
  ops : Array Tg.SymbolMap.Op := #[]
  /-- allocation index of the log ↦ symbol id, and back -/
  gidToSym : Array SymbolId := #[]
  recordGid : Array Nat := #[]
  templateArgGid : Array Nat := #[]
  recordFieldGid : Array Nat := #[]
  variableGid : Array Nat := #[]
  defsetGid : Array Nat := #[]
  multiclassGid : Array Nat := #[]
  defmGid : Array Nat := #[]
deriving Inhabited

namespace SymMap

/-! immutable api -/

def record (sm : SymMap) (id : Nat) : Record := sm.recordList[id]!
def findClass (sm : SymMap) (name : String) : Option Nat := sm.nameToClass[name]?
def findDef (sm : SymMap) (name : String) : Option Nat := sm.nameToDef[name]?
def templateArg (sm : SymMap) (id : Nat) : TemplateArgument := sm.templateArgList[id]!
def recordField (sm : SymMap) (id : Nat) : RecordField := sm.recordFieldList[id]!
def var (sm : SymMap) (id : Nat) : Variable := sm.variableList[id]!
def defset (sm : SymMap) (id : Nat) : Defset := sm.defsetList[id]!
def multiclass (sm : SymMap) (id : Nat) : Multiclass := sm.multiclassList[id]!
def findMulticlass (sm : SymMap) (name : String) : Option Nat := sm.nameToMulticlass[name]?
def findDefset (sm : SymMap) (name : String) : Option Nat := sm.nameToDefset[name]?
def defm (sm : SymMap) (id : Nat) : Defm := sm.defmList[id]!

/-- `iter_class` (the `HashMap` iteration order of the real code is arbitrary) -/
def iterClass (sm : SymMap) : List Nat := sm.nameToClass.fold (fun acc _ id => id :: acc) []

/-- `iter_symbols_in_file` -/
def iterSymbolsInFile (sm : SymMap) (file : Nat) : Option (Array SymbolId) :=
  (sm.fileToSymbolList.find? (fun e => e.1 == file)).map (·.2)

/-- allocation index (position among the `Define`/`DefineAnon` operations of the hook log) -/
def gidOf (sm : SymMap) : SymbolId → Nat
  | .record i => sm.recordGid[i]!
  | .templateArgument i => sm.templateArgGid[i]!
  | .recordField i => sm.recordFieldGid[i]!
  | .var i => sm.variableGid[i]!
  | .defset i => sm.defsetGid[i]!
  | .multiclass i => sm.multiclassGid[i]!
  | .defm i => sm.defmGid[i]!

/-- `Record::find_template_arg` -/
def recordFindTemplateArg (r : Record) (name : String) : Option Nat := indexMapGet r.nameToTemplateArg name

/-- `Multiclass::find_template_arg` -/
def multiclassFindTemplateArg (m : Multiclass) (name : String) : Option Nat := indexMapGet m.nameToTemplateArg name

/-- `Record::find_field`: own fields, then depth-first through the parents in order.
`fuel` bounds the length of a parent chain (the hierarchy is acyclic, see `fieldFuel`). -/
def findFieldGo (sm : SymMap) (name : String) : Nat → Nat → Option Nat
  | 0, _ => none
  | fuel + 1, recordId =>
    let r := sm.record recordId
    match indexMapGet r.nameToRecordField name with
    | some f => some f
    | none => r.parentList.findSome? fun p => findFieldGo sm name fuel p

/-- a parent was allocated before its child became its child, except that a record is never its
own parent: chains are shorter than the number of records -/
def fieldFuel (sm : SymMap) : Nat := sm.recordList.size + 1

def recordFindField (sm : SymMap) (recordId : Nat) (name : String) : Option Nat :=
  findFieldGo sm name sm.fieldFuel recordId

/-- `Record::is_subclass_of` -/
def isSubclassOfGo (sm : SymMap) (other : Nat) : Nat → Nat → Bool
  | 0, _ => false
  | fuel + 1, recordId =>
    let r := sm.record recordId
    r.parentList.contains other || r.parentList.any fun p => isSubclassOfGo sm other fuel p

def isSubclassOf (sm : SymMap) (recordId other : Nat) : Bool :=
  isSubclassOfGo sm other sm.fieldFuel recordId

/-- `Type::can_be_casted_to(&symbol_map, other)` -/
def canBeCastedTo (sm : SymMap) (a b : Ty) : Bool := Ty.canBeCastedTo sm.isSubclassOf a b

/-- `Record::common_class`: the first class among the ancestors of `recordId` that `other` is, or derives from
(parents first, then depth-first through the parents; explicit fuel) -/
def commonClassGo (sm : SymMap) (other : Nat) : Nat → Nat → Option Nat
  | 0, _ => none
  | fuel + 1, recordId =>
    let r := sm.record recordId
    match r.parentList.toList.find? (fun p => p == other || sm.isSubclassOf other p) with
    | some p => some p
    | none => r.parentList.toList.findSome? fun p => commonClassGo sm other fuel p

def commonClass (sm : SymMap) (recordId other : Nat) : Option Nat :=
  commonClassGo sm other sm.fieldFuel recordId

/-- `Type::common_typ(&symbol_map, other)` -/
def commonTyp (sm : SymMap) (a b : Ty) : Option Ty :=
  Ty.commonTyp sm.isSubclassOf sm.commonClass (fun id => (sm.record id).name) a b

/-- `Type::find_field` -/
def typFindField (sm : SymMap) (t : Ty) (name : String) : Option Nat :=
  match t with
  | .record id _ => sm.recordFindField id name
  | _ => none

/-! mutable api -/

def pushFileSymbol (sm : SymMap) (file : Nat) (s : SymbolId) : SymMap :=
  match sm.fileToSymbolList.findIdx? (fun e => e.1 == file) with
  | some i => { sm with fileToSymbolList := sm.fileToSymbolList.modify i fun e => (e.1, e.2.push s) }
  | none => { sm with fileToSymbolList := sm.fileToSymbolList.push (file, #[s]) }

/-- `verif_hooks::define` -/
def logDefine (sm : SymMap) (s : SymbolId) (name : String) (loc : FileRange) (anonymous : Bool) : SymMap :=
  { sm with
    ops := sm.ops.push (if anonymous then .defineAnon name.toList loc.toLoc else .define name.toList loc.toLoc),
    gidToSym := sm.gidToSym.push s }

/-- `add_record` -/
def addRecord (sm : SymMap) (r : Record) (isGlobal : Bool) : Nat × SymMap :=
  let id := sm.recordList.size
  let gid := sm.gidToSym.size
  let sm := { sm with recordList := sm.recordList.push r, recordGid := sm.recordGid.push gid }
  let sm := sm.logDefine (.record id) r.name r.defineLoc false
  let sm := match r.kind with
    | .cls => { sm with nameToClass := sm.nameToClass.insert r.name id }
    | .def_ => { sm with nameToDef := sm.nameToDef.insert r.name id }
  let sm := if isGlobal then sm.pushFileSymbol r.defineLoc.file (.record id) else sm
  (id, sm)

/-- `add_multiclass_def`: a def written inside a multiclass is outlined like a def but gets no entry in
`name_to_def` -/
def addMulticlassDef (sm : SymMap) (r : Record) : Nat × SymMap :=
  let id := sm.recordList.size
  let gid := sm.gidToSym.size
  let sm := { sm with recordList := sm.recordList.push r, recordGid := sm.recordGid.push gid }
  let sm := sm.logDefine (.record id) r.name r.defineLoc false
  (id, sm.pushFileSymbol r.defineLoc.file (.record id))

/-- `add_anonymous_def` -/
def addAnonymousDef (sm : SymMap) (r : Record) : Nat × SymMap :=
  let id := sm.recordList.size
  let gid := sm.gidToSym.size
  let sm := sm.logDefine (.record id) r.name r.defineLoc true
  (id, { sm with recordList := sm.recordList.push r, recordGid := sm.recordGid.push gid })

/-- `add_template_argument` -/
def addTemplateArgument (sm : SymMap) (a : TemplateArgument) : Nat × SymMap :=
  let id := sm.templateArgList.size
  let gid := sm.gidToSym.size
  let sm := { sm with templateArgList := sm.templateArgList.push a, templateArgGid := sm.templateArgGid.push gid }
  (id, sm.logDefine (.templateArgument id) a.name a.defineLoc false)

/-- `add_record_field` -/
def addRecordField (sm : SymMap) (f : RecordField) : Nat × SymMap :=
  let id := sm.recordFieldList.size
  let gid := sm.gidToSym.size
  let sm := { sm with recordFieldList := sm.recordFieldList.push f, recordFieldGid := sm.recordFieldGid.push gid }
  (id, sm.logDefine (.recordField id) f.name f.defineLoc false)

/-- `add_variable` -/
def addVariable (sm : SymMap) (v : Variable) : Nat × SymMap :=
  let id := sm.variableList.size
  let gid := sm.gidToSym.size
  let sm := { sm with variableList := sm.variableList.push v, variableGid := sm.variableGid.push gid }
  let sm := sm.logDefine (.var id) v.name v.defineLoc false
  (id, sm.pushFileSymbol v.defineLoc.file (.var id))

/-- `add_defset` -/
def addDefset (sm : SymMap) (d : Defset) : Nat × SymMap :=
  let id := sm.defsetList.size
  let gid := sm.gidToSym.size
  let sm := { sm with defsetList := sm.defsetList.push d, defsetGid := sm.defsetGid.push gid }
  let sm := sm.logDefine (.defset id) d.name d.defineLoc false
  (id, sm.pushFileSymbol d.defineLoc.file (.defset id))

/-- `register_defset_name` -/
def registerDefsetName (sm : SymMap) (id : Nat) : SymMap :=
  { sm with nameToDefset := sm.nameToDefset.insert (sm.defsetList[id]!).name id }

/-- `add_multiclass` -/
def addMulticlass (sm : SymMap) (m : Multiclass) : Nat × SymMap :=
  let id := sm.multiclassList.size
  let gid := sm.gidToSym.size
  let sm := { sm with multiclassList := sm.multiclassList.push m, multiclassGid := sm.multiclassGid.push gid }
  let sm := sm.logDefine (.multiclass id) m.name m.defineLoc false
  let sm := { sm with nameToMulticlass := sm.nameToMulticlass.insert m.name id }
  (id, sm.pushFileSymbol m.defineLoc.file (.multiclass id))

/-- `add_defm` -/
def addDefm (sm : SymMap) (d : Defm) (isGlobal : Bool) : Nat × SymMap :=
  let id := sm.defmList.size
  let gid := sm.gidToSym.size
  let sm := { sm with defmList := sm.defmList.push d, defmGid := sm.defmGid.push gid }
  let sm := sm.logDefine (.defm id) d.name d.defineLoc false
  let sm := if isGlobal then sm.pushFileSymbol d.defineLoc.file (.defm id) else sm
  (id, sm)

/-- `add_anonymous_defm` -/
def addAnonymousDefm (sm : SymMap) (d : Defm) : Nat × SymMap :=
  let id := sm.defmList.size
  let gid := sm.gidToSym.size
  let sm := sm.logDefine (.defm id) d.name d.defineLoc true
  (id, { sm with defmList := sm.defmList.push d, defmGid := sm.defmGid.push gid })

/-- `add_reference` (the reference list and the position map live in `SymbolMap.run ops`) -/
def addReference (sm : SymMap) (s : SymbolId) (loc : FileRange) : SymMap :=
  { sm with ops := sm.ops.push (.reference (sm.gidOf s) loc.toLoc) }

end SymMap

end Ide
end Tg
