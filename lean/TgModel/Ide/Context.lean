/-
`index/context.rs`: `IndexCtx` and its methods, as a state monad over `Except String`
(the exception = a Rust panic, with its message).

Rust's `?` inside `fn index(..) -> Option<..>` is written `let some x := e | return none`:
the state changes made before the early return stay.
-/
import TgModel.Ide.Scope
import TgModel.Ide.Workspace

namespace Tg
namespace Ide

structure Diagnostic where
  location : FileRange
  message : String
deriving Inhabited, Repr

structure IndexCtx where
  /-- `db`: parse trees and resolved include maps -/
  ws : Workspace
  /-- `file_trace`, most recent first -/
  fileTrace : List Nat
  indexedFiles : List Nat
  symbolMap : SymMap := {}
  diagnostics : Array Diagnostic := #[]
  scopes : Scopes := {}
  anonymousDefIndex : Nat := 0
deriving Inhabited

/-- `IndexCtx::new` -/
def IndexCtx.new (ws : Workspace) : IndexCtx :=
  { ws := ws, fileTrace := [ws.root], indexedFiles := [ws.root] }

abbrev IxM := StateT IndexCtx (Except String)

def panic {α : Type} (msg : String) : IxM α := throw msg

/-- run `f` on the symbol map with the context's reference to it dropped, so that the arrays are
updated in place -/
@[inline] def modifySM {α : Type} (f : SymMap → α × SymMap) : IxM α :=
  modifyGet fun c =>
    let sm := c.symbolMap
    let c := { c with symbolMap := default }
    let (a, sm) := f sm
    (a, { c with symbolMap := sm })

@[inline] def withSM {α : Type} (f : SymMap → α) : IxM α := do
  return f (← get).symbolMap

/-- `current_file_id` -/
def currentFileId : IxM Nat := do
  match (← get).fileTrace with
  | f :: _ => return f
  | [] => panic "file_trace is empty"

/-- `mark_indexed`: false if the file has already been indexed (included along another path or
through an include cycle) -/
def markIndexed (fileId : Nat) : IxM Bool :=
  modifyGet fun c =>
    if c.indexedFiles.contains fileId then (false, c)
    else (true, { c with indexedFiles := fileId :: c.indexedFiles })

def pushFile (fileId : Nat) : IxM Unit :=
  modify fun c => { c with fileTrace := fileId :: c.fileTrace }

def popFile : IxM Unit := do
  match (← get).fileTrace with
  | _ :: rest => modify fun c => { c with fileTrace := rest }
  | [] => panic "file_trace is empty"

/-- `resolve_id` -/
def resolveId (name : String) : IxM (Option SymbolId) := do
  let c ← get
  match c.scopes.findLocal c.symbolMap name with
  | some s => return some s
  | none =>
    match c.symbolMap.findDef name with
    | some d => return some (.record d)
    | none =>
      match c.symbolMap.findDefset name with
      | some d => return some (.defset d)
      | none => return none

/-- `IndexCtx::error` -/
def error (range : Nat × Nat) (message : String) : IxM Unit := do
  let file ← currentFileId
  modify fun c => { c with diagnostics := c.diagnostics.push { location := ⟨file, range.1, range.2⟩, message := message } }

/-- `next_anonymous_def_name` -/
def nextAnonymousDefName : IxM String :=
  modifyGet fun c => (s!"anonymous_{c.anonymousDefIndex}", { c with anonymousDefIndex := c.anonymousDefIndex + 1 })

/-! scope stack -/

def scopesPush (kind : ScopeKind) : IxM Unit :=
  modify fun c => { c with scopes := c.scopes.push kind }

def scopesPop : IxM Unit := do
  match (← get).scopes.pop with
  | some s => modify fun c => { c with scopes := s }
  | none => panic "scope is empty"

def currentRecordId : IxM (Option Nat) := do return (← get).scopes.currentRecordId
def currentDefsetId : IxM (Option Nat) := do return (← get).scopes.currentDefsetId
def currentMulticlassId : IxM (Option Nat) := do return (← get).scopes.currentMulticlassId
def currentDefmId : IxM (Option Nat) := do return (← get).scopes.currentDefmId

/-! symbol map -/

def addRecord (r : Record) (isGlobal : Bool) : IxM Nat := modifySM fun sm => sm.addRecord r isGlobal
def addAnonymousDef (r : Record) : IxM Nat := modifySM fun sm => sm.addAnonymousDef r
def addMulticlassDef (r : Record) : IxM Nat := modifySM fun sm => sm.addMulticlassDef r
def registerDefsetName (id : Nat) : IxM Unit := modifySM fun sm => ((), sm.registerDefsetName id)
def addTemplateArgument (a : TemplateArgument) : IxM Nat := modifySM fun sm => sm.addTemplateArgument a
def addRecordField (f : RecordField) : IxM Nat := modifySM fun sm => sm.addRecordField f
def addVariable (v : Variable) : IxM Nat := modifySM fun sm => sm.addVariable v
def addDefset (d : Defset) : IxM Nat := modifySM fun sm => sm.addDefset d
def addMulticlass (m : Multiclass) : IxM Nat := modifySM fun sm => sm.addMulticlass m
def addDefm (d : Defm) (isGlobal : Bool) : IxM Nat := modifySM fun sm => sm.addDefm d isGlobal
def addAnonymousDefm (d : Defm) : IxM Nat := modifySM fun sm => sm.addAnonymousDefm d
def addReference (s : SymbolId) (loc : FileRange) : IxM Unit := modifySM fun sm => ((), sm.addReference s loc)

/-- `record_mut(id)` followed by a mutation -/
def recordMut (id : Nat) (f : Record → Record) : IxM Unit :=
  modifySM fun sm => ((), { sm with recordList := sm.recordList.modify id f })

def multiclassMut (id : Nat) (f : Multiclass → Multiclass) : IxM Unit :=
  modifySM fun sm => ((), { sm with multiclassList := sm.multiclassList.modify id f })

def defmMut (id : Nat) (f : Defm → Defm) : IxM Unit :=
  modifySM fun sm => ((), { sm with defmList := sm.defmList.modify id f })

def defsetMut (id : Nat) (f : Defset → Defset) : IxM Unit :=
  modifySM fun sm => ((), { sm with defsetList := sm.defsetList.modify id f })

/-- `Scopes::add_variable` -/
def scopesAddVariable (v : Variable) : IxM Unit := do
  let name := v.name
  let id ← addVariable v
  let ok ← modifyGet fun c =>
    let sc := c.scopes
    let c := { c with scopes := { scopes := [] } }
    match sc.insertVariable name id with
    | some s => (true, { c with scopes := s })
    | none => (false, c)
  unless ok do panic "scope is empty"

/-- `value_typ.can_be_casted_to(&ctx.symbol_map, typ)` -/
def canBeCastedTo (a b : Ty) : IxM Bool := withSM fun sm => sm.canBeCastedTo a b

/-- `index::utils::identifier` -/
def utilsIdentifier (identifier : PTree) : IxM (Option (String × FileRange)) := do
  let some name := Ast.identifierValue identifier | return none
  let file ← currentFileId
  let some (s, e) := Ast.identifierRange identifier | return none
  return some (name, ⟨file, s, e⟩)

/-- the re-entrant `Indexable` impls (the only cycles of the call graph go through these);
`Index.lean` ties the knot with explicit fuel -/
structure Rec where
  sourceFile : PTree → IxM Unit
  statementList : PTree → IxM Unit
  value : PTree → IxM (Option Ty)
  typ : PTree → IxM (Option Ty)

end Ide
end Tg
