/-
`file_system.rs`: `collect_sources`, `list_includes`, `resolve_include_file`, on top of the
in-memory file system of the harness (`MemFs` in `harness/src/ws.rs`).  The result is the
"database": per file id the path, the parse (tree with offsets + syntax errors) and the resolved
include map (keyed by the text range of the `Include` node = its `SyntaxNodePtr`), plus the file
set of the source root.
-/
import TgModel.Ide.Ast
import TgModel.Ide.Path

namespace Tg
namespace Ide

structure FileInfo where
  path : String
  tree : PTree
  errors : List SynError
  /-- `resolved_include_map(file)`: range of the `Include` node ↦ file id -/
  includeMap : List ((Nat × Nat) × Nat) := []
deriving Inhabited

structure Workspace where
  /-- index = `FileId`; every id that was ever assigned gets collected, so the array is total -/
  files : Array FileInfo
  root : Nat
  /-- `SourceRoot::iter_files` (in collection order) -/
  fileSet : List Nat
deriving Inhabited

namespace Workspace

def file? (ws : Workspace) (id : Nat) : Option FileInfo := ws.files[id]?

def tree (ws : Workspace) (id : Nat) : PTree :=
  match ws.files[id]? with
  | some f => f.tree
  | none => .node .SourceFile 0 0 1 #[]

def pathStr (ws : Workspace) (id : Nat) : String :=
  match ws.files[id]? with
  | some f => f.path
  | none => s!"?{id}"

/-- `MemFs::id_of` -/
def idOf (ws : Workspace) (p : String) : Option Nat :=
  ws.files.findIdx? fun f => Path.pathEq f.path p

/-- sum of tree heights: bounds the nesting of the re-entrant indexer functions -/
def depthBound (ws : Workspace) : Nat :=
  ws.files.foldl (fun n f => n + f.tree.height + 2) 8

end Workspace

/-- `list_includes` -/
def listIncludes (root : PTree) : List ((Nat × Nat) × String) :=
  match Ast.sourceFileCast root with
  | none => []
  | some sf =>
    -- `source_file.syntax().descendants().filter_map(ast::Include::cast)`: includes inside blocks too
    (descendants sf (fun n => n.kind == .Include)).toList.filterMap fun c =>
      match Ast.includePath c.here with
      | some p => some ((c.here.start, c.here.stop), Ast.stringValue p)
      | none => none

/-- the harness file system + the salsa inputs while sources are collected -/
structure Collect where
  vfs : List (String × String)
  paths : Array String := #[]            -- `MemFs::paths`: id ↦ first spelling of the path
  contents : Array String := #[]         -- `file_content` input
  infos : Array (Option FileInfo) := #[]
  fileSet : Array Nat := #[]
  queue : List Nat := []

namespace Collect

/-- `MemFs::read_content` (`HashMap<FilePath, String>` lookup: component-wise path equality) -/
def readContent (c : Collect) (p : String) : Option String :=
  ((c.vfs.filter fun e => Path.pathEq e.1 p).getLast?).map (·.2)

/-- `MemFs::assign_or_get_file_id` -/
def assignOrGetFileId (c : Collect) (p : String) : Nat × Collect :=
  match c.paths.findIdx? (fun q => Path.pathEq q p) with
  | some id => (id, c)
  | none => (c.paths.size, { c with paths := c.paths.push p, contents := c.contents.push "", infos := c.infos.push none })

/-- `resolve_include_file` -/
def resolveIncludeFile (c : Collect) (includePath : String) : List String → Option Nat × Collect
  | [] => (none, c)
  | dir :: dirs =>
    let cand := Path.join dir includePath
    match c.readContent cand with
    | some content =>
      let (id, c) := c.assignOrGetFileId cand
      (some id, { c with contents := c.contents.set! id content })
    | none => resolveIncludeFile c includePath dirs

end Collect

inductive ParseFail where
  | panic (msg : String)

def parseFile (text : String) : Except String (PTree × List SynError) :=
  match Grammar.parse text.toList with
  | .ok r => .ok (PTree.ofTree r.tree, r.errors)
  | .panic w => .error s!"parser panic: {repr w}"
  | .outOfFuel => .error "model: parser out of fuel"

/-- the `while let Some(file_id) = files.pop_front()` loop of `collect_sources` -/
def collectLoop (includeDir : Option String) : Nat → Collect → Except String Collect
  | 0, _ => .error "model: out of fuel in collect_sources"
  | fuel + 1, c =>
    match c.queue with
    | [] => .ok c
    | fileId :: queue =>
      let c := { c with queue := queue }
      if c.fileSet.contains fileId then collectLoop includeDir fuel c else
      match parseFile (c.contents.getD fileId "") with
      | .error e => .error e
      | .ok (tree, errors) =>
        let filePath := c.paths.getD fileId ""
        let c := { c with fileSet := c.fileSet.push fileId }
        -- (a path without a parent, such as `/`, has no directory of its own to search)
        let dirs := (Path.parent filePath).toList ++ (match includeDir with | some d => [d] | none => [])
        let (c, incMap) := (listIncludes tree).foldl (fun (st : Collect × List ((Nat × Nat) × Nat)) inc =>
          match st.1.resolveIncludeFile inc.2 dirs with
          | (some id, c') => ({ c' with queue := c'.queue ++ [id] }, st.2 ++ [(inc.1, id)])
          | (none, c') => (c', st.2)) (c, [])
        let info : FileInfo := { path := filePath, tree := tree, errors := errors, includeMap := incMap }
        collectLoop includeDir fuel { c with infos := c.infos.set! fileId (some info) }

/-- `MemFs` + `build` of the harness + `AnalysisHost::set_root_file` -/
def buildWorkspace (vfs : List (String × String)) (rootPath : String) (includeDir : Option String) :
    Except String Workspace :=
  let c0 : Collect := { vfs := vfs }
  let (root, c1) := c0.assignOrGetFileId rootPath
  let c1 := { c1 with contents := c1.contents.set! root ((c1.readContent rootPath).getD ""), queue := [root] }
  let fuel := vfs.foldl (fun n e => n + e.2.length + 1) 16
  match collectLoop includeDir fuel c1 with
  | .error e => .error e
  | .ok c =>
    let files := c.infos.mapIdx fun i o =>
      match o with
      | some f => f
      | none => { path := c.paths.getD i "", tree := .node .SourceFile 0 0 1 #[], errors := [] }
    .ok { files := files, root := root, fileSet := c.fileSet.toList }

end Ide
end Tg
