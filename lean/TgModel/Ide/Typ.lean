/-
`crates/ide/src/symbol_map/typ.rs`: `Type`, its `Display`, `element_typ`, `can_be_casted_to`,
`is_bits` / `is_list` / `is_record`.  The subclass test of records is a parameter here (it needs the
record arena, see `State.lean`).
-/
namespace Tg
namespace Ide

inductive Ty where
  | bit
  | int
  | string
  | code
  | dag
  | bits (width : Nat)
  | list (elm : Ty)
  | record (id : Nat) (name : String)
  | uninitialized
  | unknown
  | any
deriving BEq, Inhabited, Repr

namespace Ty

/-- `impl Display for Type` -/
def toStr : Ty → String
  | .bit => "bit"
  | .int => "int"
  | .string => "string"
  | .code => "code"
  | .dag => "dag"
  | .bits w => "bits<" ++ toString w ++ ">"
  | .list t => "list<" ++ t.toStr ++ ">"
  | .record _ name => name
  | .uninitialized => "uninitialized"
  | .unknown => "unknown"
  | .any => "any"

instance : ToString Ty := ⟨toStr⟩

/-- `element_typ` -/
def elementTyp : Ty → Option Ty
  | .bits _ => some .bit
  | .list t => some t
  | _ => none

/-- `specificity`: `?`, the element type of `[]` and an undetermined type say nothing -/
def specificity : Ty → Nat
  | .uninitialized | .unknown | .any => 0
  | .list t => 1 + specificity t
  | _ => 1

def isBits : Ty → Bool
  | .bits _ | .uninitialized => true
  | _ => false

def isList : Ty → Bool
  | .list _ | .uninitialized => true
  | _ => false

def isRecord : Ty → Bool
  | .record .. | .uninitialized => true
  | _ => false

/-- `can_be_casted_to`; `isSubclassOf a b` = `record(a).is_subclass_of(symbol_map, b)`.
The arms are tried in the order of the Rust `match`. -/
def canBeCastedTo (isSubclassOf : Nat → Nat → Bool) : Ty → Ty → Bool
  | .uninitialized, _ => true
  | _, .uninitialized => true
  | .any, _ => true
  | _, .any => true
  | .unknown, _ => true
  | _, .unknown => true
  | .int, .bit => true
  | .bit, .int => true
  | .bit, .bits 1 => true
  | .bits 1, .bit => true
  | .int, .bits _ => true
  | .bits _, .int => true
  | .string, .code => true
  | .code, .string => true
  | .list a, .list b => canBeCastedTo isSubclassOf a b
  | .record a _, .record b _ => a == b || isSubclassOf a b
  | a, b => a == b

/-- `Type::common_typ`: what two values have in common when neither can be cast to the other; `commonClass a b` =
`record(a).common_class(symbol_map, b)`, `name id` = the name of a record -/
def commonTyp (isSubclassOf : Nat → Nat → Bool) (commonClass : Nat → Nat → Option Nat) (name : Nat → String) : Ty → Ty → Option Ty
  | .record a _, .record b _ =>
    match commonClass a b with
    | some c => some (.record c (name c))
    | none => none
  | .list a, .list b =>
    if canBeCastedTo isSubclassOf a b then some (.list b)
    else if canBeCastedTo isSubclassOf b a then some (.list a)
    else match commonTyp isSubclassOf commonClass name a b with
      | some t => some (.list t)
      | none => none
  | _, _ => none

end Ty
end Ide
end Tg
