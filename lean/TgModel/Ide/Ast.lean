/-
`crates/syntax/src/ast.rs`: typed accessors over the tree.

* `child` (`rowan::ast::support::child`) = first child NODE whose kind can be cast,
* `children` = all castable child nodes in order, `nthChild` = `children.nth(i)`,
* enum ASTs cast by node kind (the `*Kinds` lists below).

One accessor per AST field used by the indexer / handlers, named `<node><Field>`.
-/
import TgModel.Ide.PTree

namespace Tg
namespace Ide
namespace Ast

def child (n : PTree) (p : SyntaxKind → Bool) : Option PTree :=
  n.children.find? fun c => c.isNode && p c.kind

def children (n : PTree) (p : SyntaxKind → Bool) : List PTree :=
  (n.children.filter fun c => c.isNode && p c.kind).toList

def nthChild (n : PTree) (p : SyntaxKind → Bool) (i : Nat) : Option PTree :=
  (children n p)[i]?

def is (k : SyntaxKind) : SyntaxKind → Bool := fun k' => k' == k
def isAny (ks : List SyntaxKind) : SyntaxKind → Bool := fun k' => ks.contains k'

/-! enum ASTs -/
def statementKinds : List SyntaxKind :=
  [.Include, .Assert, .Class, .Def, .Defm, .Defset, .Defvar, .Dump, .Foreach, .If, .Let, .MultiClass]
def foreachIteratorInitKinds : List SyntaxKind := [.RangeList, .RangePiece, .Value]
def argValueKinds : List SyntaxKind := [.PositionalArgValue, .NamedArgValue]
def bodyItemKinds : List SyntaxKind := [.FieldDef, .FieldLet, .Defvar, .Assert, .Dump]
def typeKinds : List SyntaxKind :=
  [.BitType, .IntType, .StringType, .DagType, .BitsType, .ListType, .ClassId, .CodeType]
def valueSuffixKinds : List SyntaxKind := [.RangeSuffix, .SliceSuffix, .FieldSuffix]
def simpleValueKinds : List SyntaxKind :=
  [.Integer, .String, .Code, .Boolean, .Uninitialized, .Bits, .List, .Dag, .Identifier, .ClassValue,
   .BangOperator, .CondOperator]

/-- `ast::SourceFile::cast` -/
def sourceFileCast (t : PTree) : Option PTree := if t.isNode && t.kind == .SourceFile then some t else none

def sourceFileStatementList (n : PTree) := child n (is .StatementList)
def statementListStatements (n : PTree) := children n (isAny statementKinds)
def includePath (n : PTree) := child n (is .String)
def className (n : PTree) := child n (is .Identifier)
def classTemplateArgList (n : PTree) := child n (is .TemplateArgList)
def classRecordBody (n : PTree) := child n (is .RecordBody)
def defName (n : PTree) := child n (is .Value)
def defRecordBody (n : PTree) := child n (is .RecordBody)
def letLetList (n : PTree) := child n (is .LetList)
def letStatementList (n : PTree) := child n (is .StatementList)
def letListItems (n : PTree) := children n (is .LetItem)
def letItemValue (n : PTree) := child n (is .Value)
def multiClassName (n : PTree) := child n (is .Identifier)
def multiClassTemplateArgList (n : PTree) := child n (is .TemplateArgList)
def multiClassParentClassList (n : PTree) := child n (is .ParentClassList)
def multiClassStatementList (n : PTree) := child n (is .StatementList)
def defmName (n : PTree) := child n (is .Value)
def defmParentClassList (n : PTree) := child n (is .ParentClassList)
def defsetType (n : PTree) := child n (isAny typeKinds)
def defsetName (n : PTree) := child n (is .Identifier)
def defsetStatementList (n : PTree) := child n (is .StatementList)
def defvarName (n : PTree) := child n (is .Identifier)
def defvarValue (n : PTree) := child n (is .Value)
def dumpValue (n : PTree) := child n (is .Value)
def foreachIterator (n : PTree) := child n (is .ForeachIterator)
def foreachBody (n : PTree) := child n (is .StatementList)
def foreachIteratorName (n : PTree) := child n (is .Identifier)
def foreachIteratorInit (n : PTree) := child n (isAny foreachIteratorInitKinds)
def ifCondition (n : PTree) := child n (is .Value)
def ifThenBody (n : PTree) := nthChild n (is .StatementList) 0
def ifElseBody (n : PTree) := nthChild n (is .StatementList) 1
def assertCondition (n : PTree) := nthChild n (is .Value) 0
def assertMessage (n : PTree) := nthChild n (is .Value) 1
def templateArgListArgs (n : PTree) := children n (is .TemplateArgDecl)
def templateArgDeclType (n : PTree) := child n (isAny typeKinds)
def templateArgDeclName (n : PTree) := child n (is .Identifier)
def templateArgDeclValue (n : PTree) := child n (is .Value)
def recordBodyParentClassList (n : PTree) := child n (is .ParentClassList)
def recordBodyBody (n : PTree) := child n (is .Body)
def parentClassListClasses (n : PTree) := children n (is .ClassRef)
def classRefName (n : PTree) := child n (is .Identifier)
def classRefArgValueList (n : PTree) := child n (is .ArgValueList)
def argValueListArgValues (n : PTree) := children n (isAny argValueKinds)
def positionalArgValueValue (n : PTree) := nthChild n (is .Value) 0
def namedArgValueName (n : PTree) := nthChild n (is .Value) 0
def namedArgValueValue (n : PTree) := nthChild n (is .Value) 1
def bodyItems (n : PTree) := children n (isAny bodyItemKinds)
def fieldDefType (n : PTree) := child n (isAny typeKinds)
def fieldDefName (n : PTree) := child n (is .Identifier)
def fieldDefValue (n : PTree) := child n (is .Value)
def fieldLetName (n : PTree) := child n (is .Identifier)
def fieldLetValue (n : PTree) := child n (is .Value)
def fieldLetRangeList (n : PTree) := child n (is .RangeList)
def rangeSuffixRangeList (n : PTree) := child n (is .RangeList)
def rangeListPieces (n : PTree) := children n (is .RangePiece)
def rangePieceStart (n : PTree) := nthChild n (is .Integer) 0
def rangePieceEnd (n : PTree) := nthChild n (is .Integer) 1
def bitsTypeLength (n : PTree) := child n (is .Integer)
def listTypeInnerType (n : PTree) := child n (isAny typeKinds)
def classIdName (n : PTree) := child n (is .Identifier)
def valueInnerValues (n : PTree) := children n (is .InnerValue)
def innerValueSimpleValue (n : PTree) := child n (isAny simpleValueKinds)
def innerValueSuffixes (n : PTree) := children n (isAny valueSuffixKinds)
def sliceSuffixElementList (n : PTree) := child n (is .SliceElements)
def sliceElementsElements (n : PTree) := children n (is .SliceElement)
def sliceElementEnd (n : PTree) := nthChild n (is .Value) 1
def fieldSuffixName (n : PTree) := child n (is .Identifier)
def bitsValueList (n : PTree) := child n (is .ValueList)
def listValueList (n : PTree) := child n (is .ValueList)
def listType (n : PTree) := child n (isAny typeKinds)
def valueListValues (n : PTree) := children n (is .Value)
def dagOperator (n : PTree) := child n (is .DagArg)
def dagArgList (n : PTree) := child n (is .DagArgList)
def dagArgListArgs (n : PTree) := children n (is .DagArg)
def dagArgValue (n : PTree) := child n (is .Value)
def classValueName (n : PTree) := child n (is .Identifier)
def classValueArgValueList (n : PTree) := child n (is .ArgValueList)
def bangOperatorType (n : PTree) := child n (isAny typeKinds)
def bangOperatorValues (n : PTree) := children n (is .Value)
def condOperatorClauses (n : PTree) := children n (is .CondClause)
def condClauseCondition (n : PTree) := nthChild n (is .Value) 0
def condClauseValue (n : PTree) := nthChild n (is .Value) 1

/-- `SliceSuffix::is_single_element` -/
def sliceSuffixIsSingleElement (n : PTree) : Bool :=
  match sliceSuffixElementList n with
  | none => false
  | some list =>
    let elements := sliceElementsElements list
    let numColon := (n.children.filter fun c => c.kind == .Colon).size
    match elements with
    | [e] => (sliceElementEnd e).isNone && numColon == 0
    | _ => false

/-- `lexer::interpret_number` (result as the `i64` value) -/
def interpretNumber (text : List Char) : Option Int :=
  let allOf (p : Char → Bool) (ds : List Char) := !ds.isEmpty && ds.all p
  let wrap (v : Nat) : Int := if v ≥ Lex.i64MinAbs then (v : Int) - 18446744073709551616 else (v : Int)
  -- `u64::from_str_radix` accepts one leading `+`
  let unsignedOf (base : Nat) (p : Char → Bool) (ds : List Char) : Option Int :=
    let ds := match ds with | '+' :: r => r | _ => ds
    if allOf p ds && Lex.natOfDigits base ds ≤ Lex.u64Max then some (wrap (Lex.natOfDigits base ds)) else none
  match text with
  | '0' :: 'x' :: rest => unsignedOf 16 isAsciiHex rest
  | '0' :: 'b' :: rest => unsignedOf 2 (fun c => c == '0' || c == '1') rest
  | '-' :: rest =>
    if allOf isAsciiDigit rest && Lex.natOfDigits 10 rest ≤ Lex.i64MinAbs then
      some (- (Lex.natOfDigits 10 rest : Int)) else none
  | _ => unsignedOf 10 isAsciiDigit text

/-- `Integer::value` -/
def integerValue (n : PTree) : Option Int :=
  match n.firstToken with
  | none => none
  | some t => interpretNumber t.text.toList

def dropRightWhile (p : Char → Bool) (cs : List Char) : List Char :=
  (cs.reverse.dropWhile p).reverse

/-- `String::value`: every `StrVal` token with all leading and trailing `"` removed, concatenated -/
def stringValue (n : PTree) : String :=
  let parts := n.children.toList.filterMap fun c =>
    if c.isToken && c.kind == .StrVal then
      some (dropRightWhile (· == '"') (c.text.toList.dropWhile (· == '"')))
    else none
  String.ofList parts.flatten

/-- `Identifier::value` -/
def identifierValue (n : PTree) : Option String := n.firstToken.map (·.text)

/-- `Identifier::range` -/
def identifierRange (n : PTree) : Option (Nat × Nat) := n.firstToken.map fun t => (t.start, t.stop)

/-- `BangOperator::kind` -/
def bangOperatorKind (n : PTree) : Option SyntaxKind := n.firstToken.map (·.kind)

end Ast
end Ide
end Tg
