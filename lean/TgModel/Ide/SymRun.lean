/-
`runFast`: the same function as `Tg.SymbolMap.run` (the reference model that the handlers are
specified against), computed with arrays and a hash index instead of lists, so that operation
logs with tens of thousands of entries do not take quadratic time.

It is *not* proved equal to `SymbolMap.run` here; the driver uses it only for logs longer than
`fastThreshold` operations, and `compare.py --stream big` checks those answers against the real
implementation (the `wscheck` driver command additionally checks `runFast ops = run ops`
structurally on any workspace).
-/
import Std.Data.HashMap
import TgModel.SymbolMap

namespace Tg
namespace Ide
namespace SymRun
open Tg.SymbolMap

structure FastState where
  /-- reference lists are kept most-recent-first and reversed at the end -/
  syms : Array Sym := #[]
  pos : Array (Loc × Nat) := #[]
  /-- interval ↦ its index in `pos` -/
  idx : Std.HashMap (Nat × Nat × Nat) Nat := {}

def addPos (st : FastState) (l : Loc) (s : Nat) : FastState :=
  if l.isEmpty then st else
  let key := (l.file, l.start, l.stop)
  match st.idx[key]? with
  | some i => { st with pos := st.pos.set! i (l, s) }
  | none => { st with idx := st.idx.insert key st.pos.size, pos := st.pos.push (l, s) }

def step (st : FastState) : Op → FastState
  | .define name loc =>
    let gid := st.syms.size
    addPos { st with syms := st.syms.push { name := name, define := loc } } loc gid
  | .defineAnon name loc => { st with syms := st.syms.push { name := name, define := loc } }
  | .reference s loc =>
    if s < st.syms.size then
      addPos { st with syms := st.syms.modify s fun x => { x with refs := loc :: x.refs } } loc s
    else st

def runFast (ops : Array Op) : State :=
  let st := ops.foldl step {}
  { syms := (st.syms.map fun x => { x with refs := x.refs.reverse }).toList, pos := st.pos.toList }

/-- logs longer than this are evaluated with `runFast` by the driver -/
def fastThreshold : Nat := 3000

def locEq (a b : Loc) : Bool := a.file == b.file && a.start == b.start && a.stop == b.stop

/-- structural equality of two model states (for the self-check) -/
def stateEq (a b : State) : Bool :=
  a.syms.length == b.syms.length && a.pos.length == b.pos.length &&
  (a.syms.zip b.syms).all (fun (x, y) =>
    x.name == y.name && locEq x.define y.define && x.refs.length == y.refs.length &&
    (x.refs.zip y.refs).all fun (p, q) => locEq p q) &&
  (a.pos.zip b.pos).all fun (x, y) => locEq x.1 y.1 && x.2 == y.2

end SymRun
end Ide
end Tg
