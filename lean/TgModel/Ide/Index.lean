/-
`crates/ide/src/index.rs`: one definition per `Indexable` impl / helper, same names, same order of
effects, same early returns.

The impls that can re-enter themselves (`SourceFile` through `include`, `StatementList` through
nested statements, `Value` through nested values, `Type` through `list<..>`) are reached through the
`Rec` record; `mkRec` ties the knot with explicit fuel (`Workspace.depthBound` is sufficient: every
re-entry descends in a syntax tree or enters a file that was not indexed before).
-/
import TgModel.Ide.Bang

namespace Tg
namespace Ide
namespace Index

def nodeRange (n : PTree) : Nat × Nat := (n.start, n.stop)

/-- `impl Indexable for ast::Integer` -/
def indexInteger (n : PTree) : Option Int := Ast.integerValue n

/-- `impl Indexable for ast::SourceFile` -/
def indexSourceFile (r : Rec) (n : PTree) : IxM Unit := do
  let some list := Ast.sourceFileStatementList n | return
  r.statementList list

/-- `impl Indexable for ast::Include` -/
def indexInclude (r : Rec) (n : PTree) : IxM Unit := do
  let fileId ← currentFileId
  let ws := (← get).ws
  let includeMap := match ws.file? fileId with
    | some f => f.includeMap
    | none => []
  match includeMap.lookup (n.start, n.stop) with
  | none =>
    let path := ((Ast.includePath n).map Ast.stringValue).getD ""
    error (nodeRange n) s!"include file not found: {path}"
  | some includeFileId =>
    -- the declarations of a file are indexed once, however often it is included
    if !(← markIndexed includeFileId) then return
    let some sourceFile := Ast.sourceFileCast (ws.tree includeFileId) | return
    pushFile includeFileId
    r.sourceFile sourceFile
    popFile

/-- `impl Indexable for ast::Assert` -/
def indexAssert (r : Rec) (n : PTree) : IxM Unit := do
  let some message := Ast.assertMessage n | return
  let _ ← r.value message
  let some condition := Ast.assertCondition n | return
  let _ ← r.value condition

/-- `index_name_value` -/
def indexNameValue (value : PTree) : IxM (Option (String × FileRange)) := do
  let some name := (Ast.valueInnerValues value).head? | return none
  let some sv := Ast.innerValueSimpleValue name | return none
  if sv.kind == .Identifier then utilsIdentifier sv
  else if sv.kind == .String && (Ast.valueInnerValues value).length == 1 then
    -- `def "name"`: the name is what stands between the quotes of a single string
    let nm := Ast.stringValue sv
    let some tok := sv.firstToken | return none
    -- (several adjacent strings, or a quote escaped at an end, make a name that is not the text of one token)
    if nm.isEmpty || tok.text.toList != '"' :: (nm.toList ++ ['"']) then return none
    if tok.stop < tok.start + 2 then panic "assertion failed: start.raw <= end.raw"     -- `end - 1`, `TextRange::new`
    let file ← currentFileId
    return some (nm, ⟨file, tok.start + 1, tok.stop - 1⟩)
  else return none

/-- `impl Indexable for ast::Defvar` -/
def indexDefvar (r : Rec) (n : PTree) : IxM Unit := do
  let some nameNode := Ast.defvarName n | return
  let some (name, defineLoc) ← utilsIdentifier nameNode | return
  let some value := Ast.defvarValue n | return
  let typ := (← r.value value).getD .unknown
  scopesAddVariable { name := name, typ := typ, kind := .defvar, defineLoc := defineLoc }

/-- `impl Indexable for ast::Dump` -/
def indexDump (r : Rec) (n : PTree) : IxM Unit := do
  let some value := Ast.dumpValue n | return
  let _ ← r.value value

/-- `impl Indexable for ast::ForeachIteratorInit` -/
def indexForeachIteratorInit (r : Rec) (n : PTree) : IxM (Option Ty) := do
  match n.kind with
  | .RangeList | .RangePiece => return some .int
  | _ =>
    match ← r.value n with
    | some t => return t.elementTyp
    | none => return none

/-- `impl Indexable for ast::ForeachIterator` -/
def indexForeachIterator (r : Rec) (n : PTree) : IxM (Option (String × Nat)) := do
  let some nameNode := Ast.foreachIteratorName n | return none
  let some (name, defineLoc) ← utilsIdentifier nameNode | return none
  let some init := Ast.foreachIteratorInit n | return none
  let typ := (← indexForeachIteratorInit r init).getD .unknown
  let variableId ← addVariable { name := name, typ := typ, kind := .foreach, defineLoc := defineLoc }
  return some (name, variableId)

/-- `impl Indexable for ast::Foreach` -/
def indexForeach (r : Rec) (n : PTree) : IxM Unit := do
  let some iterator := Ast.foreachIterator n | return
  let some (name, variableId) ← indexForeachIterator r iterator | return
  scopesPush (.foreach name variableId)
  let some body := Ast.foreachBody n | return
  r.statementList body
  scopesPop

/-- `impl Indexable for ast::If` -/
def indexIf (r : Rec) (n : PTree) : IxM Unit := do
  let some condition := Ast.ifCondition n | return
  let _ ← r.value condition
  let some thenBody := Ast.ifThenBody n | return
  scopesPush .block
  r.statementList thenBody
  scopesPop
  let some elseBody := Ast.ifElseBody n | return
  scopesPush .block
  r.statementList elseBody
  scopesPop

/-- `impl Indexable for ast::LetItem` -/
def indexLetItem (r : Rec) (n : PTree) : IxM Unit := do
  let some value := Ast.letItemValue n | return
  let _ ← r.value value

/-- `impl Indexable for ast::LetList` -/
def indexLetList (r : Rec) (n : PTree) : IxM Unit := do
  for letItem in Ast.letListItems n do
    indexLetItem r letItem

/-- `impl Indexable for ast::Let` -/
def indexLet (r : Rec) (n : PTree) : IxM Unit := do
  let some letList := Ast.letLetList n | return
  indexLetList r letList
  let some statementList := Ast.letStatementList n | return
  scopesPush .block
  r.statementList statementList
  scopesPop

/-- `impl Indexable for ast::TemplateArgDecl` -/
def indexTemplateArgDecl (r : Rec) (n : PTree) : IxM Unit := do
  let some nameNode := Ast.templateArgDeclName n | return
  let some (name, defineLoc) ← utilsIdentifier nameNode | return
  let some typNode := Ast.templateArgDeclType n | return
  let some typ ← r.typ typNode | return
  let hasDefaultValue := (Ast.templateArgDeclValue n).isSome
  let templateArgId ← addTemplateArgument
    { name := name, typ := typ, hasDefaultValue := hasDefaultValue, defineLoc := defineLoc }
  if let some recordId ← currentRecordId then
    recordMut recordId fun rec => { rec with nameToTemplateArg := indexMapInsert rec.nameToTemplateArg name templateArgId }
  else if let some multiclassId ← currentMulticlassId then
    multiclassMut multiclassId fun mc => { mc with nameToTemplateArg := indexMapInsert mc.nameToTemplateArg name templateArgId }
  else
    panic "template arg decl outside of record or multiclass"
  if let some value := Ast.templateArgDeclValue n then
    if let some valueTyp ← r.value value then
      if !(← canBeCastedTo valueTyp typ) then
        error (nodeRange value) s!"template argument '{name}' of type '{typ}' is incompatible with type '{valueTyp}'"

/-- `impl Indexable for ast::TemplateArgList` -/
def indexTemplateArgList (r : Rec) (n : PTree) : IxM Unit := do
  for templateArg in Ast.templateArgListArgs n do
    indexTemplateArgDecl r templateArg

abbrev ArgValue := Option String × Ty × (Nat × Nat)

/-- `impl Indexable for ast::ArgValue` -/
def indexArgValue (r : Rec) (n : PTree) : IxM (Option ArgValue) := do
  match n.kind with
  | .PositionalArgValue =>
    let some value := Ast.positionalArgValueValue n | return none
    let some typ ← r.value value | return none
    return some (none, typ, nodeRange n)
  | _ =>
    let some nameValue := Ast.namedArgValueName n | return none
    let some inner := (Ast.valueInnerValues nameValue).head? | return none
    let some sv := Ast.innerValueSimpleValue inner | return none
    let name ←
      if sv.kind == .Identifier then
        let some name := Ast.identifierValue sv | return none
        pure name
      else if sv.kind == .String then pure (Ast.stringValue sv)
      else
        error (nodeRange n) "the name of named argument should be a valid identifier"
        return none
    let some value := Ast.namedArgValueValue n | return none
    let some typ ← r.value value | return none
    return some (some name, typ, nodeRange n)

/-- `impl Indexable for ast::ArgValueList` -/
def indexArgValueList (r : Rec) (n : PTree) : IxM (List (Option ArgValue)) :=
  (Ast.argValueListArgValues n).mapM fun argValue => indexArgValue r argValue

/-- `check_template_args`.  `unsolved_args` is a `HashSet` in the real code: the order of the
"value not specified" diagnostics is arbitrary there; here it is the declaration order. -/
def checkTemplateArgs (templateArgs : List TemplateArgument) (argValues : List (Option ArgValue))
    (range : Nat × Nat) : IxM Unit := do
  if argValues.length > templateArgs.length then
    error range s!"too many arguments: {argValues.length}"
    return
  let mut unsolvedArgs : List String := (templateArgs.map (·.name)).eraseDups
  let mut idx := 0
  for argValue in argValues do
    let i := idx
    idx := idx + 1
    let some (argValueName, argValueTyp, argValueRange) := argValue | continue
    let mut argNameTyp : Option (String × Ty) := none
    match argValueName with
    | none =>
      match templateArgs[i]? with
      | some arg =>
        unsolvedArgs := unsolvedArgs.erase arg.name
        argNameTyp := some (arg.name, arg.typ)
      | none => panic "called `Option::unwrap()` on a `None` value"
    | some argValueName =>
      let arg := templateArgs.find? fun a => a.name == argValueName
      if unsolvedArgs.contains argValueName then
        unsolvedArgs := unsolvedArgs.erase argValueName
        argNameTyp := arg.map fun a => (a.name, a.typ)
      else if arg.isSome then
        error argValueRange s!"we can only specify the template argument '{argValueName}' once"
      else
        error argValueRange s!"argument '{argValueName}' doesn't exist"
    if let some (argName, argTyp) := argNameTyp then
      if !(← canBeCastedTo argValueTyp argTyp) then
        error argValueRange
          s!"value specified for template argument '{argName}' is type of {argValueTyp}; expected type {argTyp}"
  for unsolvedArg in unsolvedArgs do
    if let some arg := templateArgs.find? fun a => a.name == unsolvedArg then
      if !arg.hasDefaultValue then
        error range s!"value not specified for template argument '{unsolvedArg}'"

/-- `class.iter_template_arg().map(|id| ctx.symbol_map.template_arg(id)).cloned().collect()` -/
def templateArgsOf (names : Array (String × Nat)) : IxM (List TemplateArgument) :=
  withSM fun sm => names.toList.map fun e => sm.templateArg e.2

/-- `resolve_class_ref_as_class` -/
def resolveClassRefAsClass (r : Rec) (classRef : PTree) : IxM (Option Nat) := do
  let some nameNode := Ast.classRefName classRef | return none
  let some (name, referenceLoc) ← utilsIdentifier nameNode | return none
  let some classId ← withSM (fun sm => sm.findClass name)
    | do error (referenceLoc.start, referenceLoc.stop) s!"class not found: {name}"
         return none
  addReference (.record classId) referenceLoc
  let templateArgs ← templateArgsOf (← withSM fun sm => (sm.record classId).nameToTemplateArg)
  let argValues ← match Ast.classRefArgValueList classRef with
    | some l => indexArgValueList r l
    | none => pure []
  checkTemplateArgs templateArgs argValues (nodeRange classRef)
  return some classId

/-- `resolve_class_ref_as_multiclass` -/
def resolveClassRefAsMulticlass (r : Rec) (classRef : PTree) : IxM (Option Nat) := do
  let some nameNode := Ast.classRefName classRef | return none
  let some (name, referenceLoc) ← utilsIdentifier nameNode | return none
  let some multiclassId ← withSM (fun sm => sm.findMulticlass name)
    | do error (referenceLoc.start, referenceLoc.stop) s!"multiclass not found: {name}"
         return none
  addReference (.multiclass multiclassId) referenceLoc
  let templateArgs ← templateArgsOf (← withSM fun sm => (sm.multiclass multiclassId).nameToTemplateArg)
  let argValues ← match Ast.classRefArgValueList classRef with
    | some l => indexArgValueList r l
    | none => pure []
  checkTemplateArgs templateArgs argValues (nodeRange classRef)
  return some multiclassId

/-- `names_class_only`: the reference names a class and no multiclass -/
def namesClassOnly (classRef : PTree) : IxM Bool := do
  let some nameNode := Ast.classRefName classRef | return false
  let some (name, _) ← utilsIdentifier nameNode | return false
  withSM fun sm => (sm.findMulticlass name).isNone && (sm.findClass name).isSome

/-- one parent of a multiclass (or of a defm written inside it) that is (to be) a multiclass -/
def multiclassParent (r : Rec) (multiclassId : Nat) (classRef : PTree) : IxM Unit := do
  if let some parentMulticlassId ← resolveClassRefAsMulticlass r classRef then
    multiclassMut multiclassId fun mc => { mc with parentList := mc.parentList.push parentMulticlassId }

/-- one parent of a `defm` that is (to be) a multiclass -/
def defmMulticlassParent (r : Rec) (defmId : Nat) (classRef : PTree) : IxM Unit := do
  if let some parentMulticlassId ← resolveClassRefAsMulticlass r classRef then
    defmMut defmId fun d => { d with parentList := d.parentList.push parentMulticlassId }

/-- `utils::range_list_width`: the number of bits a range list selects (`u64`/`usize` arithmetic, `none` on a missing
or unreadable bound or on overflow); the end of `3-0` is the negative literal `-0` -/
def rangeListWidth (n : PTree) : Option Nat :=
  (Ast.rangeListPieces n).foldlM (init := 0) fun width piece =>
    match Ast.rangePieceStart piece with
    | none => none
    | some startNode =>
      match Ast.integerValue startNode with
      | none => none
      | some start =>
        let len : Option Nat :=
          match Ast.rangePieceEnd piece with
          | none => some 1
          | some endNode =>
            match Ast.integerValue endNode with
            | none => none
            | some e => some ((start.natAbs - e.natAbs) + (e.natAbs - start.natAbs) + 1)
        match len with
        | none => none
        | some l => if width + l < 18446744073709551616 then some (width + l) else none

/-- `SyntaxNode::text`: the texts of all tokens below a node, in order -/
def fullTextGo : Nat → PTree → List Char
  | 0, _ => []
  | _, .token _ _ _ t => t.toList
  | fuel + 1, .node _ _ _ _ cs => cs.toList.flatMap (fullTextGo fuel)

def fullText (t : PTree) : List Char := fullTextGo (t.height + 1) t

/-- `usize::saturating_add` -/
def satAdd (a b : Nat) : Nat := if a + b < 18446744073709551616 then a + b else 18446744073709551615

/-- `utils::binary_literal_width`: the number of digits of a value that is one binary literal -/
def binaryLiteralWidth (value : PTree) : Option Nat :=
  match Ast.dropRightWhile isWhitespace ((fullText value).dropWhile isWhitespace) with
  | '0' :: 'b' :: digits =>
    if !digits.isEmpty && digits.all (fun c => c == '0' || c == '1') then some digits.length else none
  | _ => none

/-- `utils::bits_typ` -/
def bitsTyp (width : Nat) : Ty := if width == 1 then .bit else .bits width

/-- the type of the bits a (possibly absent) range list selects; `unknown` when the width cannot be read -/
def rangeTyp (rangeList : Option PTree) : Ty :=
  match rangeList.bind rangeListWidth with
  | some w => bitsTyp w
  | none => .unknown

/-- `impl Indexable for ast::ParentClassList` -/
def indexParentClassList (r : Rec) (n : PTree) : IxM Unit := do
  if let some recordId ← currentRecordId then
    for classRef in Ast.parentClassListClasses n do
      if let some classId ← resolveClassRefAsClass r classRef then
        -- a record that lists itself as parent would make every walk over the class hierarchy recurse forever
        if classId == recordId then
          error (nodeRange classRef) "a record cannot inherit from itself"
          continue
        recordMut recordId fun rec => { rec with parentList := rec.parentList.push classId }
  else if let some multiclassId ← currentMulticlassId then
    -- the parent list of a defm written inside this multiclass ends up here as well
    let inDefm := (← currentDefmId).isSome
    match Ast.parentClassListClasses n with
    | [] => pure ()
    | first :: rest =>
      multiclassParent r multiclassId first
      for classRef in rest do
        if inDefm && (← namesClassOnly classRef) then
          let _ ← resolveClassRefAsClass r classRef
        else
          multiclassParent r multiclassId classRef
  else if let some defmId ← currentDefmId then
    -- the first parent is a multiclass; the multiclasses may be followed by classes for the records the defm creates
    match Ast.parentClassListClasses n with
    | [] => pure ()
    | first :: rest =>
      defmMulticlassParent r defmId first
      for classRef in rest do
        if ← namesClassOnly classRef then
          let _ ← resolveClassRefAsClass r classRef
        else
          defmMulticlassParent r defmId classRef
  else
    panic "parent class list outside of record or multiclass"

/-- `impl Indexable for ast::FieldDef` -/
def indexFieldDef (r : Rec) (n : PTree) : IxM Unit := do
  let some recordId ← currentRecordId | panic "field def outside of record"
  let some nameNode := Ast.fieldDefName n | return
  let some (name, defineLoc) ← utilsIdentifier nameNode | return
  let some typNode := Ast.fieldDefType n | return
  let some typ ← r.typ typNode | return
  let fieldId ← addRecordField { name := name, typ := typ, parent := recordId, defineLoc := defineLoc }
  recordMut recordId fun rec => { rec with nameToRecordField := indexMapInsert rec.nameToRecordField name fieldId }
  let some value := Ast.fieldDefValue n | return
  let some valueTyp ← r.value value | return
  if !(← canBeCastedTo valueTyp typ) then
    error (nodeRange value) s!"field '{name}' of type '{typ}' is incompatible with type '{valueTyp}'"

/-- `impl Indexable for ast::FieldLet` -/
def indexFieldLet (r : Rec) (n : PTree) : IxM Unit := do
  let some nameNode := Ast.fieldLetName n | return
  let some (name, referenceLoc) ← utilsIdentifier nameNode | return
  let some recordId ← currentRecordId | panic "field let outside of record"
  let some fieldId ← withSM (fun sm => sm.recordFindField recordId name)
    | do error (referenceLoc.start, referenceLoc.stop) s!"field not found: {name}"
         if let some value := Ast.fieldLetValue n then
           let _ ← r.value value
         return
  let fieldTyp ← withSM fun sm => (sm.recordField fieldId).typ
  -- an inherited field gets an entry of its own in this record; a field this record declares itself stays the one it is
  if (← withSM fun sm => (sm.recordField fieldId).parent) != recordId then
    let newFieldId ← addRecordField { name := name, typ := fieldTyp, parent := recordId, defineLoc := referenceLoc }
    recordMut recordId fun rec => { rec with nameToRecordField := indexMapInsert rec.nameToRecordField name newFieldId }
  addReference (.recordField fieldId) referenceLoc
  -- `let f{3-0} = v;` sets the selected bits only
  let fieldTyp := match Ast.fieldLetRangeList n with
    | some rangeList => rangeTyp (some rangeList)
    | none => fieldTyp
  let some value := Ast.fieldLetValue n | return
  let some valueTyp ← r.value value | return
  if !(← canBeCastedTo valueTyp fieldTyp) then
    error (nodeRange value) s!"field '{name}' of type '{fieldTyp}' is incompatible with type '{valueTyp}'"

/-- `impl Indexable for ast::BodyItem` -/
def indexBodyItem (r : Rec) (n : PTree) : IxM Unit := do
  match n.kind with
  | .FieldDef => indexFieldDef r n
  | .FieldLet => indexFieldLet r n
  | .Assert => indexAssert r n
  | .Defvar => indexDefvar r n
  | .Dump => indexDump r n
  | _ => return

/-- `impl Indexable for ast::Body` -/
def indexBody (r : Rec) (n : PTree) : IxM Unit := do
  for item in Ast.bodyItems n do
    indexBodyItem r item

/-- `impl Indexable for ast::RecordBody` -/
def indexRecordBody (r : Rec) (n : PTree) : IxM Unit := do
  let some parentClassList := Ast.recordBodyParentClassList n | return
  indexParentClassList r parentClassList
  let some body := Ast.recordBodyBody n | return
  indexBody r body

/-- `impl Indexable for ast::Class` -/
def indexClass (r : Rec) (n : PTree) : IxM Unit := do
  let some nameNode := Ast.className n | return
  let some (name, defineLoc) ← utilsIdentifier nameNode | return
  let recordId ← addRecord { name := name, kind := .cls, defineLoc := defineLoc } true
  scopesPush (.record recordId)
  if let some list := Ast.classTemplateArgList n then
    indexTemplateArgList r list
  if let some body := Ast.classRecordBody n then
    indexRecordBody r body
  scopesPop

/-- `impl Indexable for ast::Def` -/
def sameFileDefset : IxM (Option Nat) := do
  -- `current_defset_id().filter(|id| defset(id).define_loc.file == current_file_id())`
  let some defsetId ← currentDefsetId | return none
  let file ← currentFileId
  let dsFile ← withSM fun sm => (sm.defset defsetId).defineLoc.file
  return if dsFile == file then some defsetId else none

/-- the defset a `def` joins: `current_defset_id().filter(|id| current_multiclass_id().is_none() &&
defset(id).define_loc.file == current_file_id())` - a def written inside a multiclass never joins a defset
around the multiclass -/
def defDefset : IxM (Option Nat) := do
  let ds ← sameFileDefset
  return if (← currentMulticlassId).isSome then none else ds

def indexDef (r : Rec) (n : PTree) : IxM Unit := do
  let defsetId ← defDefset
  let mut defId := 0
  -- a name that is computed (`def !strconcat(..)`, `def "a" # b`) makes an anonymous record
  let named ← match Ast.defName n with
    | some nameValue => indexNameValue nameValue
    | none => pure none
  match named with
  | some (name, defineLoc) =>
    if (← currentMulticlassId).isSome then
      defId ← addMulticlassDef { name := name, kind := .def_, defineLoc := defineLoc }
    else
      defId ← addRecord { name := name, kind := .def_, defineLoc := defineLoc } defsetId.isNone
    if let some defsetId := defsetId then
      let d := defId
      defsetMut defsetId fun ds => { ds with defList := ds.defList.push d }
  | none =>
    let name ← nextAnonymousDefName
    let file ← currentFileId
    defId ← addAnonymousDef { name := name, kind := .def_, defineLoc := ⟨file, n.start, n.stop⟩ }
  scopesPush (.record defId)
  let some body := Ast.defRecordBody n | return
  indexRecordBody r body
  scopesPop

/-- `impl Indexable for ast::Defm` -/
def indexDefm (r : Rec) (n : PTree) : IxM Unit := do
  let defsetId ← sameFileDefset
  let mut defmId := 0
  let named ← match Ast.defmName n with
    | some nameValue => indexNameValue nameValue
    | none => pure none
  match named with
  | some (name, defineLoc) =>
    defmId ← addDefm { name := name, defineLoc := defineLoc } defsetId.isNone
  | none =>
    let name ← nextAnonymousDefName
    let file ← currentFileId
    defmId ← addAnonymousDefm { name := name, defineLoc := ⟨file, n.start, n.stop⟩ }
  scopesPush (.defm defmId)
  let some parentClassList := Ast.defmParentClassList n | return
  indexParentClassList r parentClassList
  scopesPop

/-- `impl Indexable for ast::Defset` -/
def indexDefset (r : Rec) (n : PTree) : IxM Unit := do
  let some nameNode := Ast.defsetName n | return
  let some (name, defineLoc) ← utilsIdentifier nameNode | return
  let some typNode := Ast.defsetType n | return
  let some typ ← r.typ typNode | return
  let defsetId ← addDefset { name := name, typ := typ, defineLoc := defineLoc }
  scopesPush (.defset defsetId)
  if let some statementList := Ast.defsetStatementList n then
    r.statementList statementList
  scopesPop
  registerDefsetName defsetId

/-- `impl Indexable for ast::MultiClass` -/
def indexMultiClass (r : Rec) (n : PTree) : IxM Unit := do
  let some nameNode := Ast.multiClassName n | return
  let some (name, defineLoc) ← utilsIdentifier nameNode | return
  let multiclassId ← addMulticlass { name := name, defineLoc := defineLoc }
  scopesPush (.multiclass multiclassId)
  if let some templateArgList := Ast.multiClassTemplateArgList n then
    indexTemplateArgList r templateArgList
  if let some parentClassList := Ast.multiClassParentClassList n then
    indexParentClassList r parentClassList
  if let some statementList := Ast.multiClassStatementList n then
    r.statementList statementList
  scopesPop

/-- `impl Indexable for ast::Statement` -/
def indexStatement (r : Rec) (n : PTree) : IxM Unit := do
  match n.kind with
  | .Include => indexInclude r n
  | .Assert => indexAssert r n
  | .Class => indexClass r n
  | .Def => indexDef r n
  | .Defm => indexDefm r n
  | .Defset => indexDefset r n
  | .Defvar => indexDefvar r n
  | .Dump => indexDump r n
  | .Foreach => indexForeach r n
  | .If => indexIf r n
  | .Let => indexLet r n
  | .MultiClass => indexMultiClass r n
  | _ => return

/-- `impl Indexable for ast::StatementList` -/
def indexStatementList (r : Rec) (n : PTree) : IxM Unit := do
  for statement in Ast.statementListStatements n do
    indexStatement r statement

/-- `impl Indexable for ast::Type` -/
def indexType (r : Rec) (n : PTree) : IxM (Option Ty) := do
  match n.kind with
  | .BitType => return some .bit
  | .IntType => return some .int
  | .StringType => return some .string
  | .CodeType => return some .code
  | .DagType => return some .dag
  | .BitsType =>
    let some length := Ast.bitsTypeLength n | return none
    let some len := indexInteger length | return none
    -- `len.try_into().ok()?` (i64 → usize)
    if len < 0 then return none
    return some (.bits len.toNat)
  | .ListType =>
    let some inner := Ast.listTypeInnerType n | return none
    let some elmTyp ← r.typ inner | return none
    return some (.list elmTyp)
  | .ClassId =>
    let some nameNode := Ast.classIdName n | return none
    let some (name, referenceLoc) ← utilsIdentifier nameNode | return none
    match ← withSM fun sm => sm.findClass name with
    | some classId =>
      addReference (.record classId) referenceLoc
      return some (.record classId name)
    | none =>
      error (referenceLoc.start, referenceLoc.stop) s!"class not found: {name}"
      return none
  | _ => return none

/-- the `ast::SimpleValue::Identifier` arm of `impl Indexable for ast::SimpleValue` -/
def indexIdentifierValue (identifier : PTree) : IxM (Option Ty) := do
  let some (name, referenceLoc) ← utilsIdentifier identifier | return none
  let some symbolId ← resolveId name
    | do
      if name == "NAME" then return some .string
      error (referenceLoc.start, referenceLoc.stop) s!"symbol not found: {name}"
      return none
  addReference symbolId referenceLoc
  match symbolId with
  | .record recordId =>
    let kind ← withSM fun sm => (sm.record recordId).kind
    if kind == .def_ then
      -- FIXME (in the real code): looks the def up by name again
      let some recordId ← withSM (fun sm => sm.findDef name) | return none
      return some (.record recordId name)
    else return none
  | .templateArgument id => return some (← withSM fun sm => (sm.templateArg id).typ)
  | .recordField id => return some (← withSM fun sm => (sm.recordField id).typ)
  | .var id => return some (← withSM fun sm => (sm.var id).typ)
  | .defset id => return some (← withSM fun sm => (sm.defset id).typ)
  | .multiclass _ => return none
  | .defm _ => return none

/-- the `ast::SimpleValue::ClassValue` arm -/
def indexClassValue (r : Rec) (classValue : PTree) : IxM (Option Ty) := do
  let some nameNode := Ast.classValueName classValue | return none
  let some (name, referenceLoc) ← utilsIdentifier nameNode | return none
  let some classId ← withSM (fun sm => sm.findClass name)
    | do error (referenceLoc.start, referenceLoc.stop) s!"class not found: {name}"
         return none
  addReference (.record classId) referenceLoc
  let templateArgs ← templateArgsOf (← withSM fun sm => (sm.record classId).nameToTemplateArg)
  let argValues ← match Ast.classValueArgValueList classValue with
    | some l => indexArgValueList r l
    | none => pure []
  checkTemplateArgs templateArgs argValues (nodeRange classValue)
  return some (.record classId name)

/-- `impl Indexable for ast::SimpleValue` -/
def indexSimpleValue (r : Rec) (n : PTree) : IxM (Option Ty) := do
  match n.kind with
  | .Integer => return some .int
  | .String => return some .string
  | .Code => return some .code
  | .Boolean => return some .bit
  | .Uninitialized => return some .uninitialized
  | .Bits =>
    let some valueList := Ast.bitsValueList n | return none
    -- an element that is itself several bits wide (`{ x{1-0}, 0b10, 0 }`) contributes all of them
    let mut width := 0
    for value in Ast.valueListValues valueList do
      match ← r.value value with
      | some (.bits elementWidth) => width := satAdd width elementWidth
      | _ => width := satAdd width ((binaryLiteralWidth value).getD 1)
    return some (.bits width)
  | .List =>
    let some valueList := Ast.listValueList n | return none
    -- `filter_map(..).collect()`: every element is indexed; the typed ones are kept with their ranges
    let mut valueTypes : Array Ty := #[]
    for value in Ast.valueListValues valueList do
      if let some typ ← r.value value then
        valueTypes := valueTypes.push typ
    -- `[a, b]<T>` and `[]<T>` spell the element type out
    let mut annotated : Option Ty := none
    if let some typNode := Ast.listType n then
      let some t ← r.typ typNode | return none
      annotated := some t
    let isAnnotated := annotated.isSome
    -- the elements of a list have one type: the widest among them, or what they have in common
    let mut elmTyp := annotated
    for typ in valueTypes.toList do
      match elmTyp with
      | none => elmTyp := some typ
      | some cur =>
        if ← canBeCastedTo typ cur then
          elmTyp := some cur
        else if !isAnnotated && (← canBeCastedTo cur typ) then
          elmTyp := some typ
        else
          let common ← if isAnnotated then pure none else withSM (fun sm => sm.commonTyp cur typ)
          match common with
          | some c => elmTyp := some c
          | none =>
            -- (any of the two may be the odd one out: the literal as a whole is at fault)
            error (nodeRange n) s!"list elements of type '{cur}' and '{typ}' are incompatible"
            elmTyp := some cur
    return some (.list (elmTyp.getD .any))
  | .Dag =>
    if let some value := (Ast.dagOperator n).bind Ast.dagArgValue then
      let _ ← r.value value
    if let some argList := Ast.dagArgList n then
      for value in (Ast.dagArgListArgs argList).filterMap Ast.dagArgValue do
        let _ ← r.value value
    return some .dag
  | .Identifier => indexIdentifierValue n
  | .ClassValue => indexClassValue r n
  | .BangOperator => Bang.indexBangOperator r n
  | .CondOperator =>
    -- the first clause value with a known type gives the type; `unknown` if there is none
    let mut typ : Option Ty := none
    for clause in Ast.condOperatorClauses n do
      if let some condition := Ast.condClauseCondition clause then
        let _ ← r.value condition
      if let some value := Ast.condClauseValue clause then
        let valueTyp ← r.value value
        if typ.isNone then typ := valueTyp
    return some (typ.getD .unknown)
  | _ => return none

/-- `impl Indexable for ast::InnerValue` -/
def indexInnerValue (r : Rec) (n : PTree) : IxM (Option Ty) := do
  let some simpleValue := Ast.innerValueSimpleValue n | return none
  let some lhs ← indexSimpleValue r simpleValue | return none
  let mut lhsTyp := lhs
  for suffix in Ast.innerValueSuffixes n do
    match suffix.kind with
    | .RangeSuffix =>
      match lhsTyp with
      | .bits _ => lhsTyp := rangeTyp (Ast.rangeSuffixRangeList suffix)   -- `b{0}` is a bit, `b{3...0}` are four bits
      | _ => return none
    | .SliceSuffix =>
      if Ast.sliceSuffixIsSingleElement suffix then
        let some t := lhsTyp.elementTyp | return none
        lhsTyp := t
      else
        pure ()
    | _ =>
      let some nameNode := Ast.fieldSuffixName suffix | return none
      let some (name, referenceLoc) ← utilsIdentifier nameNode | return none
      let cur := lhsTyp
      let some fieldId ← withSM (fun sm => sm.typFindField cur name)
        | do error (nodeRange suffix) s!"cannot access field: {name}"
             return none
      addReference (.recordField fieldId) referenceLoc
      lhsTyp ← withSM fun sm => (sm.recordField fieldId).typ
  return some lhsTyp

/-- `impl Indexable for ast::Value` -/
def indexValue (r : Rec) (n : PTree) : IxM (Option Ty) := do
  let innerValues := Ast.valueInnerValues n
  let some firstValue := innerValues.head? | return none
  let firstValueTyp ← indexInnerValue r firstValue
  for innerValue in innerValues.tail do
    let _ ← indexInnerValue r innerValue
  match innerValues.length with
  | 0 => return none
  | 1 => return firstValueTyp
  | _ =>
    -- `[1] # [2, 3]` pastes lists, everything else strings
    match firstValueTyp with
    | some (.list t) => return some (.list t)
    | _ => return some .string

/-- the knot: `mkRec fuel` are the four re-entrant impls, allowed `fuel` nested re-entries -/
def mkRec : Nat → Rec
  | 0 =>
    { sourceFile := fun _ => panic "model: out of fuel (index)"
      statementList := fun _ => panic "model: out of fuel (index)"
      value := fun _ => panic "model: out of fuel (index)"
      typ := fun _ => panic "model: out of fuel (index)" }
  | fuel + 1 =>
    { sourceFile := fun n => indexSourceFile (mkRec fuel) n
      statementList := fun n => indexStatementList (mkRec fuel) n
      value := fun n => indexValue (mkRec fuel) n
      typ := fun n => indexType (mkRec fuel) n }

structure IndexResult where
  symbolMap : SymMap
  diagnostics : Array Diagnostic
deriving Inhabited

/-- `fn index(db)`: index the root file; `.error msg` = the real code panics with `msg` -/
def index (ws : Workspace) : Except String IndexResult :=
  match Ast.sourceFileCast (ws.tree ws.root) with
  | none => .error "failed to SourceFile::cast"
  | some sourceFile =>
    match (indexSourceFile (mkRec ws.depthBound) sourceFile).run (IndexCtx.new ws) with
    | .error e => .error e
    | .ok (_, ctx) => .ok { symbolMap := ctx.symbolMap, diagnostics := ctx.diagnostics }

end Index
end Ide
end Tg
