/-
`PTree`: the rowan syntax tree annotated with byte offsets (the red tree), plus the rowan
navigation primitives that the IDE handlers use (`first_token`, `last_token`, `prev_token`,
`parent`, `covering_element`, `token_at_offset(..).left_biased()`, `descendants`).

rowan conventions that matter and are modelled literally:
* `first_token` / `last_token` follow the first / last child only (`first_child_or_token()?.first_token()`):
  an empty first child node yields `None` even if later children contain tokens;
* `prev_token` = last token of the previous sibling element, or of the previous sibling of the
  nearest ancestor that has one (`None` if that element has no last token);
* `covering_element` descends with `GreenNode::child_at_range` (a binary search with
  `TextRange::ordering`, then a `contains_range` filter) and asserts `contains_range` at every level.
-/
import TgModel.Grammar

namespace Tg
namespace Ide

/-- syntax tree with absolute byte offsets; `height` = 0 for tokens, 1 + max child height for nodes -/
inductive PTree where
  | node (k : SyntaxKind) (start stop height : Nat) (children : Array PTree)
  | token (k : SyntaxKind) (start stop : Nat) (text : String)
deriving Inhabited

namespace PTree

def kind : PTree → SyntaxKind
  | .node k .. => k
  | .token k .. => k

def start : PTree → Nat
  | .node _ s .. => s
  | .token _ s .. => s

def stop : PTree → Nat
  | .node _ _ e .. => e
  | .token _ _ e .. => e

def height : PTree → Nat
  | .node _ _ _ h _ => h
  | .token .. => 0

def children : PTree → Array PTree
  | .node _ _ _ _ cs => cs
  | .token .. => #[]

def isNode : PTree → Bool
  | .node .. => true
  | .token .. => false

def isToken (t : PTree) : Bool := !t.isNode

def text : PTree → String
  | .token _ _ _ t => t
  | .node .. => ""

/-- `TextRange::is_empty` -/
def isEmptyRange (t : PTree) : Bool := t.stop ≤ t.start

end PTree

mutual
/-- annotate a green tree; returns the tree and its end offset -/
def ofTreeAt : Tree → Nat → PTree × Nat
  | .token k text, pos =>
    let stop := pos + byteLen text
    (.token k pos stop (String.ofList text), stop)
  | .node k cs, pos =>
    let (arr, stop, h) := ofTreesAt cs pos #[] 0
    (.node k pos stop (h + 1) arr, stop)

def ofTreesAt : List Tree → Nat → Array PTree → Nat → Array PTree × Nat × Nat
  | [], pos, acc, h => (acc, pos, h)
  | t :: ts, pos, acc, h =>
    let (p, stop) := ofTreeAt t pos
    ofTreesAt ts stop (acc.push p) (max h p.height)
end

def PTree.ofTree (t : Tree) : PTree := (ofTreeAt t 0).1

/-! ### red-tree cursors -/

/-- an element together with its ancestors: `up` = (ancestor node, index of the child on the path),
innermost first -/
structure Cursor where
  here : PTree
  up : List (PTree × Nat) := []
deriving Inhabited

namespace Cursor

def root (t : PTree) : Cursor := { here := t }

/-- `parent()` -/
def parent (c : Cursor) : Option Cursor :=
  match c.up with
  | [] => none
  | (p, _) :: rest => some { here := p, up := rest }

def child (c : Cursor) (i : Nat) : Option Cursor :=
  (c.here.children[i]?).map fun ch => { here := ch, up := (c.here, i) :: c.up }

/-- `prev_sibling_or_token()` -/
def prevSiblingOrToken (c : Cursor) : Option Cursor :=
  match c.up with
  | (p, i + 1) :: rest => (p.children[i]?).map fun ch => { here := ch, up := (p, i) :: rest }
  | _ => none

def firstTokenGo : Nat → Cursor → Option Cursor
  | 0, _ => none
  | fuel + 1, c =>
    match c.here with
    | .token .. => some c
    | .node .. =>
      match c.child 0 with
      | none => none
      | some ch => firstTokenGo fuel ch

/-- `first_token()` (of a node or an element) -/
def firstToken (c : Cursor) : Option Cursor := firstTokenGo (c.here.height + 1) c

def lastTokenGo : Nat → Cursor → Option Cursor
  | 0, _ => none
  | fuel + 1, c =>
    match c.here with
    | .token .. => some c
    | .node _ _ _ _ cs =>
      if cs.size == 0 then none else
      match c.child (cs.size - 1) with
      | none => none
      | some ch => lastTokenGo fuel ch

/-- `last_token()` -/
def lastToken (c : Cursor) : Option Cursor := lastTokenGo (c.here.height + 1) c

/-- `ancestors().find_map(|it| it.prev_sibling_or_token())` over the ancestors given by `up` -/
def findPrevOfAncestors : List (PTree × Nat) → Option Cursor
  | [] => none
  | (p, i) :: rest =>
    match (Cursor.mk p rest).prevSiblingOrToken with
    | some e => some e
    | none => let _ := i; findPrevOfAncestors rest

/-- `SyntaxToken::prev_token()` -/
def prevToken (c : Cursor) : Option Cursor :=
  match c.prevSiblingOrToken with
  | some e => e.lastToken
  | none =>
    match findPrevOfAncestors c.up with
    | some e => e.lastToken
    | none => none

end Cursor

/-- first token of a plain tree (same descent as `Cursor.firstToken`) -/
def PTree.firstToken (t : PTree) : Option PTree := ((Cursor.root t).firstToken).map (·.here)

/-! ### `covering_element` -/

/-- `TextRange::ordering(child, other)` -/
def rangeOrdering (cs ce os oe : Nat) : Ordering :=
  if ce ≤ os then .lt else if oe ≤ cs then .gt else .eq

/-- the loop of `slice::binary_search_by` (Rust ≥ 1.82) -/
def bsearchLoop (f : Nat → Ordering) : Nat → Nat → Nat → Nat
  | 0, base, _ => base
  | fuel + 1, base, size =>
    if size > 1 then
      let half := size / 2
      let mid := base + half
      let base := if f mid == .gt then base else mid
      bsearchLoop f fuel base (size - half)
    else base

/-- `slice::binary_search_by`: `Ok i` ↦ `.ok i`, `Err i` ↦ `.error i` -/
def binarySearchBy (n : Nat) (f : Nat → Ordering) : Except Nat Nat :=
  if n == 0 then .error 0 else
  let base := bsearchLoop f n 0 n
  match f base with
  | .eq => .ok base
  | .lt => .error (base + 1)
  | .gt => .error base

/-- `GreenNode::child_at_range` / `SyntaxNode::child_or_token_at_range` -/
def childOrTokenAtRange (c : Cursor) (rs re : Nat) : Option Cursor :=
  let cs := c.here.children
  let f := fun i => match cs[i]? with
    | some ch => rangeOrdering ch.start ch.stop rs re
    | none => Ordering.gt
  let idx := match binarySearchBy cs.size f with
    | .ok i => i
    | .error i => i - 1
  match c.child idx with
  | some ch => if ch.here.start ≤ rs && re ≤ ch.here.stop then some ch else none
  | none => none

def fmtRange (s e : Nat) : String := s!"{s}..{e}"

def coveringGo : Nat → Cursor → Nat → Nat → Except String Cursor
  | 0, _, _, _ => .error "model: out of fuel in covering_element"
  | fuel + 1, c, rs, re =>
    if !(c.here.start ≤ rs && re ≤ c.here.stop) then
      .error s!"Bad range: node range {fmtRange c.here.start c.here.stop}, range {fmtRange rs re}"
    else
      match c.here with
      | .token .. => .ok c
      | .node .. =>
        match childOrTokenAtRange c rs re with
        | some ch => coveringGo fuel ch rs re
        | none => .ok c

/-- `SyntaxNode::covering_element(range)`; `.error` = the `assert!` failed -/
def coveringElement (root : PTree) (rs re : Nat) : Except String Cursor :=
  coveringGo (root.height + 2) (Cursor.root root) rs re

/-! ### `token_at_offset(offset).left_biased()` -/

def tokenAtOffsetGo : Nat → Cursor → Nat → Except String (Option Cursor)
  | 0, _, _ => .error "model: out of fuel in token_at_offset"
  | fuel + 1, c, offset =>
    match c.here with
    | .token .. => .ok (some c)
    | .node _ s e _ cs =>
      if !(s ≤ offset && offset ≤ e) then
        .error s!"Bad offset: range {fmtRange s e} offset {offset}"
      else if e ≤ s then .ok none
      else
        match cs.findIdx? (fun ch => !ch.isEmptyRange && ch.start ≤ offset && offset ≤ ch.stop) with
        | none => .error "called `Option::unwrap()` on a `None` value"
        | some i =>
          match c.child i with
          | none => .error "model: child index"
          | some ch => tokenAtOffsetGo fuel ch offset

/-- the left-biased token at an offset: `Single(t)` ↦ `t`, `Between(l, _)` ↦ `l`, `None` ↦ none -/
def tokenAtOffsetLeft (root : PTree) (offset : Nat) : Except String (Option Cursor) :=
  tokenAtOffsetGo (root.height + 2) (Cursor.root root) offset

/-! ### `descendants()` -/

/-- preorder node descendants (the node itself included) that satisfy `p`, as cursors -/
def descendantsGo (p : PTree → Bool) : Nat → Cursor → Array Cursor → Array Cursor
  | 0, _, acc => acc
  | fuel + 1, c, acc =>
    let acc := if c.here.isNode && p c.here then acc.push c else acc
    (List.range c.here.children.size).foldl (fun acc i =>
      match c.child i with
      | some ch => if ch.here.isNode then descendantsGo p fuel ch acc else acc
      | none => acc) acc

def descendants (root : PTree) (p : PTree → Bool) : Array Cursor :=
  descendantsGo p (root.height + 2) (Cursor.root root) #[]

/-- `utils::range_excluding_trivia` -/
def rangeExcludingTriviaGo : Nat → Nat → Option Cursor → Nat × Nat
  | 0, start, _ => (start, start)
  | fuel + 1, start, tok =>
    match tok with
    | none => (start, start)
    | some t =>
      if !t.here.kind.isTrivia then (start, t.here.stop)
      else rangeExcludingTriviaGo fuel start t.prevToken

/-- the loop runs at most once per token in front of the node's end; `fuel` = a bound on that -/
def rangeExcludingTrivia (fuel : Nat) (c : Cursor) : Nat × Nat :=
  rangeExcludingTriviaGo fuel c.here.start c.lastToken

end Ide
end Tg
