/-
`crates/ide/src/handlers/*.rs`: one `…Exec` per handler `exec`, plus their private helpers.

`Analysis` = the database snapshot the handlers run on: the workspace (parses, include maps), the
index (or the panic message if indexing panics: then every handler that calls `db.index()` panics)
and the `SymbolMap` model state `SymbolMap.run ops` (position map, reference lists).
Handlers return `Except String α`: `.error msg` = the real handler panics with `msg`.
-/
import TgModel.Ide.Index
import TgModel.Ide.SymRun

namespace Tg
namespace Ide

structure Analysis where
  ws : Workspace
  index : Except String Index.IndexResult
  /-- `SymbolMap.run ops` for the hook log of the indexer -/
  symState : Thunk Tg.SymbolMap.State

def Analysis.new (ws : Workspace) : Analysis :=
  let idx := Index.index ws
  { ws := ws, index := idx,
    symState := Thunk.mk fun _ =>
      match idx with
      | .ok r =>
        -- the reference semantics is `SymbolMap.run`; very long logs use the array implementation
        if r.symbolMap.ops.size > SymRun.fastThreshold then SymRun.runFast r.symbolMap.ops
        else Tg.SymbolMap.run r.symbolMap.ops.toList
      | .error _ => {} }

namespace Handlers

/-! ### diagnostics.rs -/

/-- `diagnostics::exec`: per file of the source root (in `iter_files` order, arbitrary in the real
code), the diagnostics in report order -/
def diagnosticsExec (an : Analysis) : Except String (List (Nat × List Diagnostic)) := do
  let ws := an.ws
  -- syntax errors of every file of the workspace (`source_root.iter_files()`)
  let syntaxDiags : List Diagnostic := ws.fileSet.flatMap fun fid =>
    match ws.file? fid with
    | some f => f.errors.map fun e => { location := ⟨fid, e.start, e.stop⟩, message := e.msg }
    | none => []
  let idx ← an.index
  let diagnosticList := syntaxDiags ++ idx.diagnostics.toList
  let init : List (Nat × List Diagnostic) := ws.fileSet.map fun f => (f, [])
  return diagnosticList.foldl (fun m d =>
    let f := d.location.file
    if m.any (·.1 == f) then m.map fun e => if e.1 == f then (e.1, e.2 ++ [d]) else e
    else m ++ [(f, [d])]) init

/-! ### document_symbol.rs -/

inductive DocumentSymbolKind where
  | cls | templateArgument | field | def_ | variable_ | defset | multiclass
deriving Inhabited, Repr

/-- `{:?}` of `DocumentSymbolKind` -/
def DocumentSymbolKind.debug : DocumentSymbolKind → String
  | .cls => "Class" | .templateArgument => "TemplateArgument" | .field => "Field" | .def_ => "Def"
  | .variable_ => "Variable" | .defset => "Defset" | .multiclass => "Multiclass"

structure DocumentSymbol where
  name : String
  typ : String
  range : Nat × Nat
  kind : DocumentSymbolKind
  children : List DocumentSymbol
deriving Inhabited

def rangeOf (r : FileRange) : Nat × Nat := (r.start, r.stop)

def fieldSymbols (sm : SymMap) (r : Record) : List DocumentSymbol :=
  r.nameToRecordField.toList.map fun e =>
    let field := sm.recordField e.2
    { name := field.name, typ := field.typ.toStr, range := rangeOf field.defineLoc, kind := .field, children := [] }

/-- the `Symbol::Record` arms of `symbol_to_document_symbol` -/
def recordToDocumentSymbol (sm : SymMap) (record : Record) : DocumentSymbol :=
  match record.kind with
  | .cls =>
    let templateArgumentList := record.nameToTemplateArg.toList.map fun e =>
      let arg := sm.templateArg e.2
      ({ name := arg.name, typ := arg.typ.toStr, range := rangeOf arg.defineLoc, kind := .templateArgument,
         children := [] } : DocumentSymbol)
    { name := record.name, typ := "class", range := rangeOf record.defineLoc, kind := .cls,
      children := templateArgumentList ++ fieldSymbols sm record }
  | .def_ =>
    { name := record.name, typ := "def", range := rangeOf record.defineLoc, kind := .def_,
      children := fieldSymbols sm record }

/-- `symbol_to_document_symbol` (the recursion through `Defset` reaches records only) -/
def symbolToDocumentSymbol (sm : SymMap) : SymbolId → Option DocumentSymbol
  | .record id => some (recordToDocumentSymbol sm (sm.record id))
  | .defset id =>
    let defset := sm.defset id
    some { name := defset.name, typ := "defset", range := rangeOf defset.defineLoc, kind := .defset,
           children := defset.defList.toList.map fun d => recordToDocumentSymbol sm (sm.record d) }
  | .multiclass id =>
    let mc := sm.multiclass id
    let templateArgumentList := mc.nameToTemplateArg.toList.map fun e =>
      let arg := sm.templateArg e.2
      ({ name := arg.name, typ := arg.typ.toStr, range := rangeOf arg.defineLoc, kind := .templateArgument,
         children := [] } : DocumentSymbol)
    some { name := mc.name, typ := "multiclass", range := rangeOf mc.defineLoc, kind := .multiclass,
           children := templateArgumentList }
  | _ => none

/-- `document_symbol::exec` -/
def documentSymbolExec (an : Analysis) (fileId : Nat) : Except String (Option (List DocumentSymbol)) := do
  let idx ← an.index
  let sm := idx.symbolMap
  let some iter := sm.iterSymbolsInFile fileId | return none
  return some (iter.toList.filterMap (symbolToDocumentSymbol sm))

/-! ### folding_range.rs -/

/-- `folding_range::exec` -/
def foldingRangeExec (an : Analysis) (fileId : Nat) : Except String (Option (List (Nat × Nat))) := do
  let root := an.ws.tree fileId
  let nodes := descendants root fun n => Tables.foldingKinds.contains n.kind
  return some (nodes.toList.map fun c => rangeExcludingTrivia (root.stop + 2) c)

/-! ### document_link.rs -/

/-- `document_link::exec`: (range, target file) -/
def documentLinkExec (an : Analysis) (fileId : Nat) : Except String (Option (List ((Nat × Nat) × Nat))) := do
  let includeMap := match an.ws.file? fileId with
    | some f => f.includeMap
    | none => []
  let root := an.ws.tree fileId
  let nodes := descendants root fun n => n.kind == .Include
  return some (nodes.toList.filterMap fun c =>
    match c.here.children.findIdx? (fun ch => ch.isNode && ch.kind == .String) with
    | none => none
    | some i =>
      match c.child i with
      | none => none
      | some pathCursor =>
        let range := rangeExcludingTrivia (root.stop + 2) pathCursor
        match includeMap.lookup (c.here.start, c.here.stop) with
        | none => none
        | some target => some (range, target))

/-! ### symbol lookup shared by goto_definition / references / hover -/

/-- `SymbolMap::find_symbol_at`, through the position map of `SymbolMap.run ops` -/
def findSymbolAt (an : Analysis) (sm : SymMap) (file pos : Nat) : Option SymbolId :=
  match Tg.SymbolMap.lookup an.symState.get.pos file pos with
  | some (_, gid) => sm.gidToSym[gid]?
  | none => none

def symbolDefineLoc (sm : SymMap) : SymbolId → FileRange
  | .record i => (sm.record i).defineLoc
  | .templateArgument i => (sm.templateArg i).defineLoc
  | .recordField i => (sm.recordField i).defineLoc
  | .var i => (sm.var i).defineLoc
  | .defset i => (sm.defset i).defineLoc
  | .multiclass i => (sm.multiclass i).defineLoc
  | .defm i => (sm.defm i).defineLoc

/-! ### goto_definition.rs / references.rs: answered by the `SymbolMap` model -/

/-- `goto_definition::exec` -/
def gotoDefinitionExec (an : Analysis) (file pos : Nat) : Except String (Option Tg.SymbolMap.Loc) := do
  let _ ← an.index
  return Tg.SymbolMap.gotoDef an.symState.get file pos

/-- `references::exec` -/
def referencesExec (an : Analysis) (file pos : Nat) : Except String (Option (List Tg.SymbolMap.Loc)) := do
  let _ ← an.index
  return Tg.SymbolMap.references an.symState.get file pos

/-! ### hover.rs -/

structure Hover where
  signature : String
  document : Option String

/-- `extract_symbol_signature` -/
def extractSymbolSignature (an : Analysis) (sm : SymMap) (file pos : Nat) : Option (String × FileRange) :=
  match findSymbolAt an sm file pos with
  | none => none
  | some symbol =>
    let symbolInfo : String := match symbol with
      | .record id =>
        let record := sm.record id
        match record.kind with
        | .cls =>
          let templateArg := ", ".intercalate (record.nameToTemplateArg.toList.map fun e =>
            let arg := sm.templateArg e.2
            s!"{arg.typ} {arg.name}")
          if templateArg.isEmpty then s!"class {record.name}" else s!"class {record.name}<{templateArg}>"
        | .def_ => s!"def {record.name}"
      | .templateArgument id => let a := sm.templateArg id; s!"{a.typ} {a.name}"
      | .recordField id =>
        let f := sm.recordField id
        let parent := sm.record f.parent
        s!"{f.typ} {parent.name}::{f.name}"
      | .var id => let v := sm.var id; s!"{v.typ} {v.name}"
      | .defset id => let d := sm.defset id; s!"{d.typ} {d.name}"
      | .multiclass id => s!"multiclass {(sm.multiclass id).name}"
      | .defm id => s!"defm {(sm.defm id).name}"
    some (symbolInfo, symbolDefineLoc sm symbol)

/-- `str::trim_start_matches('/').trim_start()` -/
def trimComment (s : String) : String :=
  String.ofList ((s.toList.dropWhile (· == '/')).dropWhile isWhitespace)

def countNewlines (s : String) : Nat := (s.toList.filter (· == '\n')).length

/-- the `loop` of `extract_doc_comments`; `comments` most recent first -/
def docCommentLoop : Nat → Cursor → List String → List String
  | 0, _, comments => comments
  | fuel + 1, cur, comments =>
    match cur.prevToken with
    | none => comments
    | some ws =>
      if ws.here.kind != .Whitespace || countNewlines ws.here.text != 1 then comments else
      match ws.prevToken with
      | none => comments
      | some c =>
        if c.here.kind != .LineComment then comments else
        let comment := c.here.text
        if !comment.startsWith "//" then comments else
        docCommentLoop fuel c (trimComment comment :: comments)

/-- `extract_doc_comments` -/
def extractDocComments (root : PTree) (rs re : Nat) : Except String (Option String) := do
  let idNode ← coveringElement root rs re
  let identifierNode ← match idNode.here.kind with
    | .Id =>
      match idNode.parent with
      | some p => pure p
      | none => return none
    | .Identifier => if idNode.here.isNode then pure idNode else return none
    | _ => return none
  -- Class or FieldDef or Defset or InnerValue
  let some parentNode0 := identifierNode.parent | return none
  let mut parentNode := parentNode0
  if parentNode.here.kind == .InnerValue then
    let some valueNode := parentNode.parent | return none
    -- Def
    let some p := valueNode.parent | return none
    parentNode := p
  let some curToken := parentNode.firstToken | return none
  -- `comments` is collected nearest-first and reversed by the real code; the loop conses, so the
  -- list is already in source order
  let comments := docCommentLoop (root.stop + 2) curToken []
  let doc := "\n".intercalate comments
  if doc.isEmpty then return none else return some doc

/-- `hover::exec` -/
def hoverExec (an : Analysis) (file pos : Nat) : Except String (Option Hover) := do
  let idx ← an.index
  let sm := idx.symbolMap
  let some (signature, defineLoc) := extractSymbolSignature an sm file pos | return none
  let root := an.ws.tree defineLoc.file
  let symbolDoc ← extractDocComments root defineLoc.start defineLoc.stop
  return some { signature := signature, document := symbolDoc }

/-! ### inlay_hint.rs -/

inductive InlayHintKind where
  | templateArg | fieldLet

def InlayHintKind.debug : InlayHintKind → String
  | .templateArg => "TemplateArg" | .fieldLet => "FieldLet"

structure InlayHint where
  position : Nat
  label : String
  kind : InlayHintKind

/-- the `match id_node.kind() { Id => parent()?, Identifier => into_node()?, _ => return None }` step -/
def identifierNodeOf (idNode : Cursor) (allowIdentifier : Bool) : Option Cursor :=
  match idNode.here.kind with
  | .Id => idNode.parent
  | .Identifier => if allowIdentifier && idNode.here.isNode then some idNode else none
  | _ => none

/-- `inlay_hint_template_args`: hints for the positional arguments of a reference to a class or a multiclass -/
def inlayHintTemplateArgs (an : Analysis) (templateArgNames : List String) (loc : FileRange) :
    Except String (Option (List InlayHint)) := do
  let root := an.ws.tree loc.file
  let idNode ← coveringElement root loc.start loc.stop
  let some identifierNode := identifierNodeOf idNode true | return none
  let some classNode := identifierNode.parent | return none
  let some argList := (match classNode.here.kind with
    | .ClassRef => Ast.classRefArgValueList classNode.here
    | .ClassValue => Ast.classValueArgValueList classNode.here
    | _ => none) | return none
  let argRanges := ((Ast.argValueListArgValues argList).takeWhile fun a => a.kind == .PositionalArgValue).map
    fun a => a.start
  return some ((argRanges.zip templateArgNames).map fun (start, name) =>
    { position := start, label := s!"{name}:", kind := .templateArg })

/-- `inlay_hint_class` -/
def inlayHintClass (an : Analysis) (sm : SymMap) (cls : Record) (loc : FileRange) :
    Except String (Option (List InlayHint)) :=
  inlayHintTemplateArgs an (cls.nameToTemplateArg.toList.map fun e => (sm.templateArg e.2).name) loc

/-- `inlay_hint_record_field` -/
def inlayHintRecordField (an : Analysis) (field : RecordField) (loc : FileRange) :
    Except String (Option (List InlayHint)) := do
  let root := an.ws.tree loc.file
  let idNode ← coveringElement root loc.start loc.stop
  let some identifierNode := identifierNodeOf idNode false | return none
  let some maybeFieldLetNode := identifierNode.parent | return none
  if maybeFieldLetNode.here.kind != .FieldLet then return none
  return some [{ position := loc.stop, label := s!":{field.typ}", kind := .fieldLet }]

/-- `IntervalMap::iter(range)`: the entries of the file that overlap `[a, b)`, in (start, end) order -/
def symbolsInRange (pos : List (Tg.SymbolMap.Loc × Nat)) (file a b : Nat) : List (Tg.SymbolMap.Loc × Nat) :=
  let hits := (pos.filter fun e => e.1.file == file && e.1.start < b && a < e.1.stop).toArray
  (hits.qsort fun x y => x.1.start < y.1.start || (x.1.start == y.1.start && x.1.stop < y.1.stop)).toList

/-- `inlay_hint::exec` -/
def inlayHintExec (an : Analysis) (file a b : Nat) : Except String (Option (List InlayHint)) := do
  let idx ← an.index
  let sm := idx.symbolMap
  -- the interval map rejects empty query ranges
  if b ≤ a then return some []
  let pos := an.symState.get.pos
  -- `pos_to_symbol_map.get(&loc.file)?`
  if !(pos.any fun e => e.1.file == file) then return none
  let mut hints : List InlayHint := []
  -- every symbol of the file is looked at (`whole_file`); the hints are kept by their own position below
  for (l, gid) in symbolsInRange pos file 0 (an.ws.tree file).stop do
    let symbolLoc : FileRange := ⟨file, l.start, l.stop⟩
    match sm.gidToSym[gid]? with
    | some (.record id) =>
      let record := sm.record id
      if record.kind == .cls then
        if let some newHints ← inlayHintClass an sm record symbolLoc then
          hints := hints ++ newHints
    | some (.multiclass id) =>
      let names := (sm.multiclass id).nameToTemplateArg.toList.map fun e => (sm.templateArg e.2).name
      if let some newHints ← inlayHintTemplateArgs an names symbolLoc then
        hints := hints ++ newHints
    | some (.recordField id) =>
      if let some newHints ← inlayHintRecordField an (sm.recordField id) symbolLoc then
        hints := hints ++ newHints
    | _ => pure ()
  -- `hints.retain(..)`: only the hints inside the requested range
  return some (hints.filter fun h => a ≤ h.position && h.position ≤ b)

/-! ### completion.rs -/

inductive CompletionItemKind where
  | keyword | type | cls

def CompletionItemKind.debug : CompletionItemKind → String
  | .keyword => "Keyword" | .type => "Type" | .cls => "Class"

structure CompletionItem where
  label : String
  insertTextSnippet : Option String
  detail : String
  kind : CompletionItemKind

def newSimple (label : String) (kind : CompletionItemKind) : CompletionItem :=
  { label := label, insertTextSnippet := none, detail := "", kind := kind }

def completeToplevelKeywords : List CompletionItem :=
  Tables.complToplevel.map fun k => newSimple (String.ofList k) .keyword

def completePrimitiveTypes : List CompletionItem :=
  (Tables.complTypes.map fun k => newSimple (String.ofList k) .type) ++
  [{ label := "bits", insertTextSnippet := some "bits<$1> $0", detail := "", kind := .type },
   { label := "list", insertTextSnippet := some "list<$1> $0", detail := "", kind := .type }]

def completePrimitiveValues : List CompletionItem :=
  Tables.complValues.map fun k => newSimple (String.ofList k) .keyword

def completeBangOperators : List CompletionItem :=
  Tables.complBang.map fun k => newSimple (String.ofList k) .keyword

/-- `complete_classes` (the order follows `HashMap::values` in the real code: arbitrary) -/
def completeClasses (sm : SymMap) : List CompletionItem :=
  sm.iterClass.map fun recordId =>
    let record := sm.record recordId
    let n := record.nameToTemplateArg.size
    let argSnippet := ", ".intercalate ((List.range n).map fun i => "${" ++ toString (i + 1) ++ "}")
    { label := record.name,
      insertTextSnippet := some (record.name ++ (if argSnippet.isEmpty then "" else "<" ++ argSnippet ++ ">") ++ "$0"),
      detail := "", kind := .cls }

/-- `completion::exec` -/
def completionExec (an : Analysis) (file pos : Nat) (triggerChar : Option String) :
    Except String (Option (List CompletionItem)) := do
  let root := an.ws.tree file
  let idx ← an.index
  let sm := idx.symbolMap
  let some curToken ← tokenAtOffsetLeft root pos | return none
  let some parentNode := curToken.parent | return none
  let some parentParentNode := parentNode.parent | return none
  let mut items : List CompletionItem := []
  if triggerChar == some "!" then
    items := items ++ completeBangOperators
  let k := parentParentNode.here.kind
  if k == .StatementList then items := items ++ completeToplevelKeywords
  else if k == .InnerValue then items := items ++ completePrimitiveValues
  else if k == .ClassRef then items := items ++ completeClasses sm
  else if Ast.typeKinds.contains k then items := items ++ completePrimitiveTypes
  return some items

end Handlers
end Ide
end Tg
