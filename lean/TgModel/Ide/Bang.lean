/-
`index/bang_operator.rs`: `impl Indexable for ast::BangOperator` — one definition per `match` arm
(arms that share a body share a definition) — and the `common` helper module.

`ValueTypes` models the `Vec<(TextRange, Option<Type>)>::into_iter()` that the arms consume with
`next()`: every `next()` drops the head whether or not the `if let` pattern matches.
-/
import TgModel.Ide.Context

namespace Tg
namespace Ide
namespace Bang

abbrev Range := Nat × Nat
abbrev ValueTypes := List (Range × Option Ty)

def nodeRange (n : PTree) : Range := (n.start, n.stop)

/-! ### `mod common` -/

/-- `common::expect_type_annotation` -/
def expectTypeAnnotation (r : Rec) (node : PTree) : IxM (Option Ty) := do
  match Ast.bangOperatorType node with
  | some typ => r.typ typ
  | none =>
    error (nodeRange node) "expected type annotation"
    return none

/-- `common::unexpect_type_annotation` -/
def unexpectTypeAnnotation (node : PTree) : IxM Unit := do
  if let some typ := Ast.bangOperatorType node then
    error (nodeRange typ) "unexpected type annotation"

/-- `common::expect_values`; `hi = none` is the unbounded range `lo..` -/
def expectValues (node : PTree) (lo : Nat) (hi : Option Nat) : IxM (List PTree) := do
  let values := Ast.bangOperatorValues node
  let len := values.length
  match hi with
  | some hi =>
    if lo == hi then
      if len != lo then
        error (nodeRange node) s!"expected {lo} arguments, found {len}"
    else
      if len < lo || hi < len then
        error (nodeRange node) s!"expected {lo} to {hi} arguments, found {len}"
  | none =>
    if len < lo then
      error (nodeRange node) s!"expected {lo} or more arguments, found {len}"
  return values

/-- `common::index_values` -/
def indexValues (r : Rec) (values : List PTree) : IxM ValueTypes :=
  values.mapM fun value => do
    let t ← r.value value
    return (nodeRange value, t)

/-- `common::index_values_and_check_types` -/
def indexValuesAndCheckTypes (r : Rec) (values : List PTree) (expected : Ty) : IxM Unit := do
  for value in values do
    let some valueType ← r.value value | continue
    if !(← canBeCastedTo valueType expected) then
      error (nodeRange value) s!"expected {expected}, found {valueType}"

/-! ### helpers for the recurring `if let Some((range, Some(typ))) = value_types.next()` shape -/

/-- `if let Some((range, Some(typ))) = vt.next() { if !ok(typ) { ctx.error(range, msg(typ)) } }`;
returns the rest of the iterator -/
def checkNext (vt : ValueTypes) (ok : SymMap → Ty → Bool) (msg : Ty → String) : IxM ValueTypes := do
  match vt with
  | [] => return []
  | (range, typ) :: rest =>
    if let some typ := typ then
      if !(← withSM fun sm => ok sm typ) then
        error range (msg typ)
    return rest

def castOk (target : Ty) : SymMap → Ty → Bool := fun sm t => sm.canBeCastedTo t target

def expectedFound (what : String) : Ty → String := fun t => s!"expected {what}, found {t}"

def intOrString : SymMap → Ty → Bool := fun sm t => sm.canBeCastedTo t .int || sm.canBeCastedTo t .string

def stringListOrDag : SymMap → Ty → Bool :=
  fun sm t => sm.canBeCastedTo t .string || t.isList || sm.canBeCastedTo t .dag

/-- the identifier that introduces a `!foreach` / `!filter` / `!foldl` variable:
`match var.inner_values().next()?.simple_value() { Some(Identifier(id)) => utils::identifier(&id, ctx)?, _ => return None }` -/
def variableIdentifier (var : PTree) : IxM (Option (String × FileRange)) := do
  let some inner := (Ast.valueInnerValues var).head? | return none
  match Ast.innerValueSimpleValue inner with
  | some sv => if sv.kind == .Identifier then utilsIdentifier sv else return none
  | none => return none

/-! ### the arms -/

/-- `XAdd | XAnd | XMul | XOr | XXor` -/
def arithN (r : Rec) (node : PTree) : IxM (Option Ty) := do
  unexpectTypeAnnotation node
  let values ← expectValues node 2 none
  indexValuesAndCheckTypes r values .int
  return some .int

/-- `XDiv | XSub | XSrl | XSra | XShl` -/
def arith2 (r : Rec) (node : PTree) : IxM (Option Ty) := do
  unexpectTypeAnnotation node
  let values ← expectValues node 2 (some 2)
  indexValuesAndCheckTypes r values .int
  return some .int

def xCast (r : Rec) (node : PTree) : IxM (Option Ty) := do
  let typ := (← expectTypeAnnotation r node).getD .unknown
  let values ← expectValues node 1 (some 1)
  let _ ← indexValues r values
  return some typ

def xCon (r : Rec) (node : PTree) : IxM (Option Ty) := do
  unexpectTypeAnnotation node
  let values ← expectValues node 2 none
  indexValuesAndCheckTypes r values .dag
  return some .dag

def xDag (r : Rec) (node : PTree) : IxM (Option Ty) := do
  unexpectTypeAnnotation node
  let values ← expectValues node 3 (some 3)
  let vt ← indexValues r values
  let vt := vt.tail
  let vt ← checkNext vt (fun _ t => t.isList) (expectedFound "list")
  let _ ← checkNext vt (castOk (.list .string)) (expectedFound "list<string>")
  return some .dag

def xEmpty (r : Rec) (node : PTree) : IxM (Option Ty) := do
  unexpectTypeAnnotation node
  let values ← expectValues node 1 (some 1)
  let vt ← indexValues r values
  let _ ← checkNext vt stringListOrDag (fun t => s!"expected string, list, or dag; found {t}")
  return some .bit

/-- `XEq | XNe` -/
def xEqNe (r : Rec) (node : PTree) : IxM (Option Ty) := do
  unexpectTypeAnnotation node
  let values ← expectValues node 2 (some 2)
  let vt ← indexValues r values
  for (range, typ) in vt.take 2 do
    let some typ := typ | continue
    let ok ← withSM fun sm =>
      sm.canBeCastedTo typ .bit || typ.isBits || sm.canBeCastedTo typ .int ||
      sm.canBeCastedTo typ .string || typ.isRecord
    if !ok then
      error range s!"expected bit, bits, int, string, or record; found {typ}"
  return some .bit

def xExists (r : Rec) (node : PTree) : IxM (Option Ty) := do
  let _ ← expectTypeAnnotation r node
  let values ← expectValues node 1 (some 1)
  let vt ← indexValues r values
  let _ ← checkNext vt (castOk .string) (expectedFound "string")
  return some .bit

def xFilter (r : Rec) (node : PTree) : IxM (Option Ty) := do
  unexpectTypeAnnotation node
  let values ← expectValues node 3 (some 3)
  let some var := values[0]? | return none
  let some list := values[1]? | return none
  let some predicate := values[2]? | return none
  let some listTyp ← r.value list | return none
  let some varTyp := listTyp.elementTyp | return none
  let some (varName, varDefineLoc) ← variableIdentifier var | return none
  scopesPush .xFilter
  scopesAddVariable { name := varName, typ := varTyp, kind := .xForeach, defineLoc := varDefineLoc }
  let _ ← r.value predicate
  scopesPop
  return some listTyp

def xFind (r : Rec) (node : PTree) : IxM (Option Ty) := do
  unexpectTypeAnnotation node
  let values ← expectValues node 2 (some 3)
  let vt ← indexValues r values
  let vt ← checkNext vt (castOk .string) (expectedFound "string")
  let vt ← checkNext vt (castOk .string) (expectedFound "string")
  let _ ← checkNext vt (castOk .int) (expectedFound "int")
  return some .int

def xFoldl (r : Rec) (node : PTree) : IxM (Option Ty) := do
  unexpectTypeAnnotation node
  let values ← expectValues node 5 (some 5)
  let some init := values[0]? | return none
  let some list := values[1]? | return none
  let some acc := values[2]? | return none
  let some var := values[3]? | return none
  let some expr := values[4]? | return none
  let some initTyp ← r.value init | return none
  let some listTyp ← r.value list | return none
  let some listElmTyp := listTyp.elementTyp | return none
  let some (accName, accDefineLoc) ← variableIdentifier acc | return none
  let some (varName, varDefineLoc) ← variableIdentifier var | return none
  scopesPush .xFoldl
  scopesAddVariable { name := accName, typ := initTyp, kind := .xFoldl, defineLoc := accDefineLoc }
  scopesAddVariable { name := varName, typ := listElmTyp, kind := .xFoldl, defineLoc := varDefineLoc }
  let _ ← r.value expr
  scopesPop
  return some initTyp

def xForEach (r : Rec) (node : PTree) : IxM (Option Ty) := do
  unexpectTypeAnnotation node
  let values ← expectValues node 3 (some 3)
  let some var := values[0]? | return none
  let some sequence := values[1]? | return none
  let some expr := values[2]? | return none
  let some sequenceTyp ← r.value sequence | return none
  let some varTyp := sequenceTyp.elementTyp | return none
  let some (varName, varDefineLoc) ← variableIdentifier var | return none
  scopesPush .xForeach
  scopesAddVariable { name := varName, typ := varTyp, kind := .xForeach, defineLoc := varDefineLoc }
  let exprTyp ← r.value expr
  scopesPop
  return some (.list (exprTyp.getD .unknown))

/-- `XGe | XGt | XLe | XLt` -/
def xCompare (r : Rec) (node : PTree) : IxM (Option Ty) := do
  unexpectTypeAnnotation node
  let values ← expectValues node 2 (some 2)
  let vt ← indexValues r values
  for (range, typ) in vt.take 2 do
    let some typ := typ | continue
    let ok ← withSM fun sm =>
      sm.canBeCastedTo typ .bit || typ.isBits || sm.canBeCastedTo typ .int || sm.canBeCastedTo typ .string
    if !ok then
      error range s!"expected bit, bits, int, or string; found {typ}"
  return some .bit

def xGetDagArg (r : Rec) (node : PTree) : IxM (Option Ty) := do
  let typ ← expectTypeAnnotation r node
  let values ← expectValues node 2 (some 2)
  let vt ← indexValues r values
  let vt ← checkNext vt (castOk .dag) (expectedFound "dag")
  let _ ← checkNext vt intOrString (fun t => s!"expected int, or string; found {t}")
  return some (typ.getD .unknown)

def xGetDagName (r : Rec) (node : PTree) : IxM (Option Ty) := do
  unexpectTypeAnnotation node
  let values ← expectValues node 2 (some 2)
  let vt ← indexValues r values
  let vt ← checkNext vt (castOk .dag) (expectedFound "dag")
  let _ ← checkNext vt (castOk .dag) (expectedFound "dag")
  return some .string

def xGetDagOp (r : Rec) (node : PTree) : IxM (Option Ty) := do
  let typ ← match Ast.bangOperatorType node with
    | some t => r.typ t
    | none => pure none
  let values ← expectValues node 1 (some 1)
  let vt ← indexValues r values
  let _ ← checkNext vt (castOk .dag) (expectedFound "dag")
  return some (typ.getD .unknown)

def xHead (r : Rec) (node : PTree) : IxM (Option Ty) := do
  unexpectTypeAnnotation node
  let values ← expectValues node 1 (some 1)
  let vt ← indexValues r values
  let some (listRange, listTyp) := vt.head? | return none
  let some listTyp := listTyp | return none
  match listTyp with
  | .list elm => return some elm
  | other =>
    error listRange s!"expected list, found {other}"
    return some .unknown

def xIf (r : Rec) (node : PTree) : IxM (Option Ty) := do
  unexpectTypeAnnotation node
  let values ← expectValues node 3 (some 3)
  let vt ← indexValues r values
  let vt ← checkNext vt (fun sm t => sm.canBeCastedTo t .bit || sm.canBeCastedTo t .int)
    (fun t => s!"expected bit, or int; found {t}")
  let some (_, some thenTyp) := vt.head? | return some .unknown
  let vt := vt.tail
  let some (elseRange, some elseTyp) := vt.head? | return some .unknown
  let thenFits ← canBeCastedTo thenTyp elseTyp
  let elseFits ← canBeCastedTo elseTyp thenTyp
  if thenFits && elseFits then
    if elseTyp.specificity > thenTyp.specificity then return some elseTyp else return some thenTyp
  else if thenFits then
    return some elseTyp
  else if elseFits then
    return some thenTyp
  else if let some commonTyp ← withSM (fun sm => sm.commonTyp thenTyp elseTyp) then
    return some commonTyp
  else
    error elseRange s!"inconsistent types {thenTyp} and {elseTyp} for !if"
    return some .unknown

def xInitialized (r : Rec) (node : PTree) : IxM (Option Ty) := do
  unexpectTypeAnnotation node
  let values ← expectValues node 1 (some 1)
  let _ ← indexValues r values
  return some .bit

def xInterleave (r : Rec) (node : PTree) : IxM (Option Ty) := do
  unexpectTypeAnnotation node
  let values ← expectValues node 2 (some 2)
  let vt ← indexValues r values
  let listOk : SymMap → Ty → Bool := fun _ t =>
    match t with
    | .list .any | .list .string | .list .int | .list (.bits _) | .list .bit => true
    | _ => false
  let vt ← checkNext vt listOk (fun t => s!"expected list of string, int, bits, or bit; found {t}")
  let _ ← checkNext vt (castOk .string) (expectedFound "string")
  return some .string

def xIsA (r : Rec) (node : PTree) : IxM (Option Ty) := do
  let _ ← expectTypeAnnotation r node
  let values ← expectValues node 1 (some 1)
  let _ ← indexValues r values
  return some .bit

def xListConcat (r : Rec) (node : PTree) : IxM (Option Ty) := do
  unexpectTypeAnnotation node
  let values ← expectValues node 2 none
  let vt ← indexValues r values
  let some (list1Range, some list1Type) := vt.head? | return none
  if !list1Type.isList then
    error list1Range s!"expected list, found {list1Type}"
    return some .unknown
  let mut listType := list1Type
  for (range, typ) in vt.tail do
    let some typ := typ | continue
    if ← canBeCastedTo typ listType then continue
    -- lists of different records make a list of their class
    let cur := listType
    match ← withSM (fun sm => sm.commonTyp cur typ) with
    | some commonTyp => listType := commonTyp
    | none => error range s!"expected {listType}, found {typ}"
  return some listType

def xListFlatten (r : Rec) (node : PTree) : IxM (Option Ty) := do
  unexpectTypeAnnotation node
  let values ← expectValues node 1 (some 1)
  let vt ← indexValues r values
  let some (listRange, some listType) := vt.head? | return none
  match listType with
  | .list inner =>
    match inner with
    | .list _ => return some inner
    | _ => return some (.list inner)
  | _ =>
    error listRange s!"expected list, found {listType}"
    return some .unknown

def xListRemove (r : Rec) (node : PTree) : IxM (Option Ty) := do
  unexpectTypeAnnotation node
  let values ← expectValues node 2 (some 2)
  let vt ← indexValues r values
  let some (list1Range, some list1Type) := vt.head? | return none
  if !list1Type.isList then
    error list1Range s!"expected list, found {list1Type}"
    return some .unknown
  let some (list2Range, list2Type) := vt.tail.head? | return none
  let some list2Type := list2Type | return none
  if !(← canBeCastedTo list2Type list1Type) then
    error list2Range s!"expected {list1Type}, found {list2Type}"
  return some list1Type

def xListSplat (r : Rec) (node : PTree) : IxM (Option Ty) := do
  unexpectTypeAnnotation node
  let values ← expectValues node 2 (some 2)
  let vt ← indexValues r values
  let some (_, some valueType) := vt.head? | return none
  let _ ← checkNext vt.tail (castOk .int) (expectedFound "int")
  return some (.list valueType)

def xLog2 (r : Rec) (node : PTree) : IxM (Option Ty) := do
  unexpectTypeAnnotation node
  let values ← expectValues node 1 (some 1)
  let vt ← indexValues r values
  let _ ← checkNext vt (castOk .int) (expectedFound "int")
  return some .int

def xNot (r : Rec) (node : PTree) : IxM (Option Ty) := do
  unexpectTypeAnnotation node
  let values ← expectValues node 1 (some 1)
  let vt ← indexValues r values
  let _ ← checkNext vt (castOk .int) (expectedFound "int")
  return some .bit

def xRange (r : Rec) (node : PTree) : IxM (Option Ty) := do
  unexpectTypeAnnotation node
  let values ← expectValues node 1 (some 3)
  let vt ← indexValues r values
  let retTyp := some (Ty.list .int)
  let some (startOrListRange, some startOrListTyp) := vt.head? | return retTyp
  let vt := vt.tail
  if ← canBeCastedTo startOrListTyp .int then
    for (range, typ) in vt.take 2 do
      let some typ := typ | continue
      if !(← canBeCastedTo typ .int) then
        error range s!"expected int, found {typ}"
  else if startOrListTyp.isList then
    if vt.head?.isSome then
      error startOrListRange s!"expected one list, found extra value of type {startOrListTyp}"
  else
    error startOrListRange s!"expected int or list, found {startOrListTyp}"
  return retTyp

def xRepr (r : Rec) (node : PTree) : IxM (Option Ty) := do
  unexpectTypeAnnotation node
  let values ← expectValues node 1 (some 1)
  let _ ← indexValues r values
  return some .string

def xSetDagArg (r : Rec) (node : PTree) : IxM (Option Ty) := do
  unexpectTypeAnnotation node
  let values ← expectValues node 3 (some 3)
  let vt ← indexValues r values
  let vt ← checkNext vt (castOk .dag) (expectedFound "dag")
  let _ ← checkNext vt intOrString (fun t => s!"expected int, or string; found {t}")
  return some .dag

def xSetDagName (r : Rec) (node : PTree) : IxM (Option Ty) := do
  unexpectTypeAnnotation node
  let values ← expectValues node 3 (some 3)
  let vt ← indexValues r values
  let vt ← checkNext vt (castOk .dag) (expectedFound "dag")
  let vt ← checkNext vt intOrString (fun t => s!"expected int, or string; found {t}")
  let _ ← checkNext vt (castOk .string) (expectedFound "string")
  return some .dag

def xSetDagOp (r : Rec) (node : PTree) : IxM (Option Ty) := do
  unexpectTypeAnnotation node
  let values ← expectValues node 2 (some 2)
  let vt ← indexValues r values
  let _ ← checkNext vt (castOk .dag) (expectedFound "dag")
  return some .dag

def xSize (r : Rec) (node : PTree) : IxM (Option Ty) := do
  unexpectTypeAnnotation node
  let values ← expectValues node 1 (some 1)
  let vt ← indexValues r values
  let _ ← checkNext vt stringListOrDag (fun t => s!"expected string, list, or dag; found {t}")
  return some .int

def xStrConcat (r : Rec) (node : PTree) : IxM (Option Ty) := do
  unexpectTypeAnnotation node
  let values ← expectValues node 2 none
  let vt ← indexValues r values
  for (range, typ) in vt do
    let some typ := typ | continue
    if !(← canBeCastedTo typ .string) then
      error range s!"expected string, found {typ}"
  return some .string

def xSubst (r : Rec) (node : PTree) : IxM (Option Ty) := do
  unexpectTypeAnnotation node
  let values ← expectValues node 3 (some 3)
  let vt ← indexValues r values
  let some (targetRange, targetTyp) := vt[0]? | return none
  let some (replRange, replTyp) := vt[1]? | return none
  let some (valueRange, valueTyp) := vt[2]? | return none
  let some targetTyp := targetTyp | return none
  let some replTyp := replTyp | return none
  let some valueTyp := valueTyp | return none
  if (← canBeCastedTo valueTyp .string) || valueTyp.isRecord then
    if !(← canBeCastedTo targetTyp valueTyp) then
      error targetRange s!"expected {valueTyp}, found {targetTyp}"
    if !(← canBeCastedTo replTyp valueTyp) then
      error replRange s!"expected {valueTyp}, found {replTyp}"
    return some valueTyp
  else
    error valueRange s!"expected string or record, found {targetTyp}"
    return none

def xSubstr (r : Rec) (node : PTree) : IxM (Option Ty) := do
  unexpectTypeAnnotation node
  let values ← expectValues node 2 (some 3)
  let vt ← indexValues r values
  let vt ← checkNext vt (castOk .string) (expectedFound "string")
  let vt ← checkNext vt (castOk .int) (expectedFound "int")
  let _ ← checkNext vt (castOk .int) (expectedFound "int")
  return some .string

def xTail (r : Rec) (node : PTree) : IxM (Option Ty) := do
  unexpectTypeAnnotation node
  let values ← expectValues node 1 (some 1)
  let vt ← indexValues r values
  if let some (listRange, some listTyp) := vt.head? then
    if listTyp.isList then
      return some listTyp
    error listRange s!"expected list, found {listTyp}"
  return some .unknown

/-- `XToLower | XToUpper` -/
def xToLowerUpper (r : Rec) (node : PTree) : IxM (Option Ty) := do
  unexpectTypeAnnotation node
  let values ← expectValues node 1 (some 1)
  let vt ← indexValues r values
  let _ ← checkNext vt (castOk .string) (expectedFound "string")
  return some .string

/-- `impl Indexable for ast::BangOperator` -/
def indexBangOperator (r : Rec) (node : PTree) : IxM (Option Ty) := do
  let some kind := Ast.bangOperatorKind node | return none
  match kind with
  | .XAdd | .XAnd | .XMul | .XOr | .XXor => arithN r node
  | .XDiv | .XSub | .XSrl | .XSra | .XShl => arith2 r node
  | .XCast => xCast r node
  | .XCon => xCon r node
  | .XDag => xDag r node
  | .XEmpty => xEmpty r node
  | .XEq | .XNe => xEqNe r node
  | .XExists => xExists r node
  | .XFilter => xFilter r node
  | .XFind => xFind r node
  | .XFoldl => xFoldl r node
  | .XForEach => xForEach r node
  | .XGe | .XGt | .XLe | .XLt => xCompare r node
  | .XGetDagArg => xGetDagArg r node
  | .XGetDagName => xGetDagName r node
  | .XGetDagOp => xGetDagOp r node
  | .XHead => xHead r node
  | .XIf => xIf r node
  | .XInitialized => xInitialized r node
  | .XInterleave => xInterleave r node
  | .XIsA => xIsA r node
  | .XListConcat => xListConcat r node
  | .XListFlatten => xListFlatten r node
  | .XListRemove => xListRemove r node
  | .XListSplat => xListSplat r node
  | .XLog2 => xLog2 r node
  | .XNot => xNot r node
  | .XRange => xRange r node
  | .XRepr => xRepr r node
  | .XSetDagArg => xSetDagArg r node
  | .XSetDagName => xSetDagName r node
  | .XSetDagOp => xSetDagOp r node
  | .XSize => xSize r node
  | .XStrConcat => xStrConcat r node
  | .XSubst => xSubst r node
  | .XSubstr => xSubstr r node
  | .XTail => xTail r node
  | .XToLower | .XToUpper => xToLowerUpper r node
  | k => panic s!"internal error: entered unreachable code: unexpected syntax kind: Some({k.name})"

end Bang
end Ide
end Tg
