/-
`index/scope.rs`: the scope stack of the indexer.
-/
import TgModel.Ide.State

namespace Tg
namespace Ide

inductive ScopeKind where
  | root
  | block
  | record (id : Nat)
  | foreach (name : String) (variableId : Nat)
  | defset (id : Nat)
  | multiclass (id : Nat)
  | defm (id : Nat)
  | xFilter
  | xFoldl
  | xForeach
deriving Inhabited, Repr

structure Scope where
  kind : ScopeKind
  nameToVariable : Std.HashMap String Nat := {}
deriving Inhabited

namespace Scope

def recordId (s : Scope) : Option Nat := match s.kind with | .record id => some id | _ => none
def defsetId (s : Scope) : Option Nat := match s.kind with | .defset id => some id | _ => none
def multiclassId (s : Scope) : Option Nat := match s.kind with | .multiclass id => some id | _ => none
def defmId (s : Scope) : Option Nat := match s.kind with | .defm id => some id | _ => none

/-- `Scope::find_variable` -/
def findVariable (s : Scope) (name : String) : Option Nat :=
  match s.nameToVariable[name]? with
  | some v => some v
  | none =>
    match s.kind with
    | .foreach varName varId => if name == varName then some varId else none
    | _ => none

end Scope

/-- `Scopes`: innermost scope first (the Rust `Vec` is iterated in reverse everywhere) -/
structure Scopes where
  scopes : List Scope := [{ kind := .root }]
deriving Inhabited

namespace Scopes

def push (s : Scopes) (kind : ScopeKind) : Scopes := { scopes := { kind := kind } :: s.scopes }

/-- `pop`; `none` = `expect("scope is empty")` fails -/
def pop (s : Scopes) : Option Scopes :=
  match s.scopes with
  | [] => none
  | _ :: rest => some { scopes := rest }

def currentRecordId (s : Scopes) : Option Nat := s.scopes.findSome? Scope.recordId
def currentDefsetId (s : Scopes) : Option Nat := s.scopes.findSome? Scope.defsetId
def currentMulticlassId (s : Scopes) : Option Nat := s.scopes.findSome? Scope.multiclassId
def currentDefmId (s : Scopes) : Option Nat := s.scopes.findSome? Scope.defmId

/-- the `current_scope.name_to_variable.insert(name, id)` half of `Scopes::add_variable`;
`none` = `expect("scope is empty")` fails -/
def isDefsetKind : ScopeKind → Bool
  | .defset _ => true
  | _ => false

/-- insert into the innermost scope that is not a defset scope (a defset opens no scope of its own);
`none` = `expect("scope is empty")` fails -/
def insertVariableGo (name : String) (id : Nat) : List Scope → Option (List Scope)
  | [] => none
  | sc :: rest =>
    if isDefsetKind sc.kind then (insertVariableGo name id rest).map (sc :: ·)
    else some ({ sc with nameToVariable := sc.nameToVariable.insert name id } :: rest)

def insertVariable (s : Scopes) (name : String) (id : Nat) : Option Scopes :=
  (insertVariableGo name id s.scopes).map fun l => { scopes := l }

/-- `Scopes::find_local` -/
def findLocal (s : Scopes) (sm : SymMap) (name : String) : Option SymbolId :=
  s.scopes.findSome? fun scope =>
    match scope.findVariable name with
    | some id => some (.var id)
    | none =>
      let viaRecord : Option SymbolId :=
        match scope.recordId with
        | some recordId =>
          match sm.recordFindField recordId name with
          | some fieldId => some (.recordField fieldId)
          | none =>
            match SymMap.recordFindTemplateArg (sm.record recordId) name with
            | some t => some (.templateArgument t)
            | none => none
        | none => none
      match viaRecord with
      | some r => some r
      | none =>
        match scope.multiclassId with
        | some mcId =>
          match SymMap.multiclassFindTemplateArg (sm.multiclass mcId) name with
          | some t => some (.templateArgument t)
          | none => none
        | none => none

end Scopes

end Ide
end Tg
