/-
The parts of `std::path` (unix) that `file_system.rs` and the harness file system rely on:
`PathBuf` equality / hashing (component-wise), `Path::parent`, `Path::join`.
-/
namespace Tg
namespace Ide
namespace Path

def hasRoot (cs : List Char) : Bool := cs.head? == some '/'

/-- `Components::include_cur_dir` -/
def includeCurDir (cs : List Char) : Bool :=
  !hasRoot cs && (match cs with
    | ['.'] => true
    | '.' :: '/' :: _ => true
    | _ => false)

/-- `Components::len_before_body` -/
def lenBeforeBody (cs : List Char) : Nat :=
  if hasRoot cs then 1 else if includeCurDir cs then 1 else 0

def splitSlash (cs : List Char) : List (List Char) :=
  let (cur, acc) := cs.foldl (fun (st : List Char × List (List Char)) c =>
    if c == '/' then ([], st.1.reverse :: st.2) else (c :: st.1, st.2)) ([], [])
  (cur.reverse :: acc).reverse

/-- the component sequence that `PathBuf`'s `Eq`/`Hash` compare: (has root, components) -/
def components (s : String) : Bool × List String :=
  let cs := s.toList
  let root := hasRoot cs
  let segs := (splitSlash cs).filter (fun seg => !seg.isEmpty)
  let segs := match segs with
    | [] => []
    | first :: rest =>
      (if first == ['.'] && root then [] else [first]) ++ rest.filter (fun seg => seg != ['.'])
  (root, segs.map String.ofList)

def pathEq (a b : String) : Bool := components a == components b

/-- index of the last `/` -/
def lastSlash (cs : List Char) : Option Nat :=
  (cs.zipIdx.foldl (fun (r : Option Nat) (p : Char × Nat) => if p.1 == '/' then some p.2 else r) none)

/-- `Components::parse_next_component_back`: (consumed size, component unless `""` / `"."`) -/
def parseNextComponentBack (cs : List Char) : Nat × Option (List Char) :=
  let body := cs.drop (lenBeforeBody cs)
  let (extra, comp) := match lastSlash body with
    | some i => (1, body.drop (i + 1))
    | none => (0, body)
  (comp.length + extra, if comp.isEmpty || comp == ['.'] then none else some comp)

/-- `Components::trim_right` -/
def trimRight : Nat → List Char → List Char
  | 0, cs => cs
  | fuel + 1, cs =>
    if cs.length > lenBeforeBody cs then
      let (size, comp) := parseNextComponentBack cs
      if comp.isSome then cs else trimRight fuel (cs.take (cs.length - size))
    else cs

/-- the `Body` phase of `Components::next_back`: the last real component and what is left -/
def nextBackBody : Nat → List Char → Option (List Char) × List Char
  | 0, cs => (none, cs)
  | fuel + 1, cs =>
    if cs.length > lenBeforeBody cs then
      let (size, comp) := parseNextComponentBack cs
      let rest := cs.take (cs.length - size)
      match comp with
      | some c => (some c, rest)
      | none => nextBackBody fuel rest
    else (none, cs)

/-- `Path::parent` -/
def parent (s : String) : Option String :=
  let cs := s.toList
  match nextBackBody (cs.length + 1) cs with
  | (some _, rest) => some (String.ofList (trimRight (rest.length + 1) rest))
  | (none, rest) =>
    -- `StartDir`: a root has no parent; a leading `.` is a `CurDir` component
    if hasRoot rest then none
    else if includeCurDir rest then some (String.ofList (rest.take (rest.length - 1)))
    else none

/-- `Path::join` (`PathBuf::push`) -/
def join (dir p : String) : String :=
  if hasRoot p.toList then p
  else
    let needSep := match dir.toList.getLast? with
      | some c => c != '/'
      | none => false
    if needSep then dir ++ "/" ++ p else dir ++ p

end Path
end Ide
end Tg
