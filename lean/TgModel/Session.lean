/-
Model of the `lsp::server::Server` glue around the analysis host: on-disk texts, editor buffers
(`Vfs::open_documents`), the rule "an open document's text takes precedence over the disk"
(`Vfs::read_content`), `did_open`/`did_change` (= `set_file_content`: remember the buffer, set the
file's content, re-select it as root) and `update_diagnostics` (one notification per workspace
file with a global version counter; documents that left the workspace are cleared).
Built on `Host.lean`: the file system the host sees is `overlay disk buffers`.
-/
import TgModel.Host

namespace Tg
namespace Session
open Host

/-- diagnostics are abstract: any function of what queries can observe -/
abbrev DiagFn (D : Type) := Obs → Path → List D

structure Published (D : Type) where
  diags : List D
  version : Nat
deriving Repr

structure St (D : Type) where
  disk : Fs
  buffers : Path → Option Text := fun _ => none
  db : Option Db := some {}
  version : Nat := 0                                   -- `diagnostic_version`
  published : List Path := []                          -- `published_diagnostics`
  view : Path → Option (Published D) := fun _ => none  -- what the client last received per document
  log : List (Path × Nat) := []                        -- (document, version) of every notification, newest first

/-- `Vfs::read_content`: the editor's text if the document is open, else the disk -/
def overlay (disk : Fs) (buffers : Path → Option Text) : Fs :=
  fun p => match buffers p with | some t => some t | none => disk p

def publish {D : Type} (view : Path → Option (Published D)) (files : List Path) (d : Path → List D) (v : Nat) :
    Path → Option (Published D) :=
  fun p => if files.contains p then some { diags := d p, version := v } else view p

/-- `did_open` / `did_change` followed by `update_diagnostics` running to completion -/
def edit {D : Type} (env : Env) (diag : DiagFn D) (fuel : Nat) (s : St D) (p : Path) (t : Text) : St D :=
  let buffers := fun q => if q = p then some t else s.buffers q
  let fs := overlay s.disk buffers
  let db := (s.db.map (·.setContent p t)).bind (setRoot env fs fuel p)
  match db with
  | none => { s with buffers := buffers, db := none }
  | some d =>
    let o := observe d
    let v := s.version
    let stale := s.published.filter (fun q => !o.files.contains q)
    let view1 := publish s.view o.files (diag o) v
    let view2 := publish view1 stale (fun _ => []) v
    { s with buffers := buffers, db := some d, version := v + 1, published := o.files, view := view2,
             log := (stale.map (fun q => (q, v))) ++ (o.files.map (fun q => (q, v))) ++ s.log }

def run {D : Type} (env : Env) (diag : DiagFn D) (fuel : Nat) (disk : Fs) (h : List (Path × Text)) : St D :=
  h.foldl (fun s e => edit env diag fuel s e.1 e.2) { disk := disk }

end Session
end Tg
