/-
The typed syntax-tree accessors of `crates/syntax/src/ast.rs` as a function on `Tree`.

`Generated/AstTable.lean` (regenerated from the `asts!` table) says, per node kind, which accessors
exist, whether each returns the first / all / the n-th matching child, and which kinds its type
casts.  `walk` reports everything that is reachable from a node through accessors only, in
accessor order, with byte ranges — the same listing the generated Rust walker produces by calling
the real accessors.
-/
import TgModel.Generated.AstTable
import TgModel.Dsl

namespace Tg
namespace AstWalk
open AstTable

mutual
def treeLen : Tree → Nat
  | .token _ text => byteLen text
  | .node _ cs => listLen cs
def listLen : List Tree → Nat
  | [] => 0
  | t :: ts => treeLen t + listLen ts
end

/-- child nodes (not tokens) with their start offsets -/
def childNodes (off : Nat) : List Tree → List (Nat × SyntaxKind × List Tree)
  | [] => []
  | .token _ text :: ts => childNodes (off + byteLen text) ts
  | .node k cs :: ts => (off, k, cs) :: childNodes (off + listLen cs) ts

def select (sel : Sel) (cands : List (Nat × SyntaxKind × List Tree)) : List (Nat × SyntaxKind × List Tree) :=
  match sel with
  | .first => cands.take 1
  | .all => cands
  | .nth i => (cands.drop i).take 1

/-- what the accessors of a node of kind `k` with children `cs` (starting at byte `off`) return, as
(label, offset, kind, children) -/
def accessed (off : Nat) (k : SyntaxKind) (cs : List Tree) : List (String × Nat × SyntaxKind × List Tree) :=
  match fields k with
  | none => []
  | some fs =>
    let nodes := childNodes off cs
    fs.flatMap fun f =>
      (select f.sel (nodes.filter fun c => f.casts.contains c.2.1)).map fun c => (k.name ++ "." ++ f.name, c)

/-- pre-order listing of everything reachable through accessors; `fuel` bounds the depth -/
def walk : Nat → Nat → SyntaxKind → List Tree → List String
  | 0, _, _, _ => []
  | fuel+1, off, k, cs =>
    (accessed off k cs).flatMap fun (label, o, ck, ccs) =>
      s!"{label}={ck.name}@{o}-{o + listLen ccs}" :: walk fuel o ck ccs

mutual
def depth : Tree → Nat
  | .token _ _ => 0
  | .node _ cs => depthList cs + 1
def depthList : List Tree → Nat
  | [] => 0
  | t :: ts => max (depth t) (depthList ts)
end

def walkTree (t : Tree) : List String :=
  match t with
  | .token _ _ => []
  | .node k cs => walk (depth t + 1) 0 k cs

end AstWalk
end Tg
