/-
Model of the hand-maintained salsa *inputs* of `ide::analysis::AnalysisHost`
(`file_content`, `resolved_include_map`, `source_root`) and of the two mutators
`set_file_content` and `set_root_file` (= `collect_sources`).  Derived queries (parse, index,
every handler) are pure functions of these inputs (salsa assumption), so "results never depend on
the edit history" is a statement about what the inputs are after a history.

Abstract over what does not matter: paths and texts are numbers; `incs text` lists the include
names of a text in source order (parse + `list_includes`); `resolve fs from name` is the include
resolution against the file system (including file's directory first, then INCLUDE_DIR).
-/
namespace Tg
namespace Host

abbrev Path := Nat
abbrev Text := Nat
abbrev Name := Nat
abbrev Fs := Path → Option Text

structure Env where
  incs : Text → List Name
  resolve : Fs → Path → Name → Option Path

structure Db where
  content : Path → Option Text := fun _ => none
  incMap : Path → List (Nat × Path) := fun _ => []     -- include statement index ↦ target
  files : List Path := []                               -- source root (most recently collected first)
  root : Option Path := none

def Db.setContent (db : Db) (p : Path) (t : Text) : Db :=
  { db with content := fun q => if q = p then some t else db.content q }

/-- resolve the include statements of one file: returns the include map and the db in which
every resolved target's content has been overwritten with the file system's text
(`resolve_include_file` calls `set_file_content` on every hit) -/
def resolveAll (env : Env) (fs : Fs) (from_ : Path) : List (Name × Nat) → Db → List (Nat × Path) × Db
  | [], db => ([], db)
  | (n, i) :: rest, db =>
    match env.resolve fs from_ n with
    | some target =>
      match fs target with
      | some t =>
        let r := resolveAll env fs from_ rest (db.setContent target t)
        ((i, target) :: r.1, r.2)
      | none => resolveAll env fs from_ rest db
    | none => resolveAll env fs from_ rest db

/-- the worklist loop of `collect_sources` -/
def collect (env : Env) (fs : Fs) : Nat → List Path → List Path → Db → Option (List Path × Db)
  | 0, _, _, _ => none
  | _+1, [], vis, db => some (vis, db)
  | fuel+1, f :: q, vis, db =>
    if vis.contains f then collect env fs fuel q vis db
    else
      match db.content f with
      | none => none          -- salsa would panic: input never set
      | some t =>
        let r := resolveAll env fs f ((env.incs t).zipIdx) db
        let db' := { r.2 with incMap := fun p => if p = f then r.1 else r.2.incMap p }
        collect env fs fuel (q ++ r.1.map (·.2)) (f :: vis) db'

/-- `AnalysisHost::set_root_file` -/
def setRoot (env : Env) (fs : Fs) (fuel : Nat) (root : Path) (db : Db) : Option Db :=
  match collect env fs fuel [root] [] db with
  | some (vis, db') => some { db' with files := vis, root := some root }
  | none => none

/-- what queries on workspace files can observe: per workspace file its content and include
map, the file set and the root -/
structure Obs where
  root : Option Path
  files : List Path
  contents : List (Option Text)
  incMaps : List (List (Nat × Path))
deriving DecidableEq, Repr

def observe (db : Db) : Obs :=
  { root := db.root, files := db.files, contents := db.files.map db.content, incMaps := db.files.map db.incMap }

/-- one step of a history: the client edits a file (file system and host learn the new text) and
(re)selects a root -/
inductive Op where
  | edit (p : Path) (t : Text)        -- set_file_content p t; file system now has t at p
  | selectRoot (p : Path)             -- set_root_file p
  | disk (p : Path) (t : Text)        -- the file changes on disk behind the host's back (an included file that is not open)
deriving Repr

def Op.isDisk : Op → Bool
  | .disk _ _ => true
  | _ => false

structure St where
  fs : Fs := fun _ => none
  db : Option Db := some {}            -- none = the host panicked / ran out of fuel
  root : Option Path := none

def step (env : Env) (fuel : Nat) (s : St) : Op → St
  | .edit p t =>
    { s with fs := fun q => if q = p then some t else s.fs q, db := s.db.map (·.setContent p t) }
  | .selectRoot p =>
    { s with root := some p, db := s.db.bind (setRoot env s.fs fuel p) }
  | .disk p t =>
    { s with fs := fun q => if q = p then some t else s.fs q }

def run (env : Env) (fuel : Nat) (h : List Op) : St := h.foldl (step env fuel) {}

/-- a freshly started host given only the final file system and the final root -/
def fresh (env : Env) (fuel : Nat) (fs : Fs) (root : Path) : Option Db :=
  match fs root with
  | some t => setRoot env fs fuel root (({} : Db).setContent root t)
  | none => none

end Host
end Tg
