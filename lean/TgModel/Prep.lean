/-
Model of `crates/syntax/src/preprocessor.rs` layered over the lexer model: the token source the
parser sees (`PreProcessor<Lexer>`), including both parked error messages.
-/
import TgModel.Lex

namespace Tg

/-- state of `PreProcessor<Lexer>`: scanner rest, `Lexer::error`, `macros`, `PreProcessor::error`,
`open_conditionals`. -/
structure Src where
  rest : List Char
  lexErr : Option String := none
  macros : List (List Char) := []
  prepErr : Option String := none
  openConds : Nat := 0
deriving Repr

/-- how `eat_until_else_or_endif` left its loop -/
inductive SkipEnd where
  | Else | Endif | Eof
deriving DecidableEq, Repr

/-- the message of a conditional that is still open when the text ends; its wording is read from `preprocessor.rs` on every run (`Tables.eofMessage`) -/
def eofMsg : String := String.ofList Tables.eofMessage

/-- a token as delivered by a `TokenStream::eat` call -/
structure Tok where
  kind : TokenKind
  text : List Char
deriving Repr

namespace Src

def init (input : List Char) : Src := { rest := input }

/-- `Lexer::eat` -/
def lexEat (s : Src) : Tok × Src :=
  let o := Lex.next s.rest
  ({ kind := o.kind, text := o.text },
   { s with rest := o.rest, lexErr := match o.err with | some m => some m | none => s.lexErr })

/-- `PreProcessor::take_error` -/
def takeError (s : Src) : Option String × Src :=
  match s.prepErr with
  | some m => (some m, { s with prepErr := none })
  | none => (s.lexErr, { s with lexErr := none })

def isLexTrivia (k : TokenKind) : Bool := k.isTrivia

/-- `next_not_trivia`: returns the reversed text of skipped trivia, the first non-trivia token, state -/
def nextNotTrivia : Nat → Src → List Char → List Char × Tok × Src
  | 0, s, racc => (racc, { kind := .Eof, text := [] }, s)
  | fuel+1, s, racc =>
    let (t, s1) := s.lexEat
    if t.kind.isTrivia then nextNotTrivia fuel s1 (t.text.reverseAux racc)
    else (racc, t, s1)

/-- the loop of `eat_until_else_or_endif`, starting at the given depth; `racc` = reversed consumed
text; the third component says how the loop was left -/
def eatUntil : Nat → Nat → Src → List Char → List Char × Src × SkipEnd
  | 0, _, s, racc => (racc, s, .Eof)
  | fuel+1, depth, s, racc =>
    let (t, s1) := s.lexEat
    let racc1 := t.text.reverseAux racc
    match t.kind with
    | .Ifdef | .Ifndef => eatUntil fuel (depth + 1) s1 racc1
    | .Endif => if depth ≥ 2 then eatUntil fuel (depth - 1) s1 racc1 else (racc1, s1, .Endif)
    | .Else => if depth == 1 then (racc1, s1, .Else) else eatUntil fuel depth s1 racc1
    | .Eof => (racc1, s1, .Eof)
    | _ => eatUntil fuel depth s1 racc1

/-- `PreProcessor::error` (the state part; the caller returns `Error` or ignores the result):
a message the lexer parked is taken and dropped, then the message is parked -/
def error (s : Src) (m : String) : Src := { s with lexErr := none, prepErr := some m }

/-- what `eat_until_else_or_endif` does after its loop: the lexer's parked message is taken and
dropped; a skip that ran into the end of the text parks the message (through `error`) -/
def afterSkip (s : Src) (e : SkipEnd) : Src :=
  let s1 := { s with lexErr := none }
  if e = .Eof then s1.error eofMsg else s1

/-- `eat_until_else_or_endif` (depth 1) -/
def skipCond (fuel : Nat) (s : Src) (racc : List Char) : List Char × Src × SkipEnd :=
  let r := eatUntil fuel 1 s racc
  (r.1, afterSkip r.2.1 r.2.2, r.2.2)

/-- `if self.eat_until_else_or_endif() == SkipEnd::Else { self.open_conditionals += 1; }` -/
def reopen (s : Src) (e : SkipEnd) : Src :=
  if e = .Else then { s with openConds := s.openConds + 1 } else s

def fuelOf (s : Src) : Nat := s.rest.length + 1

/-- `process_if` (`defined = true` for `#ifdef`) after the directive token `d` was lexed -/
def processIf (ifdef : Bool) (d : Tok) (s : Src) : Tok × Src :=
  let (racc, t, s1) := nextNotTrivia (fuelOf s) s d.text.reverse
  if t.kind == .Id then
    let defined := s1.macros.contains t.text
    let racc1 := t.text.reverseAux racc
    if (ifdef && !defined) || (!ifdef && defined) then
      let r := skipCond (fuelOf s1) s1 racc1
      ({ kind := .PreProcessor, text := r.1.reverse }, reopen r.2.1 r.2.2)
    else ({ kind := .PreProcessor, text := racc1.reverse }, { s1 with openConds := s1.openConds + 1 })
  else
    ({ kind := .Error, text := (t.text.reverseAux racc).reverse },
     s1.error (if ifdef then "expected macro name after #ifdef" else "expected macro name after #ifndef"))

def processDefine (d : Tok) (s : Src) : Tok × Src :=
  let (racc, t, s1) := nextNotTrivia (fuelOf s) s d.text.reverse
  if t.kind == .Id then
    ({ kind := .PreProcessor, text := (t.text.reverseAux racc).reverse },
     { s1 with macros := t.text :: s1.macros })
  else
    ({ kind := .Error, text := (t.text.reverseAux racc).reverse },
     s1.error "expected macro name after #define")

/-- the `Eof` arm of `next_token`: the text ends inside a conditional whose branch was being
delivered; the message waits for `take_error` -/
def atEof (s : Src) : Src :=
  if 0 < s.openConds ∧ s.prepErr = none then { s with openConds := 0 }.error eofMsg else s

/-- `PreProcessor::eat` -/
def eat (s : Src) : Tok × Src :=
  let (t, s1) := s.lexEat
  match t.kind with
  | .Ifdef => processIf true t s1
  | .Ifndef => processIf false t s1
  | .Else =>
    let r := skipCond (fuelOf s1) { s1 with openConds := s1.openConds - 1 } t.text.reverse
    ({ kind := .PreProcessor, text := r.1.reverse }, reopen r.2.1 r.2.2)
  | .Endif => ({ kind := .PreProcessor, text := t.text }, { s1 with openConds := s1.openConds - 1 })
  | .Define => processDefine t s1
  | .Eof => (t, atEof s1)
  | _ => (t, s1)

/-- all tokens the parser would receive, up to (excluding) `Eof` -/
def runAll : Nat → Src → Option (List Tok)
  | 0, _ => none
  | n+1, s =>
    if (s.eat).1.kind == .Eof then some []
    else (runAll n (s.eat).2).map ((s.eat).1 :: ·)

/-- the consumer's discipline (`ParserBase::save`): the message of an `Error` token is fetched
before the next token is asked for -/
def pull (k : TokenKind) (s : Src) : Src := if k == .Error then s.takeError.2 else s

/-- run to `Eof` under that discipline; the state in which `Eof` was delivered -/
def drain : Nat → Src → Option Src
  | 0, _ => none
  | n+1, s =>
    if (s.eat).1.kind == .Eof then some (s.eat).2
    else drain n (pull (s.eat).1.kind (s.eat).2)

/-- the message that is still parked in the token source when the text has been run to `Eof`
under the parser's discipline — what `ParserBase::finish` will report (fuel `length + 1` is
enough: `Src.drain_total`) -/
def endMessage (input : List Char) : Option String :=
  match drain (input.length + 1) (init input) with
  | some s => (s.takeError).1
  | none => none

/-- the states the token source goes through under that discipline: look-ahead kind and source
after `ParserBase::new` and `n` rounds of `save; lex` -/
def chain (input : List Char) : Nat → TokenKind × Src
  | 0 => (((init input).eat).1.kind, ((init input).eat).2)
  | n+1 => (((pull (chain input n).1 (chain input n).2).eat).1.kind,
            ((pull (chain input n).1 (chain input n).2).eat).2)

end Src
end Tg
