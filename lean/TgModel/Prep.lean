/-
Model of `crates/syntax/src/preprocessor.rs` layered over the lexer model: the token source the
parser sees (`PreProcessor<Lexer>`), including both parked error messages.
-/
import TgModel.Lex

namespace Tg

/-- state of `PreProcessor<Lexer>`: scanner rest, `Lexer::error`, `macros`, `PreProcessor::error`. -/
structure Src where
  rest : List Char
  lexErr : Option String := none
  macros : List (List Char) := []
  prepErr : Option String := none
deriving Repr

/-- a token as delivered by a `TokenStream::eat` call -/
structure Tok where
  kind : TokenKind
  text : List Char
deriving Repr

namespace Src

def init (input : List Char) : Src := { rest := input }

/-- `Lexer::eat` -/
def lexEat (s : Src) : Tok × Src :=
  let o := Lex.next s.rest
  ({ kind := o.kind, text := o.text },
   { s with rest := o.rest, lexErr := match o.err with | some m => some m | none => s.lexErr })

/-- `PreProcessor::take_error` -/
def takeError (s : Src) : Option String × Src :=
  match s.prepErr with
  | some m => (some m, { s with prepErr := none })
  | none => (s.lexErr, { s with lexErr := none })

def isLexTrivia (k : TokenKind) : Bool := k.isTrivia

/-- `next_not_trivia`: returns the reversed text of skipped trivia, the first non-trivia token, state -/
def nextNotTrivia : Nat → Src → List Char → List Char × Tok × Src
  | 0, s, racc => (racc, { kind := .Eof, text := [] }, s)
  | fuel+1, s, racc =>
    let (t, s1) := s.lexEat
    if t.kind.isTrivia then nextNotTrivia fuel s1 (t.text.reverseAux racc)
    else (racc, t, s1)

/-- `eat_until_else_or_endif`, starting at the given depth; `racc` = reversed consumed text -/
def eatUntil : Nat → Nat → Src → List Char → List Char × Src
  | 0, _, s, racc => (racc, s)
  | fuel+1, depth, s, racc =>
    let (t, s1) := s.lexEat
    let racc1 := t.text.reverseAux racc
    match t.kind with
    | .Ifdef | .Ifndef => eatUntil fuel (depth + 1) s1 racc1
    | .Endif => if depth ≥ 2 then eatUntil fuel (depth - 1) s1 racc1 else (racc1, s1)
    | .Else => if depth == 1 then (racc1, s1) else eatUntil fuel depth s1 racc1
    | .Eof => (racc1, { s1 with prepErr := some "reached EOF without matching #endif" })
    | _ => eatUntil fuel depth s1 racc1

def fuelOf (s : Src) : Nat := s.rest.length + 1

/-- `process_if` (`defined = true` for `#ifdef`) after the directive token `d` was lexed -/
def processIf (ifdef : Bool) (d : Tok) (s : Src) : Tok × Src :=
  let (racc, t, s1) := nextNotTrivia (fuelOf s) s d.text.reverse
  if t.kind == .Id then
    let defined := s1.macros.contains t.text
    let racc1 := t.text.reverseAux racc
    if (ifdef && !defined) || (!ifdef && defined) then
      let (racc2, s2) := eatUntil (fuelOf s1) 1 s1 racc1
      ({ kind := .PreProcessor, text := racc2.reverse }, s2)
    else ({ kind := .PreProcessor, text := racc1.reverse }, s1)
  else
    ({ kind := .Error, text := (t.text.reverseAux racc).reverse },
     { s1 with prepErr := some (if ifdef then "expected macro name after #ifdef" else "expected macro name after #ifndef") })

def processDefine (d : Tok) (s : Src) : Tok × Src :=
  let (racc, t, s1) := nextNotTrivia (fuelOf s) s d.text.reverse
  if t.kind == .Id then
    ({ kind := .PreProcessor, text := (t.text.reverseAux racc).reverse },
     { s1 with macros := t.text :: s1.macros })
  else
    ({ kind := .Error, text := (t.text.reverseAux racc).reverse },
     { s1 with prepErr := some "expected macro name after #define" })

/-- `PreProcessor::eat` -/
def eat (s : Src) : Tok × Src :=
  let (t, s1) := s.lexEat
  match t.kind with
  | .Ifdef => processIf true t s1
  | .Ifndef => processIf false t s1
  | .Else =>
    let (racc, s2) := eatUntil (fuelOf s1) 1 s1 t.text.reverse
    ({ kind := .PreProcessor, text := racc.reverse }, s2)
  | .Endif => ({ kind := .PreProcessor, text := t.text }, s1)
  | .Define => processDefine t s1
  | _ => (t, s1)

/-- all tokens the parser would receive, up to (excluding) `Eof` -/
def runAll : Nat → Src → Option (List Tok)
  | 0, _ => none
  | n+1, s =>
    if (s.eat).1.kind == .Eof then some []
    else (runAll n (s.eat).2).map ((s.eat).1 :: ·)

end Src
end Tg
