/-
Declarative lexical specification of TableGen, written from the "TableGen Programmer's Reference"
(section "Lexical Analysis"), independently of the lexer model in `Lex.lean` (which is NOT
imported here).  Only the character classes of `Text.lean` and the generated tables
(`TokenKind`, keyword table, bang-operator table) are shared.

    TokInteger     ::=  DecimalInteger | HexInteger | BinInteger
    DecimalInteger ::=  ["+" | "-"] ("0"..."9")+
    HexInteger     ::=  "0x" ("0"..."9" | "a"..."f" | "A"..."F")+
    BinInteger     ::=  "0b" ("0" | "1")+
    ualpha         ::=  "a"..."z" | "A"..."Z" | "_"
    TokIdentifier  ::=  ("0"..."9")* ualpha (ualpha | "0"..."9")*
    TokVarName     ::=  "$" ualpha (ualpha |  "0"..."9")*
    TokString      ::=  '"' (non-'"' characters and escapes) '"'      escapes: \\ \' \" \t \n
    TokCode        ::=  "[{" (shortest text not containing "}]") "}]"
    BangOperator   ::=  "!add" | "!and" | ...
    punctuation        - + [ ] { } ( ) < > : ; , . ... = ? #
    comments           "//" to end of line;  "/*" ... "*/", nesting
-/
import TgModel.Text
import TgModel.Generated.Tables

namespace Tg
namespace LexSpec

/-! ### character classes of the reference -/

/-- `ualpha` -/
def isUAlpha (c : Char) : Bool := isAsciiAlpha c || c == '_'
/-- `ualpha | "0"..."9"` -/
def isIdChar (c : Char) : Bool := isUAlpha c || isAsciiDigit c
def isBinDigit (c : Char) : Bool := c == '0' || c == '1'

/-- numeric value of one (hexa)decimal digit -/
def digitValue (c : Char) : Nat :=
  if isAsciiDigit c then c.toNat - 48
  else if 'a' ≤ c && c ≤ 'f' then c.toNat - 97 + 10
  else c.toNat - 65 + 10

/-- numeric value of a digit string, most significant digit first -/
def valueOf (base : Nat) (ds : List Char) : Nat := ds.foldl (fun n c => n * base + digitValue c) 0

/-- `TokIdentifier ::= ("0"..."9")* ualpha (ualpha | "0"..."9")*` (the digit prefix is
unambiguous because no digit is a `ualpha`) -/
def matchesIdentifier (s : List Char) : Bool :=
  match s.dropWhile isAsciiDigit with
  | a :: cont => isUAlpha a && cont.all isIdChar
  | [] => false

/-- text starting with `0x<hex digit>`: read as a `HexInteger`, not as an identifier -/
def looksHex : List Char → Bool
  | '0' :: 'x' :: h :: _ => isAsciiHex h
  | _ => false

/-- text starting with `0b<binary digit>`: read as a `BinInteger`, not as an identifier -/
def looksBin : List Char → Bool
  | '0' :: 'b' :: d :: _ => isBinDigit d
  | _ => false

/-- `a` immediately followed by `b` occurs somewhere in the text -/
def containsPair (a b : Char) : List Char → Bool
  | c :: d :: r => (c == a && d == b) || containsPair a b (d :: r)
  | _ => false

/-! ### tokens -/

inductive Sign | none | plus | minus
deriving DecidableEq, Repr

def Sign.render : Sign → List Char
  | .none => []
  | .plus => ['+']
  | .minus => ['-']

/-- one item of a string literal: a plain character or a backslash escape -/
inductive StrItem
  | ch (c : Char)
  | esc (c : Char)
deriving DecidableEq, Repr

def StrItem.render : StrItem → List Char
  | .ch c => [c]
  | .esc c => ['\\', c]

def StrItem.wf : StrItem → Bool
  | .ch c => c != '"' && c != '\\' && c != '\r' && c != '\n'
  | .esc c => c == '\\' || c == '\'' || c == '"' || c == 't' || c == 'n'

inductive Punct
  | minus | plus | lsquare | rsquare | lbrace | rbrace | lparen | rparen | less | greater
  | colon | semi | comma | dot | equal | question | paste | dotdotdot
deriving DecidableEq, Repr

def Punct.render : Punct → List Char
  | .minus => ['-'] | .plus => ['+'] | .lsquare => ['['] | .rsquare => [']']
  | .lbrace => ['{'] | .rbrace => ['}'] | .lparen => ['('] | .rparen => [')']
  | .less => ['<'] | .greater => ['>'] | .colon => [':'] | .semi => [';']
  | .comma => [','] | .dot => ['.'] | .equal => ['='] | .question => ['?']
  | .paste => ['#'] | .dotdotdot => ['.', '.', '.']

def Punct.kind : Punct → TokenKind
  | .minus => .Minus | .plus => .Plus | .lsquare => .LSquare | .rsquare => .RSquare
  | .lbrace => .LBrace | .rbrace => .RBrace | .lparen => .LParen | .rparen => .RParen
  | .less => .Less | .greater => .Greater | .colon => .Colon | .semi => .Semi
  | .comma => .Comma | .dot => .Dot | .equal => .Equal | .question => .Question
  | .paste => .Paste | .dotdotdot => .DotDotDot

/-- one constructor per token class of the reference, carrying the token's data -/
inductive SpecTok
  /-- `TokIdentifier`, the whole text -/
  | ident (s : List Char)
  /-- reserved word `w` with its token kind `k` -/
  | keyword (w : List Char) (k : TokenKind)
  /-- `DecimalInteger`: sign and digits -/
  | decInt (sign : Sign) (ds : List Char)
  /-- `HexInteger`: the digits after `0x` -/
  | hexInt (ds : List Char)
  /-- `BinInteger`: the digits after `0b` -/
  | binInt (ds : List Char)
  /-- `TokString`: the items between the quotes -/
  | str (items : List StrItem)
  /-- `TokCode`: the text between `[{` and `}]` -/
  | code (body : List Char)
  /-- `TokVarName`: the name after `$` -/
  | varName (s : List Char)
  /-- bang operator: the name `w` after `!` with its token kind `k` -/
  | bang (w : List Char) (k : TokenKind)
  | punct (p : Punct)
deriving Repr

namespace SpecTok

/-- the token's source text -/
def render : SpecTok → List Char
  | ident s => s
  | keyword w _ => w
  | decInt sg ds => sg.render ++ ds
  | hexInt ds => '0' :: 'x' :: ds
  | binInt ds => '0' :: 'b' :: ds
  | str items => '"' :: ((items.map StrItem.render).flatten ++ ['"'])
  | code body => '[' :: '{' :: (body ++ ['}', ']'])
  | varName s => '$' :: s
  | bang w _ => '!' :: w
  | punct p => p.render

/-- the token kind the reference assigns -/
def kind : SpecTok → TokenKind
  | ident _ => .Id
  | keyword _ k => k
  | decInt _ _ => .IntVal
  | hexInt _ => .IntVal
  | binInt _ => .BinaryIntVal
  | str _ => .StrVal
  | code _ => .CodeFragment
  | varName _ => .VarName
  | bang _ k => k
  | punct p => p.kind

/-- well-formedness of the carried data (decidable) -/
def wf : SpecTok → Bool
  | ident s =>
      matchesIdentifier s && !(Tables.keywords.map Prod.fst).contains s && !looksHex s && !looksBin s
  | keyword w k => Tables.keywords.contains (w, k)
  | decInt sg ds =>
      !ds.isEmpty && ds.all isAsciiDigit &&
      (match sg with
       | .minus => decide (valueOf 10 ds ≤ 2 ^ 63)
       | _ => decide (valueOf 10 ds ≤ 2 ^ 64 - 1))
  | hexInt ds => !ds.isEmpty && ds.all isAsciiHex && decide (valueOf 16 ds ≤ 2 ^ 64 - 1)
  | binInt ds => !ds.isEmpty && ds.all isBinDigit && decide (valueOf 2 ds ≤ 2 ^ 64 - 1)
  | str items => items.all StrItem.wf
  | code body => !containsPair '}' ']' body
  | varName s => (match s with | a :: cont => isUAlpha a && cont.all isIdChar | [] => false)
  | bang w k => Tables.bangTable.contains (w, k)
  | punct _ => true

def WF (t : SpecTok) : Prop := t.wf = true

instance (t : SpecTok) : Decidable t.WF := inferInstanceAs (Decidable (t.wf = true))

/-- tokens that change meaning when they end the input without a following separator
(only relevant for the end-of-input variant of the conformance theorem) -/
def isSignPunct : SpecTok → Bool
  | punct .minus => true
  | punct .plus => true
  | _ => false

end SpecTok

/-! ### separators -/

/-- the text between the delimiters of a block comment: plain characters and nested comments -/
inductive CBody
  | nil
  | ch (c : Char) (rest : CBody)
  | nest (inner : CBody) (rest : CBody)
deriving Repr

namespace CBody

def render : CBody → List Char
  | nil => []
  | ch c r => c :: r.render
  | nest i r => '/' :: '*' :: (i.render ++ '*' :: '/' :: r.render)

/-- the character that follows the position in front of this body; every body is followed by a
closing `*/`, hence `*` for the empty body -/
def nextChar : CBody → Char
  | nil => '*'
  | ch c _ => c
  | nest _ _ => '/'

/-- "no stray `/*` or `*/` in the plain parts": a plain character together with the character
following it never reads as a comment delimiter -/
def wf : CBody → Bool
  | nil => true
  | ch c r => !(c == '/' && r.nextChar == '*') && !(c == '*' && r.nextChar == '/') && r.wf
  | nest i r => i.wf && r.wf

end CBody

/-- how the line of a line comment ends -/
inductive Eol | lf | crlf | cr
deriving DecidableEq, Repr

def Eol.render : Eol → List Char
  | .lf => ['\n']
  | .crlf => ['\r', '\n']
  | .cr => ['\r']

/-- separators between tokens.  A line comment is modelled together with the line terminator
that ends it: `//` text eol. -/
inductive Sep
  /-- non-empty run of space, tab, LF, CR -/
  | ws (cs : List Char)
  /-- `//` + text without CR/LF + the line terminator -/
  | lineComment (text : List Char) (eol : Eol)
  /-- `/*` body `*/` with nested comments in the body -/
  | blockComment (body : CBody)
deriving Repr

namespace Sep

def isBlank (c : Char) : Bool := c == ' ' || c == '\t' || c == '\n' || c == '\r'

def render : Sep → List Char
  | ws cs => cs
  | lineComment text eol => '/' :: '/' :: (text ++ eol.render)
  | blockComment b => '/' :: '*' :: (b.render ++ ['*', '/'])

def wf : Sep → Bool
  | ws cs => !cs.isEmpty && cs.all isBlank
  | lineComment text _ => text.all (fun c => c != '\r' && c != '\n')
  | blockComment b => b.wf

def WF (s : Sep) : Prop := s.wf = true

instance (s : Sep) : Decidable s.WF := inferInstanceAs (Decidable (s.wf = true))

end Sep

def renderSeps (seps : List Sep) : List Char := (seps.map Sep.render).flatten

/-- every token is followed by its list of separators -/
def renderAll : List (SpecTok × List Sep) → List Char
  | [] => []
  | (t, seps) :: more => t.render ++ (renderSeps seps ++ renderAll more)

/-- the hypothesis of the conformance theorem: well-formed tokens, each followed by a
non-empty list of well-formed separators -/
def ItemsWF (items : List (SpecTok × List Sep)) : Prop :=
  ∀ it ∈ items, it.1.WF ∧ it.2 ≠ [] ∧ ∀ s ∈ it.2, s.WF

end LexSpec
end Tg
