/-
Text representation shared by every model: `List Char`.
Byte offsets (what the Rust code works with) are prefix sums of `utf8Len`.
-/
namespace Tg

def utf8Len (c : Char) : Nat :=
  if c.toNat < 0x80 then 1 else if c.toNat < 0x800 then 2 else if c.toNat < 0x10000 then 3 else 4

def utf16Len (c : Char) : Nat := if c.toNat < 0x10000 then 1 else 2

def byteLen : List Char → Nat
  | [] => 0
  | c :: cs => utf8Len c + byteLen cs

theorem utf8Len_pos (c : Char) : 0 < utf8Len c := by
  unfold utf8Len; split <;> (try split) <;> (try split) <;> omega

@[simp] theorem byteLen_nil : byteLen [] = 0 := rfl
@[simp] theorem byteLen_cons (c : Char) (cs : List Char) : byteLen (c :: cs) = utf8Len c + byteLen cs := rfl

@[simp] theorem byteLen_append (a b : List Char) : byteLen (a ++ b) = byteLen a + byteLen b := by
  induction a with
  | nil => simp
  | cons c cs ih => simp [ih, Nat.add_assoc]

theorem byteLen_pos_of_ne_nil {s : List Char} (h : s ≠ []) : 0 < byteLen s := by
  cases s with
  | nil => exact absurd rfl h
  | cons c cs => have := utf8Len_pos c; simp; omega

/-- tail-recursive byte length for the driver -/
def byteLenTR (s : List Char) : Nat := go s 0
where go : List Char → Nat → Nat
  | [], n => n
  | c :: cs, n => go cs (n + utf8Len c)

theorem byteLenTR_go (s : List Char) (n : Nat) : byteLenTR.go s n = n + byteLen s := by
  induction s generalizing n with
  | nil => simp [byteLenTR.go]
  | cons c cs ih => simp [byteLenTR.go, ih, Nat.add_assoc]

@[csimp] theorem byteLen_eq_TR : @byteLen = @byteLenTR := by
  funext s; simp [byteLenTR, byteLenTR_go]

/-! ASCII character classes used by the lexer (Rust `char::is_ascii_*`). -/
def isAsciiDigit (c : Char) : Bool := '0' ≤ c && c ≤ '9'
def isAsciiAlpha (c : Char) : Bool := ('a' ≤ c && c ≤ 'z') || ('A' ≤ c && c ≤ 'Z')
def isAsciiAlnum (c : Char) : Bool := isAsciiAlpha c || isAsciiDigit c
def isAsciiHex (c : Char) : Bool := isAsciiDigit c || ('a' ≤ c && c ≤ 'f') || ('A' ≤ c && c ≤ 'F')
/-- Rust `char::is_ascii_whitespace`: SP, HT, LF, FF, CR (not VT). -/
def isAsciiWhitespace (c : Char) : Bool :=
  c == ' ' || c == '\t' || c == '\n' || c == '\x0c' || c == '\r'

/-- Rust `char::is_whitespace` (Unicode White_Space). -/
def isWhitespace (c : Char) : Bool :=
  let n := c.toNat
  (0x09 ≤ n && n ≤ 0x0d) || n == 0x20 || n == 0x85 || n == 0xa0 || n == 0x1680 ||
  (0x2000 ≤ n && n ≤ 0x200a) || n == 0x2028 || n == 0x2029 || n == 0x202f || n == 0x205f || n == 0x3000

end Tg
