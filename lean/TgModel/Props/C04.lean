/-
C04 — Grammar conformance: documented TableGen syntax is accepted, other input is flagged.

Specification: `Doc.Sentence` (DocSpec.lean) over the grammar table that the translator regenerates
from `/repo/syntax.md` and the rule comments of `grammar/*.rs` on every run.
Code side: the parser model `Grammar.defs` run by `exec` (tied to `grammar/*.rs` by tree
correspondence).  `PState.kinds` is the token-kind sequence a parser state is looking at.

All proofs are in `Lemmas/C04Lemmas.lean`; this file only states the property theorems.
-/
import TgModel.Lemmas.C04Lemmas
import TgModel.Lemmas.C04Findings

namespace Tg.C04
open Grammar

/-! ### the full statements (kept visible; see `full_forward_false` / the `_partial` theorems) -/

/-- forward direction at full strength: every documented sentence parses with zero errors -/
def FullForward : Prop :=
  ∀ input : List Char, Doc.Sentence (PState.init input).kinds →
    ∃ r, parse input = .ok r ∧ r.errors = []

/-- converse at full strength (without the trailing-separator relaxation): a clean parse means the
tokens were a documented sentence -/
def FullConverse : Prop :=
  ∀ input : List Char, ∀ r, parse input = .ok r → r.errors = [] → Doc.Sentence (PState.init input).kinds

/-! ### (b) other input is flagged: the reporting discipline, for every program of the DSL -/

/-- syntax errors are never retracted: whatever a grammar function does, the errors recorded before
it are still there afterwards (so one reported error is enough to make the whole parse unclean) -/
theorem errors_only_grow (defs : Defs) (recover : List TokenKind) (fuel : Nat) (p : Prog) (s s' : PState)
    (h : exec defs recover fuel p s = .ok s') : ∃ new, s'.errors = new ++ s.errors :=
  C04L.errors_only_grow defs recover fuel p s s' h

/-- the suppression flag is honest: `is_after_error` is only ever set when an error has been recorded -/
theorem after_error_has_error (defs : Defs) (recover : List TokenKind) (fuel : Nat) (p : Prog) (s s' : PState)
    (h : exec defs recover fuel p s = .ok s') (hs : s.afterError = true → s.errors ≠ []) :
    s'.afterError = true → s'.errors ≠ [] :=
  C04L.after_error_has_error defs recover fuel p s s' h hs

/-- **a missing required token is reported**: when `expect(kind)` does not find `kind`, the state
afterwards has at least one syntax error — either recorded now, or (suppressed) recorded by the
step just before -/
theorem expect_miss_reports (defs : Defs) (recover : List TokenKind) (fuel : Nat) (k : TokenKind) (msg : Option String)
    (s s' : PState) (h : exec defs recover fuel (.expect k msg) s = .ok s') (hmiss : s.cur ≠ k)
    (hs : s.afterError = true → s.errors ≠ []) : s'.errors ≠ [] :=
  C04L.expect_miss_reports defs recover fuel k msg s s' h hmiss hs

/-- the three unconditional error primitives always leave an error behind -/
theorem error_prims_report (defs : Defs) (recover : List TokenKind) (fuel : Nat) (m : String) (s s' : PState) :
    (exec defs recover fuel (.error m) s = .ok s' → s'.errors ≠ []) ∧
    (exec defs recover fuel (.errorAndEat m) s = .ok s' → s'.errors ≠ []) ∧
    (exec defs recover fuel (.errorAndRecover m) s = .ok s' → s'.errors ≠ []) :=
  C04L.error_prims_report defs recover fuel m s s'

/-! ### (a) documented sentences parse clean: proved for the fragment `Frag` -/

/-- every program of the fragment is a sentence of the documented grammar (machine-checked against
the regenerated table: if `syntax.md` changes a rule the fragment uses, this stops compiling) -/
theorem frag_is_documented (p : C04L.Frag.Program) : Doc.Sentence p.render :=
  C04L.frag_is_documented p

/-- **forward direction, partial**: any input whose token kinds are a fragment program parses with
zero syntax errors.  Missing relative to `FullForward`: the sentences outside `Frag`
(listed in `C04Lemmas.lean` next to the definition of `Frag`). -/
theorem forward_partial (input : List Char) (p : C04L.Frag.Program)
    (h : (PState.init input).kinds = p.render) :
    ∃ r, parse input = .ok r ∧ r.errors = [] :=
  C04L.forward_partial input p h

/-- **converse, partial** (types): if the type parser reports nothing new, what it consumed is the
rendering of a type `t`; and unless `t` uses `code` (which the documented `Type` rule lacks: a
listed deviation) that rendering is derivable from `Type` in the documented grammar -/
theorem type_converse_partial (fuel : Nat) (s s' : PState) (input : List Char) (hinv : Inv input s)
    (h : exec defs Tables.recoverTokens fuel (.call .type_) s = .ok s') (hclean : s'.errors = s.errors) :
    ∃ t : C04L.Frag.Ty, s.kinds = t.render ++ s'.kinds ∧ (t.usesCode = false → Doc.Derives (.nt .Type_) t.render) :=
  C04L.type_converse_partial fuel s s' input hinv h hclean

/-! ### the full forward statement is false of the current parser (known findings) -/

/-- `def d { dag a = (1 2); }` is a documented sentence (`Dag ::= "(" DagArg DagArgList? ")"`,
`DagArg ::= Value …`) that the parser rejects: it wants an identifier, `!cast`, `?` or
`!getdagop` as the operator, like llvm-tblgen.  Replayed on the implementation by the check. -/
theorem full_forward_false : ¬ FullForward :=
  C04L.full_forward_false

/-- the restrict-type deviations of DESIGN.md §12.5, each with a machine-checked witness: the text's token
kinds are a documented sentence (`Doc.Sentence`, derivation in the regenerated grammar) and the parser
model reports a syntax error.  Witnesses: `def d { dag a = (1 2); }` (dag operator),
`foreach i = 0b01...0b11 in def x;` (foreach init look-ahead), `def {0, 1};` and `def x{1};`
(def name vs body brace), `def d : A<x = 2, 3>;` (positional after named), `defvar a = b[c 0b1];`
(second integer of a slice element).  The check replays each on the implementation. -/
theorem documented_sentences_rejected :
    C04L.ForwardFailure C04L.dagWitness ∧ C04L.ForwardFailure C04L.ffForeachBin ∧
    C04L.ForwardFailure C04L.ffDefBits ∧ C04L.ForwardFailure C04L.ffDefRange ∧
    C04L.ForwardFailure C04L.ffArgOrder ∧ C04L.ForwardFailure C04L.ffSliceBin :=
  C04L.forward_failures

/-! ### non-vacuity -/

/-- a concrete fragment program with every statement form, its text, and the fact that the text
lexes to exactly its rendering (so `forward_partial` applies to a real input) -/
example : (PState.init C04L.Frag.sampleText).kinds = C04L.Frag.sample.render := by decide +kernel

example : ∃ r, parse C04L.Frag.sampleText = .ok r ∧ r.errors = [] :=
  forward_partial _ C04L.Frag.sample (by decide +kernel)

end Tg.C04
