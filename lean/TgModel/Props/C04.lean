/-
C04 — Grammar conformance: documented TableGen syntax is accepted, other input is flagged.

Specification: `Doc.Sentence` (DocSpec.lean) over the grammar table that the translator regenerates
from `/repo/syntax.md` and the rule comments of `grammar/*.rs` on every run.
Code side: the parser model `Grammar.defs` run by `exec` (tied to `grammar/*.rs` by tree
correspondence).  `PState.kinds` is the token-kind sequence a parser state is looking at.

All proofs are in `Lemmas/C04Lemmas.lean`; this file only states the property theorems.
-/
import TgModel.Lemmas.C04Lemmas
import TgModel.Lemmas.C04AccLemmas
import TgModel.Lemmas.C04ConvLemmas
import TgModel.Lemmas.C04ConvStmt
import TgModel.Lemmas.C04ConvVal
import TgModel.Lemmas.C04TreeTop
import TgModel.Lemmas.C04Findings

namespace Tg.C04
open Grammar

/-! ### the full statements (kept visible; see `full_forward_false` / the `_partial` theorems) -/

/-- forward direction at full strength: every documented sentence parses with zero errors.
Preprocessor directives are trivia (`kinds` does not contain them) and a conditional left open at
the end of the text is an error of its own (C15), so the statement is about texts at whose end
nothing is left in the token source: `Src.endMessage input = none` — true of every text without
conditionals and of every well-nested arrangement (`C15.wellnested_endMessage`), decidable on a
concrete text. -/
def FullForward : Prop :=
  ∀ input : List Char, Doc.Sentence (PState.init input).kinds → Src.endMessage input = none →
    ∃ r, parse input = .ok r ∧ r.errors = []

/-- converse at full strength (without the trailing-separator relaxation): a clean parse means the
tokens were a documented sentence -/
def FullConverse : Prop :=
  ∀ input : List Char, ∀ r, parse input = .ok r → r.errors = [] → Doc.Sentence (PState.init input).kinds

/-! ### (b) other input is flagged: the reporting discipline, for every program of the DSL -/

/-- syntax errors are never retracted: whatever a grammar function does, the errors recorded before
it are still there afterwards (so one reported error is enough to make the whole parse unclean) -/
theorem errors_only_grow (defs : Defs) (recover : List TokenKind) (fuel : Nat) (p : Prog) (s s' : PState)
    (h : exec defs recover fuel p s = .ok s') : ∃ new, s'.errors = new ++ s.errors :=
  C04L.errors_only_grow defs recover fuel p s s' h

/-- the suppression flag is honest: `is_after_error` is only ever set when an error has been recorded -/
theorem after_error_has_error (defs : Defs) (recover : List TokenKind) (fuel : Nat) (p : Prog) (s s' : PState)
    (h : exec defs recover fuel p s = .ok s') (hs : s.afterError = true → s.errors ≠ []) :
    s'.afterError = true → s'.errors ≠ [] :=
  C04L.after_error_has_error defs recover fuel p s s' h hs

/-- **a missing required token is reported**: when `expect(kind)` does not find `kind`, the state
afterwards has at least one syntax error — either recorded now, or (suppressed) recorded by the
step just before -/
theorem expect_miss_reports (defs : Defs) (recover : List TokenKind) (fuel : Nat) (k : TokenKind) (msg : Option String)
    (s s' : PState) (h : exec defs recover fuel (.expect k msg) s = .ok s') (hmiss : s.cur ≠ k)
    (hs : s.afterError = true → s.errors ≠ []) : s'.errors ≠ [] :=
  C04L.expect_miss_reports defs recover fuel k msg s s' h hmiss hs

/-- the three unconditional error primitives always leave an error behind -/
theorem error_prims_report (defs : Defs) (recover : List TokenKind) (fuel : Nat) (m : String) (s s' : PState) :
    (exec defs recover fuel (.error m) s = .ok s' → s'.errors ≠ []) ∧
    (exec defs recover fuel (.errorAndEat m) s = .ok s' → s'.errors ≠ []) ∧
    (exec defs recover fuel (.errorAndRecover m) s = .ok s' → s'.errors ≠ []) :=
  C04L.error_prims_report defs recover fuel m s s'

/-! ### (a) documented sentences parse clean: proved for the fragment `Frag` -/

/-- every program of the fragment is a sentence of the documented grammar (machine-checked against
the regenerated table: if `syntax.md` changes a rule the fragment uses, this stops compiling) -/
theorem frag_is_documented (p : C04L.Frag.Program) : Doc.Sentence p.render :=
  C04L.frag_is_documented p

/-- **forward direction, partial**: any input whose token kinds are a fragment program, with
nothing left in the token source at the end of the text, parses with zero syntax errors.  Missing
relative to `FullForward`: the sentences outside `Frag` (listed in `C04Lemmas.lean` next to the
definition of `Frag`). -/
theorem forward_partial (input : List Char) (p : C04L.Frag.Program)
    (h : (PState.init input).kinds = p.render) (hend : Src.endMessage input = none) :
    ∃ r, parse input = .ok r ∧ r.errors = [] :=
  C04L.forward_partial input p h hend

/-- the same without the side condition: whatever the end of the text is like, the errors are
exactly what `ParserBase::finish` appends for a message left in the token source (`endErrors`:
none, or one error at (len, len)) — the grammar functions themselves report nothing -/
theorem forward_partial_end (input : List Char) (p : C04L.Frag.Program)
    (h : (PState.init input).kinds = p.render) :
    ∃ r, parse input = .ok r ∧ r.errors = endErrors input :=
  C04L.forward_partial_end input p h

/-- the side condition of `forward_partial` cannot be dropped: `include "a"` followed by an
unterminated `#ifdef X` has the token kinds of a fragment program and is reported (C15) -/
theorem forward_needs_clean_end :
    ∃ (input : List Char) (p : C04L.Frag.Program), (PState.init input).kinds = p.render ∧
      ¬ ∃ r, parse input = .ok r ∧ r.errors = [] := by
  refine ⟨['i','n','c','l','u','d','e',' ','"','a','"','\n','#','i','f','d','e','f',' ','X'],
    ⟨.cons .include .nil, by decide⟩, by decide +kernel, C04L.rejected_of (by decide +kernel)⟩

/-- **converse, partial** (types): if the type parser reports nothing new, what it consumed is the
rendering of a type `t`; and unless `t` uses `code` (which the documented `Type` rule lacks: a
listed deviation) that rendering is derivable from `Type` in the documented grammar -/
theorem type_converse_partial (fuel : Nat) (s s' : PState) (input : List Char) (hinv : Inv input s)
    (h : exec defs Tables.recoverTokens fuel (.call .type_) s = .ok s') (hclean : s'.errors = s.errors) :
    ∃ t : C04L.Frag.Ty, s.kinds = t.render ++ s'.kinds ∧ (t.usesCode = false → Doc.Derives (.nt .Type_) t.render) :=
  C04L.type_converse_partial fuel s s' input hinv h hclean

/-! ### the full forward statement is false of the current parser (known findings) -/

/-- `def d { dag a = (1 2); }` is a documented sentence (`Dag ::= "(" DagArg DagArgList? ")"`,
`DagArg ::= Value …`) that the parser rejects: it wants an identifier, `!cast`, `?` or
`!getdagop` as the operator, like llvm-tblgen.  Replayed on the implementation by the check. -/
theorem full_forward_false : ¬ FullForward :=
  C04L.full_forward_false

/-- the restrict-type deviations of DESIGN.md §12.5, each with a machine-checked witness: the text's token
kinds are a documented sentence (`Doc.Sentence`, derivation in the regenerated grammar) and the parser
model reports a syntax error.  Witnesses: `def d { dag a = (1 2); }` (dag operator),
`foreach i = 0b01...0b11 in def x;` (foreach init look-ahead), `def {0, 1};` and `def x{1};`
(def name vs body brace), `def d : A<x = 2, 3>;` (positional after named), `defvar a = b[c 0b1];`
(second integer of a slice element).  The check replays each on the implementation. -/
theorem documented_sentences_rejected :
    C04L.ForwardFailure C04L.dagWitness ∧ C04L.ForwardFailure C04L.ffForeachBin ∧
    C04L.ForwardFailure C04L.ffDefBits ∧ C04L.ForwardFailure C04L.ffDefRange ∧
    C04L.ForwardFailure C04L.ffArgOrder ∧ C04L.ForwardFailure C04L.ffSliceBin :=
  C04L.forward_failures

/-! ### non-vacuity -/

/-- a concrete fragment program with every statement form, its text, and the fact that the text
lexes to exactly its rendering (so `forward_partial` applies to a real input) -/
example : (PState.init C04L.Frag.sampleText).kinds = C04L.Frag.sample.render := by decide +kernel

example : ∃ r, parse C04L.Frag.sampleText = .ok r ∧ r.errors = [] :=
  forward_partial _ C04L.Frag.sample (by decide +kernel) (by decide +kernel)

/-! ### the accessor clause: every constituent is reachable, in source order, through the typed accessors

`AstWalk.walkTree` (AstWalk.lean, over the regenerated `asts!` table) lists everything reachable from
the root through accessors only.  `C04L.reached` is the same listing with structure
(`walkTree t = (reached t).map fmt`, `C04L.walkTree_eq`); `C04L.allNodes t` lists every node of the tree
below the root as (start, kind, end). -/

/-- **every node of the tree of a fragment program is reached by the accessor walk** -/
theorem accessors_reach_all (input : List Char) (p : C04L.Frag.Program)
    (h : (PState.init input).kinds = p.render) (hend : Src.endMessage input = none) :
    ∃ r, parse input = .ok r ∧ r.errors = [] ∧
      ∀ x ∈ C04L.allNodes r.tree, ∃ label, (label, x) ∈ C04L.reached r.tree :=
  C04L.accessors_reach_all input p h hend

/-- the same whatever the end of the text is like (the tree does not depend on what
`ParserBase::finish` appends to the error list) -/
theorem accessors_reach_all_end (input : List Char) (p : C04L.Frag.Program)
    (h : (PState.init input).kinds = p.render) :
    ∃ r, parse input = .ok r ∧ r.errors = endErrors input ∧
      ∀ x ∈ C04L.allNodes r.tree, ∃ label, (label, x) ∈ C04L.reached r.tree :=
  C04L.accessors_reach_all_end input p h

/-- the same in terms of the lines `AstWalk.walkTree` prints -/
theorem accessors_reach_all_printed (input : List Char) (p : C04L.Frag.Program)
    (h : (PState.init input).kinds = p.render) (hend : Src.endMessage input = none) :
    ∃ r, parse input = .ok r ∧ r.errors = [] ∧
      ∀ x ∈ C04L.allNodes r.tree, ∃ label, C04L.fmt (label, x) ∈ AstWalk.walkTree r.tree :=
  C04L.accessors_reach_all_printed input p h hend

/-- the structured listing is the printed one -/
theorem walkTree_is_reached (t : Tree) : AstWalk.walkTree t = (C04L.reached t).map C04L.fmt :=
  C04L.walkTree_eq t

/-- **source order** (any tree, any node, any accessor): what one accessor returns is a sublist of the
child nodes, with non-overlapping byte ranges in increasing order -/
theorem accessor_source_order (off : Nat) (cs : List Tree) (f : AstTable.Field) :
    (AstWalk.select f.sel ((AstWalk.childNodes off cs).filter fun c => f.casts.contains c.2.1)).Pairwise
      (fun a b => a.1 + AstWalk.listLen a.2.2 ≤ b.1) :=
  C04L.accessor_source_order off cs f

/-- strictly increasing start offsets, wherever the nodes an accessor returns are non-empty -/
theorem accessor_source_order_strict (off : Nat) (cs : List Tree) (f : AstTable.Field)
    (hpos : ∀ a ∈ AstWalk.select f.sel ((AstWalk.childNodes off cs).filter fun c => f.casts.contains c.2.1),
      0 < AstWalk.listLen a.2.2) :
    (AstWalk.select f.sel ((AstWalk.childNodes off cs).filter fun c => f.casts.contains c.2.1)).Pairwise
      (fun a b => a.1 < b.1) :=
  C04L.accessor_source_order_strict off cs f hpos

/-- the local criterion behind `accessors_reach_all`: in the tree of a fragment program every node hands
each of its child nodes to one of its accessors (`C04L.goodT`, decidable on a concrete tree) -/
theorem every_node_accessible (input : List Char) (p : C04L.Frag.Program)
    (h : (PState.init input).kinds = p.render) (hend : Src.endMessage input = none) :
    ∃ r, parse input = .ok r ∧ r.errors = [] ∧ C04L.goodT r.tree = true :=
  C04L.forward_tree input p h hend

example : ∃ r, parse C04L.Frag.sampleText = .ok r ∧ r.errors = [] ∧
    ∀ x ∈ C04L.allNodes r.tree, ∃ label, (label, x) ∈ C04L.reached r.tree :=
  accessors_reach_all _ C04L.Frag.sample (by decide +kernel) (by decide +kernel)

/-- the sample's tree has 798 nodes below the root and the walk lists 798 entries (kernel evaluation of the
parser model and of the walk) -/
example : (match parse C04L.Frag.sampleText with
    | .ok r => decide ((C04L.allNodes r.tree).length = 798) && decide ((C04L.reached r.tree).length = 798)
    | _ => false) = true := by decide +kernel

/-! ### the converse, widened: statement skeletons with `Value` abstract

`C04L.DV V` is derivability in the documented grammar extended by "every word of `V` is a `Value`"
(`C04L.DV.of`: it contains the documented grammar).  `C04L.VW w`: `w` is what some clean run of the `value`
parser consumed.  `C04L.Skel` = `include`, `defvar`, `dump`, `assert`, `class`; `sk.shape` is the side
condition under which what the parser takes is what the documented rule has (one string after `include`;
for `class`: `C04L.classShape` — no `code` type, body `;`, no `<>`, no `,>`, no parent with arguments). -/

/-- **converse, partial** (statement skeletons): if the statement parser reports nothing new, what it
consumed derives from the documented nonterminal — every `Value` inside being whatever a clean run of the
`value` parser consumed -/
theorem statement_skeleton_converse (sk : C04L.Skel) (input : List Char) (fuel : Nat) (s s' : PState)
    (hinv : Inv input s) (h : exec defs Tables.recoverTokens fuel (.call sk.fn) s = .ok s')
    (hclean : s'.errors = s.errors) :
    ∃ w, s.kinds = w ++ s'.kinds ∧ (sk.shape w → C04L.DV C04L.VW (.nt sk.nt) w) :=
  C04L.statement_skeleton_converse sk input fuel s s' hinv h hclean

/-- the same with the hypothesis `ValueOK` ("whatever a clean run of `value` consumes is a documented
`Value`") spelled out: plain derivability.  `ValueOK` is a hypothesis, not a fact about the parser: the
value parser takes trailing commas and empty lists that the documented `Value` lacks, so use
`statement_skeleton_converse` together with `value_word_literal` when the values are literals. -/
theorem statement_skeleton_converse_partial (ValueOK : C04L.ValueOK) (sk : C04L.Skel) (input : List Char)
    (fuel : Nat) (s s' : PState) (hinv : Inv input s)
    (h : exec defs Tables.recoverTokens fuel (.call sk.fn) s = .ok s') (hclean : s'.errors = s.errors) :
    ∃ w, s.kinds = w ++ s'.kinds ∧ (sk.shape w → Doc.Derives (.nt sk.nt) w) :=
  C04L.statement_skeleton_converse_partial ValueOK sk input fuel s s' hinv h hclean

/-- the extended grammar contains the documented one, and collapses to it when every admitted word is a
documented `Value` -/
theorem extended_grammar (V : List TokenKind → Prop) (e : Doc.E) (w : List TokenKind) :
    (Doc.Derives e w → C04L.DV V e w) ∧
    ((∀ v, V v → Doc.Derives (.nt .Value_) v) → C04L.DV V e w → Doc.Derives e w) :=
  ⟨C04L.DV.of, fun hV h => C04L.DV.collapse hV h⟩

/-- **`ValueOK` on one-token literals** (run form): at a literal token (integer, string, code fragment,
`true`/`false`, `?`, identifier) not followed by `{`, `[`, `.`, `<`, `#` or another string, a clean run of
`value` consumes exactly that token, a documented `Value` -/
theorem value_ok_literal (fuel : Nat) (s s' : PState)
    (h : exec defs Tables.recoverTokens fuel (.call .value) s = .ok s') (hclean : s'.errors = s.errors)
    (k : TokenKind) (rest : List TokenKind) (hk : s.kinds = k :: rest) (hcur : s.cur = k)
    (hlit : k ∈ C04L.litToks) (hf : C04L.litValFollow (rest.headD .Eof) = true) :
    s'.kinds = rest ∧ Doc.Derives (.nt .Value_) [k] :=
  C04L.value_ok_literal fuel s s' h (by unfold C04L.Clean; rw [hclean]; exact Nat.le_refl _) k rest hk hcur hlit hf

/-- **`ValueOK` on one-token literals** (word form): the part of `ValueOK` that concerns words starting
with a literal token holds -/
theorem value_word_literal : C04L.ValueOKOn C04L.LitWord :=
  C04L.value_ok_literals

/-! non-vacuity: each statement function run on a concrete text (kernel evaluation of the parser model):
no error, everything consumed, the shape condition holds — so the consumed tokens derive -/

example : C04L.DV C04L.VW (.nt .Class_)
    (PState.init "class A<int x = 1, list<bit> y> : B, C;".toList).kinds :=
  C04L.skeleton_on_input .cls _ 400 (by decide +kernel) (by decide +kernel)

example : C04L.DV C04L.VW (.nt .Class_) (PState.init "class A;".toList).kinds :=
  C04L.skeleton_on_input .cls _ 400 (by decide +kernel) (by decide +kernel)

example : C04L.DV C04L.VW (.nt .Dump_) (PState.init "dump \"x\";".toList).kinds :=
  C04L.skeleton_on_input .dump _ 400 (by decide +kernel) trivial

example : C04L.DV C04L.VW (.nt .Defvar_) (PState.init "defvar a = [1, 2];".toList).kinds :=
  C04L.skeleton_on_input .defvar _ 400 (by decide +kernel) trivial

example : C04L.DV C04L.VW (.nt .Assert_) (PState.init "assert c, \"msg\";".toList).kinds :=
  C04L.skeleton_on_input .assert _ 400 (by decide +kernel) trivial

example : C04L.DV C04L.VW (.nt .Include_) (PState.init "include \"a.td\"".toList).kinds :=
  C04L.skeleton_on_input .incl _ 400 (by decide +kernel) (by decide +kernel)

/-- the shape conditions bite: the parser takes these cleanly, the documented rule does not have them -/
example : C04L.runsClean .cls "class A<int x,>;".toList 400 = true ∧
    ¬ C04L.classShape (PState.init "class A<int x,>;".toList).kinds := by
  constructor <;> decide +kernel

example : C04L.runsClean .cls "class A<code c>;".toList 400 = true ∧
    ¬ C04L.classShape (PState.init "class A<code c>;".toList).kinds := by
  constructor <;> decide +kernel

/-- `ValueOK` itself would be too much to ask: the `value` parser takes `[1,]` cleanly -/
example : C04L.okAnd (exec defs Tables.recoverTokens 400 (.call .value) (PState.init "[1,]".toList))
    (fun s' => decide (s'.errors.length = 0) && decide (s'.kinds.length = 0)) = true := by decide +kernel

/-! ### the converse for whole statements and whole files

`C04L.DS e w` = `C04L.DVN C04L.VW C04L.VWN e w`: derivability in the documented grammar extended by "what a
clean run of `value` consumed is a `Value`" (`VW`) and "what a clean run of `name_value` — the name of a
`def`/`defm` — consumed is a name-mode value" (`VWN`).  It contains the documented grammar and `DV VW`
(`C04L.DVN.of`, `C04L.DVN.ofDV`) and collapses to the documented grammar under `ValueOK` and `NameOK`
(`C04L.DVN.collapse`).

`C04L.Shape w` (decidable): none of these token patterns occurs in `w` —
`StrVal StrVal` (string-concat), `< code`, `, code`, `defset code` (type-code: `code` where the documented
`Type` is wanted; the documented field definition `code x;` is not excluded), `, >` (trailing comma of a
template argument list), `class Id < >`, `multiclass Id < >` (empty template argument list).  These are the
places where the statement parser takes more than the documented grammar has, outside of values.  The
other listed deviations (dag-operator, def-name-brace, range-second-integer, slice-second-integer,
foreach-init-lookahead, positional-after-named) make the parser take *less* and need no condition;
list-type-suffix and empty-value-list live inside values (behind `VW`). -/

/-- the excluded patterns, spelled out -/
example : C04L.badPatterns =
    [[.StrVal, .StrVal], [.Less, .Code], [.Comma, .Code], [.Defset, .Code], [.Comma, .Greater],
     [.Class, .Id, .Less, .Greater], [.MultiClass, .Id, .Less, .Greater]] := rfl

/-- **converse, partial** (every statement form — `include`, `assert`, `class`, `def`, `defm`, `defset`,
`defvar`, `dump`, `foreach`, `if`, `let`, `multiclass`, nested statements included): if the form's parser
reports nothing new, what it consumed derives, under the shape predicate, from the form's documented
nonterminal in the extended grammar -/
theorem statement_form_converse (f : C04L.SForm) (input : List Char) (fuel : Nat) (s s' : PState)
    (hinv : Inv input s) (h : exec defs Tables.recoverTokens fuel (.call f.fn) s = .ok s')
    (hclean : s'.errors = s.errors) :
    ∃ w, s.kinds = w ++ s'.kinds ∧ (C04L.Shape w → C04L.DS (.nt f.nt) w) :=
  C04L.statement_form_converse f input fuel s s' hinv h hclean

/-- the same for the dispatching `statement` function and the documented `Statement` -/
theorem statement_converse (input : List Char) (fuel : Nat) (s s' : PState) (hinv : Inv input s)
    (h : exec defs Tables.recoverTokens fuel (.call .statement) s = .ok s') (hclean : s'.errors = s.errors) :
    ∃ w, s.kinds = w ++ s'.kinds ∧ (C04L.Shape w → C04L.DS (.nt .Statement_) w) :=
  C04L.statement_converse input fuel s s' hinv h (by unfold C04L.Clean; rw [hclean]; exact Nat.le_refl _)

/-- **converse at the top, partial**: if `parse` accepts the input without any error and the token kinds
of the input have the shape, they derive from `SourceFile` in the extended grammar -/
theorem source_file_converse_partial (input : List Char) (r : ParseResult) (h : parse input = .ok r)
    (herr : r.errors = []) (hshape : C04L.Shape (PState.init input).kinds) :
    C04L.DS (.nt .SourceFile_) (PState.init input).kinds :=
  C04L.source_file_converse input r h herr hshape

/-- …and in the documented grammar itself, under the two named hypotheses on the value words
(`ValueOK`: what a clean run of `value` consumes is a documented `Value`; `NameOK`: the same for the
name-mode value of `def`/`defm`).  They are hypotheses, not facts about the parser (see `[1,]` above). -/
theorem source_file_converse_doc (ValueOK : C04L.ValueOK) (NameOK : C04L.NameOK) (input : List Char)
    (r : ParseResult) (h : parse input = .ok r) (herr : r.errors = [])
    (hshape : C04L.Shape (PState.init input).kinds) :
    Doc.Sentence (PState.init input).kinds :=
  C04L.source_file_converse_doc ValueOK NameOK input r h herr hshape

/-- the extended grammar of the statement converse: contains the documented grammar and `DV VW`, and
collapses to the documented grammar when the admitted words are documented -/
theorem extended_grammar_names (V N : List TokenKind → Prop) (e : Doc.E) (w : List TokenKind) :
    (Doc.Derives e w → C04L.DVN V N e w) ∧ (C04L.DV V e w → C04L.DVN V N e w) ∧
    ((∀ v, V v → Doc.Derives (.nt .Value_) v) → (∀ v, N v → Doc.Derives (.nt .Value_NameMode_) v) →
      C04L.DVN V N e w → Doc.Derives e w) :=
  ⟨C04L.DVN.of, C04L.DVN.ofDV, fun hV hN h => C04L.DVN.collapse hV hN h⟩

/-- the shape predicate is inherited by every block of adjacent tokens -/
theorem shape_infix (u v x : List TokenKind) (h : C04L.Shape (u ++ v ++ x)) : C04L.Shape v :=
  C04L.Shape.infix h

/-! non-vacuity of `source_file_converse_partial`: texts that between them have every statement form
(nested ones included), every body item, all three `foreach` iterators, `if` with and without `else`, block
and single-statement bodies.  Each parses without error (kernel evaluation of the parser model) and its
token kinds have the shape, so they derive from `SourceFile`. -/

def converseSample1 : List Char := "class A<int x = 1, list<bit> y> : B<1, n = 2>, C { int f = x; let g{0...3} = 2; code c = [{ a }]; defvar v = 1; assert 1, \"m\"; dump \"d\"; }
def d : A<1>;
def : A<1>;
defm m : A<2>, C;".toList

def converseSample2 : List Char := "defset list<A> s = { def e : C; }
let a = 1, b<0-3> = 2 in { def f; }
let a = 1 in def g;
foreach i = [1, 2] in def h#i;
foreach i = {0...3, 5} in { def k; }
foreach i = 1...3 in def l;".toList

def converseSample3 : List Char := "if !eq(1, 2) then { def p; } else def q;
if 1 then def r;
include \"a.td\"
defvar z = 2;
dump z;
assert z, \"no\";".toList

def converseSample4 : List Char := "multiclass M<int n> : N { def x; defm y : Z; let a = 1 in def w; foreach i = [1] in def u; if 1 then def t; defvar dv = 2; assert 1, \"s\"; dump 1; }".toList

example : C04L.DS (.nt .SourceFile_) (PState.init converseSample2).kinds :=
  C04L.source_file_on_input converseSample2 (by decide +kernel) (by decide +kernel)

example : ∃ r, parse converseSample3 = .ok r ∧ r.errors = [] ∧ C04L.Shape (PState.init converseSample3).kinds :=
  let ⟨r, h1, h2⟩ := C04L.acceptsClean_spec (input := converseSample3) (by decide +kernel)
  ⟨r, h1, h2, by decide +kernel⟩

/-- the shape predicate bites exactly where the parser takes more than the documentation: each of these
is accepted without error and does not have the shape; the documented `code` field has it -/
example : C04L.acceptsClean "class A<int x,>;".toList = true ∧
    ¬ C04L.Shape (PState.init "class A<int x,>;".toList).kinds := by constructor <;> decide +kernel
example : C04L.acceptsClean "multiclass A<> { def x; }".toList = true ∧
    ¬ C04L.Shape (PState.init "multiclass A<> { def x; }".toList).kinds := by constructor <;> decide +kernel
example : C04L.acceptsClean "class A<int a, code c>;".toList = true ∧
    ¬ C04L.Shape (PState.init "class A<int a, code c>;".toList).kinds := by constructor <;> decide +kernel
example : C04L.acceptsClean "defset list<code> x = { }".toList = true ∧
    ¬ C04L.Shape (PState.init "defset list<code> x = { }".toList).kinds := by constructor <;> decide +kernel
example : C04L.acceptsClean "include \"a\" \"b\"".toList = true ∧
    ¬ C04L.Shape (PState.init "include \"a\" \"b\"".toList).kinds := by constructor <;> decide +kernel
example : C04L.acceptsClean "def d { code c = [{x}]; }".toList = true ∧
    C04L.Shape (PState.init "def d { code c = [{x}]; }".toList).kinds := by constructor <;> decide +kernel

/-- non-vacuity of `statement_form_converse`: a nested `foreach` run on its own -/
example : C04L.okAnd (exec defs Tables.recoverTokens 2000 (.call C04L.SForm.foreach.fn)
      (PState.init "foreach i = [1, 2] in { if i then def a#i; }".toList))
    (fun s' => decide (s'.errors.length = 0) && decide (s'.kinds.length = 0)) = true := by decide +kernel

/-! ### the converse for values, and the top without hypotheses

`C04L.VShape w` (decidable): none of these token patterns occurs in `w` — `StrVal StrVal` (string-concat),
`< code` (type-code), `[ ]`, `{ }`, `( )` (empty-value-list: `[]`, `{}`, `!op()`, `!cond()`), `, ]`, `, }`,
`, )` (trailing comma of a value list; this also excludes the documented trailing comma of a slice
`x[1,]`), `] <` (list-type-suffix `[1]<int>`).  Every value form is covered (literals, identifiers, bits,
lists, dags, class values, bang operators, `!cond`, paste, range/slice/field suffixes); the remaining
listed deviations (dag-operator, slice-second-integer, range-second-integer, positional-after-named) make
the parser take less. -/

example : C04L.valuePatterns =
    [[.StrVal, .StrVal], [.Less, .Code], [.LSquare, .RSquare], [.LBrace, .RBrace], [.LParen, .RParen],
     [.Comma, .RSquare], [.Comma, .RBrace], [.Comma, .RParen], [.RSquare, .Less]] := rfl

/-- **converse for values** (run form): if the value parser reports nothing new, what it consumed is,
under the value shape, a documented `Value` -/
theorem value_run_converse (fuel : Nat) (s s' : PState)
    (h : exec defs Tables.recoverTokens fuel (.call .value) s = .ok s') (hclean : s'.errors = s.errors) :
    ∃ w, s.kinds = w ++ s'.kinds ∧ (C04L.VShape w → Doc.Derives (.nt .Value_) w) :=
  C04L.value_run_converse fuel s s' h (by unfold C04L.Clean; rw [hclean]; exact Nat.le_refl _)

/-- **`ValueOK` under the value shape**: `VW w → VShape w → Derives Value w` -/
theorem value_converse (w : List TokenKind) (hv : C04L.VW w) (hs : C04L.VShape w) :
    Doc.Derives (.nt .Value_) w :=
  C04L.value_converse hv hs

/-- the same for the name of a `def`/`defm` (`NameOK` under the value shape) -/
theorem name_converse (w : List TokenKind) (hv : C04L.VWN w) (hs : C04L.VShape w) :
    Doc.Derives (.nt .Value_NameMode_) w :=
  C04L.name_converse hv hs

theorem value_ok_shape : C04L.ValueOKOn C04L.VShape :=
  C04L.value_ok_shape

/-- **converse at the top, without hypotheses on values**: if `parse` accepts the input without any error
and the token kinds of the input have the statement shape and the value shape, they are a sentence of the
documented grammar.  (Asking the value shape of the whole input is more than needed: it also rules out an
empty `{ }` body or block and the trailing comma of a slice; `source_file_converse_partial` with
`value_converse` on the value words does without.) -/
theorem source_file_converse_shape (input : List Char) (r : ParseResult) (h : parse input = .ok r)
    (herr : r.errors = []) (hshape : C04L.Shape (PState.init input).kinds)
    (hvshape : C04L.VShape (PState.init input).kinds) :
    Doc.Sentence (PState.init input).kinds :=
  C04L.source_file_converse_shape input r h herr hshape hvshape

/-- a condition inherited by every block of adjacent tokens reaches every admitted word of a derivation in
the extended grammar (this is what turns the two shapes of the whole input into the shape of each value) -/
theorem extended_grammar_restrict (V N G : List TokenKind → Prop) (hG : ∀ u v x, G (u ++ v ++ x) → G v)
    (e : Doc.E) (w : List TokenKind) (h : C04L.DVN V N e w) (hw : G w) :
    C04L.DVN (fun v => V v ∧ G v) (fun v => N v ∧ G v) e w :=
  C04L.DVN.restrict hG h hw

/-- non-vacuity of the value converse: a value with every form, run through the value parser (kernel
evaluation): no error, everything consumed, the value shape holds — so it is a documented `Value` -/
example : Doc.Derives (.nt .Value_) (PState.init
    "!add(a.b, [1, 2]) # C<1, n = 2>.f[0...2]{3} # (op $x, 1:$y) # !cond(1 : \"a\", 0 : ?) # {1, 0} # !cast<list<int>>(x)".toList).kinds :=
  C04L.value_on_input _ 2000 (by decide +kernel) (by decide +kernel)

/-- the value shape bites exactly where the value parser takes more than the documentation: accepted
without error, and not of the shape -/
example : C04L.valueRunsClean "[]".toList 500 = true ∧ ¬ C04L.VShape (PState.init "[]".toList).kinds := by
  constructor <;> decide +kernel
example : C04L.valueRunsClean "[1,]".toList 500 = true ∧ ¬ C04L.VShape (PState.init "[1,]".toList).kinds := by
  constructor <;> decide +kernel
example : C04L.valueRunsClean "[1]<int>".toList 500 = true ∧ ¬ C04L.VShape (PState.init "[1]<int>".toList).kinds := by
  constructor <;> decide +kernel
example : C04L.valueRunsClean "!add()".toList 500 = true ∧ ¬ C04L.VShape (PState.init "!add()".toList).kinds := by
  constructor <;> decide +kernel
example : C04L.valueRunsClean "\"a\" \"b\"".toList 500 = true ∧
    ¬ C04L.VShape (PState.init "\"a\" \"b\"".toList).kinds := by constructor <;> decide +kernel
example : C04L.valueRunsClean "!cast<code>(x)".toList 500 = true ∧
    ¬ C04L.VShape (PState.init "!cast<code>(x)".toList).kinds := by constructor <;> decide +kernel
example : C04L.valueRunsClean "A<>".toList 500 = true ∧ C04L.VShape (PState.init "A<>".toList).kinds := by
  constructor <;> decide +kernel

/-- non-vacuity of `source_file_converse_shape`: the four sample texts are sentences of the documented
grammar — obtained from the parser's verdict, not from a derivation written by hand -/
example : Doc.Sentence (PState.init converseSample1).kinds :=
  C04L.sentence_on_input converseSample1 (by decide +kernel) (by decide +kernel) (by decide +kernel)
example : Doc.Sentence (PState.init converseSample2).kinds :=
  C04L.sentence_on_input converseSample2 (by decide +kernel) (by decide +kernel) (by decide +kernel)
example : Doc.Sentence (PState.init converseSample3).kinds :=
  C04L.sentence_on_input converseSample3 (by decide +kernel) (by decide +kernel) (by decide +kernel)
example : Doc.Sentence (PState.init converseSample4).kinds :=
  C04L.sentence_on_input converseSample4 (by decide +kernel) (by decide +kernel) (by decide +kernel)

/-! ### the converse at the top, with the value conditions asked of the tree

`source_file_converse_shape` asks the value shape of the whole input and thereby also rules out an empty
`{ }` body or block and the documented trailing comma of a slice.  Here the value conditions are asked where
they belong — of the `Value` and `List` nodes of the parse tree (`C04L.treeOK r.tree`, decidable):
* every `Value` node: its proper leaves (not trivia) contain none of `C04L.valuePatterns0` — `StrVal StrVal`,
  `< code`, `[ ]`, `{ }`, `( )`, `, }`, `, )`, `] <`  (the value patterns without `, ]`);
* every `List` node: its proper leaves do not end in `, ]` (a list literal with a trailing comma).
Nothing is asked of the braces of record bodies, statement blocks and `defset`, nor of `x[1,]`.

How: the lemmas of the statement and value converse are proved once more relative to a context (`C04L.RunCtx`:
a predicate `I` every run preserves, a predicate `J` every run reflects); in the application `J s` = "every
node in the builder of `s` passes `C04L.nodeOK`", which holds at the end by hypothesis and therefore at
every earlier state (`C04L.bld_exec`: a subtree once built stays in the builder), and a run of `value` /
`name_value` / `list_` leaves a node whose proper leaves are the consumed token kinds (`C04L.node_built`). -/

example : C04L.valuePatterns0 =
    [[.StrVal, .StrVal], [.Less, .Code], [.LSquare, .RSquare], [.LBrace, .RBrace], [.LParen, .RParen],
     [.Comma, .RBrace], [.Comma, .RParen], [.RSquare, .Less]] := rfl

/-- **converse at the top, values checked in the tree**: if `parse` accepts the input without any error,
the token kinds have the statement shape, and every `Value` / `List` node of the tree passes the node
check, then the token kinds are a sentence of the documented grammar -/
theorem source_file_converse_values (input : List Char) (r : ParseResult) (h : parse input = .ok r)
    (herr : r.errors = []) (hshape : C04L.Shape (PState.init input).kinds) (htree : C04L.treeOK r.tree = true) :
    Doc.Sentence (PState.init input).kinds :=
  C04L.source_file_converse_values input r h herr hshape htree

/-- what the tree check is: every subtree passes `nodeOK`, which looks at `Value` and `List` nodes only -/
theorem treeOK_iff (t : Tree) : C04L.treeOK t = true ↔ ∀ x ∈ C04L.subs t, C04L.nodeOK x = true := by
  simp [C04L.treeOK]

/-- every run of the parser model keeps what it has built, and the proper leaves of the builder follow the
token kinds it consumes -/
theorem builder_follows_tokens (input : List Char) (fuel : Nat) (p : Prog) (s s' : PState) (hinv : Inv input s)
    (h : exec defs Tables.recoverTokens fuel p s = .ok s') :
    (∀ t, C04L.Occ t s.b → C04L.Occ t s'.b) ∧ (plainK s.cur → C04L.tot s' = C04L.tot s) :=
  ⟨(C04L.bld_exec defs Tables.recoverTokens input fuel p s s' hinv h).occ,
   fun hp => ((C04L.bld_exec defs Tables.recoverTokens input fuel p s s' hinv h).lk hp).2⟩

/-- now within the hypotheses (kernel evaluation of the parser model and of the checks): empty bodies and
blocks, and the trailing comma of a slice -/
example : Doc.Sentence (PState.init "class A { }".toList).kinds :=
  C04L.sentence_of_tree _ (by decide +kernel) (by decide +kernel)
example : Doc.Sentence (PState.init "defset list<A> S = { }".toList).kinds :=
  C04L.sentence_of_tree _ (by decide +kernel) (by decide +kernel)
example : Doc.Sentence (PState.init "if 1 then { }".toList).kinds :=
  C04L.sentence_of_tree _ (by decide +kernel) (by decide +kernel)
example : Doc.Sentence (PState.init "def d { int x = l[1,]; }".toList).kinds :=
  C04L.sentence_of_tree _ (by decide +kernel) (by decide +kernel)
example : Doc.Sentence (PState.init "def d { list<int> l = [x[1,]]; }".toList).kinds :=
  C04L.sentence_of_tree _ (by decide +kernel) (by decide +kernel)

/-- …which the whole-input value shape of `source_file_converse_shape` excluded -/
example : ¬ C04L.VShape (PState.init "class A { }".toList).kinds ∧
    ¬ C04L.VShape (PState.init "def d { int x = l[1,]; }".toList).kinds := by constructor <;> decide +kernel

/-- still outside, as they should be: accepted without error, the tree check fails -/
example : C04L.acceptsClean "def d { list<int> l = [ ]; }".toList = true ∧
    C04L.acceptsTreeOK "def d { list<int> l = [ ]; }".toList = false := by constructor <;> decide +kernel
example : C04L.acceptsClean "def d { list<int> l = [1,]; }".toList = true ∧
    C04L.acceptsTreeOK "def d { list<int> l = [1,]; }".toList = false := by constructor <;> decide +kernel
example : C04L.acceptsClean "def d { bits<2> b = {}; }".toList = true ∧
    C04L.acceptsTreeOK "def d { bits<2> b = {}; }".toList = false := by constructor <;> decide +kernel

/-! ### negative facts, as theorems

`C04L.rem n e w` lists every rest of `w` after a word of `e` (`C04L.rem_complete`: it misses no derivation of
the documented grammar; out of fuel it answers with every suffix), so `[] ∉ rem n e w`, evaluated by the
kernel, refutes `Doc.Derives e w` (`C04L.not_derives`). -/

/-- the matcher misses nothing -/
theorem matcher_complete (e : Doc.E) (u : List TokenKind) (h : Doc.Derives e u) (n : Nat) (rest : List TokenKind) :
    rest ∈ C04L.rem n e (u ++ rest) :=
  C04L.rem_complete h n rest

/-- **`ValueOK` is false**: the value parser takes `[ ]` without an error (`C04L.empty_list_vw`, the run by
kernel evaluation) and `[ ]` is not a documented `Value` (`C04L.empty_list_not_value`, by inversion of the
documented rules: a `List` contains a `ValueList`, which is not empty) -/
theorem valueOK_false : ¬ C04L.ValueOK :=
  C04L.valueOK_false

/-- the listed deviations where the parser takes more than the documented grammar: each text is accepted
without any error and its token kinds are not a sentence of the documented grammar
(`C04L.AcceptedNotDocumented text`) -/
theorem deviation_string_concat_accepted_not_documented :
    C04L.AcceptedNotDocumented "include \"a\" \"b\"" ∧ C04L.AcceptedNotDocumented "defvar a = \"x\" \"y\";" :=
  C04L.deviation_string_concat_accepted_not_documented

theorem deviation_type_code_accepted_not_documented :
    C04L.AcceptedNotDocumented "class A<code c>;" ∧ C04L.AcceptedNotDocumented "def d { list<code> l; }" ∧
    C04L.AcceptedNotDocumented "defset code x = { }" ∧ C04L.AcceptedNotDocumented "defvar a = !cast<code>(\"x\");" :=
  C04L.deviation_type_code_accepted_not_documented

theorem deviation_empty_value_list_accepted_not_documented :
    C04L.AcceptedNotDocumented "defvar a = [];" ∧ C04L.AcceptedNotDocumented "defvar a = {};" ∧
    C04L.AcceptedNotDocumented "defvar a = !add();" ∧ C04L.AcceptedNotDocumented "defvar a = !cond();" :=
  C04L.deviation_empty_value_list_accepted_not_documented

theorem deviation_list_type_suffix_accepted_not_documented :
    C04L.AcceptedNotDocumented "defvar a = [1, 2]<int>;" :=
  C04L.deviation_list_type_suffix_accepted_not_documented

theorem deviation_trailing_separator_accepted_not_documented :
    C04L.AcceptedNotDocumented "class A<int x,>;" ∧ C04L.AcceptedNotDocumented "class A<>;" ∧
    C04L.AcceptedNotDocumented "defvar a = [1,];" ∧ C04L.AcceptedNotDocumented "defvar a = {1,};" ∧
    C04L.AcceptedNotDocumented "defvar a = !add(1,);" ∧ C04L.AcceptedNotDocumented "defvar a = !cond(1 : 2,);" :=
  C04L.deviation_trailing_separator_accepted_not_documented

/-- what `AcceptedNotDocumented` says -/
example (text : String) : C04L.AcceptedNotDocumented text ↔
    ((∃ r, parse text.toList = .ok r ∧ r.errors = []) ∧ ¬ Doc.Sentence (PState.init text.toList).kinds) := Iff.rfl

/-- **the converse at full strength is false** (as the forward direction is, `full_forward_false`) -/
theorem full_converse_false : ¬ FullConverse := by
  intro h
  obtain ⟨⟨r, hr, he⟩, hn⟩ := C04L.deviation_list_type_suffix_accepted_not_documented
  exact hn (h _ r hr he)

end Tg.C04
