/-
C04 — Grammar conformance: documented TableGen syntax is accepted, other input is flagged.

Specification: `Doc.Sentence` (DocSpec.lean) over the grammar table that the translator regenerates
from `/repo/syntax.md` and the rule comments of `grammar/*.rs` on every run.
Code side: the parser model `Grammar.defs` run by `exec` (tied to `grammar/*.rs` by tree
correspondence).  `PState.kinds` is the token-kind sequence a parser state is looking at.

All proofs are in `Lemmas/C04Lemmas.lean`; this file only states the property theorems.
-/
import TgModel.Lemmas.C04Lemmas
import TgModel.Lemmas.C04AccLemmas
import TgModel.Lemmas.C04ConvLemmas
import TgModel.Lemmas.C04Findings

namespace Tg.C04
open Grammar

/-! ### the full statements (kept visible; see `full_forward_false` / the `_partial` theorems) -/

/-- forward direction at full strength: every documented sentence parses with zero errors.
Preprocessor directives are trivia (`kinds` does not contain them) and a conditional left open at
the end of the text is an error of its own (C15), so the statement is about texts at whose end
nothing is left in the token source: `Src.endMessage input = none` — true of every text without
conditionals and of every well-nested arrangement (`C15.wellnested_endMessage`), decidable on a
concrete text. -/
def FullForward : Prop :=
  ∀ input : List Char, Doc.Sentence (PState.init input).kinds → Src.endMessage input = none →
    ∃ r, parse input = .ok r ∧ r.errors = []

/-- converse at full strength (without the trailing-separator relaxation): a clean parse means the
tokens were a documented sentence -/
def FullConverse : Prop :=
  ∀ input : List Char, ∀ r, parse input = .ok r → r.errors = [] → Doc.Sentence (PState.init input).kinds

/-! ### (b) other input is flagged: the reporting discipline, for every program of the DSL -/

/-- syntax errors are never retracted: whatever a grammar function does, the errors recorded before
it are still there afterwards (so one reported error is enough to make the whole parse unclean) -/
theorem errors_only_grow (defs : Defs) (recover : List TokenKind) (fuel : Nat) (p : Prog) (s s' : PState)
    (h : exec defs recover fuel p s = .ok s') : ∃ new, s'.errors = new ++ s.errors :=
  C04L.errors_only_grow defs recover fuel p s s' h

/-- the suppression flag is honest: `is_after_error` is only ever set when an error has been recorded -/
theorem after_error_has_error (defs : Defs) (recover : List TokenKind) (fuel : Nat) (p : Prog) (s s' : PState)
    (h : exec defs recover fuel p s = .ok s') (hs : s.afterError = true → s.errors ≠ []) :
    s'.afterError = true → s'.errors ≠ [] :=
  C04L.after_error_has_error defs recover fuel p s s' h hs

/-- **a missing required token is reported**: when `expect(kind)` does not find `kind`, the state
afterwards has at least one syntax error — either recorded now, or (suppressed) recorded by the
step just before -/
theorem expect_miss_reports (defs : Defs) (recover : List TokenKind) (fuel : Nat) (k : TokenKind) (msg : Option String)
    (s s' : PState) (h : exec defs recover fuel (.expect k msg) s = .ok s') (hmiss : s.cur ≠ k)
    (hs : s.afterError = true → s.errors ≠ []) : s'.errors ≠ [] :=
  C04L.expect_miss_reports defs recover fuel k msg s s' h hmiss hs

/-- the three unconditional error primitives always leave an error behind -/
theorem error_prims_report (defs : Defs) (recover : List TokenKind) (fuel : Nat) (m : String) (s s' : PState) :
    (exec defs recover fuel (.error m) s = .ok s' → s'.errors ≠ []) ∧
    (exec defs recover fuel (.errorAndEat m) s = .ok s' → s'.errors ≠ []) ∧
    (exec defs recover fuel (.errorAndRecover m) s = .ok s' → s'.errors ≠ []) :=
  C04L.error_prims_report defs recover fuel m s s'

/-! ### (a) documented sentences parse clean: proved for the fragment `Frag` -/

/-- every program of the fragment is a sentence of the documented grammar (machine-checked against
the regenerated table: if `syntax.md` changes a rule the fragment uses, this stops compiling) -/
theorem frag_is_documented (p : C04L.Frag.Program) : Doc.Sentence p.render :=
  C04L.frag_is_documented p

/-- **forward direction, partial**: any input whose token kinds are a fragment program, with
nothing left in the token source at the end of the text, parses with zero syntax errors.  Missing
relative to `FullForward`: the sentences outside `Frag` (listed in `C04Lemmas.lean` next to the
definition of `Frag`). -/
theorem forward_partial (input : List Char) (p : C04L.Frag.Program)
    (h : (PState.init input).kinds = p.render) (hend : Src.endMessage input = none) :
    ∃ r, parse input = .ok r ∧ r.errors = [] :=
  C04L.forward_partial input p h hend

/-- the same without the side condition: whatever the end of the text is like, the errors are
exactly what `ParserBase::finish` appends for a message left in the token source (`endErrors`:
none, or one error at (len, len)) — the grammar functions themselves report nothing -/
theorem forward_partial_end (input : List Char) (p : C04L.Frag.Program)
    (h : (PState.init input).kinds = p.render) :
    ∃ r, parse input = .ok r ∧ r.errors = endErrors input :=
  C04L.forward_partial_end input p h

/-- the side condition of `forward_partial` cannot be dropped: `include "a"` followed by an
unterminated `#ifdef X` has the token kinds of a fragment program and is reported (C15) -/
theorem forward_needs_clean_end :
    ∃ (input : List Char) (p : C04L.Frag.Program), (PState.init input).kinds = p.render ∧
      ¬ ∃ r, parse input = .ok r ∧ r.errors = [] := by
  refine ⟨['i','n','c','l','u','d','e',' ','"','a','"','\n','#','i','f','d','e','f',' ','X'],
    ⟨.cons .include .nil, by decide⟩, by decide +kernel, C04L.rejected_of (by decide +kernel)⟩

/-- **converse, partial** (types): if the type parser reports nothing new, what it consumed is the
rendering of a type `t`; and unless `t` uses `code` (which the documented `Type` rule lacks: a
listed deviation) that rendering is derivable from `Type` in the documented grammar -/
theorem type_converse_partial (fuel : Nat) (s s' : PState) (input : List Char) (hinv : Inv input s)
    (h : exec defs Tables.recoverTokens fuel (.call .type_) s = .ok s') (hclean : s'.errors = s.errors) :
    ∃ t : C04L.Frag.Ty, s.kinds = t.render ++ s'.kinds ∧ (t.usesCode = false → Doc.Derives (.nt .Type_) t.render) :=
  C04L.type_converse_partial fuel s s' input hinv h hclean

/-! ### the full forward statement is false of the current parser (known findings) -/

/-- `def d { dag a = (1 2); }` is a documented sentence (`Dag ::= "(" DagArg DagArgList? ")"`,
`DagArg ::= Value …`) that the parser rejects: it wants an identifier, `!cast`, `?` or
`!getdagop` as the operator, like llvm-tblgen.  Replayed on the implementation by the check. -/
theorem full_forward_false : ¬ FullForward :=
  C04L.full_forward_false

/-- the restrict-type deviations of DESIGN.md §12.5, each with a machine-checked witness: the text's token
kinds are a documented sentence (`Doc.Sentence`, derivation in the regenerated grammar) and the parser
model reports a syntax error.  Witnesses: `def d { dag a = (1 2); }` (dag operator),
`foreach i = 0b01...0b11 in def x;` (foreach init look-ahead), `def {0, 1};` and `def x{1};`
(def name vs body brace), `def d : A<x = 2, 3>;` (positional after named), `defvar a = b[c 0b1];`
(second integer of a slice element).  The check replays each on the implementation. -/
theorem documented_sentences_rejected :
    C04L.ForwardFailure C04L.dagWitness ∧ C04L.ForwardFailure C04L.ffForeachBin ∧
    C04L.ForwardFailure C04L.ffDefBits ∧ C04L.ForwardFailure C04L.ffDefRange ∧
    C04L.ForwardFailure C04L.ffArgOrder ∧ C04L.ForwardFailure C04L.ffSliceBin :=
  C04L.forward_failures

/-! ### non-vacuity -/

/-- a concrete fragment program with every statement form, its text, and the fact that the text
lexes to exactly its rendering (so `forward_partial` applies to a real input) -/
example : (PState.init C04L.Frag.sampleText).kinds = C04L.Frag.sample.render := by decide +kernel

example : ∃ r, parse C04L.Frag.sampleText = .ok r ∧ r.errors = [] :=
  forward_partial _ C04L.Frag.sample (by decide +kernel) (by decide +kernel)

/-! ### the accessor clause: every constituent is reachable, in source order, through the typed accessors

`AstWalk.walkTree` (AstWalk.lean, over the regenerated `asts!` table) lists everything reachable from
the root through accessors only.  `C04L.reached` is the same listing with structure
(`walkTree t = (reached t).map fmt`, `C04L.walkTree_eq`); `C04L.allNodes t` lists every node of the tree
below the root as (start, kind, end). -/

/-- **every node of the tree of a fragment program is reached by the accessor walk** -/
theorem accessors_reach_all (input : List Char) (p : C04L.Frag.Program)
    (h : (PState.init input).kinds = p.render) (hend : Src.endMessage input = none) :
    ∃ r, parse input = .ok r ∧ r.errors = [] ∧
      ∀ x ∈ C04L.allNodes r.tree, ∃ label, (label, x) ∈ C04L.reached r.tree :=
  C04L.accessors_reach_all input p h hend

/-- the same whatever the end of the text is like (the tree does not depend on what
`ParserBase::finish` appends to the error list) -/
theorem accessors_reach_all_end (input : List Char) (p : C04L.Frag.Program)
    (h : (PState.init input).kinds = p.render) :
    ∃ r, parse input = .ok r ∧ r.errors = endErrors input ∧
      ∀ x ∈ C04L.allNodes r.tree, ∃ label, (label, x) ∈ C04L.reached r.tree :=
  C04L.accessors_reach_all_end input p h

/-- the same in terms of the lines `AstWalk.walkTree` prints -/
theorem accessors_reach_all_printed (input : List Char) (p : C04L.Frag.Program)
    (h : (PState.init input).kinds = p.render) (hend : Src.endMessage input = none) :
    ∃ r, parse input = .ok r ∧ r.errors = [] ∧
      ∀ x ∈ C04L.allNodes r.tree, ∃ label, C04L.fmt (label, x) ∈ AstWalk.walkTree r.tree :=
  C04L.accessors_reach_all_printed input p h hend

/-- the structured listing is the printed one -/
theorem walkTree_is_reached (t : Tree) : AstWalk.walkTree t = (C04L.reached t).map C04L.fmt :=
  C04L.walkTree_eq t

/-- **source order** (any tree, any node, any accessor): what one accessor returns is a sublist of the
child nodes, with non-overlapping byte ranges in increasing order -/
theorem accessor_source_order (off : Nat) (cs : List Tree) (f : AstTable.Field) :
    (AstWalk.select f.sel ((AstWalk.childNodes off cs).filter fun c => f.casts.contains c.2.1)).Pairwise
      (fun a b => a.1 + AstWalk.listLen a.2.2 ≤ b.1) :=
  C04L.accessor_source_order off cs f

/-- strictly increasing start offsets, wherever the nodes an accessor returns are non-empty -/
theorem accessor_source_order_strict (off : Nat) (cs : List Tree) (f : AstTable.Field)
    (hpos : ∀ a ∈ AstWalk.select f.sel ((AstWalk.childNodes off cs).filter fun c => f.casts.contains c.2.1),
      0 < AstWalk.listLen a.2.2) :
    (AstWalk.select f.sel ((AstWalk.childNodes off cs).filter fun c => f.casts.contains c.2.1)).Pairwise
      (fun a b => a.1 < b.1) :=
  C04L.accessor_source_order_strict off cs f hpos

/-- the local criterion behind `accessors_reach_all`: in the tree of a fragment program every node hands
each of its child nodes to one of its accessors (`C04L.goodT`, decidable on a concrete tree) -/
theorem every_node_accessible (input : List Char) (p : C04L.Frag.Program)
    (h : (PState.init input).kinds = p.render) (hend : Src.endMessage input = none) :
    ∃ r, parse input = .ok r ∧ r.errors = [] ∧ C04L.goodT r.tree = true :=
  C04L.forward_tree input p h hend

example : ∃ r, parse C04L.Frag.sampleText = .ok r ∧ r.errors = [] ∧
    ∀ x ∈ C04L.allNodes r.tree, ∃ label, (label, x) ∈ C04L.reached r.tree :=
  accessors_reach_all _ C04L.Frag.sample (by decide +kernel) (by decide +kernel)

/-- the sample's tree has 798 nodes below the root and the walk lists 798 entries (kernel evaluation of the
parser model and of the walk) -/
example : (match parse C04L.Frag.sampleText with
    | .ok r => decide ((C04L.allNodes r.tree).length = 798) && decide ((C04L.reached r.tree).length = 798)
    | _ => false) = true := by decide +kernel

/-! ### the converse, widened: statement skeletons with `Value` abstract

`C04L.DV V` is derivability in the documented grammar extended by "every word of `V` is a `Value`"
(`C04L.DV.of`: it contains the documented grammar).  `C04L.VW w`: `w` is what some clean run of the `value`
parser consumed.  `C04L.Skel` = `include`, `defvar`, `dump`, `assert`, `class`; `sk.shape` is the side
condition under which what the parser takes is what the documented rule has (one string after `include`;
for `class`: `C04L.classShape` — no `code` type, body `;`, no `<>`, no `,>`, no parent with arguments). -/

/-- **converse, partial** (statement skeletons): if the statement parser reports nothing new, what it
consumed derives from the documented nonterminal — every `Value` inside being whatever a clean run of the
`value` parser consumed -/
theorem statement_skeleton_converse (sk : C04L.Skel) (input : List Char) (fuel : Nat) (s s' : PState)
    (hinv : Inv input s) (h : exec defs Tables.recoverTokens fuel (.call sk.fn) s = .ok s')
    (hclean : s'.errors = s.errors) :
    ∃ w, s.kinds = w ++ s'.kinds ∧ (sk.shape w → C04L.DV C04L.VW (.nt sk.nt) w) :=
  C04L.statement_skeleton_converse sk input fuel s s' hinv h hclean

/-- the same with the hypothesis `ValueOK` ("whatever a clean run of `value` consumes is a documented
`Value`") spelled out: plain derivability.  `ValueOK` is a hypothesis, not a fact about the parser: the
value parser takes trailing commas and empty lists that the documented `Value` lacks, so use
`statement_skeleton_converse` together with `value_word_literal` when the values are literals. -/
theorem statement_skeleton_converse_partial (ValueOK : C04L.ValueOK) (sk : C04L.Skel) (input : List Char)
    (fuel : Nat) (s s' : PState) (hinv : Inv input s)
    (h : exec defs Tables.recoverTokens fuel (.call sk.fn) s = .ok s') (hclean : s'.errors = s.errors) :
    ∃ w, s.kinds = w ++ s'.kinds ∧ (sk.shape w → Doc.Derives (.nt sk.nt) w) :=
  C04L.statement_skeleton_converse_partial ValueOK sk input fuel s s' hinv h hclean

/-- the extended grammar contains the documented one, and collapses to it when every admitted word is a
documented `Value` -/
theorem extended_grammar (V : List TokenKind → Prop) (e : Doc.E) (w : List TokenKind) :
    (Doc.Derives e w → C04L.DV V e w) ∧
    ((∀ v, V v → Doc.Derives (.nt .Value_) v) → C04L.DV V e w → Doc.Derives e w) :=
  ⟨C04L.DV.of, fun hV h => C04L.DV.collapse hV h⟩

/-- **`ValueOK` on one-token literals** (run form): at a literal token (integer, string, code fragment,
`true`/`false`, `?`, identifier) not followed by `{`, `[`, `.`, `<`, `#` or another string, a clean run of
`value` consumes exactly that token, a documented `Value` -/
theorem value_ok_literal (fuel : Nat) (s s' : PState)
    (h : exec defs Tables.recoverTokens fuel (.call .value) s = .ok s') (hclean : s'.errors = s.errors)
    (k : TokenKind) (rest : List TokenKind) (hk : s.kinds = k :: rest) (hcur : s.cur = k)
    (hlit : k ∈ C04L.litToks) (hf : C04L.litValFollow (rest.headD .Eof) = true) :
    s'.kinds = rest ∧ Doc.Derives (.nt .Value_) [k] :=
  C04L.value_ok_literal fuel s s' h (by unfold C04L.Clean; rw [hclean]; exact Nat.le_refl _) k rest hk hcur hlit hf

/-- **`ValueOK` on one-token literals** (word form): the part of `ValueOK` that concerns words starting
with a literal token holds -/
theorem value_word_literal : C04L.ValueOKOn C04L.LitWord :=
  C04L.value_ok_literals

/-! non-vacuity: each statement function run on a concrete text (kernel evaluation of the parser model):
no error, everything consumed, the shape condition holds — so the consumed tokens derive -/

example : C04L.DV C04L.VW (.nt .Class_)
    (PState.init "class A<int x = 1, list<bit> y> : B, C;".toList).kinds :=
  C04L.skeleton_on_input .cls _ 400 (by decide +kernel) (by decide +kernel)

example : C04L.DV C04L.VW (.nt .Class_) (PState.init "class A;".toList).kinds :=
  C04L.skeleton_on_input .cls _ 400 (by decide +kernel) (by decide +kernel)

example : C04L.DV C04L.VW (.nt .Dump_) (PState.init "dump \"x\";".toList).kinds :=
  C04L.skeleton_on_input .dump _ 400 (by decide +kernel) trivial

example : C04L.DV C04L.VW (.nt .Defvar_) (PState.init "defvar a = [1, 2];".toList).kinds :=
  C04L.skeleton_on_input .defvar _ 400 (by decide +kernel) trivial

example : C04L.DV C04L.VW (.nt .Assert_) (PState.init "assert c, \"msg\";".toList).kinds :=
  C04L.skeleton_on_input .assert _ 400 (by decide +kernel) trivial

example : C04L.DV C04L.VW (.nt .Include_) (PState.init "include \"a.td\"".toList).kinds :=
  C04L.skeleton_on_input .incl _ 400 (by decide +kernel) (by decide +kernel)

/-- the shape conditions bite: the parser takes these cleanly, the documented rule does not have them -/
example : C04L.runsClean .cls "class A<int x,>;".toList 400 = true ∧
    ¬ C04L.classShape (PState.init "class A<int x,>;".toList).kinds := by
  constructor <;> decide +kernel

example : C04L.runsClean .cls "class A<code c>;".toList 400 = true ∧
    ¬ C04L.classShape (PState.init "class A<code c>;".toList).kinds := by
  constructor <;> decide +kernel

/-- `ValueOK` itself would be too much to ask: the `value` parser takes `[1,]` cleanly -/
example : C04L.okAnd (exec defs Tables.recoverTokens 400 (.call .value) (PState.init "[1,]".toList))
    (fun s' => decide (s'.errors.length = 0) && decide (s'.kinds.length = 0)) = true := by decide +kernel

end Tg.C04
