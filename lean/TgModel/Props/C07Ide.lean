/-
C07 on the model of the language server: history independence of the CONCRETE analysis.

`Props/C07.lean` proves, for every `Host.Env`, that after any history the observable inputs of the host (file set,
root, per-file content and include map) are those a freshly started host computes from the final file system and
root.  `Lemmas/HostBridge.lean` instantiates `Host.Env` with the concrete parser and include resolution
(`bridgeEnv includeDir`; paths, texts and include names are numbered by injective codes, a path by the code of its
component sequence) and proves that the fresh host computes exactly the workspace `buildWorkspace` builds
(`fresh_refines_buildWorkspace`, relation `Refines`: same root, same files — the host lists the most recently
collected first, the workspace in collection order —, per file the same content and the same include map).
Together: after ANY history of edits, root selections and disk changes that ends with the server's
`didOpen`/`didChange` step (text of `p`, then `p` as root), the inputs of the analysis are exactly those from which
`buildWorkspace (final file system) p` is built.  Every handler of the Ide model (`diagnosticsExec`,
`documentSymbolExec`, `foldingRangeExec`, `documentLinkExec`, `gotoDefinitionExec`, `referencesExec`, `hoverExec`,
`inlayHintExec`, `completionExec`) is a function of that workspace (`Analysis.new ws`), so under the salsa
assumption of C07 all nine answers are those on `buildWorkspace (final file system) (final root)`.

The only hypothesis is the one of the generic theorem: the host did not panic before (`hdb`: its database exists
— a root that was never given a text, or too little fuel, make the abstract host fail).  For the histories a
server produces it is discharged in `C11Ide.session_never_fails_ide`.
-/
import TgModel.Props.C07
import TgModel.Props.C03
import TgModel.Lemmas.HostBridge

namespace Tg.C07
open Host Tg.Ide Tg.Ide.Bridge

/-- a step of a concrete history -/
inductive COp where
  | edit (p t : String)
  | selectRoot (p : String)
  | disk (p t : String)

def absOp : COp → Op
  | .edit p t => .edit (encP p) (encS t)
  | .selectRoot p => .selectRoot (encP p)
  | .disk p t => .disk (encP p) (encS t)

/-- the file system after a history: the texts written, in order (the last entry for a path wins) -/
def vfsOf : List COp → List (String × String)
  | [] => []
  | .edit p t :: h => (p, t) :: vfsOf h
  | .selectRoot _ :: h => vfsOf h
  | .disk p t :: h => (p, t) :: vfsOf h

theorem vfsOf_append (a b : List COp) : vfsOf (a ++ b) = vfsOf a ++ vfsOf b := by
  induction a with
  | nil => rfl
  | cons op a ih => cases op <;> simp [vfsOf, ih]

/-- the file system of the abstract host after the history is the abstract image of the concrete one -/
theorem run_fs (env : Env) (fuel : Nat) : ∀ h : List COp, (run env fuel (h.map absOp)).fs = fsOf (vfsOf h) := by
  refine snoc_induction ?_ ?_
  · simp [run, vfsOf, fsOf_nil]
  · intro h op ih
    rw [List.map_append, List.map_singleton, run_snoc, vfsOf_append]
    cases op with
    | edit p t => simp only [absOp, step, ih, vfsOf, fsOf_append]
    | selectRoot p => simp only [absOp, step, ih, vfsOf, List.append_nil]
    | disk p t => simp only [absOp, step, ih, vfsOf, fsOf_append]

/-- **history independence of the concrete analysis**: after any history followed by the text of `p` and the
selection of `p` as root, the database of the host refines the workspace built from the final file system with
root `p` -/
theorem history_independent_ide (includeDir : Option String) (fuel : Nat) (pre : List COp) (p t : String) (db : Db)
    (hdb : (run (bridgeEnv includeDir) fuel ((pre ++ [COp.edit p t, COp.selectRoot p]).map absOp)).db = some db) :
    ∃ ws, buildWorkspace (vfsOf pre ++ [(p, t)]) p includeDir = .ok ws ∧
      PEq (ws.pathStr ws.root) p ∧ Refines (vfsOf pre ++ [(p, t)]) ws db := by
  obtain ⟨ws, hb⟩ := C03.buildWorkspace_total (vfsOf pre ++ [(p, t)]) p includeDir
  have hmap : (pre ++ [COp.edit p t, COp.selectRoot p]).map absOp =
      pre.map absOp ++ [Op.edit (encP p) (encS t), Op.selectRoot (encP p)] := by simp [absOp]
  have hfs : (run (bridgeEnv includeDir) fuel ((pre ++ [COp.edit p t, COp.selectRoot p]).map absOp)).fs =
      fsOf (vfsOf pre ++ [(p, t)]) := by
    rw [run_fs, vfsOf_append]; simp [vfsOf]
  rw [hmap] at hdb hfs
  have hgen := history_independent_any (bridgeEnv includeDir) fuel (pre.map absOp) (encP p) (encS t) db hdb
  rw [hfs] at hgen
  have hroot : readV (vfsOf pre ++ [(p, t)]) p = some t := by
    rw [readV_append]; simp [pathEq_iff.mpr (PEq.refl p)]
  obtain ⟨dB, hB, hp, hR⟩ := fresh_refines_buildWorkspace hb hroot (Nat.le_refl _)
  cases hF : fresh (bridgeEnv includeDir) fuel (fsOf (vfsOf pre ++ [(p, t)])) (encP p) with
  | none => rw [hF] at hgen; simp at hgen
  | some dF =>
    rw [hF] at hgen
    simp only [Option.map_some, Option.some.injEq] at hgen
    have := fresh_fuel_agree _ _ _ _ _ _ _ hF hB
    subst this
    exact ⟨ws, hb, hp, hR.of_observe hgen.symm⟩

/-- two histories with the same final file system and root give the same workspace: what the refinement says,
spelled out for the file set -/
theorem same_files_ide (includeDir : Option String) (fuel : Nat) (pre pre' : List COp) (p t : String) (db db' : Db)
    (hv : vfsOf pre = vfsOf pre')
    (hdb : (run (bridgeEnv includeDir) fuel ((pre ++ [COp.edit p t, COp.selectRoot p]).map absOp)).db = some db)
    (hdb' : (run (bridgeEnv includeDir) fuel ((pre' ++ [COp.edit p t, COp.selectRoot p]).map absOp)).db = some db') :
    db.files = db'.files ∧ db.root = db'.root := by
  obtain ⟨ws, hb, _, hR⟩ := history_independent_ide includeDir fuel pre p t db hdb
  obtain ⟨ws', hb', _, hR'⟩ := history_independent_ide includeDir fuel pre' p t db' hdb'
  rw [hv, hb'] at hb
  cases hb
  exact ⟨hR.files.trans hR'.files.symm, hR.root.trans hR'.root.symm⟩

/-- non-vacuity of the hypothesis `hdb`: a host that is given a document and selects it as root does not fail
(with the fuel of `buildWorkspace`), whatever the document contains -/
theorem first_step_ok (includeDir : Option String) (p t : String) :
    ∃ db, (run (bridgeEnv includeDir) (bwFuel [(p, t)]) ([COp.edit p t, COp.selectRoot p].map absOp)).db = some db := by
  obtain ⟨ws, hb⟩ := C03.buildWorkspace_total [(p, t)] p includeDir
  have hroot : readV [(p, t)] p = some t := by
    have := readV_append [] p t p
    simpa [pathEq_iff.mpr (PEq.refl p), readV] using this
  obtain ⟨dB, hB, _, _⟩ := fresh_refines_buildWorkspace hb hroot (Nat.le_refl _)
  refine ⟨dB, ?_⟩
  have hfs : (fun q => if q = encP p then some (encS t) else (({} : St).fs q)) = fsOf [(p, t)] := by
    have := fsOf_append [] p t
    rw [fsOf_nil] at this
    exact this.symm
  simp only [List.map_cons, List.map_nil, absOp, run, List.foldl_cons, List.foldl_nil, step, Option.map_some,
    Option.bind_some]
  rw [hfs]
  unfold fresh at hB
  rw [fsOf_encP, hroot] at hB
  exact hB

/-- and `history_independent_ide` applies to it: a two-file workspace with an include -/
example : ∃ ws db, buildWorkspace ([] ++ [("/a.td", "class A;\n")]) "/a.td" none = .ok ws ∧
    Refines ([] ++ [("/a.td", "class A;\n")]) ws db := by
  obtain ⟨db, hdb⟩ := first_step_ok none "/a.td" "class A;\n"
  obtain ⟨ws, hb, _, hR⟩ := history_independent_ide none _ [] "/a.td" "class A;\n" db hdb
  exact ⟨ws, db, hb, hR⟩

end Tg.C07
