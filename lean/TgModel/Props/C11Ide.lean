/-
C11 on the model of the language server: the published diagnostics converge to those of the CONCRETE final state.

`Props/C11.lean` proves convergence for every `Host.Env` and every diagnostics function of the observable inputs.
Here the environment is the one of the concrete parser and include resolution (`bridgeEnv includeDir`,
`Lemmas/HostBridge.lean`), the disk a finite file system, and a session history a list of (document path, text
sent).  After any non-empty history the session is idle in a state whose inputs are exactly those from which
`buildWorkspace (disk overlaid with the editor buffers) (last touched document)` is built (`Refines`), the
diagnostics last published for each file of that workspace are the diagnostics function applied to these inputs,
and every other document has no or empty diagnostics.

Fuel: the abstract host runs `collect` with a fuel parameter.  `bwFuel vfs = 16 + Σ (length of the text + 1)` over
the entries of the file system is what `buildWorkspace` uses; a session whose fuel is at least `bwFuel` of the disk
entries followed by all texts sent never fails (`session_never_fails_ide`), so the hypothesis "the database
exists" of the generic theorems is met.

Diagnostics as a function of the inputs: the generic theorem quantifies over every `diag : Obs → Path → List D`
(the salsa assumption: diagnostics are a function of the inputs).  `converges_ide_diag` specialises to a `diag`
that computes, on inputs that refine a workspace, what a function `X` of the workspace computes — e.g. the
diagnostics `diagnosticsExec (Analysis.new ws)` reports for the file (`ideDiags`).
-/
import TgModel.Props.C11
import TgModel.Props.C03
import TgModel.Lemmas.HostBridge

namespace Tg.C11
open Host Session Tg.Ide Tg.Ide.Bridge

variable {D : Type}

/-- **a session with enough fuel never fails** -/
theorem session_never_fails_ide (includeDir : Option String) (diag : DiagFn D) (fuel : Nat)
    (diskV hc : List (String × String)) (hf : bwFuel (diskV ++ hc) ≤ fuel) :
    ∃ d, (run (bridgeEnv includeDir) diag fuel (fsOf diskV) (absH hc)).db = some d :=
  session_never_fails pathCongr C03.parseFile_total includeDir diag fuel diskV hc hf

/-- **convergence to the concrete final state**: after the history `pre ++ [(p, t)]` over the disk `diskV` the
database of the session refines the workspace `ws` built from the disk overlaid with the buffers, with the last
touched document `p` as root; the diagnostics last published for every file of `ws` are those of these inputs;
every other document has none or empty ones -/
theorem converges_ide (includeDir : Option String) (diag : DiagFn D) (fuel : Nat)
    (diskV pre : List (String × String)) (p t : String)
    (hf : bwFuel (diskV ++ (pre ++ [(p, t)])) ≤ fuel) :
    ∃ ws d, buildWorkspace (diskV ++ (pre ++ [(p, t)])) p includeDir = .ok ws ∧
      (run (bridgeEnv includeDir) diag fuel (fsOf diskV) (absH (pre ++ [(p, t)]))).db = some d ∧
      PEq (ws.pathStr ws.root) p ∧ Refines (diskV ++ (pre ++ [(p, t)])) ws d ∧
      (∀ f ∈ ws.fileSet, ∃ pb,
        (run (bridgeEnv includeDir) diag fuel (fsOf diskV) (absH (pre ++ [(p, t)]))).view (encP (ws.pathStr f)) = some pb ∧
        pb.diags = diag (observe d) (encP (ws.pathStr f))) ∧
      (∀ P, (∀ f ∈ ws.fileSet, P ≠ encP (ws.pathStr f)) →
        (run (bridgeEnv includeDir) diag fuel (fsOf diskV) (absH (pre ++ [(p, t)]))).view P = none ∨
        ∃ pb, (run (bridgeEnv includeDir) diag fuel (fsOf diskV) (absH (pre ++ [(p, t)]))).view P = some pb ∧
          pb.diags = []) := by
  obtain ⟨d, hd⟩ := session_never_fails_ide includeDir diag fuel diskV (pre ++ [(p, t)]) hf
  obtain ⟨ws, hb⟩ := C03.buildWorkspace_total (diskV ++ (pre ++ [(p, t)])) p includeDir
  obtain ⟨hp, hR⟩ := session_refines pathCongr includeDir diag fuel diskV pre p t d hd hb
  obtain ⟨h1, h2⟩ := converges (bridgeEnv includeDir) diag fuel (fsOf diskV) (absH (pre ++ [(p, t)]))
    (by simp [absH]) d hd
  refine ⟨ws, d, hb, hd, hp, hR, ?_, ?_⟩
  · intro f hf
    exact h1 _ (by rw [hR.files]; exact List.mem_reverse.mpr (List.mem_map.mpr ⟨f, hf, rfl⟩))
  · intro P hP
    refine h2 P ?_
    rw [hR.files]
    intro hm
    obtain ⟨f, hf, rfl⟩ := List.mem_map.mp (List.mem_reverse.mp hm)
    exact hP f hf rfl

/-- the diagnostics the Ide model reports for file `f` of a workspace -/
def ideDiags (ws : Workspace) (f : Nat) : List Ide.Diagnostic :=
  match Handlers.diagnosticsExec (Analysis.new ws) with
  | .ok groups => (groups.filter fun g => g.1 == f).flatMap (·.2)
  | .error _ => []

/-- with a diagnostics function that computes `X ws f` on inputs refining `ws` (for instance `ideDiags`): the
diagnostics last published for every file of the final workspace are `X` of the workspace built from the disk
overlaid with the buffers and the last touched document as root -/
theorem converges_ide_diag (X : Workspace → Nat → List D) (includeDir : Option String) (diag : DiagFn D)
    (hdiag : ∀ V ws d, Refines V ws d → ∀ f ∈ ws.fileSet, diag (observe d) (encP (ws.pathStr f)) = X ws f)
    (fuel : Nat) (diskV pre : List (String × String)) (p t : String)
    (hf : bwFuel (diskV ++ (pre ++ [(p, t)])) ≤ fuel) :
    ∃ ws, buildWorkspace (diskV ++ (pre ++ [(p, t)])) p includeDir = .ok ws ∧
      ∀ f ∈ ws.fileSet, ∃ pb,
        (run (bridgeEnv includeDir) diag fuel (fsOf diskV) (absH (pre ++ [(p, t)]))).view (encP (ws.pathStr f)) = some pb ∧
        pb.diags = X ws f := by
  obtain ⟨ws, d, hb, _, _, hR, h1, _⟩ := converges_ide includeDir diag fuel diskV pre p t hf
  refine ⟨ws, hb, fun f hf' => ?_⟩
  obtain ⟨pb, a, b⟩ := h1 f hf'
  exact ⟨pb, a, b.trans (hdiag _ ws d hR f hf')⟩

/-- versions never decrease, in the concrete session as in every other -/
theorem versions_monotone_ide (includeDir : Option String) (diag : DiagFn D) (fuel : Nat)
    (diskV hc : List (String × String)) :
    ((run (bridgeEnv includeDir) diag fuel (fsOf diskV) (absH hc)).log.map (·.2)).Pairwise
      (fun newer older => older ≤ newer) :=
  versions_monotone (bridgeEnv includeDir) diag fuel (fsOf diskV) (absH hc)

/-- non-vacuity: a disk with `/b.td`, the editor opens `/a.td` (which includes it) and then changes `/b.td`; the fuel
of `buildWorkspace` is enough; the final workspace has the two files, `/b.td` (the last touched document) is the root -/
example : ∃ ws d, buildWorkspace ([("/b.td", "class B;\n")] ++
      ([("/a.td", "include \"b.td\"\n")] ++ [("/b.td", "class B2;\n")])) "/b.td" none = .ok ws ∧
    (run (bridgeEnv none) (fun _ _ => ([] : List Nat)) (bwFuel ([("/b.td", "class B;\n")] ++
      ([("/a.td", "include \"b.td\"\n")] ++ [("/b.td", "class B2;\n")]))) (fsOf [("/b.td", "class B;\n")])
      (absH ([("/a.td", "include \"b.td\"\n")] ++ [("/b.td", "class B2;\n")]))).db = some d ∧
    Refines ([("/b.td", "class B;\n")] ++
      ([("/a.td", "include \"b.td\"\n")] ++ [("/b.td", "class B2;\n")])) ws d := by
  obtain ⟨ws, d, h1, h2, _, h4, _⟩ := converges_ide none (fun _ _ => ([] : List Nat)) _ [("/b.td", "class B;\n")]
    [("/a.td", "include \"b.td\"\n")] "/b.td" "class B2;\n" (Nat.le_refl _)
  exact ⟨ws, d, h1, h2, h4⟩

/-- the workspace of that example, computed: one file (the root `/b.td` includes nothing) -/
example : (match buildWorkspace ([("/b.td", "class B;\n")] ++
      ([("/a.td", "include \"b.td\"\n")] ++ [("/b.td", "class B2;\n")])) "/b.td" none with
    | .ok ws => ws.fileSet
    | .error _ => []) = [0] := by decide +kernel

/-- and with `/a.td` touched last: both files, `/b.td` with the text of the buffer -/
example : (match buildWorkspace ([("/b.td", "class B;\n")] ++
      ([("/b.td", "class B2;\n")] ++ [("/a.td", "include \"b.td\"\n")])) "/a.td" none with
    | .ok ws => (ws.fileSet, (ws.tree 1).stop)
    | .error _ => ([], 0)) = ([0, 1], 10) := by decide +kernel

end Tg.C11
