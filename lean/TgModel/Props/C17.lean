/-
C17 — Range validity: every range in every analysis result names a file of the current workspace
and lies within that file's current text on UTF-8 character boundaries with start ≤ end, for
arbitrary (non-ASCII, malformed) input.

Statements only; proofs in `TgModel/Lemmas/IdeTree.lean` (trees), `IdePrim.lean` / `IdeCtx.lean` /
`IdeIndex.lean` / `IdeBang.lean` (the indexer invariant `SymMap.LocsOK`: every location stored in an
arena entry, the hook log or a diagnostic is the range of a node or token of the tree of the
workspace file it names; preserved by every `SymMap.add…` / `addReference` / `error` call site),
`IdeNav.lean` / `IdeHandlers.lean` (cursors, `range_excluding_trivia`, the handlers).

* `ValidRange text a b` := `a ≤ b ∧ ∃ pre mid post, text = pre ++ mid ++ post ∧ a = byteLen pre ∧
  b = byteLen pre + byteLen mid` — byte offsets at character boundaries by construction; the text is
  an arbitrary `List Char` (any Unicode scalar values), the tree an arbitrary parse (with errors).
* the "current text" of file `f` is `(ws.tree f).chars`, the concatenation of the token texts of its
  tree; for a parsed file this is the file content (`chars_of_parse`, by C01).
* `LocValid ws f a b` := `f < ws.files.size ∧ ValidRange (ws.tree f).chars a b`.

What is proved at full strength: trees, the index result, diagnostics (index and syntax errors),
go-to-definition, references, document symbols, folding ranges, links (range and target).  For folding ranges / link
ranges both ends are character boundaries unconditionally; `start ≤ end` needs `TriviaOK` (the node
does not begin with a trivia token), which holds for parser output (`parserShape`) — on a tree
where a folded node begins with trivia `range_excluding_trivia` would return an inverted range (and
the Rust `TextRange::new` would panic).  Document symbols: every symbol and child range is valid
in the requested file (`documentSymbol_ranges_valid`).  Inlay hints: a hint has a position, not a
range: it is a character boundary of the requested file.
-/
import TgModel.Lemmas.IdeCheck
import TgModel.Props.C03
import TgModel.Lemmas.IdeSemKeeps

namespace Tg.C17
open Tg.Ide Tg.Ide.Handlers Tg.C03

/-! ### step 2: trees -/

/-- every node and token of the annotated tree has a valid range in the text of the green tree -/
theorem ofTree_ranges_valid (t : Tree) {x : PTree} (hx : Desc (PTree.ofTree t) x) :
    ValidRange t.text x.start x.stop := Tg.Ide.ofTree_ranges_valid t hx

/-- for a parsed text the tree's text is the input: ranges are ranges of the file content -/
theorem chars_of_parse (input : List Char) (r : Grammar.ParseResult) (h : Grammar.parse input = .ok r) :
    (PTree.ofTree r.tree).chars = input := by
  rw [ofTree_chars]; exact Tg.C01.parse_lossless input r h

theorem parse_ranges_valid (input : List Char) (r : Grammar.ParseResult) (h : Grammar.parse input = .ok r)
    {x : PTree} (hx : Desc (PTree.ofTree r.tree) x) : ValidRange input x.start x.stop := by
  have := ofTree_ranges_valid r.tree hx
  rwa [Tg.C01.parse_lossless input r h] at this

/-- a valid range: `start ≤ end ≤ length of the text` -/
theorem validRange_bounds {text : List Char} {a b : Nat} (h : ValidRange text a b) : a ≤ b ∧ b ≤ byteLen text :=
  ⟨h.le, h.le_len⟩

/-! ### step 3: the index -/

/-- every location stored in the index result -/
structure IndexLocsValid (ws : Workspace) (r : Index.IndexResult) : Prop where
  records : ∀ x ∈ r.symbolMap.recordList.toList, LocValid ws x.defineLoc.file x.defineLoc.start x.defineLoc.stop
  templateArgs : ∀ x ∈ r.symbolMap.templateArgList.toList, LocValid ws x.defineLoc.file x.defineLoc.start x.defineLoc.stop
  fields : ∀ x ∈ r.symbolMap.recordFieldList.toList, LocValid ws x.defineLoc.file x.defineLoc.start x.defineLoc.stop
  variables : ∀ x ∈ r.symbolMap.variableList.toList, LocValid ws x.defineLoc.file x.defineLoc.start x.defineLoc.stop
  defsets : ∀ x ∈ r.symbolMap.defsetList.toList, LocValid ws x.defineLoc.file x.defineLoc.start x.defineLoc.stop
  multiclasses : ∀ x ∈ r.symbolMap.multiclassList.toList, LocValid ws x.defineLoc.file x.defineLoc.start x.defineLoc.stop
  defms : ∀ x ∈ r.symbolMap.defmList.toList, LocValid ws x.defineLoc.file x.defineLoc.start x.defineLoc.stop
  /-- definition and reference locations of the hook log (= the position map and the reference lists) -/
  ops : ∀ o ∈ r.symbolMap.ops.toList, LocValid ws (opLoc o).file (opLoc o).start (opLoc o).stop
  diagnostics : ∀ d ∈ r.diagnostics.toList, LocValid ws d.location.file d.location.start d.location.stop

theorem index_locs_valid {ws : Workspace} (h : Ready ws) {r : Index.IndexResult} (hr : Index.index ws = .ok r) :
    IndexLocsValid ws r := by
  obtain ⟨r', hr', _, hl, hd, _⟩ := Index.index_ok h.wf h.root
  rw [hr] at hr'; cases hr'
  exact ⟨fun x hx => (hl.recs x hx).valid h.wf, fun x hx => (hl.tas x hx).valid h.wf,
    fun x hx => (hl.flds x hx).valid h.wf, fun x hx => (hl.vars x hx).valid h.wf,
    fun x hx => (hl.dss x hx).valid h.wf, fun x hx => (hl.mcs x hx).valid h.wf,
    fun x hx => (hl.dms x hx).valid h.wf, fun o ho => (hl.ops o ho).valid h.wf,
    fun d hd' => (hd d hd').valid h.wf⟩

/-! ### step 4: the handlers -/

/-- diagnostics: grouped per file; every location names its group's file and is valid in it -/
theorem diagnostics_ranges_valid {ws : Workspace} (h : Ready ws) :
    ∃ res, diagnosticsExec (Analysis.new ws) = .ok res ∧
      ∀ e ∈ res, e.1 < ws.files.size ∧ ∀ d ∈ e.2, d.location.file = e.1 ∧
        LocValid ws d.location.file d.location.start d.location.stop :=
  diagnosticsExec_ok h.wf h.root

theorem gotoDefinition_ranges_valid {ws : Workspace} (h : Ready ws) (file pos : Nat) :
    ∃ res, gotoDefinitionExec (Analysis.new ws) file pos = .ok res ∧
      ∀ l, res = some l → LocValid ws l.file l.start l.stop :=
  gotoDefinitionExec_ok h.wf h.root file pos

theorem references_ranges_valid {ws : Workspace} (h : Ready ws) (file pos : Nat) :
    ∃ res, referencesExec (Analysis.new ws) file pos = .ok res ∧
      ∀ ls, res = some ls → ∀ l ∈ ls, LocValid ws l.file l.start l.stop :=
  referencesExec_ok h.wf h.root file pos

/-- on any ready workspace: both ends are character boundaries of the file; with `TriviaOK`: valid -/
theorem foldingRange_ranges_of_ready {ws : Workspace} (h : Ready ws) (file : Nat) :
    ∃ res, foldingRangeExec (Analysis.new ws) file = .ok (some res) ∧
      ∀ rg ∈ res, Boundary (ws.tree file).chars rg.1 ∧ Boundary (ws.tree file).chars rg.2 ∧
        (TriviaOK (ws.tree file) → ValidRange (ws.tree file).chars rg.1 rg.2) :=
  foldingRangeExec_ok h.wf file

/-- **folding ranges of a built workspace are valid ranges of the requested file** -/
theorem foldingRange_ranges_valid (vfs : List (String × String)) (rootPath : String)
    (includeDir : Option String) (ws : Workspace) (hb : buildWorkspace vfs rootPath includeDir = .ok ws)
    (file : Nat) (hf : file < ws.files.size) :
    ∃ res, foldingRangeExec (Analysis.new ws) file = .ok (some res) ∧
      ∀ rg ∈ res, LocValid ws file rg.1 rg.2 := by
  obtain ⟨hwf, hroot, htriv⟩ := buildWorkspace_wf parserShape hb
  obtain ⟨res, hres, hr⟩ := foldingRangeExec_ok hwf file
  exact ⟨res, hres, fun rg hrg => ⟨hf, (hr rg hrg).2.2 (htriv file)⟩⟩

theorem documentLink_ranges_of_ready {ws : Workspace} (h : Ready ws) {file : Nat} (hf : file < ws.files.size) :
    ∃ res, documentLinkExec (Analysis.new ws) file = .ok (some res) ∧
      ∀ e ∈ res, e.2 < ws.files.size ∧
        Boundary (ws.tree file).chars e.1.1 ∧ Boundary (ws.tree file).chars e.1.2 ∧
        (TriviaOK (ws.tree file) → ValidRange (ws.tree file).chars e.1.1 e.1.2) :=
  documentLinkExec_ok h.wf hf

/-- **document links of a built workspace: the range is a valid range of the requested file, the
target is a file of the workspace** -/
theorem documentLink_ranges_valid (vfs : List (String × String)) (rootPath : String)
    (includeDir : Option String) (ws : Workspace) (hb : buildWorkspace vfs rootPath includeDir = .ok ws)
    (file : Nat) (hf : file < ws.files.size) :
    ∃ res, documentLinkExec (Analysis.new ws) file = .ok (some res) ∧
      ∀ e ∈ res, e.2 < ws.files.size ∧ LocValid ws file e.1.1 e.1.2 := by
  obtain ⟨hwf, hroot, htriv⟩ := buildWorkspace_wf parserShape hb
  obtain ⟨res, hres, hr⟩ := documentLinkExec_ok hwf hf
  exact ⟨res, hres, fun e he => ⟨(hr e he).1, hf, (hr e he).2.2.2 (htriv file)⟩⟩

/-- folding ranges and document links, without hypotheses: the workspace is built
(`C03.buildWorkspace_total`) and the ranges are valid ranges of the requested file -/
theorem foldingRange_documentLink_ranges_valid_all (vfs : List (String × String)) (rootPath : String)
    (includeDir : Option String) :
    ∃ ws, buildWorkspace vfs rootPath includeDir = .ok ws ∧ ∀ file, file < ws.files.size →
      (∃ res, foldingRangeExec (Analysis.new ws) file = .ok (some res) ∧
        ∀ rg ∈ res, LocValid ws file rg.1 rg.2) ∧
      (∃ res, documentLinkExec (Analysis.new ws) file = .ok (some res) ∧
        ∀ e ∈ res, e.2 < ws.files.size ∧ LocValid ws file e.1.1 e.1.2) := by
  obtain ⟨ws, hb⟩ := C03.buildWorkspace_total vfs rootPath includeDir
  exact ⟨ws, hb, fun file hf => ⟨foldingRange_ranges_valid vfs rootPath includeDir ws hb file hf,
    documentLink_ranges_valid vfs rootPath includeDir ws hb file hf⟩⟩

/-- **document symbols: every symbol and every (transitive) child range is a valid range of the
requested file.**  Behind it is the invariant `SymMap.FilesOK` of the indexer: a symbol in the
per-file list of `f` is defined in `f`; the `def`s of a defset are written in the defset's file
(`defDefset` / `sameFileDefset`); the fields of a record, the template arguments of a class / multiclass are
defined in the file of the record / multiclass (they are attached to the innermost scope pushed by
the same statement; value-level code leaves the scope stack exactly as it was, `PostV`). -/
theorem documentSymbol_ranges_valid {ws : Workspace} (h : Ready ws) (file : Nat) :
    ∃ res, documentSymbolExec (Analysis.new ws) file = .ok res ∧
      ∀ l, res = some l → ∀ d ∈ l, DocSymOK (fun rg => LocValid ws file rg.1 rg.2) d :=
  documentSymbolExec_ok h.wf h.root file

/-- inlay hints: every hint position is a character boundary of the requested file's text -/
theorem inlayHint_positions_valid {ws : Workspace} (h : Ready ws) (file a b : Nat) :
    ∃ res, inlayHintExec (Analysis.new ws) file a b = .ok res ∧
      ∀ hs, res = some hs → ∀ x ∈ hs, Boundary (ws.tree file).chars x.position :=
  inlayHintExec_ok h.wf h.root file a b

/-- a boundary is an offset `≤` the length at which the text can be split -/
theorem boundary_le {text : List Char} {a : Nat} (h : Boundary text a) : a ≤ byteLen text := by
  obtain ⟨pre, post, rfl, rfl⟩ := h
  simp only [byteLen_append]; omega

/-! ### non-vacuity -/

/-- the example workspace of C03 (class with template argument, bang operator, comment, def):
its index is not empty, and the theorems above apply to it -/
example : IndexLocsValid (wsOfTree exTree) (match Index.index (wsOfTree exTree) with
    | .ok r => r | .error _ => default) := by
  obtain ⟨r, hr⟩ := index_never_panics_of_ready ex_ready
  rw [hr]
  exact index_locs_valid ex_ready hr

example : ∀ f, TriviaOK ((wsOfTree exTree).tree f) := (wsOfTree_wf exTree_shape).2.2

/-- a non-ASCII token: its range is counted in UTF-8 bytes -/
example : ValidRange ['é', 'a'] 2 3 := ⟨by omega, ['é'], ['a'], [], rfl, by decide, by decide⟩

/-- an offset inside a multi-byte character is not a boundary -/
example : ¬ Boundary ['é'] 1 := by
  rintro ⟨pre, post, h, hb⟩
  cases pre with
  | nil => simp at hb
  | cons c cs =>
    simp only [List.cons_append, List.cons.injEq] at h
    obtain ⟨rfl, _⟩ := h
    have : utf8Len 'é' = 2 := by decide
    simp only [byteLen_cons, this] at hb
    omega

/-! ### the defset a `def` joins -/

section defDefset
open Tg.Ide Tg.Ide.Index

/-- the state is left as it is -/
def SameState (c c' : IndexCtx) : Prop := c' = c

instance : KeepRel SameState where
  refl := fun _ => rfl
  trans := fun h1 h2 => h2.trans h1

/-- `sameFileDefset` only reads the state -/
theorem sameFileDefset_state : Keeps SameState sameFileDefset := by
  unfold sameFileDefset currentDefsetId withSM
  keeps

/-- **a def written inside a multiclass never joins a defset**: while a multiclass scope is open `defDefset`
answers `none` (and leaves the state as it is) -/
theorem defDefset_none_in_multiclass (c c' : IndexCtx) (o : Option Nat)
    (hm : c.scopes.currentMulticlassId.isSome = true)
    (h : defDefset.run c = .ok (o, c')) : o = none ∧ c' = c := by
  unfold defDefset at h
  obtain ⟨ds, c1, h1, hb⟩ := IxM.run_bind_ok h
  clear h
  have e : c1 = c := sameFileDefset_state.run _ _ _ h1
  subst e
  obtain ⟨m, c2, h2, h⟩ := IxM.run_bind_ok hb
  clear hb
  cases h2
  simp only [StateT.run_pure, hm, if_true] at h
  cases h
  exact ⟨rfl, rfl⟩

/-- outside a multiclass `defDefset` is `sameFileDefset` -/
theorem defDefset_eq_outside_multiclass (c : IndexCtx) (hm : c.scopes.currentMulticlassId = none)
    (c' : IndexCtx) (o : Option Nat) (h : defDefset.run c = .ok (o, c')) :
    sameFileDefset.run c = .ok (o, c') := by
  unfold defDefset at h
  obtain ⟨ds, c1, h1, hb⟩ := IxM.run_bind_ok h
  clear h
  have e : c1 = c := sameFileDefset_state.run _ _ _ h1
  subst e
  obtain ⟨m, c2, h2, h⟩ := IxM.run_bind_ok hb
  clear hb
  cases h2
  simp only [StateT.run_pure, hm, Option.isSome_none, Bool.false_eq_true, if_false] at h
  cases h
  exact h1

end defDefset

end Tg.C17
