/-
C12 on the model of the language server: editor buffers are the source of truth, for the CONCRETE analysis.

After any session history the workspace the analysis works on is `buildWorkspace (diskV ++ history) p`
(`C11Ide.converges_ide`, through `Lemmas/HostBridge.lean`): the file system is the disk entries followed by the
texts the editor sent, and a lookup takes the LAST entry for a path (`readV`).  So every file of the workspace —
also one that is reached only through an include — is parsed from the latest text the editor sent for it if it
was ever opened, and from its on-disk text otherwise.
-/
import TgModel.Props.C12
import TgModel.Props.C11Ide

namespace Tg.C12
open Host Session Tg.Ide Tg.Ide.Bridge

variable {D : Type}

/-- the text of an opened document: the latest one sent (under any spelling of its path) -/
theorem opened_uses_latest_buffer_ide (diskV pre post : List (String × String)) (p t q : String) (hpq : PEq p q)
    (hpost : ∀ e ∈ post, ¬ PEq e.1 q) : readV (diskV ++ (pre ++ (p, t) :: post)) q = some t := by
  unfold readV
  have hfp : post.filter (fun e => Path.pathEq e.1 q) = [] :=
    List.filter_eq_nil_iff.mpr fun e he h => hpost e he (pathEq_iff.mp h)
  simp [List.filter_append, List.filter_cons, pathEq_iff.mpr hpq, hfp]

/-- the text of a document that was never opened: the one on disk -/
theorem unopened_uses_disk_ide (diskV hc : List (String × String)) (q : String) (h : ∀ e ∈ hc, ¬ PEq e.1 q) :
    readV (diskV ++ hc) q = readV diskV q := by
  unfold readV
  have hf : hc.filter (fun e => Path.pathEq e.1 q) = [] :=
    List.filter_eq_nil_iff.mpr fun e he h' => h e he (pathEq_iff.mp h')
  simp [List.filter_append, hf]

/-- **buffers win**: after any session history every file of the workspace the analysis works on is the parse of
the text the overlaid file system holds for it — the latest buffer (`opened_uses_latest_buffer_ide`) or, for a
document never opened, the disk (`unopened_uses_disk_ide`) — and the host holds exactly that text for it -/
theorem buffers_win_ide (includeDir : Option String) (diag : DiagFn D) (fuel : Nat)
    (diskV pre : List (String × String)) (p t : String)
    (hf : bwFuel (diskV ++ (pre ++ [(p, t)])) ≤ fuel) :
    ∃ ws d, buildWorkspace (diskV ++ (pre ++ [(p, t)])) p includeDir = .ok ws ∧
      (run (bridgeEnv includeDir) diag fuel (fsOf diskV) (absH (pre ++ [(p, t)]))).db = some d ∧
      ∀ f ∈ ws.fileSet, ∃ fi, ws.file? f = some fi ∧
        parseFile ((readV (diskV ++ (pre ++ [(p, t)])) (ws.pathStr f)).getD "") = .ok (fi.tree, fi.errors) ∧
        d.content (encP (ws.pathStr f)) = some (encS ((readV (diskV ++ (pre ++ [(p, t)])) (ws.pathStr f)).getD "")) := by
  obtain ⟨ws, d, hb, hd, _, hR, _, _⟩ := C11.converges_ide includeDir diag fuel diskV pre p t hf
  refine ⟨ws, d, hb, hd, fun f hf' => ?_⟩
  obtain ⟨fi, H, a1, a2, a3, _⟩ := hR.file f hf'
  exact ⟨fi, a1, a3, a2⟩

end Tg.C12
