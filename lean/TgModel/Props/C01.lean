/-
C01 — Lossless syntax tree.

Statements only; helper lemmas live in `TgModel/Lemmas`.  All theorems are about the models
`Lex.next` (lexer.rs), `Src.eat` (preprocessor.rs), `exec` (parser.rs primitives) and
`Grammar.parse` (lib.rs `parse` + grammar/*.rs); the tie to the Rust code is the differential
correspondence run by `./check C01`.
-/
import TgModel.Lemmas.GrammarEof

namespace Tg.C01

/-- the leaf tokens of a tree, in order -/
def leaves : Tree → List (List Char)
  | .token _ t => [t]
  | .node _ cs => leavesList cs
where leavesList : List Tree → List (List Char)
  | [] => []
  | t :: ts => leaves t ++ leavesList ts

theorem text_eq_leaves (t : Tree) : t.text = (leaves t).flatten := by
  induction t using Tree.rec (motive_2 := fun ts => listText ts = (leaves.leavesList ts).flatten) with
  | node k cs ih => simpa [leaves] using ih
  | token k t => simp [leaves]
  | nil => simp [leaves.leavesList]
  | cons t ts iht ihts => simp [leaves.leavesList, iht, ihts]

/-- every lexer call splits its input into the token text and the remaining input -/
theorem lex_consumes (s : List Char) : (Lex.next s).text ++ (Lex.next s).rest = s :=
  Lex.next_append s

/-- the same for the preprocessor: a directive token's text is everything it swallowed,
including a whole disabled region -/
theorem prep_consumes (s : Src) : (s.eat).1.text ++ (s.eat).2.rest = s.rest :=
  Src.eat_append s

/-- for **every** grammar and **every** DSL program: text already in the builder, the look-ahead
token and the unread input always concatenate to the input -/
theorem exec_lossless (defs : Defs) (recover : List TokenKind) (input : List Char) (fuel : Nat) (p : Prog)
    (s s' : PState) (h : Inv input s) (hx : exec defs recover fuel p s = .ok s') :
    builderText s'.b ++ s'.curText ++ s'.src.rest = input :=
  (inv_exec defs recover input fuel p s s' h hx).text

/-- **C01**: whenever the parser model returns a tree, its leaves concatenate to the input -/
theorem parse_lossless (input : List Char) (r : Grammar.ParseResult)
    (h : Grammar.parse input = .ok r) : r.tree.text = input := by
  unfold Grammar.parse at h
  split at h
  · rename_i s hx
    have hinv := inv_exec Grammar.defs Tables.recoverTokens input _ _ _ s (PState.inv_init input) hx
    have heof := source_file_ends_at_eof Tables.recoverTokens _ _ s hx
    obtain ⟨h1, h2⟩ := hinv.eof heof
    split at h
    · rename_i t hc hp
      simp only [Grammar.ParseOut.ok.injEq] at h
      subst h
      have := hinv.text
      simp only [builderText, hc, hp, parentsText, h1, h2] at this
      simpa using this
    · cases h
  · cases h
  · cases h

/-- nothing dropped, duplicated or reordered, and every token's range is the position of its
text: if the leaf sequence is `pre ++ [t] ++ post`, then the input is
`flatten pre ++ t ++ flatten post` — i.e. `t` sits at byte offset `byteLen (flatten pre)`, which
is exactly the running-sum range rowan assigns to that leaf. -/
theorem token_ranges (input : List Char) (r : Grammar.ParseResult) (h : Grammar.parse input = .ok r)
    (pre post : List (List Char)) (t : List Char) (hl : leaves r.tree = pre ++ t :: post) :
    input = pre.flatten ++ t ++ post.flatten := by
  have := parse_lossless input r h
  rw [text_eq_leaves, hl] at this
  simpa [List.append_assoc] using this.symm

def ParseOut.isOk : Grammar.ParseOut → Bool
  | .ok _ => true
  | _ => false

/-- non-vacuity: a concrete input (comment, disabled region holding a lexical error, stray
character) on which `parse` does return a tree — this checks that the hypothesis of
`parse_lossless` is satisfiable; it is a test, not part of the theorem -/
example : ParseOut.isOk (Grammar.parse
    ['c','l','a','s','s',' ','A',';',' ','/','/','c','\n','#','i','f','d','e','f',' ','X','\n','"','\n',
     '#','e','n','d','i','f','\n','@']) = true := by
  decide +kernel

end Tg.C01
