/-
C02, fuel — an explicit linear bound on the fuel the parser model needs.

How `exec` spends fuel: per *level of nesting* of the evaluation, not per step.  `exec (fuel+1)`
hands `fuel` to the parts of a `seq` (both get the same amount), to the branch of an `if`, to the
body of a called function; a `loop` runs its condition and body with `fuel` and its next iteration
as `exec fuel (loop ..)`, i.e. one level deeper per iteration.  `skip` has its own counter (`cap`).
So the fuel a run needs is the depth of its evaluation tree.

`Lemmas/ProgressBound.lean` refines `check_sound` quantitatively: a function body runs within
`W body + 92 * (remaining characters) + 13 * rank`, where `W` is the syntactic depth (calls count
1).  The argument: a continuing loop iteration consumes input (so the next iteration, one level
deeper, starts with at least 92 less potential), and a call happens after input was consumed since
the caller was entered, or goes to a lower rank — both are what `Progress.check` verifies.  For the
grammar, `W (defs f) ≤ 13` and `rank f ≤ 6` (kernel evaluation), hence:

    fuel  92 * input.length + 92  is enough for `source_file` on `input`.

`parseFuel input = 64 * input.length + 4096` is above this bound exactly for inputs of at most 143
characters (`parse_never_panics_short`); for all inputs a constant ≥ 92 per character is needed for
*this* proof (measured need: ≤ 24 per character).  `parse_never_panics_of_parseFuel` is the
unconditional statement modulo that one inequality about `parseFuel`: with
`parseFuel input := 96 * input.length + 4096` (or 128 · length + 4096) its hypothesis is closed by
`by intro i; unfold Grammar.parseFuel; omega`.
-/
import TgModel.Props.C02Builder
import TgModel.Lemmas.ProgressBound

namespace Tg.C02
open Progress

/-- no grammar function is nested deeper than 13 (kernel evaluation) -/
theorem defs_depth : ∀ f, W (Grammar.defs f) ≤ 13 := by
  have h : Fn.all.all (fun f => decide (W (Grammar.defs f) ≤ 13)) = true := by decide +kernel
  intro f
  have := List.all_eq_true.mp h f (by cases f <;> decide)
  simpa using this

/-- the ranks of the progress check are at most 6 -/
theorem ranks_le : ∀ f, grammarRanks f ≤ 6 := by
  have h : Fn.all.all (fun f => decide (grammarRanks f ≤ 6)) = true := by decide +kernel
  intro f
  have := List.all_eq_true.mp h f (by cases f <;> decide)
  simpa using this

theorem mu_init_le (input : List Char) : mu (PState.init input) ≤ input.length := by
  have h := (PState.inv_init input).text
  have := congrArg List.length h
  simp only [List.length_append] at this
  unfold mu
  omega

/-- **linear fuel**: with `92 * input.length + 92` units the run of the parser model ends in a state
that satisfies the invariant (or at a builder panic, which `C02Builder` excludes) — never out of fuel -/
theorem parser_fuel_bound (input : List Char) :
    Fine (fun s' => Inv input s') (run input (92 * input.length + 92)) := by
  have hmem : (⟨.any, [⟨.inS [.Eof], some false, false, false⟩]⟩ : Summ) ∈ grammarSumms .source_file := by
    simp [grammarSumms]
  have hn := check_bound Grammar.defs Tables.recoverTokens grammarSumms grammarRanks input checkFn_all
    defs_depth ranks_le (mu (PState.init input)) (grammarRanks .source_file) .source_file _ hmem
    (PState.init input) (Nat.le_refl _) (Nat.le_refl _) (PState.inv_init input) trivial
  have hle : budget Grammar.defs grammarRanks .source_file (mu (PState.init input)) + 1 ≤ 92 * input.length + 92 := by
    have h1 := defs_depth .source_file
    have h2 := ranks_le .source_file
    have h3 := mu_init_le input
    unfold budget
    omega
  have hstep : Fine (fun s' => Inv input s')
      (run input (budget Grammar.defs grammarRanks .source_file (mu (PState.init input)) + 1)) := by
    simp only [run, exec]
    cases hr : exec Grammar.defs Tables.recoverTokens
        (budget Grammar.defs grammarRanks .source_file (mu (PState.init input)))
        (Grammar.defs .source_file) (PState.init input) with
    | ok s' => rw [hr] at hn; exact hn.1
    | panic w => rw [hr] at hn; exact hn
    | outOfFuel => rw [hr] at hn; exact hn
  exact fine_mono Grammar.defs Tables.recoverTokens hstep hle

/-- with at least `92 * input.length + 92` units of fuel the run is not out of fuel -/
theorem run_not_outOfFuel (input : List Char) {fuel : Nat} (h : 92 * input.length + 92 ≤ fuel) :
    run input fuel ≠ .outOfFuel := by
  have hf := fine_mono Grammar.defs Tables.recoverTokens (parser_fuel_bound input) h
  intro he
  have hf' : Fine (fun s' => Inv input s') (run input fuel) := hf
  rw [he] at hf'
  exact hf'

/-- … it ends in a state with exactly one root and no open node -/
theorem run_ok_of_fuel (input : List Char) {fuel : Nat} (h : 92 * input.length + 92 ≤ fuel) :
    ∃ s t, run input fuel = .ok s ∧ s.b.cur = [t] ∧ s.b.parents = [] := by
  rcases run_ok_or_outOfFuel input fuel with ho | hok
  · exact absurd ho (run_not_outOfFuel input h)
  · exact hok

/-- **`parse_never_panics`, modulo the constant in `parseFuel`**: if `parseFuel` is at least
`92 * length + 92`, `Grammar.parse` returns a tree for every input -/
theorem parse_never_panics_of_parseFuel
    (hpf : ∀ input : List Char, 92 * input.length + 92 ≤ Grammar.parseFuel input) :
    ∀ input, ∃ r, Grammar.parse input = .ok r :=
  fun input => parse_never_panics_of_fuel input (run_not_outOfFuel input (hpf input))

/-- **`parse_never_panics`**: with the present `parseFuel` (128 per character + 4096) `Grammar.parse`
returns a tree for EVERY input: no panic of any kind, and the fuel suffices -/
theorem parse_never_panics (input : List Char) : ∃ r, Grammar.parse input = .ok r :=
  parse_never_panics_of_parseFuel (by intro i; unfold Grammar.parseFuel; omega) input

/-! ### non-vacuity -/

/-- the bound is attained up to the constant: on `[[[[…` (16 brackets inside a field initialiser) the
run needs more than 12 units per bracket -/
example : isOutOfFuel (run ("def x { int y = ".toList ++ List.replicate 16 '[') (12 * 16)) = true := by
  decide +kernel

example : ∃ r, Grammar.parse exInput2 = .ok r := parse_never_panics exInput2

end Tg.C02
