/-
C02, fuel — an explicit linear bound on the fuel the parser model needs.

How `exec` spends fuel: per *level of nesting* of the evaluation, not per step.  `exec (fuel+1)`
hands `fuel` to the parts of a `seq` (both get the same amount), to the branch of an `if`, to the
body of a called function; a `loop` runs its condition and body with `fuel` and its next iteration
as `exec fuel (loop ..)`, i.e. one level deeper per iteration.  `skip` has its own counter (`cap`).
So the fuel a run needs is the depth of its evaluation tree.

`Lemmas/ProgressBound.lean` refines `check_sound` quantitatively: a function body runs within
`W body + 92 * (remaining characters) + 13 * rank`, where `W` is the syntactic depth (calls count
1).  The argument: a continuing loop iteration consumes input (so the next iteration, one level
deeper, starts with at least 92 less potential), and a call happens after input was consumed since
the caller was entered, or goes to a lower rank — both are what `Progress.check` verifies.  For the
grammar, `W (defs f) ≤ 13` and `rank f ≤ 6` (kernel evaluation), hence:

    fuel  92 * input.length + 92  is enough for `source_file` on `input`.

`parseFuel input = 64 * input.length + 4096` is above this bound exactly for inputs of at most 143
characters (`parse_never_panics_short`); for all inputs a constant ≥ 92 per character is needed for
*this* proof (measured need: ≤ 24 per character).  `parse_never_panics_of_parseFuel` is the
unconditional statement modulo that one inequality about `parseFuel`: with
`parseFuel input := 96 * input.length + 4096` (or 128 · length + 4096) its hypothesis is closed by
`by intro i; unfold Grammar.parseFuel; omega`.
-/
import TgModel.Props.C02Builder
import TgModel.Lemmas.ProgressBound
import TgModel.Lemmas.GrammarCost
import TgModel.Lemmas.ProgressLeaves
import TgModel.Lemmas.ParserFinish

namespace Tg.C02
open Progress

/-- no grammar function is nested deeper than 13 (kernel evaluation) -/
theorem defs_depth : ∀ f, W (Grammar.defs f) ≤ 13 := by
  have h : Fn.all.all (fun f => decide (W (Grammar.defs f) ≤ 13)) = true := by decide +kernel
  intro f
  have := List.all_eq_true.mp h f (by cases f <;> decide)
  simpa using this

/-- the ranks of the progress check are at most 6 -/
theorem ranks_le : ∀ f, grammarRanks f ≤ 6 := by
  have h : Fn.all.all (fun f => decide (grammarRanks f ≤ 6)) = true := by decide +kernel
  intro f
  have := List.all_eq_true.mp h f (by cases f <;> decide)
  simpa using this

theorem mu_init_le (input : List Char) : mu (PState.init input) ≤ input.length := by
  have h := (PState.inv_init input).text
  have := congrArg List.length h
  simp only [List.length_append] at this
  unfold mu
  omega

/-- **linear fuel**: with `92 * input.length + 92` units the run of the parser model ends in a state
that satisfies the invariant (or at a builder panic, which `C02Builder` excludes) — never out of fuel -/
theorem parser_fuel_bound (input : List Char) :
    Fine (fun s' => Inv input s') (run input (92 * input.length + 92)) := by
  have hmem : (⟨.any, [⟨.inS [.Eof], some false, false, false⟩]⟩ : Summ) ∈ grammarSumms .source_file := by
    simp [grammarSumms]
  have hn := check_bound Grammar.defs Tables.recoverTokens grammarSumms grammarRanks input checkFn_all
    defs_depth ranks_le (mu (PState.init input)) (grammarRanks .source_file) .source_file _ hmem
    (PState.init input) (Nat.le_refl _) (Nat.le_refl _) (PState.inv_init input) trivial
  have hle : budget Grammar.defs grammarRanks .source_file (mu (PState.init input)) + 1 ≤ 92 * input.length + 92 := by
    have h1 := defs_depth .source_file
    have h2 := ranks_le .source_file
    have h3 := mu_init_le input
    unfold budget
    omega
  have hstep : Fine (fun s' => Inv input s')
      (run input (budget Grammar.defs grammarRanks .source_file (mu (PState.init input)) + 1)) := by
    simp only [run, exec]
    cases hr : exec Grammar.defs Tables.recoverTokens
        (budget Grammar.defs grammarRanks .source_file (mu (PState.init input)))
        (Grammar.defs .source_file) (PState.init input) with
    | ok s' => rw [hr] at hn; exact hn.1
    | panic w => rw [hr] at hn; exact hn
    | outOfFuel => rw [hr] at hn; exact hn
  exact fine_mono Grammar.defs Tables.recoverTokens hstep hle

/-- with at least `92 * input.length + 92` units of fuel the run is not out of fuel -/
theorem run_not_outOfFuel (input : List Char) {fuel : Nat} (h : 92 * input.length + 92 ≤ fuel) :
    run input fuel ≠ .outOfFuel := by
  have hf := fine_mono Grammar.defs Tables.recoverTokens (parser_fuel_bound input) h
  intro he
  have hf' : Fine (fun s' => Inv input s') (run input fuel) := hf
  rw [he] at hf'
  exact hf'

/-- … it ends in a state with exactly one root and no open node -/
theorem run_ok_of_fuel (input : List Char) {fuel : Nat} (h : 92 * input.length + 92 ≤ fuel) :
    ∃ s t, run input fuel = .ok s ∧ s.b.cur = [t] ∧ s.b.parents = [] := by
  rcases run_ok_or_outOfFuel input fuel with ho | hok
  · exact absurd ho (run_not_outOfFuel input h)
  · exact hok

/-- **`parse_never_panics`, modulo the constant in `parseFuel`**: if `parseFuel` is at least
`92 * length + 92`, `Grammar.parse` returns a tree for every input -/
theorem parse_never_panics_of_parseFuel
    (hpf : ∀ input : List Char, 92 * input.length + 92 ≤ Grammar.parseFuel input) :
    ∀ input, ∃ r, Grammar.parse input = .ok r :=
  fun input => parse_never_panics_of_fuel input (run_not_outOfFuel input (hpf input))

/-- **`parse_never_panics`**: with the present `parseFuel` (128 per character + 4096) `Grammar.parse`
returns a tree for EVERY input: no panic of any kind, and the fuel suffices -/
theorem parse_never_panics (input : List Char) : ∃ r, Grammar.parse input = .ok r :=
  parse_never_panics_of_parseFuel (by intro i; unfold Grammar.parseFuel; omega) input

/-! ### non-vacuity -/

/-- the bound is attained up to the constant: on `[[[[…` (16 brackets inside a field initialiser) the
run needs more than 12 units per bracket -/
example : isOutOfFuel (run ("def x { int y = ".toList ++ List.replicate 16 '[') (12 * 16)) = true := by
  decide +kernel

example : ∃ r, Grammar.parse exInput2 = .ok r := parse_never_panics exInput2

/-! ### work: the number of steps is linear in the input

`PState.steps` is bumped by every `lex` and every `start_node` / `start_node_at` — what the hook
`verif_hooks::bump` counts on the Rust side.  `Lemmas/ProgressCost.lean` refines `check_sound` for
this SUM (not the depth): a run of a grammar function that consumes nothing costs at most
`grammarZ f` steps (at most 31), one that consumes costs at most 500 steps per character.  The
argument is the progress argument of `Progress.check` with an accounting: every consumed character
is worth 500; a function that consumes hands its caller a rebate of `(7 - rank) * 62`, out of which
the caller pays its own fixed overhead (at most 62 per function body and per loop iteration, kernel
evaluation: `grammar_overhead`, `grammar_loops`) — a call before any consumption in the caller goes
to a lower rank, so the rebate shrinks by 62 per level and, with `rank ≤ 6`, never runs out; a
continuing loop iteration consumes, so it pays for itself.  500 is what this accounting needs
(`1 + (6 + 2) * 62`); the measured worst case is below 3 steps per token. -/

theorem init_steps (input : List Char) : (PState.init input).steps = 0 := by
  simp [PState.init]

/-- **linear work, every run**: whatever the fuel, a successful run of `source_file` makes at most
`500 * input.length + 2` steps -/
theorem run_work_linear (input : List Char) (n : Nat) (s : PState)
    (h : exec Grammar.defs Tables.recoverTokens n (Grammar.defs .source_file) (PState.init input) = .ok s) :
    s.steps ≤ 500 * input.length + 2 := by
  have hmem : (⟨.any, [⟨.inS [.Eof], some false, false, false⟩]⟩ : Summ) ∈ grammarSumms .source_file := by
    simp [grammarSumms]
  have hf := check_cost Grammar.defs Tables.recoverTokens grammarSumms grammarRanks input grammarZ
    (consumed input) (consumed_measure Grammar.defs Tables.recoverTokens input) checkFn_all ranks_le
    grammarZ_closed grammar_overhead grammar_loops
    (mu (PState.init input)) (grammarRanks .source_file) .source_file _ hmem
    (PState.init input) (Nat.le_refl _) (Nat.le_refl _) (PState.inv_init input) trivial n s h
  have h0 := init_steps input
  have hle := mu_exec_le Grammar.defs Tables.recoverTokens input n _ _ s (PState.inv_init input) h
  have hz : grammarZ .source_file = 2 := rfl
  have hc : consumed input s ≤ input.length := by unfold consumed; omega
  rcases Nat.lt_or_eq_of_le hle with hlt | heq
  · have := hf.c hlt
    omega
  · have := hf.z heq
    omega

/-- **linear work**: the parser model's step count — one per `lex`, one per `start_node` /
`start_node_at`, the quantity the check measures on the Rust side — is at most 500 per character
of the input -/
theorem parse_work_linear (input : List Char) (r : Grammar.ParseResult) (h : Grammar.parse input = .ok r) :
    r.steps ≤ 500 * (input.length + 1) := by
  obtain ⟨s, hx, _, _, _, hst⟩ := (Grammar.parse_ok_iff input r).mp h
  obtain ⟨k, hk⟩ : ∃ k, Grammar.parseFuel input = k + 1 := ⟨Grammar.parseFuel input - 1, by unfold Grammar.parseFuel; omega⟩
  rw [hk] at hx
  simp only [exec] at hx
  have := run_work_linear input k s hx
  omega

/-- the per-function form: a run of any grammar function, from any state that satisfies the parser
invariant and one of the function's entry conditions, costs at most `grammarZ f ≤ 31` steps if it
consumes nothing and at most 500 per consumed character otherwise -/
theorem fn_work_linear (input : List Char) (f : Fn) (sm : Summ) (hsm : sm ∈ grammarSumms f) (s s' : PState)
    (hi : Inv input s) (hpre : sm.pre.holds s.cur) (n : Nat)
    (h : exec Grammar.defs Tables.recoverTokens n (Grammar.defs f) s = .ok s') :
    s'.steps ≤ s.steps + 500 * (mu s - mu s') + grammarZ f := by
  have hf := check_cost Grammar.defs Tables.recoverTokens grammarSumms grammarRanks input grammarZ
    (consumed input) (consumed_measure Grammar.defs Tables.recoverTokens input) checkFn_all ranks_le
    grammarZ_closed grammar_overhead grammar_loops
    (mu s) (grammarRanks f) f sm hsm s (Nat.le_refl _) (Nat.le_refl _) hi hpre n s' h
  have hle := mu_exec_le Grammar.defs Tables.recoverTokens input n _ s s' hi h
  have h1 := mu_le_length hi
  rcases Nat.lt_or_eq_of_le hle with hlt | heq
  · have := hf.c hlt
    unfold consumed at this
    omega
  · have := hf.z heq
    omega

theorem init_leaves (input : List Char) : leavesOf (PState.init input) = 0 := by
  simp [PState.init, leavesOf, builderLeaves, numLeavesL, parentsLeaves]

/-- **linear work, in tokens**: the step count is at most 500 per token leaf of the tree (`lex` is
called once per leaf pushed; the node starts between two token consumptions are bounded by the
progress argument) -/
theorem parse_work_linear_tokens (input : List Char) (r : Grammar.ParseResult)
    (h : Grammar.parse input = .ok r) : r.steps ≤ 500 * (numLeaves r.tree + 1) := by
  obtain ⟨s, hx, hcur, hpar, _, hst⟩ := (Grammar.parse_ok_iff input r).mp h
  obtain ⟨k, hk⟩ : ∃ k, Grammar.parseFuel input = k + 1 := ⟨Grammar.parseFuel input - 1, by unfold Grammar.parseFuel; omega⟩
  rw [hk] at hx
  simp only [exec] at hx
  have hmem : (⟨.any, [⟨.inS [.Eof], some false, false, false⟩]⟩ : Summ) ∈ grammarSumms .source_file := by
    simp [grammarSumms]
  have hf := check_cost Grammar.defs Tables.recoverTokens grammarSumms grammarRanks input grammarZ
    leavesOf (leaves_measure Grammar.defs Tables.recoverTokens input) checkFn_all ranks_le
    grammarZ_closed grammar_overhead grammar_loops
    (mu (PState.init input)) (grammarRanks .source_file) .source_file _ hmem
    (PState.init input) (Nat.le_refl _) (Nat.le_refl _) (PState.inv_init input) trivial k s hx
  have h0 := init_steps input
  have hl0 := init_leaves input
  have hle := mu_exec_le Grammar.defs Tables.recoverTokens input k _ _ s (PState.inv_init input) hx
  have hz : grammarZ .source_file = 2 := rfl
  have hfin : leavesOf s = numLeaves r.tree := by
    simp [leavesOf, builderLeaves, hcur, hpar, numLeavesL, parentsLeaves]
  rcases Nat.lt_or_eq_of_le hle with hlt | heq
  · have := hf.c hlt
    omega
  · have := hf.z heq
    omega

/-- the largest entry of the cost table -/
theorem grammarZ_le : ∀ f, grammarZ f ≤ 31 := by
  have h : Fn.all.all (fun f => decide (grammarZ f ≤ 31)) = true := by decide +kernel
  intro f
  have := List.all_eq_true.mp h f (by cases f <;> decide)
  simpa using this

def workOf : Grammar.ParseOut → Option (Nat × Nat)
  | .ok r => some (r.steps, numLeaves r.tree)
  | _ => none

/-- non-vacuity: the work is not one step per token — on `def x{int y=[[[[[[[[1]]]]]]]];}` the
parser model makes 74 steps for 27 tokens (and 31 characters) -/
example : workOf (Grammar.parse "def x{int y=[[[[[[[[1]]]]]]]];}".toList) = some (74, 27) := by decide +kernel

example : ∀ r, Grammar.parse "def x{int y=[[[[[[[[1]]]]]]]];}".toList = .ok r → r.steps ≤ 500 * (31 + 1) :=
  fun r h => parse_work_linear _ r h

end Tg.C02
