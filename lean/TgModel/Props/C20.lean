/-
C20 — Completion vocabulary is closed under the server's own lexer and parser.

All tables (`Tables.compl*`, lexer tables, dispatch arms) are regenerated from /repo on every run,
so these `decide`s are re-checked against what the code says now.  The word-level functions run
the *lexer model* (`Lex.next`) on each offered word.

On the current tree two full statements are false (the completion list is pinned by the
snapshot test `completion::tests::bang_operator`, so it cannot be repaired without editing a
test): `concat` and `log2` are offered but rejected by the lexer, and six operators the lexer
accepts are not offered.  Each full statement is kept visible, its negation is proved with the
concrete witness, and the `…_partial` theorem states the exact exception list.
-/
import TgModel.Lex
import TgModel.Grammar
import TgModel.Lemmas.LexLemmas

namespace Tg.C20
open Tables

/-- the word lexes as exactly one token of kind `k` -/
def lexesAs (w : List Char) (k : TokenKind) : Bool :=
  let o := Lex.next w
  o.kind == k && o.rest.isEmpty && o.text == w

/-- the single token kind the lexer model assigns to a word (none if it does not lex as one token) -/
def kindOfWord (w : List Char) : Option TokenKind :=
  let o := Lex.next w
  if o.rest.isEmpty then some o.kind else none

def statementKinds : List TokenKind := statementArms.map (·.1)
def typeKinds : List TokenKind := typeArms.map (·.1)

/-- every keyword offered at file level lexes as a keyword token (not `Id`, not `Error`) that
has a dispatch arm in `statement()` -/
theorem keywords_lex :
    complToplevel.all (fun w => match kindOfWord w with
      | some k => k != .Id && k != .Error && statementKinds.contains k
      | none => false) = true := by decide +kernel

/-- the hand-written `Grammar.statementArms` dispatch is the one extracted from statement.rs -/
theorem statement_arms_match :
    Grammar.statementArms.map (·.1) = statementArms.map (fun p => [p.1]) := by decide +kernel

/-- every type name offered lexes as a type keyword with an arm in `type()` -/
theorem types_lex :
    (complTypes ++ complSnippetTypes).all (fun w => match kindOfWord w with
      | some k => k != .Id && k != .Error && typeKinds.contains k
      | none => false) = true := by decide +kernel

/-- `true` / `false` lex as the boolean literal tokens -/
theorem values_lex :
    complValues.all (fun w => kindOfWord w == some .TrueVal || kindOfWord w == some .FalseVal) = true := by
  decide +kernel

/-- operator word accepted after `!` by the lexer model -/
def bangAccepted (w : List Char) : Bool :=
  match kindOfWord ('!' :: w) with
  | some k => k.isBangOperator || k.isCondOperator
  | none => false

/-- FULL STATEMENT (false on the current tree): every offered operator is accepted. -/
def BangOfferedAccepted : Prop := complBang.all bangAccepted = true

/-- the exact set of offered-but-rejected words on the current tree -/
def offeredRejected : List (List Char) := [['c','o','n','c','a','t'], ['l','o','g','2']]

theorem bang_offered_accepted_partial :
    complBang.all (fun w => bangAccepted w || offeredRejected.contains w) = true := by decide +kernel

/-- witness: the full statement fails, exactly at `offeredRejected` -/
theorem bang_offered_rejected_witness :
    ¬ BangOfferedAccepted ∧ offeredRejected.all (fun w => complBang.contains w && !bangAccepted w) = true := by
  constructor
  · unfold BangOfferedAccepted; decide +kernel
  · decide +kernel

/-- the lexer accepts exactly the keys of its table: unbounded statement over all words -/
theorem bang_accepted_iff_key (w : List Char) (k : TokenKind) (h : Lex.lookup bangTable w = some k) :
    w ∈ bangTable.map (·.1) := by
  have : ∀ (tab : List (List Char × TokenKind)), Lex.lookup tab w = some k → w ∈ tab.map (·.1) := by
    intro tab
    induction tab with
    | nil => intro h; simp [Lex.lookup] at h
    | cons p t ih =>
      intro h
      obtain ⟨a, b⟩ := p
      simp only [Lex.lookup] at h
      split at h
      · rename_i heq; simp at heq; simp [heq]
      · simp [ih h]
  exact this _ h

/-- FULL STATEMENT (false on the current tree): every operator the lexer accepts is offered. -/
def BangAcceptedOffered : Prop := ∀ w k, Lex.lookup bangTable w = some k → w ∈ complBang

/-- the exact set of accepted-but-not-offered operators on the current tree -/
def acceptedNotOffered : List (List Char) :=
  [['c','o','n'], ['c','o','n','d'], ['i','n','i','t','i','a','l','i','z','e','d'],
   ['l','i','s','t','f','l','a','t','t','e','n'], ['l','o','g','t','w','o'], ['r','e','p','r']]

theorem keys_offered_partial :
    (bangTable.map (·.1)).all (fun w => complBang.contains w || acceptedNotOffered.contains w) = true := by
  decide +kernel

theorem bang_accepted_offered_partial (w : List Char) (k : TokenKind) (h : Lex.lookup bangTable w = some k) :
    w ∈ complBang ∨ w ∈ acceptedNotOffered := by
  have hk := bang_accepted_iff_key w k h
  have := List.all_eq_true.mp keys_offered_partial w hk
  simpa using this

theorem bang_accepted_not_offered_witness :
    acceptedNotOffered.all (fun w => (Lex.lookup bangTable w).isSome && !complBang.contains w) = true := by
  decide +kernel

theorem bang_accepted_offered_false : ¬ BangAcceptedOffered := by
  intro h
  have := h ['c','o','n'] .XCon (by decide +kernel)
  revert this
  decide +kernel

end Tg.C20
