/-
C05 — Name resolution follows TableGen scoping.

"… the innermost declaration winning … A name used after the construct that declared it has ended
does not resolve to it and is reported as not found."

All theorems are about the model (`TgModel/Ide/Scope.lean`, `Context.lean`, `Index.lean`, `Bang.lean`).
-/
import TgModel.Lemmas.IdeSemFresh
import TgModel.Props.C03
import TgModel.Props.C06RefStable
import TgModel.Props.C13
import TgModel.Props.C19
import TgModel.Lemmas.IdeSemGoto
import TgModel.Lemmas.IdeSemLive
import TgModel.Lemmas.IdeSemVisits

namespace Tg.C05
open Tg Tg.Ide Tg.Bodied


/-! ## (1) lookup order -/

/-- what a single scope binds `name` to, in the order the model implements:
1. a variable of the scope (`defvar`, `!foreach`/`!filter`/`!foldl` variables: `nameToVariable`; then
   the loop variable of a `foreach` scope);
2. if it is a record scope: a field of the record — its own fields, then depth-first through its
   parent classes (`recordFindField`) — then a template argument of the record;
3. if it is a multiclass scope: a template argument of the multiclass. -/
def scopeLookup (sm : SymMap) (scope : Scope) (name : String) : Option SymbolId :=
  match scope.findVariable name with
  | some id => some (.var id)
  | none =>
    match scope.kind with
    | .record recordId =>
      match sm.recordFindField recordId name with
      | some fieldId => some (.recordField fieldId)
      | none => (SymMap.recordFindTemplateArg (sm.record recordId) name).map .templateArgument
    | .multiclass mcId => (SymMap.multiclassFindTemplateArg (sm.multiclass mcId) name).map .templateArgument
    | _ => none

theorem findLocal_eq (s : Scopes) (sm : SymMap) (name : String) :
    s.findLocal sm name = s.scopes.findSome? fun scope => scopeLookup sm scope name := by
  unfold Scopes.findLocal
  congr 1
  funext scope
  unfold scopeLookup
  cases scope.findVariable name with
  | some id => rfl
  | none =>
    simp only [Scope.recordId, Scope.multiclassId]
    cases scope.kind with
    | record id =>
      simp only
      cases sm.recordFindField id name with
      | some f => rfl
      | none => cases SymMap.recordFindTemplateArg (sm.record id) name <;> rfl
    | multiclass id =>
      simp only
      cases SymMap.multiclassFindTemplateArg (sm.multiclass id) name <;> rfl
    | _ => rfl

/-- **(1)** the innermost scope that binds the name wins -/
theorem findLocal_innermost (s : Scopes) (sm : SymMap) (name : String) (inner outer : List Scope)
    (sc : Scope) (sym : SymbolId) (hs : s.scopes = inner ++ sc :: outer)
    (hinner : ∀ x ∈ inner, scopeLookup sm x name = none) (hsc : scopeLookup sm sc name = some sym) :
    s.findLocal sm name = some sym := by
  rw [findLocal_eq, hs, List.findSome?_append]
  have : inner.findSome? (fun scope => scopeLookup sm scope name) = none := by
    rw [List.findSome?_eq_none_iff]; exact hinner
  rw [this]
  simp [List.findSome?_cons, hsc]

/-- a name is not found locally iff no scope binds it -/
theorem findLocal_none (s : Scopes) (sm : SymMap) (name : String) :
    s.findLocal sm name = none ↔ ∀ x ∈ s.scopes, scopeLookup sm x name = none := by
  rw [findLocal_eq, List.findSome?_eq_none_iff]

/-- conversely, a local result comes from the innermost scope that binds the name -/
theorem findLocal_some (s : Scopes) (sm : SymMap) (name : String) (sym : SymbolId)
    (h : s.findLocal sm name = some sym) :
    ∃ inner sc outer, s.scopes = inner ++ sc :: outer ∧ (∀ x ∈ inner, scopeLookup sm x name = none) ∧
      scopeLookup sm sc name = some sym := by
  rw [findLocal_eq] at h
  obtain ⟨inner, sc, outer, h1, h2, h3⟩ := List.findSome?_eq_some_iff.1 h
  exact ⟨inner, sc, outer, h1, fun x hx => h3 x hx, h2⟩

/-- within one scope: variables win over fields, fields over template arguments -/
theorem scopeLookup_variable (sm : SymMap) (sc : Scope) (name : String) (v : Nat)
    (h : sc.findVariable name = some v) : scopeLookup sm sc name = some (.var v) := by
  unfold scopeLookup; rw [h]

theorem scopeLookup_field (sm : SymMap) (sc : Scope) (name : String) (rid f : Nat)
    (hv : sc.findVariable name = none) (hk : sc.kind = .record rid)
    (hf : sm.recordFindField rid name = some f) : scopeLookup sm sc name = some (.recordField f) := by
  unfold scopeLookup; rw [hv, hk]; simp only; rw [hf]

theorem scopeLookup_templateArg (sm : SymMap) (sc : Scope) (name : String) (rid t : Nat)
    (hv : sc.findVariable name = none) (hk : sc.kind = .record rid)
    (hf : sm.recordFindField rid name = none)
    (ht : SymMap.recordFindTemplateArg (sm.record rid) name = some t) :
    scopeLookup sm sc name = some (.templateArgument t) := by
  unfold scopeLookup; rw [hv, hk]; simp only; rw [hf, ht]; rfl

theorem scopeLookup_multiclassArg (sm : SymMap) (sc : Scope) (name : String) (mid t : Nat)
    (hv : sc.findVariable name = none) (hk : sc.kind = .multiclass mid)
    (ht : SymMap.multiclassFindTemplateArg (sm.multiclass mid) name = some t) :
    scopeLookup sm sc name = some (.templateArgument t) := by
  unfold scopeLookup; rw [hv, hk]; simp only; rw [ht]; rfl

/-- a scope's declared variables win over the loop variable of a `foreach` scope -/
theorem findVariable_declared (sc : Scope) (name : String) (v : Nat) (h : sc.nameToVariable[name]? = some v) :
    sc.findVariable name = some v := by
  unfold Scope.findVariable; rw [h]

theorem findVariable_foreach (kindName : String) (vid : Nat) (vars : Std.HashMap String Nat) (name : String)
    (h : vars[name]? = none) :
    ({ kind := .foreach kindName vid, nameToVariable := vars } : Scope).findVariable name =
      if name == kindName then some vid else none := by
  unfold Scope.findVariable; rw [h]

/-! ## (2) declaring a variable; push / pop

`insertVariable` declares into the innermost scope that is not a defset scope (a defset opens no
scope of its own for `defvar`). -/

/-- where `insertVariable` puts the variable: below the (innermost) defset scopes `ds`, into the first
scope `sc` that is not a defset scope -/
theorem insertVariableGo_spec (name : String) (id : Nat) (l l' : List Scope)
    (h : Scopes.insertVariableGo name id l = some l') :
    ∃ ds sc rest, l = ds ++ sc :: rest ∧ (∀ d ∈ ds, Scopes.isDefsetKind d.kind = true) ∧
      Scopes.isDefsetKind sc.kind = false ∧
      l' = ds ++ { sc with nameToVariable := sc.nameToVariable.insert name id } :: rest := by
  induction l generalizing l' with
  | nil => cases h
  | cons x t ih =>
    unfold Scopes.insertVariableGo at h
    split at h
    · rename_i hk
      cases hr : Scopes.insertVariableGo name id t with
      | none => rw [hr] at h; cases h
      | some r =>
        rw [hr] at h
        simp only [Option.map_some, Option.some.injEq] at h
        subst h
        obtain ⟨ds, sc, rest, h1, h2, h3, h4⟩ := ih r hr
        refine ⟨x :: ds, sc, rest, by rw [h1]; rfl, ?_, h3, by rw [h4]; rfl⟩
        intro d hd
        rcases List.mem_cons.1 hd with rfl | hd
        · exact hk
        · exact h2 d hd
    · rename_i hk
      cases h
      exact ⟨[], x, t, rfl, (fun _ hd => nomatch hd), by simpa using hk, rfl⟩

theorem insertVariable_spec (s s' : Scopes) (name : String) (id : Nat)
    (h : s.insertVariable name id = some s') :
    ∃ ds sc rest, s.scopes = ds ++ sc :: rest ∧ (∀ d ∈ ds, Scopes.isDefsetKind d.kind = true) ∧
      Scopes.isDefsetKind sc.kind = false ∧
      s'.scopes = ds ++ { sc with nameToVariable := sc.nameToVariable.insert name id } :: rest := by
  unfold Scopes.insertVariable at h
  cases hg : Scopes.insertVariableGo name id s.scopes with
  | none => rw [hg] at h; cases h
  | some l =>
    rw [hg] at h
    cases h
    exact insertVariableGo_spec name id _ _ hg

/-- a defset scope without a variable for `name` binds nothing -/
theorem scopeLookup_defset (sm : SymMap) (d : Scope) (name : String)
    (hk : Scopes.isDefsetKind d.kind = true) (hv : d.nameToVariable[name]? = none) :
    scopeLookup sm d name = none := by
  unfold scopeLookup Scope.findVariable
  rw [hv]
  cases hkind : d.kind <;> simp_all [Scopes.isDefsetKind]

/-- after `insertVariable`, the new variable is found (shadowing every outer binding and every field
or template argument of the scope it is declared in).  Defset scopes hold no variables in the
indexer (nothing is ever inserted into them); that is the hypothesis `hds`. -/
theorem findLocal_insertVariable_self (s s' : Scopes) (sm : SymMap) (name : String) (id : Nat)
    (h : s.insertVariable name id = some s')
    (hds : ∀ d ∈ s.scopes, Scopes.isDefsetKind d.kind = true → d.nameToVariable[name]? = none) :
    s'.findLocal sm name = some (.var id) := by
  obtain ⟨ds, sc, rest, h1, h2, h3, h4⟩ := insertVariable_spec s s' name id h
  refine findLocal_innermost _ sm name ds rest _ _ h4 ?_ ?_
  · intro d hd
    exact scopeLookup_defset sm d name (h2 d hd) (hds d (by rw [h1]; simp [hd]) (h2 d hd))
  · apply scopeLookup_variable
    apply findVariable_declared
    simp

/-- … and the lookup of every other name is unchanged -/
theorem findLocal_insertVariable_other (s s' : Scopes) (sm : SymMap) (name name' : String) (id : Nat)
    (h : s.insertVariable name id = some s') (hne : name' ≠ name) :
    s'.findLocal sm name' = s.findLocal sm name' := by
  obtain ⟨ds, sc, rest, h1, h2, h3, h4⟩ := insertVariable_spec s s' name id h
  rw [findLocal_eq, findLocal_eq, h1, h4, List.findSome?_append, List.findSome?_append]
  simp only [List.findSome?_cons]
  have : scopeLookup sm { sc with nameToVariable := sc.nameToVariable.insert name id } name' =
      scopeLookup sm sc name' := by
    unfold scopeLookup Scope.findVariable
    simp only
    rw [Std.HashMap.getElem?_insert]
    have : (name == name') = false := by simpa using fun h => hne h.symm
    rw [this]
    rfl
  rw [this]

theorem pop_push (s : Scopes) (k : ScopeKind) : (s.push k).pop = some s := rfl

/-- a block that is not a defset: push a scope, declare variables in it, pop — the scope stack is
exactly what it was, so every name resolves as before the block -/
theorem pop_insertVariable_push (s s' : Scopes) (k : ScopeKind) (hk : Scopes.isDefsetKind k = false)
    (name : String) (id : Nat) (h : (s.push k).insertVariable name id = some s') : s'.pop = some s := by
  unfold Scopes.insertVariable Scopes.push at h
  simp only [Scopes.insertVariableGo, hk, Bool.false_eq_true, if_false, Option.map_some,
    Option.some.injEq] at h
  subst h
  rfl

theorem findLocal_after_block (s s' s'' : Scopes) (sm : SymMap) (k : ScopeKind)
    (hk : Scopes.isDefsetKind k = false) (name x : String) (id : Nat)
    (h : (s.push k).insertVariable name id = some s') (hp : s'.pop = some s'') :
    s''.findLocal sm x = s.findLocal sm x := by
  rw [pop_insertVariable_push s s' k hk name id h] at hp
  cases hp; rfl

/-- a defset block: a variable declared inside is declared in the enclosing scopes, and is still
there after the defset scope is popped -/
theorem pop_insertVariable_push_defset (s s' : Scopes) (dsId : Nat) (name : String) (id : Nat)
    (h : (s.push (.defset dsId)).insertVariable name id = some s') :
    ∃ s1, s.insertVariable name id = some s1 ∧ s'.pop = some s1 := by
  unfold Scopes.insertVariable Scopes.push at h
  simp only [Scopes.insertVariableGo, Scopes.isDefsetKind, if_true] at h
  unfold Scopes.insertVariable
  cases hg : Scopes.insertVariableGo name id s.scopes with
  | none => rw [hg] at h; cases h
  | some l =>
    rw [hg] at h
    simp only [Option.map_some, Option.some.injEq] at h
    subst h
    exact ⟨_, rfl, rfl⟩

/-! ## (3) block constructs are balanced

`RecScoped r`: the hypotheses on the re-entrant impls — `r.value` / `r.typ` leave the scope stack as
it is (`SEq`), `r.statementList` / `r.sourceFile` leave it as it is except for variables added to
the innermost non-defset scope (`SExt`: a `defvar` statement declares into the block it is in).
Under these, every block construct leaves the scope stack exactly as it found it (on every
successful run), so the scope it pushed — with every `defvar` / loop variable declared in it — is
gone afterwards.  `foreach`, `def` (and `defm`) need their body child to exist: the model
(like the real code, `self.body()?.index(ctx)` after the push) returns early *between push and pop*
otherwise. -/

/-- what "balanced" gives: after the construct every name resolves through the same scopes -/
theorem balanced_resolves_as_before {α : Type} {m : IxM α} (h : Keeps SEq m) (c c' : IndexCtx) (a : α)
    (hrun : m.run c = .ok (a, c')) :
    c'.scopes = c.scopes ∧ ∀ sm name, c'.scopes.findLocal sm name = c.scopes.findLocal sm name := by
  have := h.run c a c' hrun
  exact ⟨this, fun sm name => by rw [this]⟩

theorem if_balanced {r : Rec} (hr : RecScoped r) (n : PTree) : Keeps SEq (Index.indexIf r n) :=
  indexIf_balanced hr n

theorem let_balanced {r : Rec} (hr : RecScoped r) (n : PTree) : Keeps SEq (Index.indexLet r n) :=
  indexLet_balanced hr n

theorem foreach_balanced {r : Rec} (hr : RecScoped r) (n : PTree) (hbody : (Ast.foreachBody n).isSome) :
    Keeps SEq (Index.indexForeach r n) := indexForeach_balanced hr n hbody

/-- a defset pops its scope again; variables declared inside it stay declared in the enclosing scope
(`SExt`: same stack up to variables added to the innermost non-defset scope) -/
theorem defset_balanced {r : Rec} (hr : RecScoped r) (n : PTree) :
    Keeps SExt (Index.indexDefset r n) := indexDefset_balanced hr n

theorem class_balanced {r : Rec} (hr : RecScoped r) (n : PTree) : Keeps SEq (Index.indexClass r n) :=
  indexClass_balanced hr n

theorem def_balanced {r : Rec} (hr : RecScoped r) (n : PTree) (hbody : (Ast.defRecordBody n).isSome) :
    Keeps SEq (Index.indexDef r n) := indexDef_balanced hr n hbody

theorem defm_balanced {r : Rec} (hr : RecScoped r) (n : PTree) (hbody : (Ast.defmParentClassList n).isSome) :
    Keeps SEq (Index.indexDefm r n) := indexDefm_balanced hr n hbody

theorem multiclass_balanced {r : Rec} (hr : RecScoped r) (n : PTree) : Keeps SEq (Index.indexMultiClass r n) :=
  indexMultiClass_balanced hr n

theorem bang_foreach_balanced {r : Rec} (hr : RecScoped r) (n : PTree) : Keeps SEq (Bang.xForEach r n) :=
  xForEach_balanced hr n

theorem bang_filter_balanced {r : Rec} (hr : RecScoped r) (n : PTree) : Keeps SEq (Bang.xFilter r n) :=
  xFilter_balanced hr n

theorem bang_foldl_balanced {r : Rec} (hr : RecScoped r) (n : PTree) : Keeps SEq (Bang.xFoldl r n) :=
  xFoldl_balanced hr n

/-- the early return between push and pop is real in the model: a `Foreach` node without a
`StatementList` child leaves its scope on the stack (the loop variable stays visible).  The parser
model produces the body node for every `foreach` / `def` / `defset` / `defm` we tried, also on
truncated input, so this is not known to be reachable from source text. -/
theorem foreach_without_body_leaks (r : Rec) (n : PTree) (it : PTree) (name : String) (vid : Nat)
    (c c1 : IndexCtx) (hit : Ast.foreachIterator n = some it)
    (hiter : (Index.indexForeachIterator r it).run c = .ok (some (name, vid), c1))
    (hbody : Ast.foreachBody n = none) :
    (Index.indexForeach r n).run c = .ok ((), { c1 with scopes := c1.scopes.push (.foreach name vid) }) := by
  unfold Index.indexForeach
  simp only [hit, StateT.run_bind, hiter, Except.ok_bind, hbody]
  rfl

/-! ## (4) `resolve_id` and "symbol not found" -/


/-- `resolve_id` as a pure function of the state: locals first (`findLocal`), then global defs, then
defsets -/
def resolve (c : IndexCtx) (name : String) : Option SymbolId :=
  match c.scopes.findLocal c.symbolMap name with
  | some s => some s
  | none =>
    match c.symbolMap.findDef name with
    | some d => some (.record d)
    | none => (c.symbolMap.findDefset name).map .defset

theorem resolveId_run (name : String) (c : IndexCtx) :
    (resolveId name).run c = .ok (resolve c name, c) := by
  unfold resolveId resolve
  simp only [StateT.run_bind, IxM.run_get, Except.ok_bind]
  cases c.scopes.findLocal c.symbolMap name with
  | some s => rfl
  | none =>
    simp only
    cases c.symbolMap.findDef name with
    | some d => rfl
    | none => simp only; cases c.symbolMap.findDefset name <;> rfl

theorem withSM_run {α : Type} (f : SymMap → α) (c : IndexCtx) : (withSM f).run c = .ok (f c.symbolMap, c) := rfl

theorem currentFileId_run (c : IndexCtx) (f : Nat) (rest : List Nat) (h : c.fileTrace = f :: rest) :
    currentFileId.run c = .ok (f, c) := by
  unfold currentFileId
  simp only [StateT.run_bind, IxM.run_get, Except.ok_bind, h]
  rfl

theorem utilsIdentifier_run (id : PTree) (c : IndexCtx) (f : Nat) (rest : List Nat) (h : c.fileTrace = f :: rest)
    (name : String) (s e : Nat) (hn : Ast.identifierValue id = some name) (hr : Ast.identifierRange id = some (s, e)) :
    (utilsIdentifier id).run c = .ok (some (name, ⟨f, s, e⟩), c) := by
  unfold utilsIdentifier
  simp only [hn, hr, StateT.run_bind, currentFileId_run c f rest h, Except.ok_bind]
  rfl

theorem error_run (rg : Nat × Nat) (msg : String) (c : IndexCtx) (f : Nat) (rest : List Nat)
    (h : c.fileTrace = f :: rest) :
    (error rg msg).run c =
      .ok ((), { c with diagnostics := c.diagnostics.push { location := ⟨f, rg.1, rg.2⟩, message := msg } }) := by
  unfold error
  simp only [StateT.run_bind, currentFileId_run c f rest h, Except.ok_bind, IxM.run_modify]

/-- **(4)** an identifier that does not resolve is reported as `symbol not found: <name>` (at the
identifier's range) — unless it is `NAME`, which is a string -/
theorem identifier_not_found (id : PTree) (c : IndexCtx) (f : Nat) (rest : List Nat) (h : c.fileTrace = f :: rest)
    (name : String) (s e : Nat) (hn : Ast.identifierValue id = some name) (hr : Ast.identifierRange id = some (s, e))
    (hres : resolve c name = none) :
    (Index.indexIdentifierValue id).run c =
      if name == "NAME" then .ok (some .string, c)
      else .ok (none, { c with
        diagnostics := c.diagnostics.push { location := ⟨f, s, e⟩, message := "symbol not found: " ++ name } }) := by
  unfold Index.indexIdentifierValue
  simp only [StateT.run_bind, utilsIdentifier_run id c f rest h name s e hn hr, Except.ok_bind, resolveId_run, hres]
  by_cases hname : (name == "NAME") = true
  · simp only [hname, if_true]; rfl
  · simp only [hname, Bool.false_eq_true, if_false, StateT.run_bind, error_run _ _ c f rest h, Except.ok_bind]
    simp [toString]
    rfl

/-- … and an identifier that resolves is not reported: the reference is registered and the
diagnostics are unchanged -/
theorem identifier_found (id : PTree) (c : IndexCtx) (f : Nat) (rest : List Nat) (h : c.fileTrace = f :: rest)
    (name : String) (s e : Nat) (hn : Ast.identifierValue id = some name) (hr : Ast.identifierRange id = some (s, e))
    (sym : SymbolId) (hres : resolve c name = some sym) :
    ∃ t, (Index.indexIdentifierValue id).run c =
      .ok (t, { c with symbolMap := c.symbolMap.addReference sym ⟨f, s, e⟩ }) := by
  unfold Index.indexIdentifierValue
  simp only [StateT.run_bind, utilsIdentifier_run id c f rest h name s e hn hr, Except.ok_bind, resolveId_run, hres]
  have hadd : (addReference sym ⟨f, s, e⟩).run c = .ok ((), { c with symbolMap := c.symbolMap.addReference sym ⟨f, s, e⟩ }) := rfl
  simp only [hadd, Except.ok_bind]
  cases sym with
  | record rid =>
    simp only [StateT.run_bind, withSM_run, Except.ok_bind]
    split
    · simp only [StateT.run_bind, withSM_run, Except.ok_bind]
      split <;> exact ⟨_, rfl⟩
    · exact ⟨_, rfl⟩
  | _ => exact ⟨_, rfl⟩


/-! ## Non-vacuity -/

/-- two nested scopes that both declare `x`: the inner one wins -/
example :
    let inner : Scope := { kind := .block, nameToVariable := (∅ : Std.HashMap String Nat).insert "x" 1 }
    let outer : Scope := { kind := .root, nameToVariable := (∅ : Std.HashMap String Nat).insert "x" 0 }
    (Scopes.mk [inner, outer]).findLocal {} "x" = some (.var 1) := by
  intro inner outer
  refine findLocal_innermost _ _ "x" [] [outer] inner _ rfl (fun _ h => by cases h) ?_
  exact scopeLookup_variable _ _ _ _ (findVariable_declared _ _ _ Std.HashMap.getElem?_insert_self)

/-- declaring a variable succeeds on the initial stack, and popping a block restores it -/
example : ∃ s', (({} : Scopes).push .block).insertVariable "x" 0 = some s' ∧ s'.pop = some {} :=
  ⟨_, rfl, rfl⟩

/-- a `Rec` that satisfies the hypotheses of (3) -/
def trivialRec : Rec :=
  { sourceFile := fun _ => pure (), statementList := fun _ => pure (),
    value := fun _ => pure none, typ := fun _ => pure none }

theorem trivialRec_scoped : RecScoped trivialRec :=
  ⟨fun _ => Keeps.pure _, fun _ => Keeps.pure _, fun _ => Keeps.pure _, fun _ => Keeps.pure _⟩

/-- `if c then { }`: an `If` node with a condition and a then-body -/
def ifNode : PTree :=
  .node .If 0 10 3 #[
    .token .If 0 2 "if", .token .Whitespace 2 3 " ",
    .node .Value 3 5 2 #[.node .InnerValue 3 5 1 #[.token .Id 3 4 "c", .token .Whitespace 4 5 " "]],
    .token .Then 5 9 "then",
    .node .StatementList 9 10 1 #[.token .Semi 9 10 ";"]]

def exWs : Workspace := { files := #[], root := 0, fileSet := [0] }

/-- the run succeeds (so `if_balanced` says something about it), and the scope stack is restored -/
example : ∃ c', (Index.indexIf trivialRec ifNode).run (IndexCtx.new exWs) = .ok ((), c') ∧
    c'.scopes = (IndexCtx.new exWs).scopes := by
  refine ⟨_, rfl, ?_⟩
  exact ((if_balanced trivialRec_scoped ifNode).run _ _ _ rfl)

/-- an unbound identifier `y` is reported -/
def idNode : PTree := .node .Identifier 0 1 1 #[.token .Id 0 1 "y"]

theorem resolve_y : resolve (IndexCtx.new exWs) "y" = none := by
  unfold resolve
  have h1 : (IndexCtx.new exWs).scopes.findLocal (IndexCtx.new exWs).symbolMap "y" = none := by
    rw [findLocal_none]
    intro x hx
    have : x = { kind := .root } := by simpa [IndexCtx.new] using hx
    subst this
    simp [scopeLookup, Scope.findVariable]
  rw [h1]
  simp [IndexCtx.new, SymMap.findDef, SymMap.findDefset]

example : (Index.indexIdentifierValue idNode).run (IndexCtx.new exWs) =
    .ok (none, { IndexCtx.new exWs with
      diagnostics := #[{ location := ⟨0, 0, 1⟩, message := "symbol not found: " ++ "y" }] }) := by
  rw [identifier_not_found idNode (IndexCtx.new exWs) 0 [] rfl "y" 0 1 rfl rfl resolve_y]
  have : ("y" == "NAME") = false := by decide
  simp [this]
  rfl


/-! ## (3′) the balance theorems without assumptions

For a workspace built by `buildWorkspace` every tree is *bodied* (`buildWorkspace_bodied`: every
`Foreach` has its `StatementList`, every `Def` its `RecordBody`, every `Defm` its `ParentClassList`,
… — a must-analysis of the parser DSL, `Lemmas/IdeSemShape.lean`), the knot `Index.mkRec fuel`
respects the scope discipline for every `fuel` (`mkRec_w`), and hence: -/

/-- the nodes of the files of a workspace -/
def WsNode (ws : Workspace) (n : PTree) : Prop :=
  ∃ f d, SDesc (Cursor.root (ws.tree f)) d ∧ d.here = n

theorem WsNode.bodied {ws : Workspace} (hb : ws.AllBodied) {n : PTree} (h : WsNode ws n) : PBodied n := by
  obtain ⟨f, d, hd, rfl⟩ := h
  exact hd.bodied (hb f)

/-- the statements that open no scope of their own for the rest of the enclosing block: everything
except `defvar` (declares into the current scope), `defset` (its defvars are declared into the
enclosing scope) and `include` (the included file's top-level defvars are declared into the current
scope) -/
def restoresExactly (k : SyntaxKind) : Bool :=
  k != .Defvar && k != .Defset && k != .Include

theorem indexStatement_exact {ws : Workspace} (hb : ws.AllBodied) {r : Rec} (hr : RecW ws r) (n : PTree)
    (hn : PBodied n) (hnode : n.isNode = true) (hk : restoresExactly n.kind = true) :
    Keeps (WEq ws) (Index.indexStatement r n) := by
  unfold Index.indexStatement
  split
  · rename_i h; rw [h] at hk; cases hk
  · exact Index.indexAssert_keeps hr.value hr.typ n
  · exact indexClass_w hr n
  · exact indexDef_w hr n hn hnode ‹_›
  · exact indexDefm_w hr n hn hnode ‹_›
  · rename_i h; rw [h] at hk; cases hk
  · rename_i h; rw [h] at hk; cases hk
  · exact Index.indexDump_keeps hr.value hr.typ n
  · exact indexForeach_w hr n hn hnode ‹_›
  · exact indexIf_w hr n hn
  · exact indexLet_w hr n hn
  · exact indexMultiClass_w hr n hn
  · exact Keeps.pure _

/-- **every statement restores the scope stack**: on a workspace built by `buildWorkspace`, for
every fuel, every statement node `n` of any file, and every context in that workspace: a successful
`indexStatement` leaves the scope stack as it was up to variables declared into the innermost
non-defset scope (`ScopesExt`); and exactly as it was unless `n` is a `defvar`, `defset` or
`include` -/
theorem statement_restores_scopes {vfs : List (String × String)} {rootPath : String} {inc : Option String}
    {ws : Workspace} (hws : buildWorkspace vfs rootPath inc = .ok ws) (fuel : Nat) (n : PTree)
    (hn : WsNode ws n) (hnode : n.isNode = true) (c c' : IndexCtx) (a : Unit) (hc : c.ws = ws)
    (hrun : (Index.indexStatement (Index.mkRec fuel) n).run c = .ok (a, c')) :
    c'.ws = ws ∧ ScopesExt c.scopes c'.scopes ∧ (restoresExactly n.kind = true → c'.scopes = c.scopes) := by
  have hb := buildWorkspace_bodied hws
  have hr := mkRec_w hb fuel
  have hnb := hn.bodied hb
  obtain ⟨h1, h2⟩ := (indexStatement_w hr hb n hnb hnode).run c a c' hrun hc
  exact ⟨h1, h2, fun hk => ((indexStatement_exact hb hr n hnb hnode hk).run c a c' hrun hc).2⟩

/-- the same for a whole statement list (a block body, a file) -/
theorem statement_list_restores_scopes {vfs : List (String × String)} {rootPath : String}
    {inc : Option String} {ws : Workspace} (hws : buildWorkspace vfs rootPath inc = .ok ws) (fuel : Nat)
    (n : PTree) (hn : WsNode ws n) (c c' : IndexCtx) (a : Unit) (hc : c.ws = ws)
    (hrun : (Index.indexStatementList (Index.mkRec fuel) n).run c = .ok (a, c')) :
    c'.ws = ws ∧ ScopesExt c.scopes c'.scopes := by
  have hb := buildWorkspace_bodied hws
  exact (indexStatementList_w (mkRec_w hb fuel) hb n (hn.bodied hb)).run c a c' hrun hc

/-- a stack that extends the initial one is a single root scope -/
theorem scopesExt_root {s : Scopes} (h : ScopesExt {} s) :
    ∃ vars, s = { scopes := [{ kind := .root, nameToVariable := vars }] } := by
  obtain ⟨l⟩ := s
  unfold ScopesExt at h
  simp only at h
  cases l with
  | nil => simp [ScopesExtL] at h
  | cons x t =>
    obtain ⟨k, vars⟩ := x
    simp only [ScopesExtL, Scopes.isDefsetKind, Bool.false_eq_true, if_false] at h
    obtain ⟨hk, ht⟩ := h
    subst ht
    cases hk
    exact ⟨vars, rfl⟩

/-- **the indexer ends at the root scope**: when the run that `Index.index` performs succeeds, the
scope stack of the final context is the single root scope (holding the top-level `defvar`s) -/
theorem index_ends_at_root_scope {vfs : List (String × String)} {rootPath : String} {inc : Option String}
    {ws : Workspace} (hws : buildWorkspace vfs rootPath inc = .ok ws) (res : Index.IndexResult)
    (h : Index.index ws = .ok res) :
    ∃ sf ctx, Ast.sourceFileCast (ws.tree ws.root) = some sf ∧
      (Index.indexSourceFile (Index.mkRec ws.depthBound) sf).run (IndexCtx.new ws) = .ok ((), ctx) ∧
      res.symbolMap = ctx.symbolMap ∧ res.diagnostics = ctx.diagnostics ∧
      ∃ vars, ctx.scopes = { scopes := [{ kind := .root, nameToVariable := vars }] } := by
  have hb := buildWorkspace_bodied hws
  unfold Index.index at h
  split at h
  · cases h
  · rename_i sf hsf
    split at h
    · cases h
    · rename_i u ctx hrun
      cases h
      refine ⟨sf, ctx, hsf, hrun, rfl, rfl, ?_⟩
      have hsfb : PBodied sf := by rw [sourceFileCast_eq hsf]; exact hb _
      have := (indexSourceFile_w hb (mkRec_w hb ws.depthBound) sf hsfb).run _ _ _ hrun rfl
      exact scopesExt_root this.2


/-! ## "A name used after the construct that declared it has ended does not resolve to it"

Variables are identified by their id (allocation index).  `ScopeIdsOK`: every id the scope stack
binds has been allocated (an invariant of the indexer).  If a construct is balanced (the scope stack
after it is the scope stack before it), every variable allocated during its run — in particular
every variable declared while the scope it pushed was on the stack — is not bound afterwards, and
never becomes bound again: the window of its ids is `Sealed`, and every function of the indexer
keeps a sealed window sealed. -/

/-- every variable id bound by the scope stack has been allocated -/
def ScopeIdsOK (c : IndexCtx) : Prop := BInv 0 (fun _ => True) c

/-- none of the variable ids `lo ≤ v < hi` (all allocated) is bound by the scope stack -/
def Sealed (lo hi : Nat) (c : IndexCtx) : Prop := BInv hi (fun v => v < lo ∨ hi ≤ v) c

theorem scopeIdsOK_new (ws : Workspace) : ScopeIdsOK (IndexCtx.new ws) := by
  refine ⟨Nat.zero_le _, fun v hv => ?_⟩
  obtain ⟨sc, hsc, hb⟩ := hv
  have : sc = { kind := .root } := by simpa [IndexCtx.new] using hsc
  subst this
  rcases hb with ⟨n, hn⟩ | ⟨nm, hk⟩
  · simp at hn
  · cases hk

/-- every function of the indexer keeps `ScopeIdsOK` and every sealed window sealed -/
theorem indexer_keeps_scopeIdsOK (fuel : Nat) (n : PTree) (c c' : IndexCtx) (a : Unit)
    (h : ((Index.mkRec fuel).statementList n).run c = .ok (a, c')) (hc : ScopeIdsOK c) : ScopeIdsOK c' :=
  (((mkRec_brel (T := 0) (Good := fun _ => True) (fun _ _ => trivial) fuel).2.2.1 n).run c a c' h).2 hc

theorem sealed_good (lo hi : Nat) : ∀ v, hi ≤ v → (v < lo ∨ hi ≤ v) := fun _ h => Or.inr h

theorem sealed_kept_statementList (lo hi fuel : Nat) (n : PTree) (c c' : IndexCtx) (a : Unit)
    (h : ((Index.mkRec fuel).statementList n).run c = .ok (a, c')) (hc : Sealed lo hi c) : Sealed lo hi c' :=
  (((mkRec_brel (sealed_good lo hi) fuel).2.2.1 n).run c a c' h).2 hc

theorem sealed_kept_value (lo hi fuel : Nat) (n : PTree) (c c' : IndexCtx) (a : Option Ty)
    (h : ((Index.mkRec fuel).value n).run c = .ok (a, c')) (hc : Sealed lo hi c) : Sealed lo hi c' :=
  (((mkRec_brel (sealed_good lo hi) fuel).1 n).run c a c' h).2 hc

theorem sealed_kept_statement (lo hi fuel : Nat) (n : PTree) (c c' : IndexCtx) (a : Unit)
    (h : (Index.indexStatement (Index.mkRec fuel) n).run c = .ok (a, c')) (hc : Sealed lo hi c) :
    Sealed lo hi c' := by
  haveI := BRel.varRel (sealed_good lo hi)
  haveI := BRel.blockRel (sealed_good lo hi)
  obtain ⟨hv, ht, hsl, hsf⟩ := mkRec_brel (sealed_good lo hi) fuel
  exact ((Index.indexStatement_keeps hv ht hsl hsf n).run c a c' h).2 hc

/-- in a context where the window is sealed, no name resolves to a variable of the window -/
theorem sealed_not_found {lo hi : Nat} {c : IndexCtx} (hc : Sealed lo hi c) (v : Nat) (h1 : lo ≤ v) (h2 : v < hi)
    (sm : SymMap) (name : String) : c.scopes.findLocal sm name ≠ some (.var v) := by
  intro hf
  rcases (hc.2 v (findLocal_var_binds hf)).2 with h | h <;> omega

/-- after a balanced construct, the variables allocated during its run are sealed -/
theorem sealed_after_balanced {c c' : IndexCtx} (hids : ScopeIdsOK c) (hsc : c'.scopes = c.scopes)
    (hle : vsize c ≤ vsize c') : Sealed (vsize c) (vsize c') c' := by
  refine ⟨Nat.le_refl _, fun v hv => ?_⟩
  rw [hsc] at hv
  have := (hids.2 v hv).1
  exact ⟨by omega, Or.inl this⟩

/-- **a name used after the construct that declared it has ended does not resolve to it**: on a
workspace built by `buildWorkspace`, after a statement that opens its own scopes (`restoresExactly`:
class, def, defm, foreach, if, let, multiclass, …) has been indexed, every variable that was declared
during its run (`vsize c ≤ v < vsize c'`: the loop variable, the `defvar`s of its body, `!foreach`
variables, …) is unreachable: `find_local` does not return it in the context after the statement, nor
in any context reached from there by indexing further statements, statement lists or values. -/
theorem name_after_block_not_resolved {vfs : List (String × String)} {rootPath : String}
    {inc : Option String} {ws : Workspace} (hws : buildWorkspace vfs rootPath inc = .ok ws) (fuel : Nat)
    (n : PTree) (hn : WsNode ws n) (hnode : n.isNode = true) (hk : restoresExactly n.kind = true)
    (c c' : IndexCtx) (a : Unit) (hc : c.ws = ws) (hids : ScopeIdsOK c)
    (hrun : (Index.indexStatement (Index.mkRec fuel) n).run c = .ok (a, c')) :
    Sealed (vsize c) (vsize c') c' ∧
    (∀ v, vsize c ≤ v → v < vsize c' → ∀ sm name, c'.scopes.findLocal sm name ≠ some (.var v)) ∧
    (∀ fuel' n' c'' a', (Index.indexStatement (Index.mkRec fuel') n').run c' = .ok (a', c'') →
      ∀ v, vsize c ≤ v → v < vsize c' → ∀ sm name, c''.scopes.findLocal sm name ≠ some (.var v)) := by
  obtain ⟨_, _, hex⟩ := statement_restores_scopes hws fuel n hn hnode c c' a hc hrun
  have hle : vsize c ≤ vsize c' := by
    haveI := BRel.varRel (T := 0) (Good := fun _ => True) (fun _ _ => trivial)
    haveI := BRel.blockRel (T := 0) (Good := fun _ => True) (fun _ _ => trivial)
    obtain ⟨hv, ht, hsl, hsf⟩ := mkRec_brel (T := 0) (Good := fun _ => True) (fun _ _ => trivial) fuel
    exact ((Index.indexStatement_keeps hv ht hsl hsf n).run c a c' hrun).1
  have hs := sealed_after_balanced hids (hex hk) hle
  refine ⟨hs, fun v h1 h2 sm name => sealed_not_found hs v h1 h2 sm name, ?_⟩
  intro fuel' n' c'' a' hrun' v h1 h2 sm name
  exact sealed_not_found (sealed_kept_statement _ _ fuel' n' c' c'' a' hrun' hs) v h1 h2 sm name


/-! ### non-vacuity of (3′) -/

def isOkE {ε α : Type} : Except ε α → Bool
  | .ok _ => true
  | .error _ => false

def exVfs : List (String × String) :=
  [("/w/a.td", "foreach i = [1, 2] in { defvar v = i; }\nif 1 then { def x; }\ndefvar top = 1;")]

set_option maxRecDepth 100000 in
/-- the hypotheses of `statement_restores_scopes` / `index_ends_at_root_scope` are satisfiable: this
source (a `foreach` with a `defvar` in its body, an `if`, a top-level `defvar`) builds, and its
index run succeeds (C03) -/
example : ∃ ws res, buildWorkspace exVfs "/w/a.td" none = .ok ws ∧ Index.index ws = .ok res := by
  have h : isOkE (buildWorkspace exVfs "/w/a.td" none) = true := by decide +kernel
  cases hws : buildWorkspace exVfs "/w/a.td" none with
  | error e => rw [hws] at h; cases h
  | ok ws =>
    obtain ⟨res, hres⟩ := Tg.C03.index_never_panics _ _ _ ws hws
    exact ⟨ws, res, rfl, hres⟩


section capstone
open Tg.Ide.Handlers
open Tg.SymbolMap (Op Loc run refsOf)

/-! ## (5) the capstone: from a resolved use to go-to-definition / find-references -/

/-- what the theorems of this section need of a workspace: consistent trees (`C03.Ready`) whose
`Identifier` nodes begin with a non-empty token.  Every workspace built by `buildWorkspace` is good
(`built_wsGood`); hand-built example workspaces are checked by evaluation. -/
structure WsGood (ws : Workspace) : Prop where
  ready : C03.Ready ws
  ids : ∀ g, IdsNE (ws.tree g)
  plain : IdsPlain ws

theorem built_wsGood {vfs : List (String × String)} {rootPath : String} {includeDir : Option String}
    {ws : Workspace} (hb : buildWorkspace vfs rootPath includeDir = .ok ws) : WsGood ws :=
  ⟨C03.built_ready hb, fun g => (Index.built_wsOK (C03.built_ready hb).wf hb g).2, Index.built_idsPlain hb⟩

theorem analysis_goto (ws : Workspace) (res : Index.IndexResult) (hr : Index.index ws = .ok res) (file p : Nat) :
    gotoDefinitionExec (Analysis.new ws) file p =
      .ok (Tg.SymbolMap.gotoDef (run res.symbolMap.ops.toList) file p) := by
  have hc := (Tg.C19.new_coherent ws res hr).1
  unfold gotoDefinitionExec
  have : (Analysis.new ws).index = .ok res := hr
  rw [this, hc]
  rfl

theorem analysis_references (ws : Workspace) (res : Index.IndexResult) (hr : Index.index ws = .ok res) (file p : Nat) :
    referencesExec (Analysis.new ws) file p =
      .ok (Tg.SymbolMap.references (run res.symbolMap.ops.toList) file p) := by
  have hc := (Tg.C19.new_coherent ws res hr).1
  unfold referencesExec
  have : (Analysis.new ws).index = .ok res := hr
  rw [this, hc]
  rfl

/-- **a logged reference answers go-to-definition and find-references** (good workspaces - in particular every built one -, no
hypothesis on the log): if the final hook log contains `reference gid loc` and `gid` is the
allocation index of `S`, then from every offset inside `loc` go-to-definition answers the define
location of `S`, and find-references answers the locations the log references `gid` at (in log
order), `loc` among them -/
theorem logged_reference_answers {ws : Workspace} (hw : WsGood ws) {res : Index.IndexResult}
    (hr : Index.index ws = .ok res) (pre post : List Op) (gid : Nat) (loc : Loc)
    (hops : res.symbolMap.ops.toList = pre ++ Op.reference gid loc :: post)
    (S : SymbolId) (hS : res.symbolMap.gidToSym[gid]? = some S)
    (p : Nat) (h1 : loc.start ≤ p) (h2 : p < loc.stop) :
    gotoDefinitionExec (Analysis.new ws) loc.file p = .ok (some (symbolDefineLoc res.symbolMap S).toLoc) ∧
    referencesExec (Analysis.new ws) loc.file p = .ok (some (refsOf res.symbolMap.ops.toList gid)) ∧
    loc ∈ refsOf res.symbolMap.ops.toList gid := by
  have hready := hw.ready
  have hv := Tg.C06.index_refsValid hready hr
  have hs := Tg.C06.index_refStable_of hready hw.ids hr
  have hd := Tg.C06.index_disjointLocs hready hw.plain hr
  obtain ⟨hl, Sy, hSy, hmem⟩ := Tg.SymbolMap.reference_lookup _ hv hs hd pre post gid loc hops p h1 h2
  have hrefs := Tg.SymbolMap.run_refs_eq _ hv gid Sy hSy
  have hlog := index_logOK ws res hr
  obtain ⟨_, Sy', hSy', hdef, _⟩ := hlog.sym gid S hS
  have : Sy' = Sy := by rw [hSy] at hSy'; exact (Option.some.inj hSy').symm
  subst this
  refine ⟨?_, ?_, by rw [← hrefs]; exact hmem⟩
  · rw [analysis_goto ws res hr]
    simp [Tg.SymbolMap.gotoDef, Tg.SymbolMap.findSymbolAt, hl, hSy, hdef]
  · rw [analysis_references ws res hr]
    simp [Tg.SymbolMap.references, Tg.SymbolMap.findSymbolAt, hl, hSy, hrefs]


/-- **any reference-producing site**: `c1` is the state right after the site has registered the
reference (`add_reference(S, loc)` on the state `c`, in which `S` is a live symbol), and the final
symbol map is a later stage of `c1` (`SmLater`: true of every state that the indexer reaches from
`c1`, by `mkRec_later`).  Then on the final analysis go-to-definition from every offset of `loc`
answers the declaring identifier of `S`, and find-references there answers exactly the locations the
log references `S` at, `loc` among them. -/
theorem site_reference_answers {ws : Workspace} (hw : WsGood ws) {res : Index.IndexResult}
    (hr : Index.index ws = .ok res) (c : IndexCtx) (S : SymbolId) (loc : FileRange)
    (hlive : c.symbolMap.gidToSym[c.symbolMap.gidOf S]? = some S)
    (hlater : SmLater (c.symbolMap.addReference S loc) res.symbolMap)
    (p : Nat) (h1 : loc.start ≤ p) (h2 : p < loc.stop) :
    gotoDefinitionExec (Analysis.new ws) loc.file p = .ok (some (symbolDefineLoc res.symbolMap S).toLoc) ∧
    referencesExec (Analysis.new ws) loc.file p =
      .ok (some (refsOf res.symbolMap.ops.toList (c.symbolMap.gidOf S))) ∧
    loc.toLoc ∈ refsOf res.symbolMap.ops.toList (c.symbolMap.gidOf S) := by
  obtain ⟨more, hmore⟩ := hlater.ops
  have hops : res.symbolMap.ops.toList =
      c.symbolMap.ops.toList ++ Op.reference (c.symbolMap.gidOf S) loc.toLoc :: more := by
    rw [hmore]; simp [SymMap.addReference]
  have hS : res.symbolMap.gidToSym[c.symbolMap.gidOf S]? = some S := hlater.gids _ _ hlive
  exact logged_reference_answers hw hr _ more _ loc.toLoc hops S hS p h1 h2

/-- **A1 `use_goes_to_declaration`** (identifier values): while indexing a built workspace the
identifier `id` of file `f` is indexed in the state `c`, `resolve_id` answers the live symbol `S`,
and the index run continues from the resulting state `c'` to the final result.  Then on the final
analysis, from every offset inside the identifier go-to-definition lands exactly on the declaring
identifier of `S` (`symbolDefineLoc`, in `S`'s file), and find-references answers the uses of `S`,
this one among them. -/
theorem use_goes_to_declaration {ws : Workspace} (hw : WsGood ws) {res : Index.IndexResult}
    (hr : Index.index ws = .ok res) (id : PTree) (c c' : IndexCtx) (t : Option Ty) (f : Nat) (rest : List Nat)
    (hft : c.fileTrace = f :: rest) (name : String) (loc : FileRange) (hid : identOf f id = some (name, loc))
    (S : SymbolId) (hres : Tg.C13.resolveName c name = some S)
    (hlive : c.symbolMap.gidToSym[c.symbolMap.gidOf S]? = some S)
    (hrun : (Index.indexIdentifierValue id).run c = .ok (t, c'))
    (hlater : SmLater c'.symbolMap res.symbolMap)
    (p : Nat) (h1 : loc.start ≤ p) (h2 : p < loc.stop) :
    gotoDefinitionExec (Analysis.new ws) f p = .ok (some (symbolDefineLoc res.symbolMap S).toLoc) ∧
    referencesExec (Analysis.new ws) f p = .ok (some (refsOf res.symbolMap.ops.toList (c.symbolMap.gidOf S))) ∧
    loc.toLoc ∈ refsOf res.symbolMap.ops.toList (c.symbolMap.gidOf S) := by
  have hlook := Tg.C13.identifier_lookup id c f rest hft name loc hid
  rw [hres] at hlook
  obtain ⟨t', ht'⟩ := hlook
  rw [ht'] at hrun
  cases hrun
  have hfile : loc.file = f := by
    unfold identOf at hid
    split at hid
    · cases hid
    · split at hid
      · cases hid
      · cases hid; rfl
  have := site_reference_answers hw hr c S loc hlive hlater p h1 h2
  rw [hfile] at this
  exact this


theorem identOf_file {f : Nat} {id : PTree} {name : String} {loc : FileRange} (hid : identOf f id = some (name, loc)) :
    loc.file = f := by
  unfold identOf at hid
  split at hid
  · cases hid
  · split at hid
    · cases hid
    · cases hid; rfl

/-- **A2, type position** (`ClassId`): a class name that resolves -/
theorem type_use_goes_to_declaration {ws : Workspace} (hw : WsGood ws) {res : Index.IndexResult}
    (hr : Index.index ws = .ok res) (r : Rec) (n : PTree) (hk : n.kind = .ClassId) (c c' : IndexCtx) (t : Option Ty)
    (f : Nat) (rest : List Nat) (hft : c.fileTrace = f :: rest)
    (nameNode : PTree) (hnn : Ast.classIdName n = some nameNode)
    (name : String) (loc : FileRange) (hid : identOf f nameNode = some (name, loc))
    (classId : Nat) (hres : c.symbolMap.findClass name = some classId)
    (hlive : c.symbolMap.gidToSym[c.symbolMap.gidOf (.record classId)]? = some (.record classId))
    (hrun : (Index.indexType r n).run c = .ok (t, c')) (hlater : SmLater c'.symbolMap res.symbolMap)
    (p : Nat) (h1 : loc.start ≤ p) (h2 : p < loc.stop) :
    gotoDefinitionExec (Analysis.new ws) f p = .ok (some (res.symbolMap.record classId).defineLoc.toLoc) ∧
    referencesExec (Analysis.new ws) f p =
      .ok (some (refsOf res.symbolMap.ops.toList (c.symbolMap.gidOf (.record classId)))) ∧
    loc.toLoc ∈ refsOf res.symbolMap.ops.toList (c.symbolMap.gidOf (.record classId)) := by
  have hlook := Tg.C13.type_class_lookup r n hk c f rest hft nameNode hnn name loc hid
  rw [hres] at hlook
  rw [hlook] at hrun
  cases hrun
  have := site_reference_answers hw hr c (.record classId) loc hlive hlater p h1 h2
  rw [identOf_file hid] at this
  exact this

section sub
variable {r : Rec} (hv : ∀ n, Keeps AttrRel (r.value n)) (ht : ∀ n, Keeps AttrRel (r.typ n))
  (hvl : ∀ n, Keeps LaterRel (r.value n)) (htl : ∀ n, Keeps LaterRel (r.typ n))
include hv ht hvl htl

theorem argValuesOf_later (l : Option PTree) : Keeps LaterRel (Tg.C13.argValuesOf r l) := by
  unfold Tg.C13.argValuesOf
  cases l with
  | none => exact Keeps.pure _
  | some l => exact Index.indexArgValueList_keeps hvl htl l

theorem reportAll_symbolMap' (c : IndexCtx) (f : Nat) (rs : List Tg.C13.Report) :
    (Tg.C13.reportAll c f rs).symbolMap = c.symbolMap := Tg.C13.reportAll_symbolMap c f rs

/-- **A2, parent class list** (`resolve_class_ref_as_class`): a parent class that resolves -/
theorem parent_class_use_goes_to_declaration {ws : Workspace} (hw : WsGood ws)
    {res : Index.IndexResult} (hr : Index.index ws = .ok res) (classRef : PTree) (c c' : IndexCtx) (out : Option Nat)
    (f : Nat) (rest : List Nat) (hft : c.fileTrace = f :: rest)
    (nameNode : PTree) (hnn : Ast.classRefName classRef = some nameNode)
    (name : String) (loc : FileRange) (hid : identOf f nameNode = some (name, loc))
    (classId : Nat) (hres : c.symbolMap.findClass name = some classId)
    (hlive : c.symbolMap.gidToSym[c.symbolMap.gidOf (.record classId)]? = some (.record classId))
    (hrun : (Index.resolveClassRefAsClass r classRef).run c = .ok (out, c'))
    (hlater : SmLater c'.symbolMap res.symbolMap)
    (p : Nat) (h1 : loc.start ≤ p) (h2 : p < loc.stop) :
    gotoDefinitionExec (Analysis.new ws) f p = .ok (some (res.symbolMap.record classId).defineLoc.toLoc) ∧
    referencesExec (Analysis.new ws) f p =
      .ok (some (refsOf res.symbolMap.ops.toList (c.symbolMap.gidOf (.record classId)))) ∧
    loc.toLoc ∈ refsOf res.symbolMap.ops.toList (c.symbolMap.gidOf (.record classId)) := by
  have hlook := Tg.C13.classRef_class_lookup hv ht classRef c f rest hft nameNode hnn name loc hid
  rw [hres] at hlook
  obtain ⟨_, avs, c2, rs, ha, _, hc'⟩ := hlook out c' hrun
  have l12 : SmLater (c.symbolMap.addReference (.record classId) loc) c2.symbolMap :=
    (argValuesOf_later hv ht hvl htl _).run _ _ _ ha
  have l2 : SmLater c2.symbolMap c'.symbolMap := by
    rw [hc', Tg.C13.reportAll_symbolMap]; exact SmLater.refl _
  have := site_reference_answers hw hr c (.record classId) loc hlive ((l12.trans l2).trans hlater) p h1 h2
  rw [identOf_file hid] at this
  exact this

/-- **A2, class value** `A<…>` -/
theorem class_value_use_goes_to_declaration {ws : Workspace} (hw : WsGood ws)
    {res : Index.IndexResult} (hr : Index.index ws = .ok res) (classValue : PTree) (c c' : IndexCtx) (out : Option Ty)
    (f : Nat) (rest : List Nat) (hft : c.fileTrace = f :: rest)
    (nameNode : PTree) (hnn : Ast.classValueName classValue = some nameNode)
    (name : String) (loc : FileRange) (hid : identOf f nameNode = some (name, loc))
    (classId : Nat) (hres : c.symbolMap.findClass name = some classId)
    (hlive : c.symbolMap.gidToSym[c.symbolMap.gidOf (.record classId)]? = some (.record classId))
    (hrun : (Index.indexClassValue r classValue).run c = .ok (out, c'))
    (hlater : SmLater c'.symbolMap res.symbolMap)
    (p : Nat) (h1 : loc.start ≤ p) (h2 : p < loc.stop) :
    gotoDefinitionExec (Analysis.new ws) f p = .ok (some (res.symbolMap.record classId).defineLoc.toLoc) ∧
    referencesExec (Analysis.new ws) f p =
      .ok (some (refsOf res.symbolMap.ops.toList (c.symbolMap.gidOf (.record classId)))) ∧
    loc.toLoc ∈ refsOf res.symbolMap.ops.toList (c.symbolMap.gidOf (.record classId)) := by
  have hlook := Tg.C13.classValue_lookup hv ht classValue c f rest hft nameNode hnn name loc hid
  rw [hres] at hlook
  obtain ⟨_, avs, c2, rs, ha, _, hc'⟩ := hlook out c' hrun
  have l12 : SmLater (c.symbolMap.addReference (.record classId) loc) c2.symbolMap :=
    (argValuesOf_later hv ht hvl htl _).run _ _ _ ha
  have l2 : SmLater c2.symbolMap c'.symbolMap := by
    rw [hc', Tg.C13.reportAll_symbolMap]; exact SmLater.refl _
  have := site_reference_answers hw hr c (.record classId) loc hlive ((l12.trans l2).trans hlater) p h1 h2
  rw [identOf_file hid] at this
  exact this

/-- **A2, multiclass reference** (parents of a `multiclass` / `defm`) -/
theorem multiclass_use_goes_to_declaration {ws : Workspace} (hw : WsGood ws)
    {res : Index.IndexResult} (hr : Index.index ws = .ok res) (classRef : PTree) (c c' : IndexCtx) (out : Option Nat)
    (f : Nat) (rest : List Nat) (hft : c.fileTrace = f :: rest)
    (nameNode : PTree) (hnn : Ast.classRefName classRef = some nameNode)
    (name : String) (loc : FileRange) (hid : identOf f nameNode = some (name, loc))
    (mcId : Nat) (hres : c.symbolMap.findMulticlass name = some mcId)
    (hlive : c.symbolMap.gidToSym[c.symbolMap.gidOf (.multiclass mcId)]? = some (.multiclass mcId))
    (hrun : (Index.resolveClassRefAsMulticlass r classRef).run c = .ok (out, c'))
    (hlater : SmLater c'.symbolMap res.symbolMap)
    (p : Nat) (h1 : loc.start ≤ p) (h2 : p < loc.stop) :
    gotoDefinitionExec (Analysis.new ws) f p = .ok (some (res.symbolMap.multiclass mcId).defineLoc.toLoc) ∧
    referencesExec (Analysis.new ws) f p =
      .ok (some (refsOf res.symbolMap.ops.toList (c.symbolMap.gidOf (.multiclass mcId)))) ∧
    loc.toLoc ∈ refsOf res.symbolMap.ops.toList (c.symbolMap.gidOf (.multiclass mcId)) := by
  have hlook := Tg.C13.classRef_multiclass_lookup hv ht classRef c f rest hft nameNode hnn name loc hid
  rw [hres] at hlook
  obtain ⟨_, avs, c2, rs, ha, _, hc'⟩ := hlook out c' hrun
  have l12 : SmLater (c.symbolMap.addReference (.multiclass mcId) loc) c2.symbolMap :=
    (argValuesOf_later hv ht hvl htl _).run _ _ _ ha
  have l2 : SmLater c2.symbolMap c'.symbolMap := by
    rw [hc', Tg.C13.reportAll_symbolMap]; exact SmLater.refl _
  have := site_reference_answers hw hr c (.multiclass mcId) loc hlive ((l12.trans l2).trans hlater) p h1 h2
  rw [identOf_file hid] at this
  exact this

end sub


/-! ### find-references -/

theorem mem_refsOf (ops : List Op) (g : Nat) (l : Loc) : l ∈ refsOf ops g ↔ Op.reference g l ∈ ops := by
  unfold refsOf
  rw [List.mem_filterMap]
  constructor
  · rintro ⟨o, ho, h⟩
    cases o with
    | reference s l' =>
      simp only at h
      split at h
      · rename_i hs; cases h; subst hs; exact ho
      · cases h
    | define _ _ => cases h
    | defineAnon _ _ => cases h
  · intro h
    exact ⟨_, h, by simp⟩

/-- **find-references answers exactly the logged references of the symbol under the cursor**: if
find-references answers `refs` at an offset of a built workspace, the position map has an entry
`(L, gid)` under the cursor and `refs` is, in log order, the list of the locations `loc` with
`reference gid loc` in the indexer's log -/
theorem references_exact {ws : Workspace} (hw : WsGood ws) {res : Index.IndexResult}
    (hr : Index.index ws = .ok res) (file p : Nat) (refs : List Loc)
    (h : referencesExec (Analysis.new ws) file p = .ok (some refs)) :
    ∃ L gid, Tg.SymbolMap.lookup (run res.symbolMap.ops.toList).pos file p = some (L, gid) ∧
      refs = refsOf res.symbolMap.ops.toList gid ∧
      ∀ l, l ∈ refs ↔ Op.reference gid l ∈ res.symbolMap.ops.toList := by
  have hv := Tg.C06.index_refsValid hw.ready hr
  rw [analysis_references ws res hr] at h
  simp only [Tg.SymbolMap.references, Tg.SymbolMap.findSymbolAt, Except.ok.injEq] at h
  cases hl : Tg.SymbolMap.lookup (run res.symbolMap.ops.toList).pos file p with
  | none => rw [hl] at h; simp at h
  | some e =>
    obtain ⟨L, gid⟩ := e
    rw [hl] at h
    simp only [Option.map_eq_some_iff] at h
    obtain ⟨Sy, hSy, rfl⟩ := h
    have := Tg.SymbolMap.run_refs_eq _ hv gid Sy hSy
    exact ⟨L, gid, rfl, this, fun l => by rw [this]; exact mem_refsOf _ _ _⟩

theorem registrations_regLoc (post : List Op) (k : Nat) (e : Loc × Nat) (he : e ∈ Tg.SymbolMap.registrations post k) :
    ∃ o ∈ post, regLoc o = some e.1 := by
  induction post generalizing k with
  | nil => simp [Tg.SymbolMap.registrations] at he
  | cons o t ih =>
    cases o with
    | define n l =>
      simp only [Tg.SymbolMap.registrations, List.mem_cons] at he
      rcases he with rfl | he
      · exact ⟨_, List.mem_cons_self, rfl⟩
      · obtain ⟨o, ho, h⟩ := ih _ he; exact ⟨o, List.mem_cons_of_mem _ ho, h⟩
    | defineAnon n l =>
      simp only [Tg.SymbolMap.registrations] at he
      obtain ⟨o, ho, h⟩ := ih _ he; exact ⟨o, List.mem_cons_of_mem _ ho, h⟩
    | reference s l =>
      simp only [Tg.SymbolMap.registrations, List.mem_cons] at he
      rcases he with rfl | he
      · exact ⟨_, List.mem_cons_self, rfl⟩
      · obtain ⟨o, ho, h⟩ := ih _ he; exact ⟨o, List.mem_cons_of_mem _ ho, h⟩

/-- **A3 `declaration_references_exact_partial`**: find-references at a declaration - the `define
name d` of the log, allocating the index `gid` - answers exactly the locations `loc` with
`reference gid loc` in the log (its uses, in log order).  *Partial*: the declaring identifier must
not be registered again later (`hkept`).  That fails for exactly one construct: `let f = …;` in a
record body **on an inherited field** declares the overriding field at the identifier `f` and
immediately registers the same identifier as a reference to the overridden field; find-references
there answers the uses of the overridden field, and the overriding field (to which later uses of `f`
in that record resolve) cannot be reached from its own declaration.  (A `let` on a field that the
record declares itself declares nothing: it only registers the reference.) -/
theorem declaration_references_exact_partial {ws : Workspace} (hw : WsGood ws)
    {res : Index.IndexResult} (hr : Index.index ws = .ok res) (pre post : List Op) (name : List Char) (d : Loc)
    (hops : res.symbolMap.ops.toList = pre ++ Op.define name d :: post)
    (hkept : ∀ o ∈ post, regLoc o ≠ some d)
    (p : Nat) (h1 : d.start ≤ p) (h2 : p < d.stop) :
    referencesExec (Analysis.new ws) d.file p =
      .ok (some (refsOf res.symbolMap.ops.toList (run pre).syms.length)) ∧
    (∀ l, l ∈ refsOf res.symbolMap.ops.toList (run pre).syms.length ↔
      Op.reference (run pre).syms.length l ∈ res.symbolMap.ops.toList) ∧
    gotoDefinitionExec (Analysis.new ws) d.file p = .ok (some d) := by
  have hready := hw.ready
  have hv := Tg.C06.index_refsValid hready hr
  have hd := Tg.C06.index_disjointLocs hready hw.plain hr
  have hne : d.isEmpty = false := by
    simp only [Tg.SymbolMap.Loc.isEmpty, decide_eq_false_iff_not, Nat.not_le]; omega
  obtain ⟨Sy, hSy, _, hdef⟩ := Tg.SymbolMap.define_sym_final pre post name d
  rw [← hops] at hSy
  have hpos : (d, (run pre).syms.length) ∈ (run res.symbolMap.ops.toList).pos := by
    rw [hops, Tg.SymbolMap.run_split]
    apply Tg.SymbolMap.foldl_keep
    · simp only [Tg.SymbolMap.step]
      unfold Tg.SymbolMap.addPos
      rw [hne]
      exact Tg.SymbolMap.mem_insertPos_self _ _ _
    · intro e he hed
      obtain ⟨o, ho, hreg⟩ := registrations_regLoc _ _ e he
      rw [hed] at hreg
      exact absurd hreg (hkept o ho)
  have ho : Tg.SymbolMap.overlaps d d.file p = true := by simp [Tg.SymbolMap.overlaps, h1, h2]
  have hl := Tg.SymbolMap.lookup_of_mem _ hd d.file p _ hpos ho
  have hrefs := Tg.SymbolMap.run_refs_eq _ hv _ Sy hSy
  refine ⟨?_, fun l => mem_refsOf _ _ _, ?_⟩
  · rw [analysis_references ws res hr]
    simp [Tg.SymbolMap.references, Tg.SymbolMap.findSymbolAt, hl, hSy, hrefs]
  · rw [analysis_goto ws res hr]
    simp [Tg.SymbolMap.gotoDef, Tg.SymbolMap.findSymbolAt, hl, hSy, hdef]


/-! ### establishing the mid-run hypotheses

`SmLater c'.symbolMap res.symbolMap` ("the index run continues from `c'` to the final result") holds
between the end state of any sub-run and the final result, because every indexer function keeps
`LaterRel` (`mkRec_later`).  For the statements of the root file: -/

theorem root_statement_midrun (ws : Workspace) (res : Index.IndexResult) (hr : Index.index ws = .ok res)
    (sf sl : PTree) (hsf : Ast.sourceFileCast (ws.tree ws.root) = some sf)
    (hsl : Ast.sourceFileStatementList sf = some sl) (pre : List PTree) (s : PTree) (post : List PTree)
    (hsplit : Ast.statementListStatements sl = pre ++ s :: post) :
    ∃ fuel c c', (Index.indexStatement (Index.mkRec fuel) s).run c = .ok ((), c') ∧
      c.fileTrace = [ws.root] ∧ LogOK c.symbolMap ∧ SmLater c'.symbolMap res.symbolMap := by
  unfold Index.index at hr
  rw [hsf] at hr
  simp only at hr
  obtain ⟨j, hj⟩ : ∃ j, ws.depthBound = j + 3 := ⟨ws.depthBound - 3, by have := depthBound_ge ws; omega⟩
  rw [hj] at hr
  split at hr
  · cases hr
  · rename_i u ctx hrun
    cases hr
    have hrun' : (Index.indexStatementList (Index.mkRec (j + 2)) sl).run (IndexCtx.new ws) = .ok (u, ctx) := by
      have : Index.indexSourceFile (Index.mkRec (j + 3)) sf = Index.indexStatementList (Index.mkRec (j + 2)) sl := by
        unfold Index.indexSourceFile
        rw [hsl]
        rfl
      rw [this] at hrun
      exact hrun
    unfold Index.indexStatementList at hrun'
    rw [hsplit] at hrun'
    obtain ⟨u', c'', hloop, hpure⟩ := IxM.run_bind_ok hrun'
    simp only [StateT.run_pure] at hpure
    cases hpure
    have hsplitrun := Tg.C13.forIn_unit_split _ pre s post (IndexCtx.new ws) ctx _ ?_ hloop
    · obtain ⟨c1, c2, i1, i2, i3⟩ := hsplitrun
      obtain ⟨_, c2', j1, j2⟩ := IxM.run_bind_ok i2
      simp only [StateT.run_pure] at j2
      cases j2
      obtain ⟨hvl, htl, hsll, hsfl⟩ := mkRec_later (j + 2)
      obtain ⟨hva, hta, hsla, hsfa⟩ := mkRec_attr (j + 2)
      obtain ⟨hvg, htg, hslg, hsfg⟩ := mkRec_keeps (R := LogRel) (j + 2)
      have r3 : LaterRel c2 ctx := (?_ : Keeps LaterRel _).run _ _ _ i3
      have r1a : AttrRel (IndexCtx.new ws) c1 := (?_ : Keeps AttrRel _).run _ _ _ i1
      have r1g : LogRel (IndexCtx.new ws) c1 := (?_ : Keeps LogRel _).run _ _ _ i1
      · exact ⟨j + 2, c1, c2, j1, r1a.trace, r1g LogOK.empty, r3⟩
      · keeps
      · keeps
      · keeps
    · intro x cx st cy h
      obtain ⟨_, _, _, j3⟩ := IxM.run_bind_ok h
      simp only [StateT.run_pure] at j3; cases j3; rfl


/-! ### non-vacuity of section (5)

Name lookups of the model go through `Std.HashMap String _`, and `String.hash` is opaque to the
kernel: an index run that resolves an identifier, class or def *by name* cannot be evaluated by
`decide +kernel`.  The examples therefore use the one reference-producing site that needs no hash
lookup - `let f = …;` in a record body on a field the record declares itself (`recordFindField` walks
the `IndexMap` arrays) - on the real index run of `def d { int f = 1; let f = 2; }`, and a built
two-file workspace for the workspace hypotheses. -/

/-- `o = some (.recordField 0)`, as a Boolean -/
def isField0 (o : Option SymbolId) : Bool := match o with | some (.recordField 0) => true | _ => false
theorem isField0_eq {o : Option SymbolId} (h : isField0 o = true) : o = some (.recordField 0) := by
  unfold isField0 at h
  split at h
  · rfl
  · cases h

def gInput : List Char := "def d { int f = 1; let f = 2; }".toList

def gTree : Tree :=
  match Grammar.parse gInput with
  | .ok r => r.tree
  | _ => .node .SourceFile []

theorem gTree_shape : shapeCheck (PTree.ofTree gTree) = true := by decide +kernel

/-- the log of the run: `d`, `f`, and the reference from the `let` to the field `f` (which the record
declares itself, so no new field is declared) -/
def gOps : List Op := [.define ['d'] ⟨0, 4, 5⟩, .define ['f'] ⟨0, 12, 13⟩, .reference 1 ⟨0, 23, 24⟩]

theorem g_index : ∃ r, Index.index (wsOfTree gTree) = .ok r ∧ r.symbolMap.ops.toList = gOps := by
  have hk : (match Index.index (wsOfTree gTree) with
      | .ok r => opsBeq r.symbolMap.ops.toList gOps
      | .error _ => false) = true := by decide +kernel
  cases hr : Index.index (wsOfTree gTree) with
  | error e => rw [hr] at hk; cases hk
  | ok r => rw [hr] at hk; exact ⟨r, rfl, opsBeq_eq hk⟩

theorem ex_wsGood : WsGood (wsOfTree gTree) := by
  have hid : gTree.idOK := by
    unfold gTree
    split
    · rename_i r hr; exact parse_idOK hr
    · simp
  refine ⟨⟨(wsOfTree_wf gTree_shape).1, (wsOfTree_wf gTree_shape).2.1⟩, ?_, ?_⟩
  · intro g
    unfold Workspace.tree
    cases g with
    | zero => simpa [wsOfTree] using idsNE_ofTree hid
    | succ g => simpa [wsOfTree] using defaultTree_idsNE
  · intro g
    unfold Workspace.tree
    cases g with
    | zero => simpa [wsOfTree] using idsPlain_ofTree hid
    | succ g => simpa [wsOfTree] using defaultTree_idsPlain

/-- `logged_reference_answers` on the real run: from the `f` of `let f` (offsets 23..24) go-to-definition
answers the declaration `int f` at 12..13 and find-references answers `[23..24]` -/
example : gotoDefinitionExec (Analysis.new (wsOfTree gTree)) 0 23 = .ok (some ⟨0, 12, 13⟩) ∧
    referencesExec (Analysis.new (wsOfTree gTree)) 0 23 = .ok (some [⟨0, 23, 24⟩]) := by
  obtain ⟨r, hr, ho'⟩ := g_index
  have hfacts : (match Index.index (wsOfTree gTree) with
      | .ok r => isField0 r.symbolMap.gidToSym[1]? &&
          ((r.symbolMap.recordField 0).defineLoc.file == 0 && (r.symbolMap.recordField 0).defineLoc.start == 12 &&
            (r.symbolMap.recordField 0).defineLoc.stop == 13)
      | .error _ => false) = true := by decide +kernel
  rw [hr] at hfacts
  simp only [Bool.and_eq_true, beq_iff_eq] at hfacts
  have := logged_reference_answers ex_wsGood hr
    [.define ['d'] ⟨0, 4, 5⟩, .define ['f'] ⟨0, 12, 13⟩] [] 1 ⟨0, 23, 24⟩
    (by rw [ho']; rfl) (.recordField 0) (isField0_eq hfacts.1) 23 (by decide) (by decide)
  rw [ho'] at this
  obtain ⟨h1, h2, _⟩ := this
  refine ⟨?_, ?_⟩
  · rw [h1]
    simp only [symbolDefineLoc, FileRange.toLoc, hfacts.2.1.1, hfacts.2.1.2, hfacts.2.2]
  · rw [h2]; rfl

/-- `declaration_references_exact_partial` on the same run: find-references at the declaration
`int f` (12..13) answers exactly the logged references of symbol 1 -/
example : referencesExec (Analysis.new (wsOfTree gTree)) 0 12 = .ok (some [⟨0, 23, 24⟩]) := by
  obtain ⟨r, hr, ho'⟩ := g_index
  have := declaration_references_exact_partial ex_wsGood hr [.define ['d'] ⟨0, 4, 5⟩]
    [.reference 1 ⟨0, 23, 24⟩] ['f'] ⟨0, 12, 13⟩ (by rw [ho']; rfl)
    (by intro o ho; simp only [List.mem_cons, List.not_mem_nil, or_false] at ho
        subst ho; simp [regLoc]) 12 (by decide) (by decide)
  rw [ho'] at this
  rw [this.1]; rfl

/-- `site_reference_answers` on the same run, with the symbol map the run has right before the `let`
registers its reference (the final map without its last log entry) -/
example : ∃ (res : Index.IndexResult) (c : IndexCtx), Index.index (wsOfTree gTree) = .ok res ∧
    c.symbolMap.gidToSym[c.symbolMap.gidOf (.recordField 0)]? = some (.recordField 0) ∧
    SmLater (c.symbolMap.addReference (.recordField 0) ⟨0, 23, 24⟩) res.symbolMap ∧
    gotoDefinitionExec (Analysis.new (wsOfTree gTree)) 0 23 =
      .ok (some (symbolDefineLoc res.symbolMap (.recordField 0)).toLoc) := by
  obtain ⟨r, hr, ho'⟩ := g_index
  have hfacts : (match Index.index (wsOfTree gTree) with
      | .ok r => isField0 r.symbolMap.gidToSym[r.symbolMap.recordFieldGid[0]!]? &&
          r.symbolMap.recordFieldGid[0]! == 1
      | .error _ => false) = true := by decide +kernel
  rw [hr] at hfacts
  simp only [Bool.and_eq_true, beq_iff_eq] at hfacts
  let c : IndexCtx := { IndexCtx.new (wsOfTree gTree) with
    symbolMap := { r.symbolMap with ops := r.symbolMap.ops.pop } }
  have hlive : c.symbolMap.gidToSym[c.symbolMap.gidOf (.recordField 0)]? = some (.recordField 0) := isField0_eq hfacts.1
  have heq : c.symbolMap.addReference (.recordField 0) ⟨0, 23, 24⟩ = r.symbolMap := by
    have hops : (r.symbolMap.ops.pop.push (Op.reference 1 ⟨0, 23, 24⟩)) = r.symbolMap.ops := by
      apply Array.toList_inj.1
      rw [ho']
      simp [ho', gOps]
    have hg : c.symbolMap.gidOf (.recordField 0) = 1 := hfacts.2
    unfold SymMap.addReference
    rw [hg]
    show ({ r.symbolMap with ops := (r.symbolMap.ops.pop).push (Op.reference 1 ⟨0, 23, 24⟩) } : SymMap) = r.symbolMap
    rw [hops]
  have hlater : SmLater (c.symbolMap.addReference (.recordField 0) ⟨0, 23, 24⟩) r.symbolMap := by
    rw [heq]; exact SmLater.refl _
  exact ⟨r, c, hr, hlive, hlater,
    (site_reference_answers ex_wsGood hr c (.recordField 0) ⟨0, 23, 24⟩ hlive hlater 23 (by decide) (by decide)).1⟩

/-- the workspace hypothesis on a built two-file workspace (an include), and `root_statement_midrun`
for its second root statement -/
example : ∃ ws res, buildWorkspace [("/w/a.td", "include \"b.td\"\nclass A;"), ("/w/b.td", "def x;")] "/w/a.td" none = .ok ws ∧
    Index.index ws = .ok res ∧ WsGood ws := by
  have hk : C03.isOk (buildWorkspace [("/w/a.td", "include \"b.td\"\nclass A;"), ("/w/b.td", "def x;")]
      "/w/a.td" none) = true := by decide +kernel
  cases hb : buildWorkspace [("/w/a.td", "include \"b.td\"\nclass A;"), ("/w/b.td", "def x;")] "/w/a.td" none with
  | error e => rw [hb] at hk; cases hk
  | ok ws =>
    obtain ⟨r, hr⟩ := C03.index_never_panics _ _ _ ws hb
    exact ⟨ws, r, rfl, hr, built_wsGood hb⟩


end capstone

section live
open Tg.Ide.Handlers
open Tg.SymbolMap (Op Loc run refsOf)

/-! ## (6) live symbols: the capstone without `hlive` -/

/-- whatever `resolve_id` answers in a live state is a live symbol (for a non-empty name: an
unregistered defset id would be filed under the empty name) -/
theorem resolveName_live {c : IndexCtx} (h : LiveInv c) (name : String) (hne : name ≠ "") (S : SymbolId)
    (hres : Tg.C13.resolveName c name = some S) :
    c.symbolMap.gidToSym[c.symbolMap.gidOf S]? = some S := by
  apply h.live
  unfold Tg.C13.resolveName at hres
  cases hfl : c.scopes.findLocal c.symbolMap name with
  | some s =>
    rw [hfl] at hres
    cases hres
    exact findLocal_valid h name _ hfl
  | none =>
    rw [hfl] at hres
    simp only at hres
    cases hfd : c.symbolMap.findDef name with
    | some d =>
      rw [hfd] at hres
      cases hres
      exact h.cont.defs name d hfd
    | none =>
      rw [hfd] at hres
      simp only at hres
      cases hds : c.symbolMap.findDefset name with
      | none => rw [hds] at hres; cases hres
      | some d =>
        rw [hds] at hres
        cases hres
        rcases h.cont.dss name d hds with h1 | h1
        · exact h1
        · exact absurd h1 hne

/-- **`use_goes_to_declaration`, with the state invariant instead of `hlive`**: `LiveInv c` holds of
every state the indexer reaches (`LiveInv.new`, `mkRec_live`) -/
theorem use_goes_to_declaration_live {ws : Workspace} (hw : WsGood ws) {res : Index.IndexResult}
    (hr : Index.index ws = .ok res) (id : PTree) (c c' : IndexCtx) (t : Option Ty) (f : Nat) (rest : List Nat)
    (hft : c.fileTrace = f :: rest) (name : String) (loc : FileRange) (hid : identOf f id = some (name, loc))
    (hne : name ≠ "") (S : SymbolId) (hres : Tg.C13.resolveName c name = some S) (hlive : LiveInv c)
    (hrun : (Index.indexIdentifierValue id).run c = .ok (t, c'))
    (hlater : SmLater c'.symbolMap res.symbolMap)
    (p : Nat) (h1 : loc.start ≤ p) (h2 : p < loc.stop) :
    gotoDefinitionExec (Analysis.new ws) f p = .ok (some (symbolDefineLoc res.symbolMap S).toLoc) ∧
    referencesExec (Analysis.new ws) f p = .ok (some (refsOf res.symbolMap.ops.toList (c.symbolMap.gidOf S))) ∧
    loc.toLoc ∈ refsOf res.symbolMap.ops.toList (c.symbolMap.gidOf S) :=
  use_goes_to_declaration hw hr id c c' t f rest hft name loc hid S hres
    (resolveName_live hlive name hne S hres) hrun hlater p h1 h2


/-- **`use_goes_to_declaration_root`**: the indexer visits the identifier `id` - the initialiser of a
field definition `T x = id;` (`T` primitive) in the body of a `class` / `def` statement `s` of the root
file (`ClassUse` / `DefUse`: static conditions on the tree) - in a state `c` that is live and has the
root as current file, the run continues from the state `c'` after the visit to the final result, and
for the symbol `S` that `resolve_id` answers *in `c`*: on the final analysis, from every offset of the
identifier go-to-definition lands exactly on the declaring identifier of `S`, and find-references
answers the uses of `S`, this one among them.  No hypothesis on intermediate states is left. -/
theorem use_goes_to_declaration_root {ws : Workspace} (hw : WsGood ws) {res : Index.IndexResult}
    (hr : Index.index ws = .ok res) (sf sl : PTree) (hsf : Ast.sourceFileCast (ws.tree ws.root) = some sf)
    (hsl : Ast.sourceFileStatementList sf = some sl) (spre : List PTree) (s : PTree) (spost : List PTree)
    (hsplit : Ast.statementListStatements sl = spre ++ s :: spost) (id : PTree)
    (hu : ClassUse s id ∨ DefUse s id) (name : String) (se : Nat × Nat)
    (hiv : Ast.identifierValue id = some name) (hir : Ast.identifierRange id = some se) (hne : name ≠ "") :
    ∃ c t c', c.fileTrace = [ws.root] ∧ LiveInv c ∧
      (Index.indexIdentifierValue id).run c = .ok (t, c') ∧ SmLater c'.symbolMap res.symbolMap ∧
      ∀ S, Tg.C13.resolveName c name = some S → ∀ p, se.1 ≤ p → p < se.2 →
        gotoDefinitionExec (Analysis.new ws) ws.root p = .ok (some (symbolDefineLoc res.symbolMap S).toLoc) ∧
        referencesExec (Analysis.new ws) ws.root p =
          .ok (some (refsOf res.symbolMap.ops.toList (c.symbolMap.gidOf S))) ∧
        (⟨ws.root, se.1, se.2⟩ : Loc) ∈ refsOf res.symbolMap.ops.toList (c.symbolMap.gidOf S) := by
  have hr0 := hr
  unfold Index.index at hr
  rw [hsf] at hr
  simp only at hr
  obtain ⟨j, hj⟩ : ∃ j, ws.depthBound = j + 2 := ⟨ws.depthBound - 2, by have := depthBound_ge ws; omega⟩
  rw [hj] at hr
  split at hr
  · cases hr
  · rename_i u ctx hrun
    cases hr
    have hrun' : (Index.indexStatementList (Index.mkRec (j + 1)) sl).run (IndexCtx.new ws) = .ok (u, ctx) := by
      have : Index.indexSourceFile (Index.mkRec (j + 2)) sf = Index.indexStatementList (Index.mkRec (j + 1)) sl := by
        unfold Index.indexSourceFile
        rw [hsl]
        rfl
      rw [this] at hrun
      exact hrun
    obtain ⟨c, t, c', hpre, hsite, hlater⟩ := statementList_visits j sl spre s spost id hsplit hu _ _ _ hrun'
    have hft : c.fileTrace = [ws.root] := hpre.2
    have hlive : LiveInv c := hpre.1.inv (LiveInv.new ws)
    refine ⟨c, t, c', hft, hlive, hsite, hlater, fun S hS p h1 h2 => ?_⟩
    exact use_goes_to_declaration_live hw hr0 id c c' t ws.root [] hft name ⟨ws.root, se.1, se.2⟩
      (identOf_of ws.root id name se hiv hir) hne S hS hlive hsite hlater p h1 h2


/-- the `j`-th body item of the `i`-th root statement is `T x = id;` of a `class` / `def`: the
identifier, its (non-empty) text and its range - an executable form of the static hypotheses of
`use_goes_to_declaration_root` -/
def rootUse (ws : Workspace) (i j : Nat) : Option (PTree × String × (Nat × Nat)) :=
  match (Ast.sourceFileCast (ws.tree ws.root)).bind Ast.sourceFileStatementList with
  | none => none
  | some sl =>
    match (Ast.statementListStatements sl)[i]? with
    | none => none
    | some s =>
      match stmtUseId s j with
      | none => none
      | some id =>
        match Ast.identifierValue id, Ast.identifierRange id with
        | some name, some se => if name ≠ "" then some (id, name, se) else none
        | _, _ => none

theorem use_goes_to_declaration_rootB {ws : Workspace} (hw : WsGood ws) {res : Index.IndexResult}
    (hr : Index.index ws = .ok res) (i j : Nat) (id : PTree) (name : String) (se : Nat × Nat)
    (h : rootUse ws i j = some (id, name, se)) :
    ∃ c t c', c.fileTrace = [ws.root] ∧ LiveInv c ∧
      (Index.indexIdentifierValue id).run c = .ok (t, c') ∧ SmLater c'.symbolMap res.symbolMap ∧
      ∀ S, Tg.C13.resolveName c name = some S → ∀ p, se.1 ≤ p → p < se.2 →
        gotoDefinitionExec (Analysis.new ws) ws.root p = .ok (some (symbolDefineLoc res.symbolMap S).toLoc) ∧
        referencesExec (Analysis.new ws) ws.root p =
          .ok (some (refsOf res.symbolMap.ops.toList (c.symbolMap.gidOf S))) ∧
        (⟨ws.root, se.1, se.2⟩ : Loc) ∈ refsOf res.symbolMap.ops.toList (c.symbolMap.gidOf S) := by
  unfold rootUse at h
  split at h
  · cases h
  · rename_i sl hsl
    split at h
    · cases h
    · rename_i s hs
      split at h
      · cases h
      · rename_i id' hid
        split at h
        · rename_i name' se' hv hrg
          split at h
          · rename_i hne
            cases h
            cases hsf : Ast.sourceFileCast (ws.tree ws.root) with
            | none => rw [hsf] at hsl; cases hsl
            | some sf =>
              rw [hsf] at hsl
              obtain ⟨spre, spost, hsplit⟩ := split_of_getElem? _ _ _ hs
              exact use_goes_to_declaration_root hw hr sf sl hsf hsl spre s spost hsplit id (stmtUseId_sound hid)
                name se hv hrg hne
          · cases h
        · cases h

/-- non-vacuity: `def d { int f = 1; int g = f; }` - the second body item of the first statement is a
use of `f` at 27..28; the workspace is good and its index run succeeds, so the theorem applies -/
def uInput : List Char := "def d { int f = 1; int g = f; }".toList

def uTree : Tree :=
  match Grammar.parse uInput with
  | .ok r => r.tree
  | _ => .node .SourceFile []

theorem uTree_shape : shapeCheck (PTree.ofTree uTree) = true := by decide +kernel

theorem u_wsGood : WsGood (wsOfTree uTree) := by
  have hid : uTree.idOK := by
    unfold uTree
    split
    · rename_i r hr; exact parse_idOK hr
    · simp
  refine ⟨⟨(wsOfTree_wf uTree_shape).1, (wsOfTree_wf uTree_shape).2.1⟩, ?_, ?_⟩
  · intro g
    unfold Workspace.tree
    cases g with
    | zero => simpa [wsOfTree] using idsNE_ofTree hid
    | succ g => simpa [wsOfTree] using defaultTree_idsNE
  · intro g
    unfold Workspace.tree
    cases g with
    | zero => simpa [wsOfTree] using idsPlain_ofTree hid
    | succ g => simpa [wsOfTree] using defaultTree_idsPlain

example : ∃ res id, Index.index (wsOfTree uTree) = .ok res ∧ rootUse (wsOfTree uTree) 0 1 = some (id, "f", (27, 28)) ∧
    ∃ c t c', c.fileTrace = [0] ∧ LiveInv c ∧ (Index.indexIdentifierValue id).run c = .ok (t, c') ∧
      SmLater c'.symbolMap res.symbolMap := by
  obtain ⟨res, hres⟩ := C03.index_never_panics_of_ready u_wsGood.ready
  have hk : ((rootUse (wsOfTree uTree) 0 1).map fun x => x.2) = some ("f", (27, 28)) := by decide +kernel
  cases hu : rootUse (wsOfTree uTree) 0 1 with
  | none => rw [hu] at hk; cases hk
  | some x =>
    obtain ⟨id, name, se⟩ := x
    rw [hu] at hk
    simp only [Option.map_some, Option.some.injEq, Prod.mk.injEq] at hk
    obtain ⟨rfl, rfl⟩ := hk
    obtain ⟨c, t, c', h1, h2, h3, h4, _⟩ := use_goes_to_declaration_rootB u_wsGood hres 0 1 id "f" (27, 28) hu
    exact ⟨res, id, hres, rfl, c, t, c', h1, h2, h3, h4⟩


end live

end Tg.C05
