/-
C05, the iteration variable of a top-level `foreach` (files reachable through top-level includes of a
workspace built by `buildWorkspace`):

* `foreach_var_resolves`: inside `foreach i = … in { … }` a use of `i` - the identifier of a
  `defvar y = i;` / `dump i;` statement of the body, all earlier statements of the body being of the
  kinds that restore the scope stack exactly (no `defvar` / `defset` / `include`, so none of them can
  re-declare `i` in the scope of the loop) - resolves to the variable the foreach declared, whose
  declaration is the iterator's identifier; go-to-definition from the use lands there.
* `foreach_var_not_resolved_after`: after the `foreach`, a later top-level use of the name does not
  resolve to that variable.

`foreachUse` / `afterUse`: the executable forms of the static hypotheses, with examples on built workspaces.
-/
import TgModel.Props.C05Files
import TgModel.Lemmas.Ix11Runs

namespace Tg.C05
open Tg Tg.Ide Tg.Bodied
open Tg.Ide.Handlers
open Tg.SymbolMap (Op Loc run refsOf)
open Tg.Ide.Ix10 Tg.Ide.Ix11

/-! ### the nodes involved are bodied -/

theorem file_stmt_bodied {ws : Workspace} (hb : ws.AllBodied) {g : Nat} {sf sl s : PTree}
    (hsf : Ast.sourceFileCast (ws.tree g) = some sf) (hsl : Ast.sourceFileStatementList sf = some sl)
    (hs : s ∈ Ast.statementListStatements sl) : PBodied s ∧ s.isNode = true := by
  have h0 : PBodied sf := by rw [sourceFileCast_eq hsf]; exact hb g
  have h1 : PBodied sl := h0.child (Ast.child_mem hsl)
  exact ⟨h1.child (Ast.children_mem hs).1, (Ast.children_mem hs).2⟩

theorem body_stmt_bodied {s body x : PTree} (hs : PBodied s) (hbody : Ast.foreachBody s = some body)
    (hx : x ∈ Ast.statementListStatements body) : PBodied x ∧ x.isNode = true :=
  ⟨(hs.child (Ast.child_mem hbody)).child (Ast.children_mem hx).1, (Ast.children_mem hx).2⟩

theorem StmtsRun.sealed {lo hi k : Nat} {l : List PTree} :
    ∀ {c c' : IndexCtx}, StmtsRun k l c c' → Sealed lo hi c → Sealed lo hi c' := by
  induction l with
  | nil => intro c c' h hs; cases h; exact hs
  | cons x t ih =>
    intro c c' h hs
    cases h with
    | cons h1 h2 => exact ih h2 (sealed_kept_statement lo hi k x _ _ () h1 hs)

theorem resolveName_foreach_top (c : IndexCtx) (name : String) (vid : Nat) (s : Scopes)
    (h : c.scopes = s.push (.foreach name vid)) : Tg.C13.resolveName c name = some (.var vid) := by
  have hf : c.scopes.findLocal c.symbolMap name = some (.var vid) := by
    refine findLocal_innermost c.scopes c.symbolMap name [] s.scopes { kind := .foreach name vid } (.var vid)
      (by rw [h]; rfl) (fun x hx => by cases hx) ?_
    unfold scopeLookup
    have : ({ kind := .foreach name vid } : Scope).findVariable name = some vid := by
      rw [show ({ kind := .foreach name vid } : Scope) = { kind := .foreach name vid, nameToVariable := {} } from rfl,
        findVariable_foreach name vid {} name (by simp)]
      simp
    rw [this]
  unfold Tg.C13.resolveName
  rw [hf]

theorem resolveName_sealed {lo hi : Nat} {c : IndexCtx} (hs : Sealed lo hi c) (name : String) (v : Nat)
    (h1 : lo ≤ v) (h2 : v < hi) : Tg.C13.resolveName c name ≠ some (.var v) := by
  unfold Tg.C13.resolveName
  intro h
  split at h
  · rename_i x hx
    cases h
    exact sealed_not_found hs v h1 h2 _ _ hx
  · split at h
    · cases h
    · cases hd : c.symbolMap.findDefset name with
      | none => rw [hd] at h; cases h
      | some d => rw [hd] at h; cases h

/-! ### inside the loop -/

/-- **the iteration variable resolves to the foreach's own declaration** -/
theorem foreach_var_resolves {vfs : List (String × String)} {rootPath : String} {inc : Option String}
    {ws : Workspace} (hws : buildWorkspace vfs rootPath inc = .ok ws) {res : Index.IndexResult}
    (hr : Index.index ws = .ok res) (g : Nat) (hg : TopReach ws g) (sf sl : PTree)
    (hsf : Ast.sourceFileCast (ws.tree g) = some sf) (hsl : Ast.sourceFileStatementList sf = some sl)
    (spre : List PTree) (s : PTree) (spost : List PTree)
    (hsplit : Ast.statementListStatements sl = spre ++ s :: spost) (hkind : s.kind = .Foreach)
    (it nn : PTree) (name : String) (se : Nat × Nat) (init body : PTree)
    (hit : Ast.foreachIterator s = some it) (hn : Ast.foreachIteratorName it = some nn)
    (hiv : Ast.identifierValue nn = some name) (hir : Ast.identifierRange nn = some se)
    (hinit : Ast.foreachIteratorInit it = some init) (hbody : Ast.foreachBody s = some body)
    (bpre : List PTree) (s' : PTree) (bpost : List PTree)
    (hbsplit : Ast.statementListStatements body = bpre ++ s' :: bpost)
    (hquiet : ∀ x ∈ bpre, restoresExactly x.kind = true)
    (id : PTree) (hu : DefvarUse s' id ∨ DumpUse s' id) (use : Nat × Nat)
    (hidv : Ast.identifierValue id = some name) (hidr : Ast.identifierRange id = some use) (hne : name ≠ "") :
    ∃ c t c' rest vid, c.fileTrace = g :: rest ∧ LiveInv c ∧
      (Index.indexIdentifierValue id).run c = .ok (t, c') ∧ SmLater c'.symbolMap res.symbolMap ∧
      Tg.C13.resolveName c name = some (.var vid) ∧
      symbolDefineLoc res.symbolMap (.var vid) = ⟨g, se.1, se.2⟩ ∧
      ∀ p, use.1 ≤ p → p < use.2 →
        gotoDefinitionExec (Analysis.new ws) g p = .ok (some ⟨g, se.1, se.2⟩) := by
  have hb := buildWorkspace_bodied hws
  have hw := built_wsGood hws
  obtain ⟨k, cs, cs', rest, hlive, hcws, htr, hruns, hla⟩ := file_stmtsRun ws res hr g hg sf sl hsf hsl
  rw [hsplit] at hruns
  obtain ⟨c1, c2, r1, rs, r2⟩ := hruns.split
  have p1 : PreR cs c1 := r1.keeps (fun x _ => statement_preR k x)
  have a1 : AttrRel cs c1 := r1.keeps (fun x _ => statement_attr k x)
  have l2 : LaterRel c2 cs' := r2.keeps (fun x _ => statement_later k x)
  have hft1 : c1.fileTrace = g :: rest := p1.2.trans htr
  have hsb := file_stmt_bodied hb hsf hsl (by rw [hsplit]; simp : s ∈ Ast.statementListStatements sl)
  unfold Index.indexStatement at rs
  simp only [hkind] at rs
  obtain ⟨vid, s1, s3, hi, hb3, hpop⟩ := foreach_run k s it nn name se init body hit hn hiv hir hinit hbody c1 c2 () rs
  obtain ⟨hvalid, hloc⟩ := iterator_var (Index.mkRec k) it nn name se init hn hiv hir hinit c1 g rest hft1 name vid s1 hi
  obtain ⟨g1, g2, _, _⟩ := mkRec_gid k
  obtain ⟨k1, k2, _, _⟩ := mkRec_cont k
  obtain ⟨d1, d2, _, _⟩ := mkRec_brel (T := 0) (Good := fun _ => True) (fun _ _ => trivial) k
  obtain ⟨at1, at2, _, _⟩ := mkRec_attr k
  have pl : LiveRel c1 { s1 with scopes := s1.scopes.push (.foreach name vid) } :=
    foreachHead_live g1 g2 k1 k2 d1 d2 it c1 s1 name vid hi
  have ai : AttrRel c1 s1 := (Index.indexForeachIterator_keeps at1 at2 it).run _ _ _ hi
  have l3 : LaterRel { s1 with scopes := s1.scopes.push (.foreach name vid) } s3 :=
    ((mkRec_later k).2.2.1 body).run _ _ _ hb3
  have lpop : LaterRel s3 c2 := (scopesPop_keeps (R := LaterRel)).run _ _ _ hpop
  cases k with
  | zero => cases hb3
  | succ k =>
    have hbr := stmtsRun_of_list k body _ s3 () hb3
    rw [hbsplit] at hbr
    obtain ⟨b1, b2, q1, qs, q2⟩ := hbr.split
    have pb : PreR { s1 with scopes := s1.scopes.push (.foreach name vid) } b1 :=
      q1.keeps (fun x _ => statement_preR k x)
    have wb : WEq ws { s1 with scopes := s1.scopes.push (.foreach name vid) } b1 :=
      q1.keeps (fun x hx => by
        have hxb := body_stmt_bodied hsb.1 hbody (by rw [hbsplit]; simp [hx] : x ∈ Ast.statementListStatements body)
        exact indexStatement_exact hb (mkRec_w hb k) x hxb.1 hxb.2 (hquiet x hx))
    have hs2ws : ({ s1 with scopes := s1.scopes.push (.foreach name vid) } : IndexCtx).ws = ws := by
      show s1.ws = ws
      rw [ai.ws, a1.ws, hcws]
    have hsc : b1.scopes = s1.scopes.push (.foreach name vid) := (wb hs2ws).2
    obtain ⟨t, b1', hsite, hl⟩ := direct_site_run k s' id hu b1 b2 () qs
    have lq : LaterRel b2 s3 := q2.keeps (fun x _ => statement_later k x)
    have hlater : SmLater b1'.symbolMap res.symbolMap :=
      SmLater.trans hl (SmLater.trans lq (SmLater.trans lpop (SmLater.trans l2 hla)))
    have hlive1 : LiveInv b1 := (KeepRel.trans p1.1 (KeepRel.trans pl pb.1)).inv hlive
    have hftb : b1.fileTrace = g :: rest := by
      rw [pb.2]
      show s1.fileTrace = g :: rest
      rw [ai.trace, hft1]
    have hres : Tg.C13.resolveName b1 name = some (.var vid) := resolveName_foreach_top b1 name vid s1.scopes hsc
    have hs1later : SmLater s1.symbolMap res.symbolMap :=
      SmLater.trans l3 (SmLater.trans lpop (SmLater.trans l2 hla))
    have hdef : symbolDefineLoc res.symbolMap (.var vid) = ⟨g, se.1, se.2⟩ := by
      rw [(hs1later.frame (.var vid) hvalid).2.1, hloc]
    refine ⟨b1, t, b1', rest, vid, hftb, hlive1, hsite, hlater, hres, hdef, fun p h1 h2 => ?_⟩
    have := (use_goes_to_declaration_live hw hr id b1 b1' t g rest hftb name ⟨g, use.1, use.2⟩
      (identOf_of g id name use hidv hidr) hne (.var vid) hres hlive1 hsite hlater p h1 h2).1
    rw [this, hdef]
    rfl

/-! ### after the loop -/

/-- **after the `foreach`, a later top-level use of the name does not resolve to its variable** -/
theorem foreach_var_not_resolved_after {vfs : List (String × String)} {rootPath : String} {inc : Option String}
    {ws : Workspace} (hws : buildWorkspace vfs rootPath inc = .ok ws) {res : Index.IndexResult}
    (hr : Index.index ws = .ok res) (g : Nat) (hg : TopReach ws g) (sf sl : PTree)
    (hsf : Ast.sourceFileCast (ws.tree g) = some sf) (hsl : Ast.sourceFileStatementList sf = some sl)
    (spre : List PTree) (s : PTree) (mid : List PTree) (s2 : PTree) (spost : List PTree)
    (hsplit : Ast.statementListStatements sl = spre ++ s :: (mid ++ s2 :: spost)) (hkind : s.kind = .Foreach)
    (it nn : PTree) (name : String) (se : Nat × Nat) (init body : PTree)
    (hit : Ast.foreachIterator s = some it) (hn : Ast.foreachIteratorName it = some nn)
    (hiv : Ast.identifierValue nn = some name) (hir : Ast.identifierRange nn = some se)
    (hinit : Ast.foreachIteratorInit it = some init) (hbody : Ast.foreachBody s = some body)
    (id : PTree) (hu : DefvarUse s2 id ∨ DumpUse s2 id) :
    ∃ c t c' rest vid, c.fileTrace = g :: rest ∧ LiveInv c ∧
      (Index.indexIdentifierValue id).run c = .ok (t, c') ∧ SmLater c'.symbolMap res.symbolMap ∧
      symbolDefineLoc res.symbolMap (.var vid) = ⟨g, se.1, se.2⟩ ∧
      (∀ nm, Tg.C13.resolveName c nm ≠ some (.var vid)) := by
  have hb := buildWorkspace_bodied hws
  obtain ⟨k, cs, cs', rest, hlive, hcws, htr, hruns, hla⟩ := file_stmtsRun ws res hr g hg sf sl hsf hsl
  rw [hsplit] at hruns
  obtain ⟨c1, c2, r1, rs, r2⟩ := hruns.split
  obtain ⟨e1, e2, m1, ms, m3⟩ := r2.split
  have p1 : PreR cs c1 := r1.keeps (fun x _ => statement_preR k x)
  have a1 : AttrRel cs c1 := r1.keeps (fun x _ => statement_attr k x)
  have hft1 : c1.fileTrace = g :: rest := p1.2.trans htr
  have hlive1 : LiveInv c1 := p1.1.inv hlive
  have hsb := file_stmt_bodied hb hsf hsl (by rw [hsplit]; simp : s ∈ Ast.statementListStatements sl)
  have ps : PreR c1 c2 := (statement_preR k s).run _ _ _ rs
  have pm : PreR c2 e1 := m1.keeps (fun x _ => statement_preR k x)
  have hc1ws : c1.ws = ws := by rw [a1.ws, hcws]
  have hsc : c2.scopes = c1.scopes :=
    ((indexStatement_exact hb (mkRec_w hb k) s hsb.1 hsb.2 (by rw [hkind]; rfl)).run _ _ _ rs hc1ws).2
  have hseal : Sealed (vsize c1) (vsize c2) c2 := sealed_after_balanced hlive1.vars hsc ps.1.2.2.1
  have hseal1 : Sealed (vsize c1) (vsize c2) e1 := StmtsRun.sealed m1 hseal
  have rs' := rs
  unfold Index.indexStatement at rs'
  simp only [hkind] at rs'
  obtain ⟨vid, s1, s3, hi, hb3, hpop⟩ := foreach_run k s it nn name se init body hit hn hiv hir hinit hbody c1 c2 () rs'
  obtain ⟨hvalid, hloc⟩ := iterator_var (Index.mkRec k) it nn name se init hn hiv hir hinit c1 g rest hft1 name vid s1 hi
  obtain ⟨d1, d2, _, _⟩ := mkRec_brel (T := 0) (Good := fun _ => True) (fun _ _ => trivial) k
  obtain ⟨hlo, _⟩ := indexForeachIterator_id hT0 d1 d2 it c1 s1 name vid hi
  have l3 : LaterRel { s1 with scopes := s1.scopes.push (.foreach name vid) } s3 :=
    ((mkRec_later k).2.2.1 body).run _ _ _ hb3
  have lpop : LaterRel s3 c2 := (scopesPop_keeps (R := LaterRel)).run _ _ _ hpop
  have hs1c2 : SmLater s1.symbolMap c2.symbolMap := SmLater.trans l3 lpop
  have hhi : vid < vsize c2 := (hs1c2.frame (.var vid) hvalid).1
  obtain ⟨t, e1', hsite, hl⟩ := direct_site_run k s2 id hu e1 e2 () ms
  have l2 : LaterRel e2 cs' := m3.keeps (fun x _ => statement_later k x)
  have lm : LaterRel c2 e1 := m1.keeps (fun x _ => statement_later k x)
  have hlater : SmLater e1'.symbolMap res.symbolMap := SmLater.trans hl (SmLater.trans l2 hla)
  have ls2 : LaterRel e1 e2 := (statement_later k s2).run _ _ _ ms
  have hdef : symbolDefineLoc res.symbolMap (.var vid) = ⟨g, se.1, se.2⟩ := by
    have hall : SmLater s1.symbolMap res.symbolMap :=
      SmLater.trans hs1c2 (SmLater.trans lm (SmLater.trans ls2 (SmLater.trans l2 hla)))
    rw [(hall.frame (.var vid) hvalid).2.1, hloc]
  refine ⟨e1, t, e1', rest, vid, ?_, (KeepRel.trans ps.1 pm.1).inv hlive1, hsite, hlater, hdef,
    fun nm => resolveName_sealed hseal1 nm vid hlo hhi⟩
  rw [pm.2, ps.2, hft1]

/-! ### executable forms -/

theorem split_take_drop {α : Type} (l : List α) (i : Nat) (x : α) (h : l[i]? = some x) :
    l = l.take i ++ x :: l.drop (i + 1) := by
  induction l generalizing i with
  | nil => simp at h
  | cons y t ih =>
    cases i with
    | zero => simp at h; subst h; simp
    | succ i =>
      simp only [List.getElem?_cons_succ] at h
      simp only [List.take_succ_cons, List.drop_succ_cons, List.cons_append]
      rw [← ih i h]

/-- iterator, its name node, its initialiser and the body of a `foreach` statement -/
def foreachParts (s : PTree) : Option (PTree × PTree × PTree × PTree) :=
  if s.kind == .Foreach then
    match Ast.foreachIterator s with
    | some it =>
      match Ast.foreachIteratorName it, Ast.foreachIteratorInit it, Ast.foreachBody s with
      | some nn, some init, some body => some (it, nn, init, body)
      | _, _, _ => none
    | none => none
  else none

theorem foreachParts_sound {s it nn init body : PTree} (h : foreachParts s = some (it, nn, init, body)) :
    s.kind = .Foreach ∧ Ast.foreachIterator s = some it ∧ Ast.foreachIteratorName it = some nn ∧
      Ast.foreachIteratorInit it = some init ∧ Ast.foreachBody s = some body := by
  unfold foreachParts at h
  split at h
  · rename_i hk
    split at h
    · rename_i it' hit
      split at h
      · rename_i nn' init' body' h1 h2 h3
        cases h
        exact ⟨by simpa using hk, hit, h1, h2, h3⟩
      · cases h
    · cases h
  · cases h

/-- the identifier of `defvar x = id;` / `dump id;` -/
def directUseId (s : PTree) : Option PTree :=
  match defvarUseId s with
  | some id => some id
  | none => dumpUseId s

theorem directUseId_sound {s id : PTree} (h : directUseId s = some id) : DefvarUse s id ∨ DumpUse s id := by
  unfold directUseId at h
  split at h
  · rename_i x hx; cases h; exact Or.inl (defvarUseId_sound hx)
  · exact Or.inr (dumpUseId_sound h)

/-- the statement list of the file reached from the root by the include chain `incs` -/
def fileStmts (ws : Workspace) (incs : List Nat) : Option (Nat × PTree) :=
  match includeChain ws ws.root incs with
  | none => none
  | some g =>
    match (Ast.sourceFileCast (ws.tree g)).bind Ast.sourceFileStatementList with
    | none => none
    | some sl => some (g, sl)

theorem fileStmts_sound {ws : Workspace} {incs : List Nat} {g : Nat} {sl : PTree}
    (h : fileStmts ws incs = some (g, sl)) :
    TopReach ws g ∧ ∃ sf, Ast.sourceFileCast (ws.tree g) = some sf ∧ Ast.sourceFileStatementList sf = some sl := by
  unfold fileStmts at h
  split at h
  · cases h
  · rename_i g' hchain
    split at h
    · cases h
    · rename_i sl' hsl
      cases h
      cases hsf : Ast.sourceFileCast (ws.tree g) with
      | none => rw [hsf] at hsl; cases hsl
      | some sf =>
        rw [hsf] at hsl
        exact ⟨includeChain_reach .root hchain, sf, rfl, hsl⟩

/-- in the file reached by `incs`: the `i`-th statement is a `foreach`, the `j`-th statement of its body is
`defvar y = id;` / `dump id;` where `id` has the text of the iterator's name, and the earlier statements of
the body restore the scope stack exactly: file, identifier, name, range of the iterator's identifier, range
of the use -/
def foreachUse (ws : Workspace) (incs : List Nat) (i j : Nat) :
    Option (Nat × PTree × String × (Nat × Nat) × (Nat × Nat)) :=
  match fileStmts ws incs with
  | none => none
  | some (g, sl) =>
    match (Ast.statementListStatements sl)[i]? with
    | none => none
    | some s =>
      match foreachParts s with
      | none => none
      | some (_, nn, _, body) =>
        match Ast.identifierValue nn, Ast.identifierRange nn, (Ast.statementListStatements body)[j]? with
        | some name, some se, some s' =>
          match directUseId s' with
          | none => none
          | some id =>
            match Ast.identifierValue id, Ast.identifierRange id with
            | some name', some use =>
              if name' = name ∧ name ≠ "" ∧
                  ((Ast.statementListStatements body).take j).all (fun x => restoresExactly x.kind) = true then
                some (g, id, name, se, use)
              else none
            | _, _ => none
        | _, _, _ => none

theorem foreach_var_resolvesB {vfs : List (String × String)} {rootPath : String} {inc : Option String}
    {ws : Workspace} (hws : buildWorkspace vfs rootPath inc = .ok ws) {res : Index.IndexResult}
    (hr : Index.index ws = .ok res) (incs : List Nat) (i j : Nat) (g : Nat) (id : PTree) (name : String)
    (se use : Nat × Nat) (h : foreachUse ws incs i j = some (g, id, name, se, use)) :
    ∃ c t c' rest vid, c.fileTrace = g :: rest ∧ LiveInv c ∧
      (Index.indexIdentifierValue id).run c = .ok (t, c') ∧ SmLater c'.symbolMap res.symbolMap ∧
      Tg.C13.resolveName c name = some (.var vid) ∧
      symbolDefineLoc res.symbolMap (.var vid) = ⟨g, se.1, se.2⟩ ∧
      ∀ p, use.1 ≤ p → p < use.2 →
        gotoDefinitionExec (Analysis.new ws) g p = .ok (some ⟨g, se.1, se.2⟩) := by
  unfold foreachUse at h
  split at h
  · cases h
  · rename_i g' sl hfs
    obtain ⟨hg, sf, hsf, hsl⟩ := fileStmts_sound hfs
    split at h
    · cases h
    · rename_i s hs
      split at h
      · cases h
      · rename_i it nn init body hparts
        obtain ⟨hk, hit, hn, hinit, hbody⟩ := foreachParts_sound hparts
        split at h
        · rename_i name0 se0 s' hiv hir hs'
          split at h
          · cases h
          · rename_i id' hid
            split at h
            · rename_i name' use' hidv hidr
              split at h
              · rename_i hc
                obtain ⟨rfl, hne, hall⟩ := hc
                cases h
                refine foreach_var_resolves hws hr g hg sf sl hsf hsl _ s _ (split_take_drop _ _ _ hs) hk it nn name se
                  init body hit hn hiv hir hinit hbody _ s' _ (split_take_drop _ _ _ hs') ?_ id
                  (directUseId_sound hid) use hidv hidr hne
                intro x hx
                exact List.all_eq_true.1 hall x hx
              · cases h
            · cases h
        · cases h

/-- in the file reached by `incs`: the `i`-th statement is a `foreach`, and the statement `m` places after it
is `defvar y = id;` / `dump id;`: file, identifier, range of the iterator's identifier -/
def afterUse (ws : Workspace) (incs : List Nat) (i m : Nat) : Option (Nat × PTree × (Nat × Nat)) :=
  match fileStmts ws incs with
  | none => none
  | some (g, sl) =>
    match (Ast.statementListStatements sl)[i]? with
    | none => none
    | some s =>
      match foreachParts s with
      | none => none
      | some (_, nn, _, _) =>
        match Ast.identifierValue nn, Ast.identifierRange nn, ((Ast.statementListStatements sl).drop (i + 1))[m]? with
        | some _, some se, some s2 =>
          match directUseId s2 with
          | none => none
          | some id => some (g, id, se)
        | _, _, _ => none

theorem foreach_var_not_resolved_afterB {vfs : List (String × String)} {rootPath : String} {inc : Option String}
    {ws : Workspace} (hws : buildWorkspace vfs rootPath inc = .ok ws) {res : Index.IndexResult}
    (hr : Index.index ws = .ok res) (incs : List Nat) (i m : Nat) (g : Nat) (id : PTree) (se : Nat × Nat)
    (h : afterUse ws incs i m = some (g, id, se)) :
    ∃ c t c' rest vid, c.fileTrace = g :: rest ∧ LiveInv c ∧
      (Index.indexIdentifierValue id).run c = .ok (t, c') ∧ SmLater c'.symbolMap res.symbolMap ∧
      symbolDefineLoc res.symbolMap (.var vid) = ⟨g, se.1, se.2⟩ ∧
      (∀ nm, Tg.C13.resolveName c nm ≠ some (.var vid)) := by
  unfold afterUse at h
  split at h
  · cases h
  · rename_i g' sl hfs
    obtain ⟨hg, sf, hsf, hsl⟩ := fileStmts_sound hfs
    split at h
    · cases h
    · rename_i s hs
      split at h
      · cases h
      · rename_i it nn init body hparts
        obtain ⟨hk, hit, hn, hinit, hbody⟩ := foreachParts_sound hparts
        split at h
        · rename_i name0 se0 s2 hiv hir hs2
          split at h
          · cases h
          · rename_i id' hid
            cases h
            have h1 := split_take_drop _ _ _ hs
            have h2 := split_take_drop _ _ _ hs2
            rw [h2] at h1
            exact foreach_var_not_resolved_after hws hr g hg sf sl hsf hsl _ s _ s2 _ h1 hk it nn name0 se
              init body hit hn hiv hir hinit hbody id (directUseId_sound hid)
        · cases h

/-! ### non-vacuity -/

/-- `foreachUse` on the workspace built from `vfs` (root `/a.td`), without the tree -/
def foreachUseOf (vfs : List (String × String)) (incs : List Nat) (i j : Nat) :
    Option (Nat × String × (Nat × Nat) × (Nat × Nat)) :=
  match buildWorkspace vfs "/a.td" none with
  | .ok ws => (foreachUse ws incs i j).map fun x => (x.1, x.2.2)
  | .error _ => none

/-- `afterUse` on the workspace built from `vfs` (root `/a.td`), without the tree -/
def afterUseOf (vfs : List (String × String)) (incs : List Nat) (i m : Nat) : Option (Nat × (Nat × Nat)) :=
  match buildWorkspace vfs "/a.td" none with
  | .ok ws => (afterUse ws incs i m).map fun x => (x.1, x.2.2)
  | .error _ => none

/-- in the included file: `foreach i = [1, 2] in { dump 1; defvar y = i; }` - the second statement of the body
uses `i` (42..43), declared at 8..9 -/
example : foreachUseOf [("/a.td", "include \"b.td\"\n"),
      ("/b.td", "foreach i = [1, 2] in {\n  dump 1;\n  defvar y = i;\n}\n")] [0] 0 1 =
    some (1, "i", (8, 9), (47, 48)) := by
  decide +kernel

/-- `foreach i = [1] in { }` followed by `defvar j = 1;` and `defvar z = i;`: the use of `i` two statements
after the loop does not resolve to the loop's variable (declared at 8..9) -/
example : afterUseOf [("/a.td", "foreach i = [1] in { }\ndefvar j = 1;\ndefvar z = i;\n")] [] 0 1 =
    some (0, (8, 9)) := by
  decide +kernel

end Tg.C05
