/-
C18 — Outline and folding mirror the declaration structure.

"The document symbols of a file list, in source order, exactly the classes, named defs, defsets and
multiclasses declared in that file (a def declared inside a defset appears as that defset's child),
each with the right kind and name and the range of its declaring identifier, and with one child per
template argument and per field declared or overridden in its body.  Folding ranges correspond
one-to-one to class, def, defset, foreach, if, let and multiclass statements, start at the
statement's first token, end at its last non-trivia token, and are pairwise nested or disjoint."

All theorems are about the model (`TgModel/Ide/Handlers.lean`, `TgModel/Ide/PTree.lean`).
`PTree.WF` (offsets tile, heights decrease) holds for every `PTree.ofTree _` (`PTree.ofTree_wf`),
i.e. for every parse tree of the workspace.
-/
import TgModel.Lemmas.IdeSemTree
import TgModel.Lemmas.IdeSemOrderTop

namespace Tg.C18
open Tg Tg.Ide Tg.Ide.Handlers

/-! ## Folding ranges -/

/-- class, def, defset, foreach, if, let and multiclass statements -/
def isFoldingKind (k : SyntaxKind) : Bool :=
  k == .Class || k == .Def || k == .Defset || k == .Foreach || k == .If || k == .Let || k == .MultiClass

theorem foldingKinds_contains (k : SyntaxKind) : Tables.foldingKinds.contains k = isFoldingKind k := by
  cases k <;> rfl

/-- the statements that fold: the nodes of the tree with a folding kind, in document order
(`Cursor.subnodes`: every node before its children, siblings in source order) -/
def foldingStatements (root : PTree) : List Cursor :=
  (Cursor.root root).subnodes.filter fun c => isFoldingKind c.here.kind

/-- membership: exactly the nodes of the tree (`SDesc`: reachable from the root through `child`)
that are class/def/defset/foreach/if/let/multiclass statements -/
theorem mem_foldingStatements {root : PTree} {c : Cursor} :
    c ∈ foldingStatements root ↔
      SDesc (Cursor.root root) c ∧ c.here.isNode = true ∧ isFoldingKind c.here.kind = true := by
  unfold foldingStatements
  rw [List.mem_filter, mem_subnodes, and_assoc]

/-- each statement occurs exactly once in the list -/
theorem foldingStatements_nodup (root : PTree) : (foldingStatements root).Nodup :=
  List.Pairwise.sublist List.filter_sublist (Cursor.subnodes_nodup _)

/-- **(1)** one folding range per statement, in document order: the `k`-th range is the
`range_excluding_trivia` of the `k`-th statement -/
theorem folding_ranges_one_per_statement (an : Analysis) (fileId : Nat) (hwf : (an.ws.tree fileId).WF) :
    foldingRangeExec an fileId =
      .ok (some ((foldingStatements (an.ws.tree fileId)).map
        (rangeExcludingTrivia ((an.ws.tree fileId).stop + 2)))) := by
  unfold foldingRangeExec
  simp only [pure, Except.pure, Except.ok.injEq, Option.some.injEq]
  rw [descendants_eq _ hwf]
  unfold foldingStatements
  simp only [foldingKinds_contains]

/-- **(2)** start and end of a folding range: see `rangeExcludingTrivia_spec` — the range starts at
the statement's start, which is where its first token starts; it ends at the end of the last
non-trivia token of the token sequence up to the statement's end (all tokens after it are trivia),
or is empty if the walk finds none. -/
theorem folding_range_spec (fuel : Nat) {c : Cursor} (hc : c.SOK) :
    (rangeExcludingTrivia fuel c).1 = c.here.start ∧
    (∀ f, c.firstToken = some f → f.here.start = c.here.start ∧ ∃ rest, c.tokens = f :: rest) ∧
    ((lastNonTriviaGo fuel c.lastToken = none ∧ (rangeExcludingTrivia fuel c).2 = c.here.start) ∨
     ∃ t ts, (rangeExcludingTrivia fuel c).2 = t.here.stop ∧ t.here.isToken = true ∧
       t.here.kind.isTrivia = false ∧ c.before ++ c.tokens = t.before ++ t :: ts ∧
       (∀ x ∈ ts, x.here.kind.isTrivia = true) ∧
       ((∃ u ∈ c.tokens, u.here.kind.isTrivia = false) → ∃ pre, c.tokens = pre ++ t :: ts)) := by
  obtain ⟨h1, h2⟩ := rangeExcludingTrivia_spec fuel hc
  refine ⟨h1, fun f hf => ⟨(hc.firstToken hf).2.2, Cursor.firstToken_flat hf⟩, ?_⟩
  rcases h2 with h2 | ⟨t, ts, a, b, c', d, e⟩
  · exact Or.inl h2
  · exact Or.inr ⟨t, ts, a, b, c', d, e, rangeExcludingTrivia_last_nontrivia d e⟩

/-- the walk succeeds immediately when the statement's last token is not trivia: the range is the
whole statement -/
theorem folding_range_of_last_nontrivia (fuel : Nat) {c L : Cursor} (hc : c.SOK) (hL : c.lastToken = some L)
    (hnt : L.here.kind.isTrivia = false) :
    rangeExcludingTrivia (fuel + 1) c = (c.here.start, c.here.stop) := by
  rw [rangeExcludingTrivia_eq, hL]
  simp only [lastNonTriviaGo, hnt, Bool.not_false, if_true]
  rw [(hc.lastToken hL).2.2]

/-- **(3)** folding ranges are pairwise nested or disjoint -/
theorem folding_ranges_nested_or_disjoint (an : Analysis) (fileId : Nat) (hwf : (an.ws.tree fileId).WF)
    (ranges : List (Nat × Nat)) (h : foldingRangeExec an fileId = .ok (some ranges))
    (r1 r2 : Nat × Nat) (h1 : r1 ∈ ranges) (h2 : r2 ∈ ranges) : NestedOrDisjoint r1 r2 := by
  rw [folding_ranges_one_per_statement an fileId hwf] at h
  cases h
  obtain ⟨c1, hc1, rfl⟩ := List.mem_map.1 h1
  obtain ⟨c2, hc2, rfl⟩ := List.mem_map.1 h2
  exact rangeExcludingTrivia_nestedOrDisjoint _ (Cursor.SOK.root hwf)
    (mem_foldingStatements.1 hc1).1 (mem_foldingStatements.1 hc2).1

/-- (1) and (3) for an analysis of a workspace built by `buildWorkspace` (every file is parsed by the
parser model, whose trees are well-formed) -/
theorem folding_ranges_of_workspace {vfs : List (String × String)} {rootPath : String} {inc : Option String}
    {ws : Workspace} (hws : buildWorkspace vfs rootPath inc = .ok ws) (fileId : Nat) :
    ∃ ranges, foldingRangeExec (Analysis.new ws) fileId = .ok (some ranges) ∧
      ranges = (foldingStatements (ws.tree fileId)).map (rangeExcludingTrivia ((ws.tree fileId).stop + 2)) ∧
      ∀ r1 ∈ ranges, ∀ r2 ∈ ranges, NestedOrDisjoint r1 r2 := by
  have hwf := buildWorkspace_treesWF hws fileId
  have h := folding_ranges_one_per_statement (Analysis.new ws) fileId hwf
  exact ⟨_, h, rfl, fun r1 h1 r2 h2 =>
    folding_ranges_nested_or_disjoint (Analysis.new ws) fileId hwf _ h r1 r2 h1 h2⟩

/-! ## Document symbols -/

/-- the symbols that the outline lists: records (classes and the named defs registered for the file:
those declared outside a defset), defsets and multiclasses; variables (`defvar`, `foreach`) and
`defm` instantiations, which are also in the file's symbol list, are not listed -/
def isOutlineSymbol : SymbolId → Bool
  | .record _ | .defset _ | .multiclass _ => true
  | _ => false

theorem symbolToDocumentSymbol_isSome (sm : SymMap) (s : SymbolId) :
    (symbolToDocumentSymbol sm s).isSome = isOutlineSymbol s := by
  cases s <;> rfl

/-- child of a class or def for one of its template arguments -/
def templateArgChild (sm : SymMap) (e : String × Nat) : DocumentSymbol :=
  { name := (sm.templateArg e.2).name, typ := (sm.templateArg e.2).typ.toStr,
    range := rangeOf (sm.templateArg e.2).defineLoc, kind := .templateArgument, children := [] }

/-- child of a class or def for one of its fields -/
def fieldChild (sm : SymMap) (e : String × Nat) : DocumentSymbol :=
  { name := (sm.recordField e.2).name, typ := (sm.recordField e.2).typ.toStr,
    range := rangeOf (sm.recordField e.2).defineLoc, kind := .field, children := [] }

/-- the outline entry of a record: kind and name of the record, the range of its declaring
identifier, one child per template argument (classes only), then one child per field declared or
overridden in its body (`nameToRecordField`) -/
theorem recordToDocumentSymbol_spec (sm : SymMap) (r : Record) :
    (recordToDocumentSymbol sm r).name = r.name ∧
    (recordToDocumentSymbol sm r).range = (r.defineLoc.start, r.defineLoc.stop) ∧
    (match r.kind with
     | .cls => (recordToDocumentSymbol sm r).kind.debug = "Class" ∧ (recordToDocumentSymbol sm r).typ = "class" ∧
        (recordToDocumentSymbol sm r).children =
          r.nameToTemplateArg.toList.map (templateArgChild sm) ++ r.nameToRecordField.toList.map (fieldChild sm)
     | .def_ => (recordToDocumentSymbol sm r).kind.debug = "Def" ∧ (recordToDocumentSymbol sm r).typ = "def" ∧
        (recordToDocumentSymbol sm r).children = r.nameToRecordField.toList.map (fieldChild sm)) := by
  unfold recordToDocumentSymbol
  cases r.kind <;> exact ⟨rfl, rfl, rfl, rfl, rfl⟩

/-- the outline entry of a symbol -/
def outlineOf (sm : SymMap) : SymbolId → DocumentSymbol
  | .record id => recordToDocumentSymbol sm (sm.record id)
  | .defset id =>
    { name := (sm.defset id).name, typ := "defset", range := rangeOf (sm.defset id).defineLoc, kind := .defset,
      children := (sm.defset id).defList.toList.map fun d => recordToDocumentSymbol sm (sm.record d) }
  | .multiclass id =>
    { name := (sm.multiclass id).name, typ := "multiclass", range := rangeOf (sm.multiclass id).defineLoc,
      kind := .multiclass, children := (sm.multiclass id).nameToTemplateArg.toList.map (templateArgChild sm) }
  | _ => default

theorem symbolToDocumentSymbol_eq (sm : SymMap) (s : SymbolId) (h : isOutlineSymbol s = true) :
    symbolToDocumentSymbol sm s = some (outlineOf sm s) := by
  cases s <;> first | rfl | cases h

theorem filterMap_eq_map_filter {α β : Type} (f : α → Option β) (p : α → Bool) (g : α → β)
    (h : ∀ a, f a = if p a then some (g a) else none) (l : List α) :
    l.filterMap f = (l.filter p).map g := by
  induction l with
  | nil => rfl
  | cons a t ih =>
    rw [List.filterMap_cons, h a]
    by_cases hp : p a = true
    · simp [hp, ih]
    · simp [hp, ih]

/-- **(4)** the document symbols of a file are, one-to-one and in the order of the file's symbol
list (`iterSymbolsInFile`: the order in which the indexer registered them), the outline entries of
its records, defsets and multiclasses; there is no answer iff the file has no symbol list -/
theorem document_symbols_exact (an : Analysis) (fileId : Nat) (idx : Index.IndexResult)
    (hidx : an.index = .ok idx) :
    documentSymbolExec an fileId =
      .ok ((idx.symbolMap.iterSymbolsInFile fileId).map fun syms =>
        (syms.toList.filter isOutlineSymbol).map (outlineOf idx.symbolMap)) := by
  unfold documentSymbolExec
  simp only [bind, Except.bind, hidx]
  cases idx.symbolMap.iterSymbolsInFile fileId with
  | none => rfl
  | some syms =>
    simp only [pure, Except.pure, Option.map_some, Except.ok.injEq, Option.some.injEq]
    apply filterMap_eq_map_filter
    intro s
    by_cases h : isOutlineSymbol s = true
    · rw [symbolToDocumentSymbol_eq _ _ h, if_pos h]
    · have := symbolToDocumentSymbol_isSome idx.symbolMap s
      rw [if_neg h]
      cases hs : symbolToDocumentSymbol idx.symbolMap s with
      | none => rfl
      | some d => rw [hs] at this; simp at this; exact absurd this h

/-- a defset's children are its defs, in the order they were added to it -/
theorem outlineOf_defset (sm : SymMap) (id : Nat) :
    (outlineOf sm (.defset id)).kind.debug = "Defset" ∧ (outlineOf sm (.defset id)).name = (sm.defset id).name ∧
    (outlineOf sm (.defset id)).range = ((sm.defset id).defineLoc.start, (sm.defset id).defineLoc.stop) ∧
    (outlineOf sm (.defset id)).children =
      (sm.defset id).defList.toList.map fun d => outlineOf sm (.record d) :=
  ⟨rfl, rfl, rfl, rfl⟩

/-- a multiclass has one child per template argument -/
theorem outlineOf_multiclass (sm : SymMap) (id : Nat) :
    (outlineOf sm (.multiclass id)).kind.debug = "Multiclass" ∧
    (outlineOf sm (.multiclass id)).name = (sm.multiclass id).name ∧
    (outlineOf sm (.multiclass id)).range = ((sm.multiclass id).defineLoc.start, (sm.multiclass id).defineLoc.stop) ∧
    (outlineOf sm (.multiclass id)).children =
      (sm.multiclass id).nameToTemplateArg.toList.map (templateArgChild sm) :=
  ⟨rfl, rfl, rfl, rfl⟩

theorem outlineOf_record (sm : SymMap) (id : Nat) :
    outlineOf sm (.record id) = recordToDocumentSymbol sm (sm.record id) := rfl

theorem find?_modify_first {α : Type} (p : α → Bool) (f : α → α) (hf : ∀ a, p (f a) = p a)
    (l : List α) (i : Nat) (hi : l.findIdx? p = some i) :
    (l.modify i f).find? p = (l.find? p).map f := by
  induction l generalizing i with
  | nil => simp at hi
  | cons a t ih =>
    rw [List.findIdx?_cons] at hi
    by_cases hp : p a = true
    · simp only [hp, if_true, Option.some.injEq] at hi
      subst hi
      simp [List.find?_cons, hp, hf]
    · simp only [hp, Bool.false_eq_true, if_false, Option.map_eq_some_iff] at hi
      obtain ⟨j, hj, rfl⟩ := hi
      simp [List.find?_cons, hp, hf, ih j hj]

/-- the file's symbol list is in insertion order: registering a symbol appends it -/
theorem iterSymbolsInFile_pushFileSymbol (sm : SymMap) (file : Nat) (s : SymbolId) :
    (sm.pushFileSymbol file s).iterSymbolsInFile file =
      some (((sm.iterSymbolsInFile file).getD #[]).push s) := by
  unfold SymMap.pushFileSymbol SymMap.iterSymbolsInFile
  split
  · rename_i i hi
    simp only
    have hi' : sm.fileToSymbolList.toList.findIdx? (fun e => e.1 == file) = some i := by
      rw [← hi]
      conv => rhs; rw [← Array.toArray_toList (xs := sm.fileToSymbolList), List.findIdx?_toArray]
    rw [← Array.find?_toList, Array.toList_modify,
      find?_modify_first (fun e : Nat × Array SymbolId => e.1 == file) (fun e => (e.1, e.2.push s)) (fun _ => rfl) _ _ hi']
    rw [Array.find?_toList]
    have : (sm.fileToSymbolList.find? fun e => e.1 == file).isSome := by
      rw [Array.find?_isSome]
      obtain ⟨hlt, hp, _⟩ := Array.findIdx?_eq_some_iff_getElem.1 hi
      exact ⟨_, Array.getElem_mem hlt, hp⟩
    cases hfind : sm.fileToSymbolList.find? fun e => e.1 == file with
    | none => rw [hfind] at this; cases this
    | some e => simp
  · rename_i hn
    simp only
    have hnone : (sm.fileToSymbolList.find? fun e => e.1 == file) = none := by
      rw [Array.find?_eq_none]
      intro x hx hp
      rw [Array.findIdx?_eq_none_iff] at hn
      exact absurd hp (by simpa using hn x hx)
    rw [hnone]
    simp [Array.find?_push, hnone]

/-! ## Source order -/

theorem isOutlineSymbol_eq (s : SymbolId) : isOutlineSymbol s = isOutline s := by cases s <;> rfl

theorem outlineOf_range (sm : SymMap) (s : SymbolId) (h : isOutline s = true) :
    (outlineOf sm s).range = ((symbolDefineLoc sm s).start, (symbolDefineLoc sm s).stop) := by
  cases s with
  | record id =>
    simp only [outlineOf, symbolDefineLoc]
    exact (recordToDocumentSymbol_spec sm (sm.record id)).2.1
  | defset id => rfl
  | multiclass id => rfl
  | _ => cases h

/-- **(4), source order**: on a workspace built by `buildWorkspace` the document symbols of a file are
listed in source order — the range (declaring identifier) of each ends before the range of the next
one starts.  (Proved through the whole indexer: `outline_sorted`, with the tree-shape facts
`buildWorkspace_shaped` for every parser output.) -/
theorem document_symbols_source_order {vfs : List (String × String)} {rootPath : String}
    {inc : Option String} {ws : Workspace} (hws : buildWorkspace vfs rootPath inc = .ok ws) (fileId : Nat)
    (ds : List DocumentSymbol) (h : documentSymbolExec (Analysis.new ws) fileId = .ok (some ds)) :
    (ds.map (·.range)).Pairwise fun a b => a.2 ≤ b.1 := by
  cases hidx : Index.index ws with
  | error e =>
    have : (Analysis.new ws).index = .error e := hidx
    unfold documentSymbolExec at h
    simp only [bind, Except.bind, this] at h
    cases h
  | ok idx =>
    have hidx' : (Analysis.new ws).index = .ok idx := hidx
    rw [document_symbols_exact _ fileId idx hidx'] at h
    simp only [Except.ok.injEq] at h
    cases hit : idx.symbolMap.iterSymbolsInFile fileId with
    | none => rw [hit] at h; cases h
    | some syms =>
      rw [hit] at h
      simp only [Option.map_some, Option.some.injEq] at h
      try subst h
      have hs := outline_sorted hws idx hidx fileId
      unfold SortedLocs olocs fileList at hs
      rw [hit] at hs
      simp only [Option.getD_some] at hs
      rw [List.map_map, List.pairwise_map]
      rw [List.pairwise_map] at hs
      have hfilter : syms.toList.filter isOutlineSymbol = syms.toList.filter isOutline := by
        congr 1 <;> first | rfl | (funext s; exact isOutlineSymbol_eq s)
      rw [hfilter]
      refine hs.imp_of_mem ?_
      intro a b ha hb hab
      simp only [Function.comp]
      rw [outlineOf_range _ a (List.mem_filter.1 ha).2, outlineOf_range _ b (List.mem_filter.1 hb).2]
      exact hab

/-- **children are not always in source order** (witness): the children of a class follow its
`IndexMap`s, and re-inserting an existing key keeps its *first* position — for
`class A<int x, int y, int x>` the third declaration (id 2) is listed before the second (id 1).
(The driver shows the same for the real run: the children of `A` come out as `x`@26, `y`@19; likewise
for fields declared twice.)  Without duplicate names the order is the declaration order; that is not
proved here. -/
theorem children_not_source_order_witness :
    indexMapInsert (indexMapInsert (indexMapInsert #[] "x" 0) "y" 1) "x" 2 = #[("x", 2), ("y", 1)] := by
  decide +kernel


theorem list_keys_set (L : List (String × Nat)) (k : String) (v : Nat) :
    ((match L.findIdx? (fun (e : String × Nat) => e.1 == k) with
      | some i => L.set i (k, v)
      | none => L ++ [(k, v)]) : List (String × Nat)).map (·.1) =
    if (L.map (·.1)).contains k then L.map (·.1) else L.map (·.1) ++ [k] := by
  induction L with
  | nil => simp
  | cons x t ih =>
    rw [List.findIdx?_cons]
    by_cases hx : (x.1 == k) = true
    · have hxk : x.1 = k := by simpa using hx
      simp [hxk]
    · have hxk : ¬ x.1 = k := by simpa using hx
      have hkx : ¬ k = x.1 := fun e => hxk e.symm
      simp only [hx, Bool.false_eq_true, if_false]
      have hc : (x.1 :: t.map (·.1)).contains k = (t.map (·.1)).contains k := by
        rw [List.contains_cons]
        have : (k == x.1) = false := by simpa using hkx
        simp [this]
      cases hfi : t.findIdx? (fun e => e.1 == k) with
      | none =>
        rw [hfi] at ih
        simp only [Option.map_none, List.cons_append, List.map_cons] at ih ⊢
        rw [ih, hc]
        split <;> rfl
      | some i =>
        rw [hfi] at ih
        simp only [Option.map_some, List.set_cons_succ, List.map_cons] at ih ⊢
        rw [ih, hc]
        split <;> rfl

/-- **children come in first-insertion order**: the children of a class / def are listed along its `IndexMap`s
(`recordToDocumentSymbol_spec`: template arguments, then fields, each with the range of its declaring identifier),
and `IndexMap::insert` - the only way the indexer adds to them - leaves the order of the keys as it is when the key
is already there (the entry then points to the latest declaration) and appends a new key at the end.  (The range of
the parent entry is the range of *its* declaring identifier, `outlineOf_range`: the children's ranges do not lie
inside it.) -/
theorem indexMapInsert_keys (m : Array (String × Nat)) (k : String) (v : Nat) :
    (indexMapInsert m k v).toList.map (·.1) =
      if (m.toList.map (·.1)).contains k then m.toList.map (·.1) else m.toList.map (·.1) ++ [k] := by
  obtain ⟨L⟩ := m
  unfold indexMapInsert
  have := list_keys_set L k v
  simp only [List.findIdx?_toArray]
  rw [← this]
  cases L.findIdx? (fun e => e.1 == k) with
  | none => simp
  | some i => simp [Array.set!_eq_setIfInBounds]

/-! ## Non-vacuity -/

/-- `// doc\nclass A;` -/
def exTree : PTree :=
  .node .SourceFile 0 15 5 #[
    .node .StatementList 0 15 4 #[
      .token .LineComment 0 6 "// doc",
      .token .Whitespace 6 7 "\n",
      .node .Class 7 15 3 #[
        .token .ClassKw 7 12 "class",
        .token .Whitespace 12 13 " ",
        .node .Identifier 13 14 1 #[.token .Id 13 14 "A"],
        .node .RecordBody 14 15 2 #[
          .node .ParentClassList 14 14 1 #[],
          .node .Body 14 15 1 #[.token .Semi 14 15 ";"]]]]]

theorem exTree_wf : exTree.WF := PTree.wfb_sound 10 (by decide +kernel)

def exSm : SymMap := (SymMap.addRecord {} { name := "A", kind := .cls, defineLoc := ⟨0, 13, 14⟩ } true).2

def exAn : Analysis :=
  { ws := { files := #[{ path := "a.td", tree := exTree, errors := [] }], root := 0, fileSet := [0] },
    index := .ok { symbolMap := exSm, diagnostics := #[] },
    symState := Thunk.mk fun _ => {} }

/-- the hypotheses of (1)–(3) hold for a concrete file with one class statement; its folding range
is the statement without the comment in front of it -/
example : (exAn.ws.tree 0).WF ∧ foldingRangeExec exAn 0 = .ok (some [(7, 15)]) :=
  ⟨exTree_wf, rfl⟩

example : (foldingStatements exTree).map (·.here.kind) = [.Class] := by
  unfold foldingStatements
  rw [← descendants_eq exTree exTree_wf (fun n => isFoldingKind n.kind)]
  rfl

/-- non-vacuity of `document_symbols_exact`: the outline of the file is its one class -/
theorem exSm_iter : exSm.iterSymbolsInFile 0 = some #[.record 0] := by
  unfold exSm SymMap.addRecord
  simp only [if_true]
  rw [iterSymbolsInFile_pushFileSymbol]
  rfl

example : documentSymbolExec exAn 0 = .ok (some [outlineOf exSm (.record 0)]) ∧
    (outlineOf exSm (.record 0)).range = (13, 14) ∧ (outlineOf exSm (.record 0)).kind.debug = "Class" := by
  have hrec : exSm.record 0 = { name := "A", kind := .cls, defineLoc := ⟨0, 13, 14⟩ } := by
    simp [exSm, SymMap.addRecord, SymMap.record, SymMap.pushFileSymbol, SymMap.logDefine]
  refine ⟨?_, ?_, ?_⟩
  · 
    rw [document_symbols_exact exAn 0 ⟨exSm, #[]⟩ rfl]
    show Except.ok (Option.map _ (exSm.iterSymbolsInFile 0)) = _
    rw [exSm_iter]
    rfl
  · simp [outlineOf, recordToDocumentSymbol, hrec, rangeOf]
  · simp [outlineOf, recordToDocumentSymbol, hrec, DocumentSymbolKind.debug]

end Tg.C18
