/-
C06 — Definition/reference coherence on arbitrary input.

The theorems are about the SymbolMap model driven by an *arbitrary* operation log, so they apply
to malformed programs as well.  Two clauses hold unconditionally; two need hypotheses about the
log that the indexer is responsible for and that `./check C06` evaluates on every real log
(hook in symbol_map.rs):
* `TextOk`: the name recorded with every registration is the text under its range;
* `RefStable` + `DisjointLocs`: registered ranges are token ranges, and a range registered as a
  reference is never re-registered for a different symbol (this is what a file indexed twice
  violated before the C16 fix).
-/
import TgModel.Lemmas.SymbolMapLemmas

namespace Tg.C06
open SymbolMap

/-- the identifier under the cursor: the registered interval containing the offset -/
def cursorLoc (st : State) (file p : Nat) : Option Loc := (lookup st.pos file p).map (·.1)

/-- **clause 4** (unconditional): if go-to-definition answers at an offset, the interval under the
cursor is itself the target or one of the references -/
theorem cursor_is_target_or_reference (ops : List Op) (file p : Nat) (c : Loc)
    (hc : cursorLoc (run ops) file p = some c) :
    ∃ S, findSymbolAt (run ops) file p = some S ∧ (c = S.define ∨ c ∈ S.refs) := by
  unfold cursorLoc at hc
  cases hl : lookup (run ops).pos file p with
  | none => rw [hl] at hc; cases hc
  | some e =>
    rw [hl] at hc
    simp only [Option.map_some, Option.some.injEq] at hc
    subst hc
    have hmem : e ∈ (run ops).pos := by
      -- an entry returned by `lookup` is an entry of the map
      have : ∀ (l : List (Loc × Nat)) (b : Option (Loc × Nat)) (r : Loc × Nat),
          (∀ x, b = some x → x ∈ (run ops).pos) → (∀ x ∈ l, x ∈ (run ops).pos) →
          l.foldl (fun best e =>
            if overlaps e.1 file p then
              match best with
              | none => some e
              | some b => if before b.1 e.1 then some b else some e
            else best) b = some r → r ∈ (run ops).pos := by
        intro l
        induction l with
        | nil => intro b r hb _ h; exact hb r h
        | cons x t ih =>
          intro b r hb hl h
          simp only [List.foldl_cons] at h
          refine ih _ r ?_ (fun y hy => hl y (by simp [hy])) h
          intro y hy
          split at hy
          · split at hy
            · simp only [Option.some.injEq] at hy; subst hy; exact hl _ (by simp)
            · split at hy
              · exact hb y hy
              · simp only [Option.some.injEq] at hy; subst hy; exact hl _ (by simp)
          · exact hb y hy
      exact this (run ops).pos none e (by intro x hx; cases hx) (fun x hx => hx) hl
    obtain ⟨S, hS, hor⟩ := pos_inv ops e hmem
    exact ⟨S, by simp [findSymbolAt, hl, hS], hor⟩

/-- **clause 3**: go-to-definition from every (non-empty) reference range of the symbol under the
cursor gives the same target -/
theorem goto_from_references_agrees (ops : List Op) (hv : RefsValid ops 0) (hs : RefStable ops)
    (hd : DisjointLocs ops) (file p : Nat) (S : Sym) (hf : findSymbolAt (run ops) file p = some S)
    (r : Loc) (hr : r ∈ S.refs) (hne : r.isEmpty = false) (q : Nat) (hq : overlaps r r.file q = true) :
    gotoDef (run ops) r.file q = some S.define := by
  unfold findSymbolAt at hf
  cases hl : lookup (run ops).pos file p with
  | none => rw [hl] at hf; cases hf
  | some e =>
    rw [hl] at hf
    simp only [] at hf
    have hback := refs_point_back ops hv hs e.2 S hf r hr hne
    have := lookup_of_mem ops hd r.file q (r, e.2) hback hq
    simp [gotoDef, findSymbolAt, this, hf]

/-- **clauses 1 and 2**: the text under the cursor, under the target and under every reference
is the same (the symbol's name) -/
theorem same_text (txt : Loc → List Char) (ops : List Op) (ht : TextOk txt ops) (hn : NamedRefs ops)
    (hd : DisjointLocs ops) (file p : Nat) (c : Loc) (hc : cursorLoc (run ops) file p = some c) :
    ∃ S, findSymbolAt (run ops) file p = some S ∧ txt c = S.name ∧ txt S.define = S.name ∧
      ∀ r ∈ S.refs, txt r = S.name := by
  unfold cursorLoc at hc
  cases hl : lookup (run ops).pos file p with
  | none => rw [hl] at hc; cases hc
  | some e =>
    rw [hl] at hc
    simp only [Option.map_some, Option.some.injEq] at hc
    subst hc
    obtain ⟨hm, _, _⟩ := lookup_unique ops hd file p e hl
    obtain ⟨S, hS, h1, h2⟩ := names_ok txt ops ht e hm
    obtain ⟨S', hS', h3⟩ := define_text txt ops ht hn e hm
    have : S' = S := by rw [hS] at hS'; exact (Option.some.inj hS').symm
    subst this
    exact ⟨S', by simp [findSymbolAt, hl, hS], h1, h3, h2⟩

/-- the hypotheses are satisfiable by a log with a definition, two references and a
let-style re-registration (definition range later registered as reference of another symbol) -/
example :
    let ops := [Op.define ['x'] ⟨0, 10, 11⟩, Op.define ['x'] ⟨0, 30, 31⟩, Op.reference 0 ⟨0, 30, 31⟩,
                Op.reference 0 ⟨0, 40, 41⟩]
    gotoDef (run ops) 0 30 = some ⟨0, 10, 11⟩ ∧ references (run ops) 0 40 = some [⟨0, 30, 31⟩, ⟨0, 40, 41⟩] := by
  decide

end Tg.C06
