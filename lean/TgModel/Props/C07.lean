/-
C07 — Incremental consistency: results never depend on the edit history.

Under the salsa assumption (a derived query is a pure function of the current inputs) the
statement is about the three hand-maintained inputs.  Model: `Host.lean`.
-/
import TgModel.Lemmas.HostLemmas

namespace Tg.C07
open Host

/-- **history independence** (histories in which every text change is announced to the host):
after any history of edits and root selections that ends with a
root selection (the server re-selects the root after every edit), what queries on workspace
files can observe — file set, root, per-file content and include map — equals what a freshly
started host computes from the final file system and the final root alone. -/
theorem history_independent (env : Env) (fuel : Nat) (pre : List Op) (hnd : ∀ op ∈ pre, op.isDisk = false)
    (p : Path) (db : Db)
    (hdb : (run env fuel (pre ++ [.selectRoot p])).db = some db) :
    (fresh env fuel (run env fuel (pre ++ [.selectRoot p])).fs p).map observe = some (observe db) := by
  rw [run_snoc] at hdb ⊢
  simp only [step] at hdb ⊢
  cases hpre : (run env fuel pre).db with
  | none => rw [hpre] at hdb; simp at hdb
  | some d0 =>
    rw [hpre] at hdb
    simp only [Option.bind_some] at hdb
    -- the root's content in the host is the file system's
    have hsome : ∃ t, d0.content p = some t := by
      unfold setRoot at hdb
      cases hc : collect env (run env fuel pre).fs fuel [p] [] d0 with
      | none => rw [hc] at hdb; simp at hdb
      | some r =>
        cases fuel with
        | zero => simp [collect] at hc
        | succ n =>
          simp only [collect, List.contains_nil, Bool.false_eq_true, if_false] at hc
          cases hcp : d0.content p with
          | none => rw [hcp] at hc; simp at hc
          | some t => exact ⟨t, rfl⟩
    obtain ⟨t, ht⟩ := hsome
    have hfs := content_tracks_fs env fuel pre hnd d0 hpre p t ht
    unfold fresh
    rw [hfs]
    simp only []
    have := setRoot_deterministic env (run env fuel pre).fs fuel p (({} : Db).setContent p t) d0
      (by simp [Db.setContent, ht])
    rw [this, hdb]
    rfl

/-- **history independence, with files changing on disk**: whatever happened before — edits, root
selections, and files changed on disk behind the host's back (`disk`) in any order, the current
root included — once the client sends a document's text and the server selects it as root (what
`didOpen`/`didChange` do), the observable state equals what a freshly started host computes from the
final file system and that root alone. -/
theorem history_independent_any (env : Env) (fuel : Nat) (pre : List Op) (p : Path) (t : Text) (db : Db)
    (hdb : (run env fuel (pre ++ [.edit p t, .selectRoot p])).db = some db) :
    (fresh env fuel (run env fuel (pre ++ [.edit p t, .selectRoot p])).fs p).map observe = some (observe db) := by
  have hrun : run env fuel (pre ++ [.edit p t, .selectRoot p]) =
      step env fuel (step env fuel (run env fuel pre) (.edit p t)) (.selectRoot p) := by
    simp [run, List.foldl_append]
  rw [hrun] at hdb ⊢
  simp only [step] at hdb ⊢
  cases hpre : (run env fuel pre).db with
  | none => rw [hpre] at hdb; simp at hdb
  | some d0 =>
    rw [hpre] at hdb
    simp only [Option.map_some, Option.bind_some] at hdb
    unfold fresh
    simp only [if_true]
    have := setRoot_deterministic env (fun q => if q = p then some t else (run env fuel pre).fs q) fuel p
      (({} : Db).setContent p t) (d0.setContent p t) (by simp [Db.setContent])
    rw [this, hdb]
    rfl

/-- `set_root_file` never looks at anything an earlier revision left behind except the root's
own text -/
theorem nothing_survives (env : Env) (fs : Fs) (fuel : Nat) (root : Path) (d1 d2 : Db)
    (hroot : d1.content root = d2.content root) :
    (setRoot env fs fuel root d1).map observe = (setRoot env fs fuel root d2).map observe :=
  setRoot_deterministic env fs fuel root d1 d2 hroot

/-- non-vacuity: a three-file world with an include added and removed again -/
def demoEnv : Env :=
  { incs := fun t => if t = 10 then [1] else if t = 11 then [1, 2] else [],
    resolve := fun fs _ n => if (fs n).isSome then some n else none }

example :
    let h := [Op.edit 1 20, Op.edit 2 21, Op.edit 0 11, Op.selectRoot 0, Op.edit 0 10, Op.selectRoot 0]
    ((run demoEnv 50 h).db.map observe) =
      some (Obs.mk (some 0) [1, 0] [some 20, some 10] [[], [(0, 1)]]) := by
  decide

/-- non-vacuity of `history_independent_any`: file 1 is opened, then included by 0, changes on disk twice
while 2 is the root, and becomes the root again with its old text -/
example :
    let h := [Op.edit 1 20, Op.selectRoot 1, Op.edit 0 10, Op.selectRoot 0, Op.disk 1 21, Op.selectRoot 0,
              Op.edit 2 22, Op.selectRoot 2, Op.disk 1 20, Op.edit 1 20, Op.selectRoot 1]
    ((run demoEnv 50 h).db.map observe) = some (Obs.mk (some 1) [1] [some 20] [[]]) := by
  decide

end Tg.C07
