/-
C09 — Location fidelity: ranges sent to the client denote the analysed span.

The conversion itself is C10's; what C09 adds is *which text* a range is converted against: the
current text of the document named in the response.  On the Lean side this is the composition
below (a byte span of a text, converted to LSP positions with that text's line table and read back
against the same text, is the same span); the weight of the check is the correspondence that
compares every range of every server response with the ide-level span converted against the named
document (`./check C09`), on workspaces whose files have different line structure.

Second part: the conversion layer of the server itself is modelled (`TgModel/Lsp.lean`: `to_proto.rs` and, from
`server.rs`, which line table each handler converts with).  Per handler `K`, `K_denotes`: ide-level ranges that are
valid in the file they name are sent as LSP ranges that name that file and, read back against ITS text, give the
same byte span; `server_locations_denote_all` composes this with the handlers of the Ide model and C17's range
validity, for every input.  The model is compared with the server through the driver command `lspmap`.
-/
import TgModel.Props.C10
import TgModel.Props.C17
import TgModel.Lemmas.LspLemmas

namespace Tg.C09
open LineIndex

/-- a span `mid` of the text `pre ++ mid ++ post` of the document a response names: both ends have
positions, and a client interpreting those positions against the same text recovers exactly the
byte span the analysis computed -/
theorem location_denotes (pre mid post : List Char) :
    ∃ ls cs le ce,
      toPos (pre ++ mid ++ post) (byteLen pre) 0 0 = some (ls, cs) ∧
      toPos (pre ++ mid ++ post) (byteLen pre + byteLen mid) 0 0 = some (le, ce) ∧
      fromPos (pre ++ mid ++ post) ls cs 0 = byteLen pre ∧
      fromPos (pre ++ mid ++ post) le ce 0 = byteLen pre + byteLen mid := by
  obtain ⟨ls, cs, h1, h2⟩ := C10.roundtrip_boundary pre (mid ++ post)
  obtain ⟨le, ce, h3, h4⟩ := C10.roundtrip_boundary (pre ++ mid) post
  refine ⟨ls, cs, le, ce, ?_, ?_, ?_, ?_⟩
  · simpa [List.append_assoc] using h1
  · simpa [List.append_assoc] using h3
  · simpa [List.append_assoc] using h2
  · simpa [List.append_assoc] using h4

/-- interpreting the positions against a *different* text does not in general give the span back:
the witness behind the repaired defect (a definition in an included file was converted with the
requesting file's line table) -/
theorem wrong_text_differs :
    let named := ['\n', '\n', 'c', 'l', 'a', 's', 's', ' ', 'B', ';']      -- the included file
    let other := ['c', 'l', 'a', 's', 's', ' ', 'A', ' ', ':', ' ', 'B', ';']  -- the requesting file
    toPos named 8 0 0 = some (2, 6) ∧ toPos other 8 0 0 = some (0, 8) := by
  decide

/-! ### the conversion layer of the server (`TgModel/Lsp.lean`)

`Lsp.Denotes text R a b`: a client that reads the two positions of the LSP range `R` against `text`
(`from_proto::position` = `LineIndex.fromPos`) gets the byte offsets `a` and `b`.  `snap.text f` is the text
the line table of file `f` is computed from, `snap.path f` the path its URI is made from.  In every theorem
below the hypothesis is C17's validity of the ide-level ranges IN THE FILE THEY NAME, the conclusion is that the
LSP answer names that file and denotes the same span in that file's text.  `Lsp.All₂ R xs ys`: the lists have the
same length and `R` holds at every index (`All₂.get`, `All₂.right`), so "every range of the LSP answer" is
covered. -/

open Tg.Ide Tg.Ide.Handlers Tg.Lsp

/-- **definition**: the location names the file of the ide-level location and denotes its span in THAT file -/
theorem definition_denotes (snap : Snapshot) (l : SymbolMap.Loc)
    (h : ValidRange (snap.text l.file) l.start l.stop) :
    ∃ L, definition snap (some l) = some L ∧ L.uri = snap.path l.file ∧
      Denotes (snap.text l.file) L.range l.start l.stop :=
  ⟨_, rfl, rfl, range_denotes h⟩

/-- **references**: every location, in the coordinates of the file it lies in -/
theorem references_denotes (snap : Snapshot) (ls : List SymbolMap.Loc)
    (h : ∀ l ∈ ls, ValidRange (snap.text l.file) l.start l.stop) :
    ∃ Ls, references snap (some ls) = some Ls ∧
      All₂ (fun l L => L.uri = snap.path l.file ∧ Denotes (snap.text l.file) L.range l.start l.stop) ls Ls :=
  ⟨_, rfl, All₂.of_map _ ls fun l hl => ⟨rfl, range_denotes (h l hl)⟩⟩

/-- **document symbols**: `range` and `selection_range` of every symbol and of every (transitive) child denote the
symbol's span in the requested document -/
theorem documentSymbol_denotes (snap : Snapshot) (file : Nat) (ss : List Handlers.DocumentSymbol)
    (h : ∀ d ∈ ss, DocSymOK (fun rg => ValidRange (snap.text file) rg.1 rg.2) d) :
    ∃ Ss, documentSymbols snap file (some ss) = some Ss ∧ SymsDenote (snap.text file) ss Ss :=
  ⟨_, rfl, documentSymbolL_denotes h⟩

/-- **folding ranges**: only lines are sent; they are the lines of the two ends of the span in the requested
document (`LinesDenote`: the number of line starts at or before the offset) -/
theorem foldingRange_denotes (snap : Snapshot) (file : Nat) (rs : List (Nat × Nat))
    (h : ∀ r ∈ rs, ValidRange (snap.text file) r.1 r.2) :
    ∃ Fs, foldingRanges snap file (some rs) = some Fs ∧
      All₂ (fun r F => LinesDenote (snap.text file) F r.1 r.2) rs Fs :=
  ⟨_, rfl, All₂.of_map _ rs fun r hr => Lsp.foldingRange_denotes (h r hr)⟩

/-- **document links**: the range denotes the span in the requested document, the target is the path of the
target file -/
theorem documentLink_denotes (snap : Snapshot) (file : Nat) (ls : List ((Nat × Nat) × Nat))
    (h : ∀ e ∈ ls, ValidRange (snap.text file) e.1.1 e.1.2) :
    ∃ Ds, documentLinks snap file (some ls) = some Ds ∧
      All₂ (fun e D => D.target = snap.path e.2 ∧ Denotes (snap.text file) D.range e.1.1 e.1.2) ls Ds :=
  ⟨_, rfl, All₂.of_map _ ls fun e he => ⟨rfl, range_denotes (h e he)⟩⟩

/-- **inlay hints**: the position denotes the hint's offset in the requested document -/
theorem inlayHint_denotes (snap : Snapshot) (file : Nat) (hs : List Handlers.InlayHint)
    (h : ∀ x ∈ hs, Boundary (snap.text file) x.position) :
    ∃ Hs, inlayHints snap file (some hs) = some Hs ∧
      All₂ (fun x H => H.label = x.label ∧ PosDenotes (snap.text file) H.position x.position) hs Hs :=
  ⟨_, rfl, All₂.of_map _ hs fun x hx => ⟨rfl, position_denotes (h x hx)⟩⟩

/-- **published diagnostics**: one notification per group, for the path of the group's file; every range denotes
the diagnostic's span in that file (the file the diagnostic names) -/
theorem diagnostics_denotes (snap : Snapshot) (ans : List (Nat × List Ide.Diagnostic))
    (h : ∀ e ∈ ans, ∀ d ∈ e.2, d.location.file = e.1 ∧
      ValidRange (snap.text d.location.file) d.location.start d.location.stop) :
    All₂ (fun e E => E.1 = snap.path e.1 ∧
        All₂ (fun d D => d.location.file = e.1 ∧ D.message = d.message ∧
          Denotes (snap.text d.location.file) D.range d.location.start d.location.stop) e.2 E.2)
      ans (publishDiagnostics snap ans) := by
  refine All₂.of_map _ ans fun e he => ?_
  obtain ⟨f, ds⟩ := e
  refine ⟨rfl, All₂.of_map _ ds fun d hd => ?_⟩
  obtain ⟨hf, hv⟩ := h _ he d hd
  simp only at hf
  refine ⟨hf, rfl, ?_⟩
  rw [hf] at hv ⊢
  exact range_denotes hv

/-- `position` never falls back: it is the position of the offset rounded down to a character boundary of the
text (what `LineIndex::pos_to_col` does with an offset inside a character or past the end) -/
theorem position_total (text : List Char) (o : Nat) :
    ∃ l c, toPos text (floorB text o 0) 0 0 = some (l, c) ∧ position text o = ⟨l, c⟩ :=
  position_eq text o

/-! ### composed with the handlers of the Ide model -/

/-- **every location the server sends denotes the span the analysis computed, in the document it names**: for
every input the workspace is built, every handler of the Ide model answers, and the LSP answer the conversion
layer makes of it (with the snapshot of the workspace: paths, and the texts of the files) names the file of each
ide-level location and denotes its span in the text of that file. -/
theorem server_locations_denote_all (vfs : List (String × String)) (rootPath : String) (includeDir : Option String) :
    ∃ ws, buildWorkspace vfs rootPath includeDir = .ok ws ∧
      -- definition
      (∀ file pos, ∃ res, gotoDefinitionExec (Analysis.new ws) file pos = .ok res ∧
        ∀ l, res = some l → l.file < ws.files.size ∧
          ∃ L, definition (snapOf ws) res = some L ∧ L.uri = ws.pathStr l.file ∧
            Denotes (ws.tree l.file).chars L.range l.start l.stop) ∧
      -- references
      (∀ file pos, ∃ res, referencesExec (Analysis.new ws) file pos = .ok res ∧
        ∀ ls, res = some ls → ∃ Ls, references (snapOf ws) res = some Ls ∧
          All₂ (fun l L => l.file < ws.files.size ∧ L.uri = ws.pathStr l.file ∧
            Denotes (ws.tree l.file).chars L.range l.start l.stop) ls Ls) ∧
      -- document symbols
      (∀ file, ∃ res, documentSymbolExec (Analysis.new ws) file = .ok res ∧
        ∀ ss, res = some ss → ∃ Ss, documentSymbols (snapOf ws) file res = some Ss ∧
          SymsDenote (ws.tree file).chars ss Ss) ∧
      -- folding ranges
      (∀ file, file < ws.files.size → ∃ rs, foldingRangeExec (Analysis.new ws) file = .ok (some rs) ∧
        ∃ Fs, foldingRanges (snapOf ws) file (some rs) = some Fs ∧
          All₂ (fun r F => LinesDenote (ws.tree file).chars F r.1 r.2) rs Fs) ∧
      -- document links
      (∀ file, file < ws.files.size → ∃ ls, documentLinkExec (Analysis.new ws) file = .ok (some ls) ∧
        ∃ Ds, documentLinks (snapOf ws) file (some ls) = some Ds ∧
          All₂ (fun e D => e.2 < ws.files.size ∧ D.target = ws.pathStr e.2 ∧
            Denotes (ws.tree file).chars D.range e.1.1 e.1.2) ls Ds) ∧
      -- inlay hints
      (∀ file a b, ∃ res, inlayHintExec (Analysis.new ws) file a b = .ok res ∧
        ∀ hs, res = some hs → ∃ Hs, inlayHints (snapOf ws) file res = some Hs ∧
          All₂ (fun x H => H.label = x.label ∧ PosDenotes (ws.tree file).chars H.position x.position) hs Hs) ∧
      -- published diagnostics
      (∃ res, diagnosticsExec (Analysis.new ws) = .ok res ∧
        All₂ (fun e E => e.1 < ws.files.size ∧ E.1 = ws.pathStr e.1 ∧
          All₂ (fun d D => d.location.file = e.1 ∧ D.message = d.message ∧
            Denotes (ws.tree d.location.file).chars D.range d.location.start d.location.stop) e.2 E.2)
          res (publishDiagnostics (snapOf ws) res)) := by
  obtain ⟨ws, hb⟩ := C03.buildWorkspace_total vfs rootPath includeDir
  have hr := C03.built_ready hb
  refine ⟨ws, hb, ?_, ?_, ?_, ?_, ?_, ?_, ?_⟩
  · intro file pos
    obtain ⟨res, hres, hv⟩ := C17.gotoDefinition_ranges_valid hr file pos
    refine ⟨res, hres, fun l hl => ?_⟩
    subst hl
    exact ⟨(hv l rfl).1, definition_denotes (snapOf ws) l (hv l rfl).2⟩
  · intro file pos
    obtain ⟨res, hres, hv⟩ := C17.references_ranges_valid hr file pos
    refine ⟨res, hres, fun ls hls => ?_⟩
    subst hls
    exact ⟨_, rfl, All₂.of_map _ ls fun l hl => ⟨(hv ls rfl l hl).1, rfl, range_denotes (hv ls rfl l hl).2⟩⟩
  · intro file
    obtain ⟨res, hres, hv⟩ := C17.documentSymbol_ranges_valid hr file
    refine ⟨res, hres, fun ss hss => ?_⟩
    subst hss
    refine documentSymbol_denotes (snapOf ws) file ss fun d hd => ?_
    exact Lsp.DocSymOK.imp (fun rg h => h.2) (hv ss rfl d hd)
  · intro file hf
    obtain ⟨rs, hres, hv⟩ := C17.foldingRange_ranges_valid vfs rootPath includeDir ws hb file hf
    exact ⟨rs, hres, foldingRange_denotes (snapOf ws) file rs fun r hrg => (hv r hrg).2⟩
  · intro file hf
    obtain ⟨ls, hres, hv⟩ := C17.documentLink_ranges_valid vfs rootPath includeDir ws hb file hf
    exact ⟨ls, hres, _, rfl, All₂.of_map _ ls fun e he => ⟨(hv e he).1, rfl, range_denotes (hv e he).2.2⟩⟩
  · intro file a b
    obtain ⟨res, hres, hv⟩ := C17.inlayHint_positions_valid hr file a b
    refine ⟨res, hres, fun hs hhs => ?_⟩
    subst hhs
    exact inlayHint_denotes (snapOf ws) file hs (hv hs rfl)
  · obtain ⟨res, hres, hv⟩ := C17.diagnostics_ranges_valid hr
    refine ⟨res, hres, All₂.of_map _ res fun e he => ?_⟩
    obtain ⟨f, ds⟩ := e
    refine ⟨(hv _ he).1, rfl, All₂.of_map _ ds fun d hd => ?_⟩
    obtain ⟨hf, hl⟩ := (hv _ he).2 d hd
    simp only at hf
    refine ⟨hf, rfl, ?_⟩
    have := range_denotes hl.2
    rw [hf] at this ⊢
    exact this

/-! ### non-vacuity: two files with different line structure, a non-ASCII character before the span -/

/-- `/a.td` = `def d : B;` (one line), `/b.td` = `// é`, an empty line, `class B;` -/
def exSnap : Snapshot :=
  { path := fun f => if f = 0 then "/a.td" else "/b.td"
    text := fun f => if f = 0 then ['d', 'e', 'f', ' ', 'd', ' ', ':', ' ', 'B', ';']
      else ['/', '/', ' ', 'é', '\n', '\n', 'c', 'l', 'a', 's', 's', ' ', 'B', ';'] }

/-- the definition of `B` (bytes 13..14 of `/b.td`; `é` takes two bytes and one UTF-16 unit) is sent as line 2,
characters 6..7 of `/b.td` -/
example : definition exSnap (some ⟨1, 13, 14⟩) = some ⟨"/b.td", ⟨⟨2, 6⟩, ⟨2, 7⟩⟩⟩ := by decide

/-- read against `/b.td` the position gives the offset back, against the requesting file `/a.td` it does not -/
example : offsetOf (exSnap.text 1) ⟨2, 6⟩ = 13 ∧ offsetOf (exSnap.text 0) ⟨2, 6⟩ = 10 := by decide

/-- the hypothesis of `definition_denotes` holds of this location -/
example : ValidRange (exSnap.text 1) 13 14 :=
  ⟨by omega, ['/', '/', ' ', 'é', '\n', '\n', 'c', 'l', 'a', 's', 's', ' '], ['B'], [';'], by decide, by decide,
    by decide⟩

example : references exSnap (some [⟨0, 8, 9⟩, ⟨1, 13, 14⟩]) =
    some [⟨"/a.td", ⟨⟨0, 8⟩, ⟨0, 9⟩⟩⟩, ⟨"/b.td", ⟨⟨2, 6⟩, ⟨2, 7⟩⟩⟩] := by decide

example : foldingRanges exSnap 1 (some [(7, 15)]) = some [⟨2, 2⟩] ∧
    publishDiagnostics exSnap [(1, [⟨⟨1, 13, 14⟩, "m"⟩])] = [("/b.td", [⟨⟨⟨2, 6⟩, ⟨2, 7⟩⟩, "m"⟩])] ∧
    documentLinks exSnap 0 (some [((4, 5), 1)]) = some [⟨⟨⟨0, 4⟩, ⟨0, 5⟩⟩, "/b.td"⟩] ∧
    inlayHints exSnap 1 (some [⟨5, "x", .fieldLet⟩]) = some [⟨⟨0, 4⟩, "x", true, false⟩] := by decide

/-- an offset inside `é` (byte 4 of `/b.td`) is rounded down to its start, an offset past the end is clamped -/
example : position (exSnap.text 1) 4 = ⟨0, 3⟩ ∧ position (exSnap.text 1) 99 = ⟨2, 8⟩ := by decide

/-- the texts of the workspace below as a snapshot -/
def exDiagSnap : Snapshot :=
  { path := fun f => if f = 0 then "/a.td" else "/b.td"
    text := fun f => if f = 0 then "include \"b.td\"\n".toList else "// é\n\ninclude \"n\"\n".toList }

/-- end to end, with the ide-level answer computed by the Ide model: `/a.td` includes `/b.td`, whose third line
`include "n"` (bytes 7..19 with its line end, after the two-byte `é`) cannot be resolved; the diagnostic is
published for `/b.td` as line 2, character 0 to line 3, character 0 — with the table of `/a.td` it would have
been line 0, character 7 to line 1, character 0 -/
example : (match buildWorkspace [("/a.td", "include \"b.td\"\n"), ("/b.td", "// é\n\ninclude \"n\"\n")]
      "/a.td" none with
    | .ok ws => (match diagnosticsExec (Analysis.new ws) with
      | .ok res => (res.map (·.1), (publishDiagnostics exDiagSnap res).map fun e => e.2.map (·.range))
      | .error _ => ([], []))
    | .error _ => ([], [])) = ([0, 1], [[], [⟨⟨2, 0⟩, ⟨3, 0⟩⟩]]) := by decide +kernel

example : range (exDiagSnap.text 0) 7 19 = ⟨⟨0, 7⟩, ⟨1, 0⟩⟩ := by decide +kernel

end Tg.C09
