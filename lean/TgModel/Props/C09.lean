/-
C09 — Location fidelity: ranges sent to the client denote the analysed span.

The conversion itself is C10's; what C09 adds is *which text* a range is converted against: the
current text of the document named in the response.  On the Lean side this is the composition
below (a byte span of a text, converted to LSP positions with that text's line table and read back
against the same text, is the same span); the weight of the check is the correspondence that
compares every range of every server response with the ide-level span converted against the named
document (`./check C09`), on workspaces whose files have different line structure.
-/
import TgModel.Props.C10

namespace Tg.C09
open LineIndex

/-- a span `mid` of the text `pre ++ mid ++ post` of the document a response names: both ends have
positions, and a client interpreting those positions against the same text recovers exactly the
byte span the analysis computed -/
theorem location_denotes (pre mid post : List Char) :
    ∃ ls cs le ce,
      toPos (pre ++ mid ++ post) (byteLen pre) 0 0 = some (ls, cs) ∧
      toPos (pre ++ mid ++ post) (byteLen pre + byteLen mid) 0 0 = some (le, ce) ∧
      fromPos (pre ++ mid ++ post) ls cs 0 = byteLen pre ∧
      fromPos (pre ++ mid ++ post) le ce 0 = byteLen pre + byteLen mid := by
  obtain ⟨ls, cs, h1, h2⟩ := C10.roundtrip_boundary pre (mid ++ post)
  obtain ⟨le, ce, h3, h4⟩ := C10.roundtrip_boundary (pre ++ mid) post
  refine ⟨ls, cs, le, ce, ?_, ?_, ?_, ?_⟩
  · simpa [List.append_assoc] using h1
  · simpa [List.append_assoc] using h3
  · simpa [List.append_assoc] using h2
  · simpa [List.append_assoc] using h4

/-- interpreting the positions against a *different* text does not in general give the span back:
the witness behind the repaired defect (a definition in an included file was converted with the
requesting file's line table) -/
theorem wrong_text_differs :
    let named := ['\n', '\n', 'c', 'l', 'a', 's', 's', ' ', 'B', ';']      -- the included file
    let other := ['c', 'l', 'a', 's', 's', ' ', 'A', ' ', ':', ' ', 'B', ';']  -- the requesting file
    toPos named 8 0 0 = some (2, 6) ∧ toPos other 8 0 0 = some (0, 8) := by
  decide

end Tg.C09
