/-
C10 — Position mapping: byte offsets and LSP positions convert exactly.

The model (`LineIndex.toPos` / `fromPos`, single-pass scans) mirrors
`ide::line_index::LineIndex` + `lsp::{to_proto,from_proto}::position` after the `fix:` commit
that replaced the ropey char-index arithmetic; `./check C10` compares both, exhaustively on
short strings over the property's alphabet.

Fixed choices where the property leaves one (also documented in DESIGN.md §7 C10):
a column past the end of a line maps to the end of the line *including* its terminator (so the
offset between `\r` and `\n` also round-trips); a column inside a surrogate pair rounds down;
a line past the last one maps to the end of the text.
-/
import TgModel.Lemmas.LineIndexLemmas

namespace Tg.C10
open LineIndex

/-- **round trip**: the position of every char-boundary offset converts back to that offset -/
theorem roundtrip (t : List Char) (o l c : Nat) (h : toPos t o 0 0 = some (l, c)) :
    fromPos t l c 0 = o := by
  obtain ⟨_, h1, h2⟩ := roundtrip_gen t o 0 0 l c 0 h
  by_cases hl : l = 0
  · have := (h1 hl).2; simpa [hl] using this
  · have := h2 (by omega); simpa using this

/-- **totality (no panic)**: every char-boundary offset 0..=len has a position -/
theorem boundary_has_position (pre post : List Char) :
    ∃ l c, toPos (pre ++ post) (byteLen pre) 0 0 = some (l, c) :=
  toPos_boundary pre post 0 0

/-- round trip stated over boundaries: for every split of the text -/
theorem roundtrip_boundary (pre post : List Char) :
    ∃ l c, toPos (pre ++ post) (byteLen pre) 0 0 = some (l, c) ∧ fromPos (pre ++ post) l c 0 = byteLen pre := by
  obtain ⟨l, c, h⟩ := toPos_boundary pre post 0 0
  exact ⟨l, c, h, roundtrip _ _ _ _ h⟩

/-- **line**: the line of an offset is the number of line starts (offsets just after LF, lone
CR or CRLF) at or before it -/
theorem line_contains (t : List Char) (o l c : Nat) (h : toPos t o 0 0 = some (l, c)) :
    l = ((lineStarts t 0).filter (· ≤ o)).length := by
  simpa using line_gen t o 0 0 l c 0 h

/-- **column**: within a line the column is the UTF-16 length of the characters before the offset -/
theorem column_is_utf16 (seg post : List Char) (l0 : Nat) (hseg : ∀ ch ∈ seg, ch ≠ '\n' ∧ ch ≠ '\r') :
    toPos (seg ++ post) (byteLen seg) l0 0 = some (l0, u16len seg) := by
  simpa using column_gen seg post l0 0 hseg

/-- **terminators are exactly LF, CR, CRLF**: any other character (FF, VT, NEL, U+2028, …)
never starts a line … -/
theorem only_lf_cr_break (ch : Char) (t : List Char) (b : Nat) (h1 : ch ≠ '\n') (h2 : ch ≠ '\r') :
    lineStarts (ch :: t) b = lineStarts t (b + utf8Len ch) := by
  simp [lineStarts, cls_other ch t h1 h2]

/-- … LF starts one, … -/
theorem lf_breaks (t : List Char) (b : Nat) : lineStarts ('\n' :: t) b = (b + 1) :: lineStarts t (b + 1) := by
  simp [lineStarts, cls]

/-- … CRLF starts exactly one (after the LF), … -/
theorem crlf_breaks_once (t : List Char) (b : Nat) :
    lineStarts ('\r' :: '\n' :: t) b = (b + 2) :: lineStarts t (b + 2) := by
  simp [lineStarts, cls]

/-- … and a lone CR starts one. -/
theorem lone_cr_breaks (t : List Char) (b : Nat) (h : t.head? ≠ some '\n') :
    lineStarts ('\r' :: t) b = (b + 1) :: lineStarts t (b + 1) := by
  cases t with
  | nil => simp [lineStarts, cls]
  | cons d t =>
    have : d ≠ '\n' := by simpa using h
    simp only [lineStarts, cls]
    split <;> simp_all

/-- **clamp**: a column at or past the end of the line means the line end (terminator
included), i.e. where the next line starts, or the end of the text -/
theorem clamp (t : List Char) (l c : Nat) (h : u16len t ≤ c) : fromPos t l c 0 = fromPos t (l + 1) 0 0 :=
  clamp_gen t l c 0 h

/-- every conversion result lies inside the text -/
theorem offset_in_text (t : List Char) (l c : Nat) : fromPos t l c 0 ≤ byteLen t := by
  simpa using (fromPos_bounds t l c 0).2

/-- non-vacuity: a text with CRLF, a lone CR, an astral character and a non-terminator FF -/
example : toPos ['a', '\r', '\n', '😀', '\x0c', 'b', '\r', 'c'] 7 0 0 = some (1, 2) := by decide
example : fromPos ['a', '\r', '\n', '😀', '\x0c', 'b', '\r', 'c'] 1 2 0 = 7 := by decide

end Tg.C10
