/-
C15 — Preprocessor: conditional regions select exactly the enabled tokens.

Two layers.  `PP` (PrepSpec.lean) is `preprocessor.rs` over the lexer's token *stream* together
with a declarative reference evaluation `Items.ref` of well-nested `#define/#ifdef/#ifndef/#else/
#endif` arrangements; `Items.sel` proves, for arbitrary nesting, that the machine selects exactly
the reference's tokens.  `PrepRefine.lean` proves that the concrete model `Src.eat` (the one the
parser model runs on and the one compared with the Rust code) *is* that machine over
`Lex.allTokens text`.  The theorems below compose the two.

The hypothesis `absToks text = items.flatten` says "the lexer splits the text into this
well-nested arrangement"; that the lexer does so for directive text is C14's business.
-/
import TgModel.Lemmas.PrepRefine
import TgModel.Grammar

namespace Tg.C15
open PP

/-- **selection**: for every well-nested arrangement (any depth), the tokens delivered to the
parser (everything except `PreProcessor` trivia) are exactly the tokens the reference evaluation
selects, where a macro is defined only by an earlier *enabled* `#define`; in particular no
preprocessor `Error` token is delivered and nothing from a disabled region is. -/
theorem prep_selects (text : List Char) (items : Items) (hok : items.ok = true)
    (hflat : absToks text = items.flatten) :
    ∃ n toks, Src.runAll n (Src.init text) = some toks ∧ Src.delivered toks = (items.ref []).1 := by
  have hbase : PP.runAll 1 { macros := (items.ref []).2 } [] = some [] := by simp [PP.runAll, PP.next]
  obtain ⟨n, pre, hrun, hpl, hne⟩ := Items.sel items hok { macros := [] } [] 1 [] hbase
  simp only [List.append_nil] at hrun
  obtain ⟨toks, ht, hd⟩ := Src.runAll_refine n (Src.init text) { macros := [] } rfl pre
    (by simpa [Src.init, hflat] using hrun) hne
  exact ⟨n, toks, ht, by rw [hd, hpl]⟩

/-- **disabled text is silent**: a disabled scan skips a whole well-nested item list at any
depth ≥ 1 — its tokens (including lexical `Error` tokens and nested directives) are consumed
without being delivered -/
theorem disabled_skips (is : Items) (hok : is.ok = true) (d : Nat) (hd : 1 ≤ d) (r : List LK) :
    eatUntil d (is.flatten ++ r) = eatUntil d r :=
  Items.skip is hok d hd r

/-- **missing macro name** after `#ifdef` / `#ifndef` (anything but an identifier, or end of
input) is an `Error` token … -/
theorem missing_name_if (neg : Bool) (st : PS) (w : Nat) (k : LK) (r : List LK)
    (hk : ∀ m, k ≠ .id m) (hkt : k.isTrivia = false) :
    (next st ((if neg then LK.ifndef else LK.ifdef) :: (List.replicate w LK.ws ++ k :: r))).1 = .error := by
  have hw := nextNotTrivia_ws w k hkt r
  cases neg <;> cases k <;> simp_all [next, processIf, LK.isTrivia]

theorem missing_name_if_eof (neg : Bool) (st : PS) (w : Nat) :
    (next st ((if neg then LK.ifndef else LK.ifdef) :: List.replicate w LK.ws)).1 = .error := by
  have : nextNotTrivia (List.replicate w LK.ws) = (none, []) := by
    induction w with
    | zero => rfl
    | succ w ih => simp [List.replicate_succ, nextNotTrivia, LK.isTrivia, ih]
  cases neg <;> simp [next, processIf, this]

/-- … and likewise after `#define` -/
theorem missing_name_define (st : PS) (w : Nat) (k : LK) (r : List LK)
    (hk : ∀ m, k ≠ .id m) (hkt : k.isTrivia = false) :
    (next st (LK.define :: (List.replicate w LK.ws ++ k :: r))).1 = .error := by
  have hw := nextNotTrivia_ws w k hkt r
  cases k <;> simp_all [next, LK.isTrivia]

/-- … and the concrete model parks a message with every such `Error` token, so the parser
reports it (`PState.save` fetches it; see C02) -/
theorem missing_name_has_message (s : Src) (h : (s.eat).1.kind = .Error) :
    (s.eat).2.prepErr.isSome = true ∨ (s.eat).2.lexErr.isSome = true :=
  Src.eat_error s h

/-- FULL STATEMENT (false on the current tree): a conditional left unterminated at end of file
yields a syntax error. -/
def UnterminatedReported : Prop :=
  ∀ r, Grammar.parse ['#','i','f','d','e','f',' ','X','\n','c','l','a','s','s',' ','A',';'] = .ok r → r.errors ≠ []

def errorCount : Grammar.ParseOut → Option Nat
  | .ok r => some r.errors.length
  | _ => none

/-- witness: `#ifdef X\nclass A;` (no `#endif`) parses with **zero** errors — the message
"reached EOF without matching #endif" is parked in `PreProcessor::error` but the token returned
is `PreProcessor` trivia, so nobody fetches it; enabled conditionals are not tracked at all -/
theorem unterminated_not_reported_witness :
    errorCount (Grammar.parse ['#','i','f','d','e','f',' ','X','\n','c','l','a','s','s',' ','A',';']) = some 0 ∧
    errorCount (Grammar.parse ['#','d','e','f','i','n','e',' ','X','\n','#','i','f','d','e','f',' ','X','\n',
                               'c','l','a','s','s',' ','A',';']) = some 0 := by
  constructor <;> decide +kernel

theorem unterminated_reported_false : ¬ UnterminatedReported := by
  intro h
  have hw := unterminated_not_reported_witness.1
  revert hw
  cases hp : Grammar.parse ['#','i','f','d','e','f',' ','X','\n','c','l','a','s','s',' ','A',';'] with
  | ok r =>
    intro hw
    have := h r hp
    simp [errorCount] at hw
    exact this hw
  | panic w => simp [errorCount]
  | outOfFuel => simp [errorCount]

/-- non-vacuity of `prep_selects`: a two-level nesting with `#else`, a `#define` and a disabled
lexical error, as the lexer model really splits it -/
example : ∃ items : Items, items.ok = true ∧
    absToks ['#','d','e','f','i','n','e',' ','X','\n','#','i','f','d','e','f',' ','X','\n','a','\n','#','e','l','s','e','\n','"','\n','#','e','n','d','i','f'] = items.flatten := by
  refine ⟨.cons (.define 1 ['X']) (.cons (.tok .ws) (.cons (.cond false 1 ['X']
      (.cons (.tok .ws) (.cons (.tok (.id ['a'])) (.cons (.tok .ws) .nil))) true
      (.cons (.tok .ws) (.cons (.tok (.other .Error ['"', '\n'])) .nil))) .nil)), by decide, ?_⟩
  decide +kernel

end Tg.C15
