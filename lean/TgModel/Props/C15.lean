/-
C15 — Preprocessor: conditional regions select exactly the enabled tokens; a conditional left
open at the end of the text is reported.

Two layers.  `PP` (PrepSpec.lean) is `preprocessor.rs` over the lexer's token *stream* (macro set,
`open_conditionals`, the parked message, "the lexer holds a parked message") together with a
declarative reference evaluation `Items.ref` of well-nested `#define/#ifdef/#ifndef/#else/#endif`
arrangements; `Items.steps` proves, for arbitrary nesting, that the machine selects exactly the
reference's tokens and comes back to the state it started in.  `PrepRefine.lean` proves that the
concrete model `Src.eat` / `Src.takeError` (the one the parser model runs on and the one compared
with the Rust code) *is* that machine over `Lex.allTokens text` (`eat_refine`, `drain_refine`).
`ParserFinish.lean` proves that the token source of every parser state with look-ahead `Eof` is
the drained source, so what `ParserBase::finish` appends is `endErrors text`.  The theorems below
compose the three.

The hypothesis `absToks text = items.flatten` says "the lexer splits the text into this
well-nested arrangement"; that the lexer does so for directive text is C14's business.
-/
import TgModel.Lemmas.PrepRefine
import TgModel.Lemmas.ParserFinish
import TgModel.Lemmas.PrepEnd
import TgModel.Lemmas.PrepRender
import TgModel.Grammar

namespace Tg.C15
open PP

/-- **selection**: for every well-nested arrangement (any depth), the tokens delivered to the
parser (everything except `PreProcessor` trivia) are exactly the tokens the reference evaluation
selects, where a macro is defined only by an earlier *enabled* `#define`; in particular no
preprocessor `Error` token is delivered and nothing from a disabled region is. -/
theorem prep_selects (text : List Char) (items : Items) (hok : items.ok = true)
    (hflat : absToks text = items.flatten) :
    ∃ n toks, Src.runAll n (Src.init text) = some toks ∧ Src.delivered toks = (items.ref []).1 := by
  have hbase : PP.runAll 1 { macros := (items.ref []).2 } [] = some [] := by simp [PP.runAll, PP.next]
  obtain ⟨n, pre, hrun, hpl, hne⟩ := Items.sel items hok { macros := [] } [] 1 [] hbase
  simp only [List.append_nil] at hrun
  obtain ⟨toks, ht, hd⟩ := Src.runAll_refine n (Src.init text) { macros := [] } rfl pre
    (by simpa [Src.init, hflat] using hrun) hne
  exact ⟨n, toks, ht, by rw [hd, hpl]⟩

/-- **selection, unterminated arrangements**: the same when the text ends inside conditionals —
the delivered tokens are those of `pre`'s reference followed by the reference of the open frames
(`Frames.ref`: an open disabled branch and an open `#else` part after an enabled branch hide
everything up to the end of the text), and no preprocessor `Error` token is delivered -/
theorem prep_selects_unterminated (text : List Char) (pre : Items) (hpre : pre.ok = true)
    (fs : List Frame) (hfs : ∀ f ∈ fs, f.ok = true)
    (hflat : absToks text = pre.flatten ++ Frames.flatten fs) :
    ∃ n toks, Src.runAll n (Src.init text) = some toks ∧
      Src.delivered toks = (pre.ref []).1 ++ Frames.ref (pre.ref []).2 fs := by
  obtain ⟨n, outs, hrun, hpl, hne⟩ := unterminated_sel pre hpre fs hfs { macros := [] }
  obtain ⟨toks, ht, hd⟩ := Src.runAll_refine n (Src.init text) { macros := [] } rfl outs
    (by simpa [Src.init, hflat] using hrun) hne
  exact ⟨n, toks, ht, by rw [hd, hpl]⟩

/-- **disabled text is silent**: a disabled scan skips a whole well-nested item list at any
depth ≥ 1 — its tokens (including lexical `Error` tokens and nested directives) are consumed
without being delivered -/
theorem disabled_skips (is : Items) (hok : is.ok = true) (d : Nat) (hd : 1 ≤ d) (r : List LK) :
    eatUntil d (is.flatten ++ r) = eatUntil d r :=
  Items.skip is hok d hd r

/-- … and the lexical messages of skipped text are dropped: after `eat_until_else_or_endif`
the lexer holds no parked message, whatever was skipped and however the skip ended -/
theorem skipped_lexical_errors_dropped (fuel : Nat) (s : Src) (racc : List Char) :
    (Src.skipCond fuel s racc).2.1.lexErr = none :=
  Src.skipCond_lexErr fuel s racc

/-- **missing macro name** after `#ifdef` / `#ifndef` (anything but an identifier, or end of
input) is an `Error` token … -/
theorem missing_name_if (neg : Bool) (st : PS) (w : Nat) (k : LK) (r : List LK)
    (hk : ∀ m, k ≠ .id m) (hkt : k.isTrivia = false) :
    (next st ((if neg then LK.ifndef else LK.ifdef) :: (List.replicate w LK.ws ++ k :: r))).1 = .error := by
  have hw := nextNotTrivia_ws w k hkt r
  cases neg <;> cases k <;> simp_all [next, processIf, LK.isTrivia]

theorem missing_name_if_eof (neg : Bool) (st : PS) (w : Nat) :
    (next st ((if neg then LK.ifndef else LK.ifdef) :: List.replicate w LK.ws)).1 = .error := by
  have : nextNotTrivia (List.replicate w LK.ws) = (none, []) := by
    induction w with
    | zero => rfl
    | succ w ih => simp [List.replicate_succ, nextNotTrivia, LK.isTrivia, ih]
  cases neg <;> simp [next, processIf, this]

/-- … and likewise after `#define` -/
theorem missing_name_define (st : PS) (w : Nat) (k : LK) (r : List LK)
    (hk : ∀ m, k ≠ .id m) (hkt : k.isTrivia = false) :
    (next st (LK.define :: (List.replicate w LK.ws ++ k :: r))).1 = .error := by
  have hw := nextNotTrivia_ws w k hkt r
  cases k <;> simp_all [next, LK.isTrivia]

/-- … and the concrete model parks a message with every such `Error` token, so the parser
reports it (`PState.save` fetches it; see C02) -/
theorem missing_name_has_message (s : Src) (h : (s.eat).1.kind = .Error) :
    (s.eat).2.prepErr.isSome = true ∨ (s.eat).2.lexErr.isSome = true :=
  Src.eat_error s h

/-! ### conditionals left open at the end of the text

"Unterminated" is stated declaratively: the lexer's token stream is a well-nested item list `pre`
followed by a non-empty chain `fs` of *frames* — each frame a conditional header, well-nested
`then` items and optionally `#else` with well-nested `else` items, the next frame nested inside
(`PP.Frames.flatten`); no `#endif` for any of them.  Both cases are covered at every level: the
delivered branch of the innermost conditional is enabled (the counter `open_conditionals` is
positive at `Eof`) or a skip runs into the end of the text. -/

/-- (a) **stream level**: the token source of an unterminated arrangement, run to `Eof` under the
parser's discipline, answers `take_error` with "reached EOF without matching #endif" -/
theorem unterminated_parked (text : List Char) (pre : Items) (hpre : pre.ok = true)
    (fs : List Frame) (hfs : ∀ f ∈ fs, f.ok = true) (hne : fs ≠ [])
    (hflat : absToks text = pre.flatten ++ Frames.flatten fs) :
    ∃ n s, Src.drain n (Src.init text) = some s ∧ (s.takeError).1 = some eofMsg := by
  obtain ⟨n, fin, hd, he⟩ := unterminated_parks pre hpre fs hfs hne { macros := [] } ⟨rfl, rfl⟩
  obtain ⟨s, hs, hR⟩ := Src.drain_refine n (Src.init text) { macros := [] } (Src.R_init text) fin
    (by simpa [Src.init, hflat] using hd)
  exact ⟨n, s, hs, (Src.takeError_of_R hR).1 he⟩

/-- … in terms of `Src.endMessage` (the message `ParserBase::finish` finds) -/
theorem unterminated_endMessage (text : List Char) (pre : Items) (hpre : pre.ok = true)
    (fs : List Frame) (hfs : ∀ f ∈ fs, f.ok = true) (hne : fs ≠ [])
    (hflat : absToks text = pre.flatten ++ Frames.flatten fs) :
    Src.endMessage text = some eofMsg := by
  obtain ⟨n, s, hs, ht⟩ := unterminated_parked text pre hpre fs hfs hne hflat
  rw [Src.endMessage_of_drain text n s hs, ht]

/-- every successful parse reports the errors of the grammar run followed by what
`ParserBase::finish` appends for the message left in the token source -/
theorem parse_reports_end (text : List Char) (r : Grammar.ParseResult) (h : Grammar.parse text = .ok r) :
    ∃ s, exec Grammar.defs Tables.recoverTokens (Grammar.parseFuel text) (.call .source_file) (PState.init text) = .ok s ∧
      r.errors = s.errors.reverse ++ endErrors text := by
  obtain ⟨s, hx, _, _, he, _⟩ := (Grammar.parse_ok_iff text r).mp h
  exact ⟨s, hx, he⟩

/-- (b) **parser level**: whenever the parser model returns a result for an unterminated
arrangement, its last error is "reached EOF without matching #endif" at (len, len) -/
theorem unterminated_reported (text : List Char) (pre : Items) (hpre : pre.ok = true)
    (fs : List Frame) (hfs : ∀ f ∈ fs, f.ok = true) (hne : fs ≠ [])
    (hflat : absToks text = pre.flatten ++ Frames.flatten fs)
    (r : Grammar.ParseResult) (h : Grammar.parse text = .ok r) :
    ∃ es, r.errors = es ++ [{ start := byteLen text, stop := byteLen text, msg := eofMsg }] := by
  obtain ⟨s, _, he⟩ := parse_reports_end text r h
  refine ⟨s.errors.reverse, ?_⟩
  rw [he, endErrors, unterminated_endMessage text pre hpre fs hfs hne hflat]

/-- (c) **well-nested ⇒ nothing left**: the token source of a well-nested arrangement, run to
`Eof` under the parser's discipline, ends with `open_conditionals = 0` and no parked message —
neither the preprocessor's nor the lexer's (the messages of delivered lexical `Error` tokens have
been fetched, those of skipped ones dropped) -/
theorem wellnested_clean (text : List Char) (items : Items) (hok : items.ok = true)
    (hflat : absToks text = items.flatten) :
    ∃ n s, Src.drain n (Src.init text) = some s ∧ s.openConds = 0 ∧ s.prepErr = none ∧ s.lexErr = none ∧
      (s.takeError).1 = none := by
  obtain ⟨n, hd⟩ := Items.drain_clean items hok { macros := [] } ⟨rfl, rfl⟩ rfl
  obtain ⟨s, hs, hR⟩ := Src.drain_refine n (Src.init text) { macros := [] } (Src.R_init text) _
    (by simpa [Src.init, hflat] using hd)
  refine ⟨n, s, hs, hR.opens.symm, hR.err.symm, ?_, (Src.takeError_of_R hR).2 rfl rfl⟩
  have := hR.lex
  simpa using this.symm

theorem wellnested_endMessage (text : List Char) (items : Items) (hok : items.ok = true)
    (hflat : absToks text = items.flatten) : Src.endMessage text = none := by
  obtain ⟨n, s, hs, _, _, _, ht⟩ := wellnested_clean text items hok hflat
  rw [Src.endMessage_of_drain text n s hs, ht]

/-- … hence `ParserBase::finish` appends nothing: the errors of a well-nested arrangement are the
errors of the grammar run alone -/
theorem wellnested_no_eof_error (text : List Char) (items : Items) (hok : items.ok = true)
    (hflat : absToks text = items.flatten) (r : Grammar.ParseResult) (h : Grammar.parse text = .ok r) :
    endErrors text = [] ∧
    ∃ s, exec Grammar.defs Tables.recoverTokens (Grammar.parseFuel text) (.call .source_file) (PState.init text) = .ok s ∧
      r.errors = s.errors.reverse := by
  have he : endErrors text = [] := by rw [endErrors, wellnested_endMessage text items hok hflat]
  obtain ⟨s, hx, hr⟩ := parse_reports_end text r h
  exact ⟨he, s, hx, by rw [hr, he, List.append_nil]⟩

def errorCount : Grammar.ParseOut → Option Nat
  | .ok r => some r.errors.length
  | _ => none

def lastError : Grammar.ParseOut → Option (Nat × Nat × String)
  | .ok r => r.errors.getLast?.map fun e => (e.start, e.stop, e.msg)
  | _ => none

/-- (d) `#ifdef X\nclass A;` (disabled, the skip runs into the end of the text) and
`#define X\n#ifdef X\nclass A;` (enabled, the counter is positive at `Eof`) now parse with exactly
one error: the message at (len, len) -/
theorem unterminated_reported_witness :
    errorCount (Grammar.parse ['#','i','f','d','e','f',' ','X','\n','c','l','a','s','s',' ','A',';']) = some 1 ∧
    lastError (Grammar.parse ['#','i','f','d','e','f',' ','X','\n','c','l','a','s','s',' ','A',';']) =
      some (17, 17, eofMsg) ∧
    errorCount (Grammar.parse ['#','d','e','f','i','n','e',' ','X','\n','#','i','f','d','e','f',' ','X','\n',
                               'c','l','a','s','s',' ','A',';']) = some 1 ∧
    lastError (Grammar.parse ['#','d','e','f','i','n','e',' ','X','\n','#','i','f','d','e','f',' ','X','\n',
                               'c','l','a','s','s',' ','A',';']) =
      some (27, 27, eofMsg) := by
  refine ⟨?_, ?_, ?_, ?_⟩ <;> decide +kernel

/-- non-vacuity of `unterminated_reported`: both texts are unterminated arrangements as the lexer
model really splits them (one frame each) -/
example : ∃ (pre : Items) (fs : List Frame), pre.ok = true ∧ (∀ f ∈ fs, f.ok = true) ∧ fs ≠ [] ∧
    absToks ['#','i','f','d','e','f',' ','X','\n','c','l','a','s','s',' ','A',';'] = pre.flatten ++ Frames.flatten fs := by
  refine ⟨.nil, [⟨false, 1, ['X'], .cons (.tok .ws) (.cons (.tok (.other .Class ['c','l','a','s','s']))
    (.cons (.tok .ws) (.cons (.tok (.id ['A'])) (.cons (.tok (.other .Semi [';'])) .nil)))), false, .nil⟩],
    by decide, by decide, by decide, ?_⟩
  decide +kernel

example : ∃ (pre : Items) (fs : List Frame), pre.ok = true ∧ (∀ f ∈ fs, f.ok = true) ∧ fs ≠ [] ∧
    absToks ['#','d','e','f','i','n','e',' ','X','\n','#','i','f','d','e','f',' ','X','\n',
             'c','l','a','s','s',' ','A',';'] = pre.flatten ++ Frames.flatten fs := by
  refine ⟨.cons (.define 1 ['X']) (.cons (.tok .ws) .nil),
    [⟨false, 1, ['X'], .cons (.tok .ws) (.cons (.tok (.other .Class ['c','l','a','s','s']))
      (.cons (.tok .ws) (.cons (.tok (.id ['A'])) (.cons (.tok (.other .Semi [';'])) .nil)))), false, .nil⟩],
    by decide, by decide, by decide, ?_⟩
  decide +kernel

/-- a deeper one: `#ifdef X` … `#else` … `#ifndef Y` … (two frames, the first in its else part) -/
example : ∃ (pre : Items) (fs : List Frame), pre.ok = true ∧ (∀ f ∈ fs, f.ok = true) ∧ fs.length = 2 ∧
    absToks ['#','i','f','d','e','f',' ','X','\n','a','\n','#','e','l','s','e','\n','#','i','f','n','d','e','f',' ','Y','\n','b'] =
      pre.flatten ++ Frames.flatten fs := by
  refine ⟨.nil, [⟨false, 1, ['X'], .cons (.tok .ws) (.cons (.tok (.id ['a'])) (.cons (.tok .ws) .nil)), true,
      .cons (.tok .ws) .nil⟩,
    ⟨true, 1, ['Y'], .cons (.tok .ws) (.cons (.tok (.id ['b'])) .nil), false, .nil⟩],
    by decide, by decide, rfl, ?_⟩
  decide +kernel

/-- **a directive `Error` token comes with its message alone**: when an `eat` that started with
no preprocessor message parked returns `Error` and has parked one (missing macro name after
`#ifdef` / `#ifndef` / `#define`, also when the offending token was itself a lexical `Error`
token), `PreProcessor::error` has dropped the lexer's message — nothing stale stays behind -/
theorem directive_error_drops_lexer_message (s : Src) (hp : s.prepErr = none)
    (hk : (s.eat).1.kind = .Error) (hs : (s.eat).2.prepErr.isSome = true) : (s.eat).2.lexErr = none :=
  Src.eat_directive_error_lexErr s hp hk hs

/-- under the parser's discipline every delivered token is *properly served* (`Src.Served`): an
`Error` token with exactly one parked message, any other token with none — except, when no input
is left, "reached EOF without matching #endif" — for every input, at every round of `save; lex` -/
theorem tokens_properly_served (input : List Char) (n : Nat) :
    Src.Served (Src.chain input n).1 (Src.chain input n).2 :=
  Src.chain_served input n

/-- **the error appended by `finish` is never a lexer message** (nor a "missing macro name"
message): for every input, the message left in the token source at `Eof` — if any — is
"reached EOF without matching #endif" -/
theorem end_message_is_eof_message (input : List Char) (m : String) (h : Src.endMessage input = some m) :
    m = eofMsg :=
  Src.endMessage_eofMsg input m h

/-- … so `ParserBase::finish` appends nothing or exactly that error at (len, len) -/
theorem finish_appends_only_eof_error (input : List Char) :
    endErrors input = [] ∨
    endErrors input = [{ start := byteLen input, stop := byteLen input, msg := eofMsg }] := by
  unfold endErrors
  cases h : Src.endMessage input with
  | none => exact Or.inl rfl
  | some m => rw [end_message_is_eof_message input m h]; exact Or.inr rfl

/-- the case that used to leave a stale lexer message behind: `#ifdef "a` (the "macro name" is a
lexical `Error` token) — nothing is left at the end of the text -/
example : Src.endMessage ['#','i','f','d','e','f',' ','"','a','\n','x'] = none := by decide +kernel

/-- a lexical error inside a disabled region is not reported: `#ifdef X\n"\n#endif` parses clean -/
example : errorCount (Grammar.parse ['#','i','f','d','e','f',' ','X','\n','"','\n','#','e','n','d','i','f']) = some 0 := by
  decide +kernel

/-- non-vacuity of `prep_selects`: a two-level nesting with `#else`, a `#define` and a disabled
lexical error, as the lexer model really splits it -/
example : ∃ items : Items, items.ok = true ∧
    absToks ['#','d','e','f','i','n','e',' ','X','\n','#','i','f','d','e','f',' ','X','\n','a','\n','#','e','l','s','e','\n','"','\n','#','e','n','d','i','f'] = items.flatten := by
  refine ⟨.cons (.define 1 ['X']) (.cons (.tok .ws) (.cons (.cond false 1 ['X']
      (.cons (.tok .ws) (.cons (.tok (.id ['a'])) (.cons (.tok .ws) .nil))) true
      (.cons (.tok .ws) (.cons (.tok (.other .Error ['"', '\n'])) .nil))) .nil)), by decide, ?_⟩
  decide +kernel

/-! ### from text: the hypothesis `absToks text = items.flatten` discharged for rendered texts

`Render.SItems` (PrepRender.lean) is a source-level arrangement: payload tokens — any token of the
language reference (`LexSpec.SpecTok`, C14), blank runs, line comments, nested block comments, a
string literal running into the end of its line (lexically invalid) — `#define` gap name, and
conditionals `#ifdef`/`#ifndef` gap name … [`#else` …] `#endif` nested to any depth; `render` is
its text, `toItems` the abstract arrangement (`PP.Items`) the theorems above speak about.
`Render.Text` adds conditionals still open at the end.  The side condition `wf` is decidable:
gaps hold only blanks/comments; every token is well-formed (macro names are identifiers of the
reference — digit-leading ones included, reserved words excluded — which is what `process_if`
accepts: kind `Id`); a reference token or directive keyword is followed by a blank/comment or ends
the text (`+`/`-` do not end it), blank runs are maximal, a line comment is followed by its line
terminator or ends the text.  `Render.SItems.absToks_render` / `Render.Text.absToks_render` prove
with the maximal-munch lemmas of C14 that the lexer model splits the text into exactly that
arrangement. -/

/-- **selection, from text**: the tokens delivered for the text of a well-nested source
arrangement are exactly those the reference evaluation selects -/
theorem prep_selects_text (s : Render.SItems) (h : s.wf = true) :
    ∃ n toks, Src.runAll n (Src.init s.render) = some toks ∧ Src.delivered toks = (s.toItems.ref []).1 := by
  obtain ⟨hok, hflat⟩ := Render.SItems.absToks_render s h
  exact prep_selects s.render s.toItems hok hflat

/-- … and for a text that ends inside conditionals -/
theorem prep_selects_unterminated_text (t : Render.Text) (h : t.wf = true) :
    ∃ n toks, Src.runAll n (Src.init t.render) = some toks ∧
      Src.delivered toks = (t.pre.toItems.ref []).1 ++
        Frames.ref (t.pre.toItems.ref []).2 (t.frames.map Render.SFrame.toFrame) := by
  obtain ⟨hok, hfs, hflat⟩ := Render.Text.absToks_render t h
  exact prep_selects_unterminated t.render t.pre.toItems hok _ hfs hflat

/-- **unterminated ⇒ parked, from text** -/
theorem unterminated_parked_text (t : Render.Text) (h : t.wf = true) (hne : t.frames ≠ []) :
    ∃ n s, Src.drain n (Src.init t.render) = some s ∧ (s.takeError).1 = some eofMsg := by
  obtain ⟨hok, hfs, hflat⟩ := Render.Text.absToks_render t h
  exact unterminated_parked t.render t.pre.toItems hok _ hfs (by simpa using hne) hflat

/-- **unterminated ⇒ reported, from text**: whenever the parser model returns a result for a text
that ends inside at least one conditional, its last error is "reached EOF without matching
#endif" at (len, len) -/
theorem unterminated_reported_text (t : Render.Text) (h : t.wf = true) (hne : t.frames ≠ [])
    (r : Grammar.ParseResult) (hp : Grammar.parse t.render = .ok r) :
    ∃ es, r.errors = es ++ [{ start := byteLen t.render, stop := byteLen t.render, msg := eofMsg }] := by
  obtain ⟨hok, hfs, hflat⟩ := Render.Text.absToks_render t h
  exact unterminated_reported t.render t.pre.toItems hok _ hfs (by simpa using hne) hflat r hp

/-- **well-nested ⇒ nothing left, from text** -/
theorem wellnested_clean_text (s : Render.SItems) (h : s.wf = true) :
    ∃ n st, Src.drain n (Src.init s.render) = some st ∧ st.openConds = 0 ∧ st.prepErr = none ∧ st.lexErr = none ∧
      (st.takeError).1 = none := by
  obtain ⟨hok, hflat⟩ := Render.SItems.absToks_render s h
  exact wellnested_clean s.render s.toItems hok hflat

/-- … hence `ParserBase::finish` appends nothing: the errors reported for the text of a
well-nested arrangement are those of the grammar run alone -/
theorem wellnested_no_eof_error_text (s : Render.SItems) (h : s.wf = true)
    (r : Grammar.ParseResult) (hp : Grammar.parse s.render = .ok r) :
    endErrors s.render = [] ∧
    ∃ st, exec Grammar.defs Tables.recoverTokens (Grammar.parseFuel s.render) (.call .source_file)
        (PState.init s.render) = .ok st ∧ r.errors = st.errors.reverse := by
  obtain ⟨hok, hflat⟩ := Render.SItems.absToks_render s h
  exact wellnested_no_eof_error s.render s.toItems hok hflat r hp

/-! non-vacuity: a three-level nesting with `#else` at two levels, a `#define`, comments in a gap
and after a name, and a lexically invalid line inside the `#ifndef` branch -/

open Render LexSpec in
/-- innermost conditional: `#ifdef A // deep⏎1⏎#else⏎2⏎#endif` -/
def sampleInner : SItem :=
  .cond false [.blank [' ']] ['A']
    (.cons (.pay (.blank [' '])) (.cons (.pay (.lineComment [' ', 'd', 'e', 'e', 'p'])) (.cons (.pay (.blank ['\n']))
      (.cons (.pay (.spec (.decInt .none ['1']))) (.cons (.pay (.blank ['\n'])) .nil)))))
    true
    (.cons (.pay (.blank ['\n'])) (.cons (.pay (.spec (.decInt .none ['2']))) (.cons (.pay (.blank ['\n'])) .nil)))

open Render LexSpec in
/-- middle conditional: `#ifndef B /* c */⏎"bad⏎` inner `⏎#else⏎y⏎#endif` -/
def sampleMiddle : SItem :=
  .cond true [.blank [' ']] ['B']
    (.cons (.pay (.blank [' '])) (.cons (.pay (.blockComment (.ch ' ' (.ch 'c' (.ch ' ' .nil)))))
      (.cons (.pay (.blank ['\n'])) (.cons (.pay (.badStr [.ch 'b', .ch 'a', .ch 'd'] false))
        (.cons sampleInner (.cons (.pay (.blank ['\n'])) .nil))))))
    true
    (.cons (.pay (.blank ['\n'])) (.cons (.pay (.spec (.ident ['y']))) (.cons (.pay (.blank ['\n'])) .nil)))

open Render LexSpec in
def sampleItems : SItems :=
  .cons (.define [.blank [' ']] ['A']) (.cons (.pay (.blank ['\n']))
    (.cons (.cond false [.blank [' ']] ['A']
      (.cons (.pay (.blank ['\n'])) (.cons (.pay (.spec (.ident ['x']))) (.cons (.pay (.blank [' ']))
        (.cons (.pay (.spec (.punct .semi))) (.cons (.pay (.blank ['\n']))
          (.cons sampleMiddle (.cons (.pay (.blank ['\n'])) .nil)))))))
      false .nil) .nil))

theorem sampleItems_wf : sampleItems.wf = true := by decide +kernel

/-- the rendered sample is this text -/
theorem sampleItems_text : sampleItems.render =
    ['#', 'd', 'e', 'f', 'i', 'n', 'e', ' ', 'A', '\n', '#', 'i', 'f', 'd', 'e', 'f', ' ', 'A', '\n', 'x',
     ' ', ';', '\n', '#', 'i', 'f', 'n', 'd', 'e', 'f', ' ', 'B', ' ', '/', '*', ' ', 'c', ' ', '*', '/',
     '\n', '"', 'b', 'a', 'd', '\n', '#', 'i', 'f', 'd', 'e', 'f', ' ', 'A', ' ', '/', '/', ' ', 'd', 'e',
     'e', 'p', '\n', '1', '\n', '#', 'e', 'l', 's', 'e', '\n', '2', '\n', '#', 'e', 'n', 'd', 'i', 'f',
     '\n', '#', 'e', 'l', 's', 'e', '\n', 'y', '\n', '#', 'e', 'n', 'd', 'i', 'f', '\n', '#', 'e', 'n',
     'd', 'i', 'f'] := by decide +kernel

/-- so the theorems apply to it: with `A` defined and `B` not, the delivered tokens are `x ;`, the
invalid string of the `#ifndef B` branch, `1` — and the blanks/comments around them -/
example : ∃ n toks, Src.runAll n (Src.init sampleItems.render) = some toks ∧
    Src.delivered toks = (sampleItems.toItems.ref []).1 :=
  prep_selects_text sampleItems sampleItems_wf

example : ((sampleItems.toItems.ref []).1.filter fun k => !k.isTrivia) =
    [.id ['x'], .other .Semi [';'], .other .Error ['"', 'b', 'a', 'd', '\n'], .other .IntVal ['1']] := by
  decide +kernel

/-- the same text cut off after `2⏎` (inside the `#else` part of the innermost conditional, three
conditionals open): well-formed as a `Render.Text`, hence reported -/
def sampleOpen : Render.Text :=
  open Render LexSpec in
  { pre := .cons (.define [.blank [' ']] ['A']) (.cons (.pay (.blank ['\n'])) .nil),
    frames := [
      { neg := false, gap := [.blank [' ']], m := ['A'],
        thn := .cons (.pay (.blank ['\n'])) (.cons (.pay (.spec (.ident ['x']))) (.cons (.pay (.blank ['\n'])) .nil)),
        hasElse := false, els := .nil },
      { neg := true, gap := [.blank [' ']], m := ['B'],
        thn := .cons (.pay (.blank ['\n'])) .nil, hasElse := false, els := .nil },
      { neg := false, gap := [.blank [' ']], m := ['A'],
        thn := .cons (.pay (.blank ['\n'])) (.cons (.pay (.spec (.decInt .none ['1']))) (.cons (.pay (.blank ['\n'])) .nil)),
        hasElse := true,
        els := .cons (.pay (.blank ['\n'])) (.cons (.pay (.spec (.decInt .none ['2']))) (.cons (.pay (.blank ['\n'])) .nil)) }] }

theorem sampleOpen_wf : sampleOpen.wf = true := by decide +kernel

theorem sampleOpen_text : sampleOpen.render =
    ['#', 'd', 'e', 'f', 'i', 'n', 'e', ' ', 'A', '\n', '#', 'i', 'f', 'd', 'e', 'f', ' ', 'A', '\n', 'x',
     '\n', '#', 'i', 'f', 'n', 'd', 'e', 'f', ' ', 'B', '\n', '#', 'i', 'f', 'd', 'e', 'f', ' ', 'A', '\n',
     '1', '\n', '#', 'e', 'l', 's', 'e', '\n', '2', '\n'] := by decide +kernel

example (r : Grammar.ParseResult) (hp : Grammar.parse sampleOpen.render = .ok r) :
    ∃ es, r.errors = es ++ [{ start := byteLen sampleOpen.render, stop := byteLen sampleOpen.render, msg := eofMsg }] :=
  unterminated_reported_text sampleOpen sampleOpen_wf (by decide) r hp

end Tg.C15
