/-
C08 — Server liveness: no interleaving of edits and requests deadlocks the server.

Model: `Sched.lean` — the main loop's handlers against any number of snapshot tasks over the vfs
`RwLock` and salsa's "a write waits for all snapshots" rule, at the granularity of the schedule
points of the `verif` hook (the same points at which `./check C08` pauses the real server's
threads to replay the model's schedules).  The theorems quantify over every job list (any
number of edits and requests, any number of vfs reads per task) and every schedule.
-/
import TgModel.Lemmas.SchedLemmas

namespace Tg.C08
open Sched

/-- **no deadlock** (after the fix): in every reachable state either everything is done or some
thread can take a step -/
theorem no_deadlock (jobs : List (Job × Nat)) (s : State) (h : Reachable true jobs s) :
    Final s ∨ ∃ a s', step true s a = some s' := by
  by_cases hf : Final s
  · exact Or.inl hf
  · right
    have hnd := no_deadlock_fixed jobs s h
    unfold Deadlocked at hnd
    have : ¬ ∀ a, step true s a = none := fun hall => hnd ⟨hf, hall⟩
    have ⟨a, ha⟩ := Classical.not_forall.mp this
    cases hst : step true s a with
    | none => exact absurd hst ha
    | some s' => exact ⟨a, s', hst⟩

/-- **progress**: every step consumes work, so every schedule is finite; with `no_deadlock` every
maximal schedule ends with all notifications processed and all tasks (requests, diagnostics)
finished -/
theorem every_step_progresses (jobs : List (Job × Nat)) (s : State) (h : Reachable true jobs s)
    (a : Act) (s' : State) (hs : step true s a = some s') : mu s' < mu s :=
  progress_fixed jobs s h a s' hs

/-- FULL STATEMENT for the original code (false): the same no-deadlock property with the original
lock order. -/
def NoDeadlockOriginal : Prop :=
  ∀ jobs s, Reachable false jobs s → Final s ∨ ∃ a s', step false s a = some s'

/-- witness: two document changes in a row, the second arriving before the first one's
diagnostics task has taken the vfs read lock -/
theorem original_deadlocks : ¬ NoDeadlockOriginal := by
  intro h
  obtain ⟨s, hr, hnf, hall⟩ := deadlock_original
  rcases h _ s hr with hf | ⟨a, s', hs⟩
  · exact hnf hf
  · rw [hall a] at hs; cases hs

end Tg.C08
