/-
C19 — Hover and inlay hints describe the declaration they point at.

"Hover on a resolved identifier shows the kind, name and declared type of the very symbol
go-to-definition jumps to, together with exactly the contiguous `//` comment lines directly above its
declaration.  Inlay hints label each positional template argument with the name of the parameter it
binds, placed at the argument's first character, and each field override with the field's declared
type, placed right after the field name; only hints inside the requested range are returned."

All theorems are about the model (`TgModel/Ide/Handlers.lean`).
-/
import TgModel.Lemmas.IdeSemKeepsB
import TgModel.Lemmas.IdeSemTree
import TgModel.Lemmas.IdeSemRunFast
import TgModel.Lemmas.IdeSemTyped
import TgModel.Lemmas.QSortMem
import TgModel.Lemmas.Sem10Visits
import TgModel.Props.C03

namespace Tg.C19
open Tg Tg.Ide Tg.Ide.Handlers

/-! ## Inlay hints -/


/-- the hints contributed by one entry `(interval, symbol)` of the position map -/
def entryHints (an : Analysis) (sm : SymMap) (file : Nat) (e : Tg.SymbolMap.Loc × Nat) :
    Except String (List InlayHint) :=
  let loc : FileRange := ⟨file, e.1.start, e.1.stop⟩
  match sm.gidToSym[e.2]? with
  | some (.record id) =>
    if (sm.record id).kind == .cls then
      match inlayHintClass an sm (sm.record id) loc with
      | .error err => .error err
      | .ok r => .ok (r.getD [])
    else .ok []
  | some (.recordField id) =>
    match inlayHintRecordField an (sm.recordField id) loc with
    | .error err => .error err
    | .ok r => .ok (r.getD [])
  | some (.multiclass id) =>
    match inlayHintTemplateArgs an
        ((sm.multiclass id).nameToTemplateArg.toList.map fun e => (sm.templateArg e.2).name) loc with
    | .error err => .error err
    | .ok r => .ok (r.getD [])
  | _ => .ok []

/-- every symbol registered in the file (the position-map entries of the file, in (start, end)
order): the handler looks at all of them, whatever the request -/
def fileSymbols (an : Analysis) (file : Nat) : List (Tg.SymbolMap.Loc × Nat) :=
  symbolsInRange an.symState.get.pos file 0 (an.ws.tree file).stop

def inRequest (a b : Nat) (h : InlayHint) : Bool := a ≤ h.position && h.position ≤ b

theorem inlayHintExec_eq (an : Analysis) (file a b : Nat) :
    inlayHintExec an file a b =
      match an.index with
      | .error err => .error err
      | .ok idx =>
        if b ≤ a then .ok (some [])
        else if !(an.symState.get.pos.any fun e => e.1.file == file) then .ok none
        else
          match (fileSymbols an file).mapM (entryHints an idx.symbolMap file) with
          | .error err => .error err
          | .ok hs => .ok (some (hs.flatten.filter (inRequest a b))) := by
  unfold inlayHintExec fileSymbols
  simp only [bind, Except.bind]
  cases an.index with
  | error e => rfl
  | ok idx =>
    simp only
    split
    · rfl
    · split
      · rfl
      · rw [forIn_acc_ok (entryHints an idx.symbolMap file)]
        · cases List.mapM (entryHints an idx.symbolMap file)
              (symbolsInRange an.symState.get.pos file 0 (an.ws.tree file).stop) with
          | error e => rfl
          | ok hs => simp [pure, Except.pure]; rfl
        · intro x s
          unfold entryHints
          cases hsym : idx.symbolMap.gidToSym[x.2]? with
          | none => simp [pure, Except.pure]
          | some sym =>
            cases sym with
            | record id =>
              simp only
              by_cases hk : ((idx.symbolMap.record id).kind == RecordKind.cls) = true
              · simp only [hk, if_true]
                cases inlayHintClass an idx.symbolMap (idx.symbolMap.record id) ⟨file, x.1.start, x.1.stop⟩ with
                | error e => rfl
                | ok r => cases r <;> simp [pure, Except.pure]
              · simp [hk, pure, Except.pure]
            | recordField id =>
              simp only
              cases inlayHintRecordField an (idx.symbolMap.recordField id) ⟨file, x.1.start, x.1.stop⟩ with
              | error e => rfl
              | ok r => cases r <;> simp [pure, Except.pure]
            | multiclass id =>
              simp only
              cases inlayHintTemplateArgs an
                  ((idx.symbolMap.multiclass id).nameToTemplateArg.toList.map fun e =>
                    (idx.symbolMap.templateArg e.2).name) ⟨file, x.1.start, x.1.stop⟩ with
              | error e => rfl
              | ok r => cases r <;> simp [pure, Except.pure]
            | _ => simp [pure, Except.pure]

/-- **(1)** only hints inside the requested range are returned -/
theorem inlay_hints_inside_request (an : Analysis) (file a b : Nat) (hints : List InlayHint)
    (h : inlayHintExec an file a b = .ok (some hints)) :
    ∀ x ∈ hints, a ≤ x.position ∧ x.position ≤ b := by
  rw [inlayHintExec_eq] at h
  split at h
  · cases h
  · split at h
    · cases h; intro x hx; cases hx
    · split at h
      · cases h
      · split at h
        · cases h
        · cases h
          intro x hx
          have := (List.mem_filter.1 hx).2
          simpa [inRequest] using this

/-- the hints returned are exactly the hints of the symbols registered in the file (`fileSymbols`),
entry by entry and in that order, restricted to the requested positions -/
theorem inlay_hints_exact (an : Analysis) (file a b : Nat) (hab : a < b) (hints : List InlayHint)
    (h : inlayHintExec an file a b = .ok (some hints)) :
    ∃ idx hs, an.index = .ok idx ∧
      (fileSymbols an file).mapM (entryHints an idx.symbolMap file) = .ok hs ∧
      hints = hs.flatten.filter (inRequest a b) := by
  rw [inlayHintExec_eq] at h
  split at h
  · cases h
  · rename_i idx hidx
    split at h
    · omega
    · split at h
      · cases h
      · split at h
        · cases h
        · rename_i hs hhs
          cases h
          exact ⟨idx, hs, hidx, hhs, rfl⟩

/-- **(1), converse**: every hint of the file whose position lies in the requested range is returned -/
theorem inlay_hints_complete (an : Analysis) (file a b : Nat) (hab : a < b) (hints : List InlayHint)
    (h : inlayHintExec an file a b = .ok (some hints)) :
    ∃ idx hs, an.index = .ok idx ∧
      (fileSymbols an file).mapM (entryHints an idx.symbolMap file) = .ok hs ∧
      ∀ x ∈ hs.flatten, a ≤ x.position → x.position ≤ b → x ∈ hints := by
  obtain ⟨idx, hs, h1, h2, rfl⟩ := inlay_hints_exact an file a b hab hints h
  refine ⟨idx, hs, h1, h2, fun x hx ha hb => List.mem_filter.2 ⟨hx, ?_⟩⟩
  simp [inRequest, ha, hb]

/-- the leading positional arguments of an `ArgValueList` node -/
def positionalArgs (argList : PTree) : List PTree :=
  (Ast.argValueListArgValues argList).takeWhile fun a => a.kind == .PositionalArgValue

/-- the template parameter names of a class, in declaration order -/
def paramNames (sm : SymMap) (cls : Record) : List String :=
  cls.nameToTemplateArg.toList.map fun e => (sm.templateArg e.2).name

/-- the template parameter names of a multiclass, in declaration order -/
def multiclassParamNames (sm : SymMap) (mc : Multiclass) : List String :=
  mc.nameToTemplateArg.toList.map fun e => (sm.templateArg e.2).name

/-- the `ArgValueList` of the class (or multiclass) reference whose name identifier is at `loc` -/
def classRefArgsAt (an : Analysis) (loc : FileRange) (argList : PTree) : Prop :=
  ∃ idNode identifierNode classNode,
    coveringElement (an.ws.tree loc.file) loc.start loc.stop = .ok idNode ∧
    identifierNodeOf idNode true = some identifierNode ∧
    identifierNode.parent = some classNode ∧
    ((classNode.here.kind = .ClassRef ∧ Ast.classRefArgValueList classNode.here = some argList) ∨
     (classNode.here.kind = .ClassValue ∧ Ast.classValueArgValueList classNode.here = some argList))

/-- `inlay_hint_template_args`: one hint per leading positional argument that has a parameter,
labelled with the parameter's name, at the argument's first character -/
theorem inlayHintTemplateArgs_spec (an : Analysis) (names : List String) (loc : FileRange)
    (hints : List InlayHint) (h : inlayHintTemplateArgs an names loc = .ok (some hints)) :
    ∃ argList, classRefArgsAt an loc argList ∧
      hints = ((positionalArgs argList).zip names).map fun (arg, name) =>
        { position := arg.start, label := name ++ ":", kind := .templateArg } := by
  unfold inlayHintTemplateArgs at h
  simp only [bind, Except.bind] at h
  split at h
  · cases h
  · rename_i idNode hcov
    split at h
    · rename_i identifierNode hid
      split at h
      · rename_i classNode hpar
        split at h
        · rename_i argList harg
          simp only [pure, Except.pure, Except.ok.injEq, Option.some.injEq] at h
          refine ⟨argList, ⟨idNode, identifierNode, classNode, hcov, hid, hpar, ?_⟩, ?_⟩
          · split at harg
            · left; exact ⟨‹_›, harg⟩
            · right; exact ⟨‹_›, harg⟩
            · cases harg
          · rw [← h]
            simp only [positionalArgs, List.zip_map_left, List.map_map]
            apply List.map_congr_left
            intro x _
            simp [toString]
        · cases h
      · cases h
    · cases h

theorem inlayHintClass_spec (an : Analysis) (sm : SymMap) (cls : Record) (loc : FileRange)
    (hints : List InlayHint) (h : inlayHintClass an sm cls loc = .ok (some hints)) :
    ∃ argList, classRefArgsAt an loc argList ∧
      hints = ((positionalArgs argList).zip (paramNames sm cls)).map fun (arg, name) =>
        { position := arg.start, label := name ++ ":", kind := .templateArg } :=
  inlayHintTemplateArgs_spec an _ loc hints h

/-- the `k`-th leading positional argument is labelled with the `k`-th name, at its first character -/
theorem template_arg_hint (an : Analysis) (names : List String) (loc : FileRange)
    (hints : List InlayHint) (h : inlayHintTemplateArgs an names loc = .ok (some hints)) :
    ∃ argList, classRefArgsAt an loc argList ∧
      hints.length = min (positionalArgs argList).length names.length ∧
      ∀ k (hk : k < hints.length), ∃ arg name,
        (positionalArgs argList)[k]? = some arg ∧ names[k]? = some name ∧
        hints[k].position = arg.start ∧ hints[k].label = name ++ ":" := by
  obtain ⟨argList, hargs, rfl⟩ := inlayHintTemplateArgs_spec an names loc hints h
  refine ⟨argList, hargs, by simp, ?_⟩
  intro k hk
  simp only [List.length_map, List.length_zip] at hk
  have h1 : k < (positionalArgs argList).length := by omega
  have h2 : k < names.length := by omega
  refine ⟨(positionalArgs argList)[k], names[k], by simp [h1], by simp [h2], ?_, ?_⟩ <;>
    simp

/-- **(4a)** the `k`-th positional argument of the class reference is labelled with the name of the
`k`-th template parameter of the class, at the argument's first character -/
theorem positional_arg_hint (an : Analysis) (sm : SymMap) (cls : Record) (loc : FileRange)
    (hints : List InlayHint) (h : inlayHintClass an sm cls loc = .ok (some hints)) :
    ∃ argList, classRefArgsAt an loc argList ∧
      hints.length = min (positionalArgs argList).length (paramNames sm cls).length ∧
      ∀ k (hk : k < hints.length), ∃ arg name,
        (positionalArgs argList)[k]? = some arg ∧ (paramNames sm cls)[k]? = some name ∧
        hints[k].position = arg.start ∧ hints[k].label = name ++ ":" :=
  template_arg_hint an _ loc hints h

/-- when the positional arguments all come first (as the grammar requires), the leading positional
arguments are all the positional arguments -/
theorem positionalArgs_eq_filter (argList : PTree) (pos named : List PTree)
    (hsplit : Ast.argValueListArgValues argList = pos ++ named)
    (hpos : ∀ a ∈ pos, a.kind = .PositionalArgValue) (hnamed : ∀ a ∈ named, a.kind ≠ .PositionalArgValue) :
    positionalArgs argList = pos ∧
    (Ast.argValueListArgValues argList).filter (fun a => a.kind == .PositionalArgValue) = pos := by
  unfold positionalArgs
  rw [hsplit]
  constructor
  · rw [List.takeWhile_append_of_pos (fun a ha => by simp [hpos a ha])]
    cases named with
    | nil => simp
    | cons x t =>
      rw [List.takeWhile_cons_of_neg (by simp [hnamed x (by simp)])]
      simp
  · rw [List.filter_append, List.filter_eq_self.2 (fun a ha => by simp [hpos a ha]),
      List.filter_eq_nil_iff.2 (fun a ha => by simp [hnamed a ha])]
    simp

/-- **(4b)** a field override is labelled with `:` and the type of the registered field symbol,
right after the field name (`loc` is the range of the name; the name's parent is a `FieldLet`) -/
theorem inlayHintRecordField_spec (an : Analysis) (field : RecordField) (loc : FileRange)
    (hints : List InlayHint) (h : inlayHintRecordField an field loc = .ok (some hints)) :
    (∃ idNode identifierNode fieldLet,
      coveringElement (an.ws.tree loc.file) loc.start loc.stop = .ok idNode ∧
      identifierNodeOf idNode false = some identifierNode ∧
      identifierNode.parent = some fieldLet ∧ fieldLet.here.kind = .FieldLet) ∧
    ∃ hint, hints = [hint] ∧ hint.position = loc.stop ∧ hint.label = ":" ++ field.typ.toStr := by
  unfold inlayHintRecordField at h
  simp only [bind, Except.bind] at h
  split at h
  · cases h
  · rename_i idNode hcov
    split at h
    · rename_i identifierNode hid
      split at h
      · rename_i fl hpar
        split at h
        · cases h
        · rename_i hk
          simp only [pure, Except.pure, Except.ok.injEq, Option.some.injEq] at h
          refine ⟨⟨idNode, identifierNode, fl, hcov, hid, hpar, ?_⟩, _, h.symm, rfl, ?_⟩
          · simpa using hk
          · simp [toString]
      · cases h
    · cases h

/-- the `Identifier`-only variant of the identifier step never answers on an `Identifier` node
itself: the covering element of a field-override hint is the `Id` token -/
theorem identifierNodeOf_false (idNode c : Cursor) (h : identifierNodeOf idNode false = some c) :
    idNode.here.kind = .Id ∧ idNode.parent = some c := by
  unfold identifierNodeOf at h
  split at h
  · exact ⟨‹_›, h⟩
  · simp at h
  · cases h

theorem recordKind_eq_of_beq {a b : RecordKind} (h : (a == b) = true) : a = b := by
  cases a <;> cases b <;> first | rfl | cases h

/-- every returned hint comes from a symbol registered in the file: a class symbol (then it is a
positional-argument hint of `inlayHintClass`), a multiclass symbol (positional-argument hint with
the multiclass's parameter names) or a field symbol (then it is the field-override hint of
`inlayHintRecordField`) -/
theorem inlay_hint_origin (an : Analysis) (file a b : Nat) (hab : a < b) (hints : List InlayHint)
    (h : inlayHintExec an file a b = .ok (some hints)) (x : InlayHint) (hx : x ∈ hints) :
    ∃ idx e, an.index = .ok idx ∧ e ∈ fileSymbols an file ∧
      ((∃ id hs, idx.symbolMap.gidToSym[e.2]? = some (.record id) ∧ (idx.symbolMap.record id).kind = .cls ∧
          inlayHintClass an idx.symbolMap (idx.symbolMap.record id) ⟨file, e.1.start, e.1.stop⟩ = .ok (some hs) ∧
          x ∈ hs) ∨
       (∃ id hs, idx.symbolMap.gidToSym[e.2]? = some (.multiclass id) ∧
          inlayHintTemplateArgs an (multiclassParamNames idx.symbolMap (idx.symbolMap.multiclass id))
            ⟨file, e.1.start, e.1.stop⟩ = .ok (some hs) ∧ x ∈ hs) ∨
       (∃ id hs, idx.symbolMap.gidToSym[e.2]? = some (.recordField id) ∧
          inlayHintRecordField an (idx.symbolMap.recordField id) ⟨file, e.1.start, e.1.stop⟩ = .ok (some hs) ∧
          x ∈ hs)) := by
  obtain ⟨idx, hs, hidx, hmap, rfl⟩ := inlay_hints_exact an file a b hab hints h
  obtain ⟨hlen, hk⟩ := (mapM_ok_iff _ _ _).1 hmap
  have hx' := (List.mem_filter.1 hx).1
  obtain ⟨l, hl, hxl⟩ := List.mem_flatten.1 hx'
  obtain ⟨k, hklt, rfl⟩ := List.getElem_of_mem hl
  obtain ⟨r, hr1, hr2⟩ := hk k (by omega)
  have : r = hs[k] := by
    rw [List.getElem?_eq_getElem hklt] at hr1; exact (Option.some.inj hr1).symm
  subst this
  refine ⟨idx, _, hidx, List.getElem_mem (by omega : k < (fileSymbols an file).length), ?_⟩
  unfold entryHints at hr2
  simp only at hr2
  split at hr2
  · rename_i id hid
    split at hr2
    · rename_i hkind
      split at hr2
      · cases hr2
      · rename_i r' hr'
        cases r' with
        | none => simp at hr2; rw [hr2] at hxl; cases hxl
        | some hs' =>
          simp at hr2
          left
          exact ⟨id, hs', hid, recordKind_eq_of_beq hkind, hr', by rw [hr2]; exact hxl⟩
    · simp at hr2; rw [hr2] at hxl; cases hxl
  · rename_i id hid
    split at hr2
    · cases hr2
    · rename_i r' hr'
      cases r' with
      | none => simp at hr2; rw [hr2] at hxl; cases hxl
      | some hs' =>
        simp at hr2
        right; right
        exact ⟨id, hs', hid, hr', by rw [hr2]; exact hxl⟩
  · rename_i id hid
    split at hr2
    · cases hr2
    · rename_i r' hr'
      cases r' with
      | none => simp at hr2; rw [hr2] at hxl; cases hxl
      | some hs' =>
        simp at hr2
        right; left
        exact ⟨id, hs', hid, hr', by rw [hr2]; exact hxl⟩
  · simp at hr2; rw [hr2] at hxl; cases hxl

/-! ## Hover -/

/-- the signature line of a symbol: kind / declared type and name -/
def symbolSignature (sm : SymMap) : SymbolId → String
  | .record id =>
    let record := sm.record id
    match record.kind with
    | .cls =>
      let templateArg := ", ".intercalate (record.nameToTemplateArg.toList.map fun e =>
        (sm.templateArg e.2).typ.toStr ++ " " ++ (sm.templateArg e.2).name)
      if templateArg.isEmpty then "class " ++ record.name else "class " ++ record.name ++ "<" ++ templateArg ++ ">"
    | .def_ => "def " ++ record.name
  | .templateArgument id => (sm.templateArg id).typ.toStr ++ " " ++ (sm.templateArg id).name
  | .recordField id =>
    (sm.recordField id).typ.toStr ++ " " ++ (sm.record (sm.recordField id).parent).name ++ "::" ++ (sm.recordField id).name
  | .var id => (sm.var id).typ.toStr ++ " " ++ (sm.var id).name
  | .defset id => (sm.defset id).typ.toStr ++ " " ++ (sm.defset id).name
  | .multiclass id => "multiclass " ++ (sm.multiclass id).name
  | .defm id => "defm " ++ (sm.defm id).name

theorem extractSymbolSignature_eq (an : Analysis) (sm : SymMap) (file pos : Nat) :
    extractSymbolSignature an sm file pos =
      (findSymbolAt an sm file pos).map fun s => (symbolSignature sm s, symbolDefineLoc sm s) := by
  unfold extractSymbolSignature
  cases findSymbolAt an sm file pos with
  | none => rfl
  | some s =>
    simp only [Option.map_some, Option.some.injEq, Prod.mk.injEq, and_true]
    cases s with
    | record id =>
      simp only [symbolSignature]
      cases (sm.record id).kind <;> simp [toString]
    | _ => simp [symbolSignature, toString]

/-- the position-map state of the analysis is the run of the indexer's own hook log, and that log
agrees with the arenas -/
def Coherent (an : Analysis) : Prop :=
  ∀ idx, an.index = .ok idx →
    an.symState.get = Tg.SymbolMap.run idx.symbolMap.ops.toList ∧ LogOK idx.symbolMap

/-- `Analysis.new` is coherent: its position map is `SymbolMap.run` of the indexer's hook log (the
array implementation `SymRun.runFast` used for long logs computes the same: `runFast_eq_run`), and
the log agrees with the arenas (`index_logOK`) -/
theorem new_coherent (ws : Workspace) : Coherent (Analysis.new ws) := by
  intro idx hidx
  have hidx' : Index.index ws = .ok idx := hidx
  refine ⟨?_, index_logOK ws idx hidx'⟩
  show (Thunk.mk _).get = _
  simp only [Thunk.get]
  show (match Index.index ws with
    | .ok r => if r.symbolMap.ops.size > SymRun.fastThreshold then SymRun.runFast r.symbolMap.ops
        else Tg.SymbolMap.run r.symbolMap.ops.toList
    | .error _ => {}) = _
  rw [hidx']
  simp only
  split
  · exact SymRun.runFast_eq_run _
  · rfl

theorem hoverExec_eq (an : Analysis) (file pos : Nat) :
    hoverExec an file pos =
      match an.index with
      | .error e => .error e
      | .ok idx =>
        match findSymbolAt an idx.symbolMap file pos with
        | none => .ok none
        | some s =>
          match extractDocComments (an.ws.tree (symbolDefineLoc idx.symbolMap s).file)
              (symbolDefineLoc idx.symbolMap s).start (symbolDefineLoc idx.symbolMap s).stop with
          | .error e => .error e
          | .ok d => .ok (some { signature := symbolSignature idx.symbolMap s, document := d }) := by
  unfold hoverExec
  simp only [bind, Except.bind]
  cases an.index with
  | error e => rfl
  | ok idx =>
    simp only [extractSymbolSignature_eq]
    cases findSymbolAt an idx.symbolMap file pos with
    | none => rfl
    | some s =>
      simp only [Option.map_some]
      cases extractDocComments (an.ws.tree (symbolDefineLoc idx.symbolMap s).file)
              (symbolDefineLoc idx.symbolMap s).start (symbolDefineLoc idx.symbolMap s).stop <;> rfl

/-- **(2)** hover and go-to-definition agree: if hover answers at `(file, pos)`, both handlers found
the same symbol there (`findSymbolAt`); the signature shown is that symbol's signature, the location
go-to-definition returns is that symbol's `defineLoc`, and the documentation is extracted at that
location -/
theorem hover_goto_agree (an : Analysis) (hc : Coherent an) (file pos : Nat) (hv : Hover)
    (h : hoverExec an file pos = .ok (some hv)) :
    ∃ idx sym, an.index = .ok idx ∧ findSymbolAt an idx.symbolMap file pos = some sym ∧
      hv.signature = symbolSignature idx.symbolMap sym ∧
      gotoDefinitionExec an file pos = .ok (some (symbolDefineLoc idx.symbolMap sym).toLoc) ∧
      extractDocComments (an.ws.tree (symbolDefineLoc idx.symbolMap sym).file)
        (symbolDefineLoc idx.symbolMap sym).start (symbolDefineLoc idx.symbolMap sym).stop = .ok hv.document := by
  unfold hoverExec at h
  simp only [bind, Except.bind] at h
  split at h
  · cases h
  · rename_i idx hidx
    rw [extractSymbolSignature_eq] at h
    cases hf : findSymbolAt an idx.symbolMap file pos with
    | none => rw [hf] at h; cases h
    | some sym =>
      rw [hf] at h
      simp only [Option.map_some] at h
      split at h
      · cases h
      · rename_i doc hdoc
        cases h
        refine ⟨idx, sym, hidx, hf, rfl, ?_, hdoc⟩
        obtain ⟨hrun, hlog⟩ := hc idx hidx
        unfold gotoDefinitionExec
        simp only [bind, Except.bind, hidx, pure, Except.pure, Except.ok.injEq]
        unfold findSymbolAt at hf
        unfold Tg.SymbolMap.gotoDef Tg.SymbolMap.findSymbolAt
        split at hf
        · rename_i l gid hl
          rw [hl]
          simp only
          obtain ⟨_, S, hS, hdef, _⟩ := hlog.sym gid sym hf
          rw [hrun, hS]
          simp [hdef]
        · cases hf

/-- conversely, where go-to-definition answers, the hover signature is defined and describes the
symbol whose `defineLoc` go-to-definition returned -/
theorem goto_hover_agree (an : Analysis) (hc : Coherent an) (file pos : Nat) (loc : Tg.SymbolMap.Loc)
    (h : gotoDefinitionExec an file pos = .ok (some loc)) :
    ∃ idx sym, an.index = .ok idx ∧ findSymbolAt an idx.symbolMap file pos = some sym ∧
      loc = (symbolDefineLoc idx.symbolMap sym).toLoc ∧
      extractSymbolSignature an idx.symbolMap file pos =
        some (symbolSignature idx.symbolMap sym, symbolDefineLoc idx.symbolMap sym) := by
  unfold gotoDefinitionExec at h
  simp only [bind, Except.bind] at h
  split at h
  · cases h
  · rename_i idx hidx
    obtain ⟨hrun, hlog⟩ := hc idx hidx
    simp only [pure, Except.pure, Except.ok.injEq] at h
    unfold Tg.SymbolMap.gotoDef Tg.SymbolMap.findSymbolAt at h
    split at h
    · rename_i l gid hl
      cases hS : (an.symState.get.syms)[gid]? with
      | none => rw [hS] at h; cases h
      | some S =>
        rw [hS] at h
        simp only [Option.map_some, Option.some.injEq] at h
        have hlt : gid < idx.symbolMap.gidToSym.size := by
          rw [← hlog.len, ← hrun]
          rcases Nat.lt_or_ge gid an.symState.get.syms.length with hh | hh
          · exact hh
          · rw [List.getElem?_eq_none hh] at hS; cases hS
        have hsym : idx.symbolMap.gidToSym[gid]? = some idx.symbolMap.gidToSym[gid] :=
          Array.getElem?_eq_getElem hlt
        obtain ⟨_, S', hS', hdef, _⟩ := hlog.sym gid _ hsym
        rw [← hrun, hS] at hS'
        cases hS'
        have hf : findSymbolAt an idx.symbolMap file pos = some idx.symbolMap.gidToSym[gid] := by
          unfold findSymbolAt
          rw [hl]
          exact hsym
        refine ⟨idx, _, hidx, hf, by rw [← h, hdef], ?_⟩
        rw [extractSymbolSignature_eq, hf]
        rfl
    · cases h

/-! ## Documentation comments -/

/-- the tokens in front of `cur`, nearest first, as `prev_token` finds them (at most `n`) -/
def prevChain : Nat → Cursor → List Cursor
  | 0, _ => []
  | n + 1, c =>
    match c.prevToken with
    | none => []
    | some t => t :: prevChain n t

/-- a line break: a `Whitespace` token that contains exactly one `'\n'` -/
def isLineBreak (t : PTree) : Bool := t.kind == .Whitespace && countNewlines t.text == 1

/-- a `//` comment line -/
def isDocLine (t : PTree) : Bool := t.kind == .LineComment && t.text.startsWith "//"

/-- **declarative specification**: the documentation lines in front of a declaration, given the
tokens in front of it nearest first: alternately a line break and a `//` comment line, as long as
that pattern continues; each comment without its leading slashes and the whitespace after them; in
source order -/
def docLines : List PTree → List String
  | ws :: c :: rest =>
    if isLineBreak ws && isDocLine c then docLines rest ++ [trimComment c.text] else []
  | _ => []

/-- the loop computes the specification on the tokens that `2 * fuel` steps of `prev_token` reach -/
theorem docCommentLoop_eq (fuel : Nat) (cur : Cursor) (acc : List String) :
    docCommentLoop fuel cur acc = docLines ((prevChain (2 * fuel) cur).map (·.here)) ++ acc := by
  induction fuel generalizing cur acc with
  | zero => simp [docCommentLoop, prevChain, docLines]
  | succ fuel ih =>
    rw [show 2 * (fuel + 1) = (2 * fuel + 1) + 1 by omega]
    unfold docCommentLoop
    rw [prevChain]
    cases hws : cur.prevToken with
    | none => simp [docLines]
    | some ws =>
      simp only
      rw [prevChain]
      cases hc : ws.prevToken with
      | none =>
        simp only [List.map_cons, List.map_nil, docLines, List.nil_append]
        split <;> rfl
      | some c =>
        simp only [List.map_cons, docLines]
        by_cases h1 : ws.here.kind = SyntaxKind.Whitespace
        · by_cases h2 : countNewlines ws.here.text = 1
          · by_cases h3 : c.here.kind = SyntaxKind.LineComment
            · by_cases h4 : c.here.text.startsWith "//" = true
              · simp [isLineBreak, isDocLine, h1, h2, h3, h4, ih]
              · simp [isLineBreak, isDocLine, h1, h2, h3, h4]
            · simp [isLineBreak, isDocLine, h1, h2, h3]
          · simp [isLineBreak, isDocLine, h1, h2]
        · simp [isLineBreak, isDocLine, h1]

/-- seeing more of the chain does not change its first elements -/
theorem prevChain_prefix (n m : Nat) (c : Cursor) (h : n ≤ m) : prevChain n c <+: prevChain m c := by
  induction n generalizing m c with
  | zero => simp [prevChain]
  | succ n ih =>
    cases m with
    | zero => omega
    | succ m =>
      rw [prevChain, prevChain]
      cases c.prevToken with
      | none => simp
      | some t => simpa using ih m t (by omega)

/-- **enough fuel**: in a well-formed tree every documentation line consumes at least two bytes in
front of the current token, so `2 * fuel > cur.start` steps see everything the specification looks at -/
theorem docLines_fuel (fuel n : Nat) (cur : Cursor) (hok : cur.SOK) (hf : cur.here.start < 2 * fuel)
    (hn : 2 * fuel ≤ n) :
    docLines ((prevChain n cur).map (·.here)) = docLines ((prevChain (2 * fuel) cur).map (·.here)) := by
  induction fuel generalizing cur n with
  | zero => omega
  | succ fuel ih =>
    obtain ⟨n, rfl⟩ : ∃ n', n = n' + 2 := ⟨n - 2, by omega⟩
    rw [show 2 * (fuel + 1) = (2 * fuel + 1) + 1 by omega]
    rw [prevChain, prevChain]
    cases hws : cur.prevToken with
    | none => rfl
    | some ws =>
      simp only
      rw [prevChain, prevChain]
      cases hc : ws.prevToken with
      | none => rfl
      | some c =>
        simp only [List.map_cons, docLines]
        split
        · rename_i hcond
          obtain ⟨wok, _, wstop⟩ := hok.prevToken hws
          obtain ⟨cok, ctok, cstop⟩ := wok.prevToken hc
          have hdoc : c.here.text.startsWith "//" = true := by
            simp only [isDocLine, isLineBreak, Bool.and_eq_true] at hcond
            exact hcond.2.2
          have hlen := cok.wf.token_len ctok
          have h2 := byteLen_of_startsWith_slashes _ hdoc
          have hwle := wok.wf.le
          rw [ih n c cok (by omega) (by omega)]
        · rfl

/-- the declaration a name belongs to: the parent of its `Identifier` node (a `Class`, `FieldDef`,
`Defset`, …), or, for the name of a `def` (an `Identifier` inside `InnerValue` inside `Value`), the
`Def` statement -/
def declOfIdentifier (identifierNode : Cursor) : Option Cursor :=
  match identifierNode.parent with
  | none => none
  | some p => if p.here.kind == .InnerValue then p.parent.bind (·.parent) else some p

/-- the token at which the documentation walk starts: the first token of the declaration whose name
covers `[rs, re)` -/
def docAnchor (root : PTree) (rs re : Nat) : Except String (Option Cursor) :=
  match coveringElement root rs re with
  | .error e => .error e
  | .ok idNode =>
    .ok ((identifierNodeOf idNode true).bind fun identifierNode =>
      (declOfIdentifier identifierNode).bind (·.firstToken))

def docOfLines (lines : List String) : Option String :=
  let doc := "\n".intercalate lines
  if doc.isEmpty then none else some doc

theorem docTail_eq (root : PTree) (v : Cursor) :
    (match v.parent with
      | some parentNode0 =>
        if (parentNode0.here.kind == SyntaxKind.InnerValue) = true then
          match parentNode0.parent with
          | some valueNode =>
            match valueNode.parent with
            | some p =>
              match p.firstToken with
              | some curToken =>
                if ("\n".intercalate (docCommentLoop (root.stop + 2) curToken [])).isEmpty = true then (pure none : Except String (Option String))
                else pure (some ("\n".intercalate (docCommentLoop (root.stop + 2) curToken [])))
              | _ => pure none
            | _ => pure none
          | _ => pure none
        else
          match parentNode0.firstToken with
          | some curToken =>
            if ("\n".intercalate (docCommentLoop (root.stop + 2) curToken [])).isEmpty = true then pure none
            else pure (some ("\n".intercalate (docCommentLoop (root.stop + 2) curToken [])))
          | _ => pure none
      | _ => pure none) =
    match (declOfIdentifier v).bind (·.firstToken) with
    | none => .ok none
    | some cur => .ok (docOfLines (docCommentLoop (root.stop + 2) cur [])) := by
  unfold declOfIdentifier docOfLines
  cases v.parent with
  | none => rfl
  | some p0 =>
    simp only
    by_cases hk : (p0.here.kind == SyntaxKind.InnerValue) = true
    · simp only [hk, if_true]
      cases p0.parent with
      | none => rfl
      | some vn =>
        simp only [Option.bind_some]
        cases vn.parent with
        | none => rfl
        | some p =>
          simp only [Option.bind_some]
          cases p.firstToken with
          | none => rfl
          | some t => simp only; split <;> rfl
    · simp only [hk, Bool.false_eq_true, if_false, Option.bind_some]
      cases p0.firstToken with
      | none => rfl
      | some t => simp only; split <;> rfl

theorem extractDocComments_eq (root : PTree) (rs re : Nat) :
    extractDocComments root rs re =
      match docAnchor root rs re with
      | .error e => .error e
      | .ok none => .ok none
      | .ok (some cur) => .ok (docOfLines (docCommentLoop (root.stop + 2) cur [])) := by
  unfold extractDocComments docAnchor
  simp only [bind, Except.bind]
  cases hcov : coveringElement root rs re with
  | error e => rfl
  | ok idNode =>
    simp only [identifierNodeOf, Bool.true_and]
    split
    · cases idNode.parent with
      | none => rfl
      | some p =>
        have := docTail_eq root p
        simp only [pure, Except.pure, Option.bind_some] at this ⊢
        refine Eq.trans this ?_
        cases (declOfIdentifier p).bind (·.firstToken) <;> rfl
    · split
      · have := docTail_eq root idNode
        simp only [pure, Except.pure, Option.bind_some] at this ⊢
        refine Eq.trans this ?_
        cases (declOfIdentifier idNode).bind (·.firstToken) <;> rfl
      · rfl
    · rfl
theorem docAnchor_ok {root : PTree} (hwf : root.WF) {rs re : Nat} {cur : Cursor}
    (h : docAnchor root rs re = .ok (some cur)) : cur.SOK ∧ cur.here.isToken = true ∧ cur.here.start ≤ root.stop := by
  unfold docAnchor at h
  split at h
  · cases h
  · rename_i idNode hcov
    obtain ⟨hok, _, _, _, hstop⟩ := coveringElement_spec hwf hcov
    simp only [Except.ok.injEq] at h
    cases hid : identifierNodeOf idNode true with
    | none => rw [hid] at h; cases h
    | some idn =>
      rw [hid] at h
      simp only [Option.bind_some] at h
      -- the identifier node is the covering element or its parent
      have hidn : idn.SOK ∧ idn.here.start ≤ idNode.here.start := by
        unfold identifierNodeOf at hid
        split at hid
        · exact ⟨(hok.parent hid).1, (hok.parent_bounds hid).1⟩
        · split at hid
          · cases hid; exact ⟨hok, Nat.le_refl _⟩
          · cases hid
        · cases hid
      cases hd : declOfIdentifier idn with
      | none => rw [hd] at h; cases h
      | some decl =>
        rw [hd] at h
        simp only [Option.bind_some] at h
        have hdecl : decl.SOK ∧ decl.here.start ≤ idn.here.start := by
          unfold declOfIdentifier at hd
          split at hd
          · cases hd
          · rename_i p hp
            have hpok := (hidn.1.parent hp).1
            have hpb := (hidn.1.parent_bounds hp).1
            split at hd
            · cases hv : p.parent with
              | none => rw [hv] at hd; cases hd
              | some v =>
                rw [hv] at hd
                simp only [Option.bind_some] at hd
                have hvok := (hpok.parent hv).1
                have hvb := (hpok.parent_bounds hv).1
                have := (hvok.parent_bounds hd).1
                exact ⟨(hvok.parent hd).1, by omega⟩
            · cases hd; exact ⟨hpok, hpb⟩
        obtain ⟨c1, c2, c3⟩ := hdecl.1.firstToken h
        have := hok.wf.le
        exact ⟨c1, c2, by omega⟩

/-- **(3)** `extract_doc_comments` returns exactly the specified documentation lines of the
declaration, joined by newlines (`none` if the joined text is empty).  The chain may be cut at any
length `n ≥ 2 * (root.stop + 2)`: the result does not depend on it (enough fuel). -/
theorem doc_comments_spec (root : PTree) (hwf : root.WF) (rs re : Nat) (cur : Cursor)
    (ha : docAnchor root rs re = .ok (some cur)) (n : Nat) (hn : 2 * (root.stop + 2) ≤ n) :
    extractDocComments root rs re = .ok (docOfLines (docLines ((prevChain n cur).map (·.here)))) := by
  rw [extractDocComments_eq, ha]
  simp only
  obtain ⟨hok, _, hb⟩ := docAnchor_ok hwf ha
  rw [docCommentLoop_eq, List.append_nil, docLines_fuel (root.stop + 2) n cur hok (by omega) hn]

/-- without an anchor (the range is not the name of a declaration) there is no documentation -/
theorem doc_comments_none (root : PTree) (rs re : Nat) (ha : docAnchor root rs re = .ok none) :
    extractDocComments root rs re = .ok none := by
  rw [extractDocComments_eq, ha]

/-- (2) and (3) together for an analysis of a workspace built by `buildWorkspace`: the hover text is
the signature of the symbol go-to-definition jumps to, and its documentation is the specified
comment block in front of that symbol's declaration -/
theorem hover_of_workspace {vfs : List (String × String)} {rootPath : String} {inc : Option String}
    {ws : Workspace} (hws : buildWorkspace vfs rootPath inc = .ok ws)
    (file pos : Nat) (hv : Hover) (h : hoverExec (Analysis.new ws) file pos = .ok (some hv)) :
    ∃ idx sym, Index.index ws = .ok idx ∧ findSymbolAt (Analysis.new ws) idx.symbolMap file pos = some sym ∧
      hv.signature = symbolSignature idx.symbolMap sym ∧
      gotoDefinitionExec (Analysis.new ws) file pos = .ok (some (symbolDefineLoc idx.symbolMap sym).toLoc) ∧
      (let loc := symbolDefineLoc idx.symbolMap sym
       let root := ws.tree loc.file
       match docAnchor root loc.start loc.stop with
       | .ok (some cur) => hv.document = docOfLines (docLines ((prevChain (2 * (root.stop + 2)) cur).map (·.here)))
       | .ok none => hv.document = none
       | .error _ => False) := by
  obtain ⟨idx, sym, h1, h2, h3, h4, h5⟩ := hover_goto_agree _ (new_coherent ws) file pos hv h
  refine ⟨idx, sym, h1, h2, h3, h4, ?_⟩
  simp only
  have hwf := buildWorkspace_treesWF hws (symbolDefineLoc idx.symbolMap sym).file
  have hws' : (Analysis.new ws).ws = ws := rfl
  rw [hws'] at h5
  cases ha : docAnchor (ws.tree (symbolDefineLoc idx.symbolMap sym).file)
      (symbolDefineLoc idx.symbolMap sym).start (symbolDefineLoc idx.symbolMap sym).stop with
  | error e => rw [extractDocComments_eq, ha] at h5; cases h5
  | ok o =>
    cases o with
    | none =>
      rw [doc_comments_none _ _ _ ha] at h5
      exact (Except.ok.inj h5).symm
    | some cur =>
      rw [doc_comments_spec _ hwf _ _ cur ha _ (Nat.le_refl _)] at h5
      exact (Except.ok.inj h5).symm

/-- the tokens of the chain are tokens of the tree, each ending exactly where the next one (towards
the declaration) starts: the chain is the contiguous run of tokens directly in front of `cur` -/
theorem prevChain_adjacent (n : Nat) (cur : Cursor) (hok : cur.SOK) :
    ∀ k (hk : k < (prevChain n cur).length),
      (prevChain n cur)[k].here.isToken = true ∧
      (prevChain n cur)[k].here.stop = (if k = 0 then cur else (prevChain n cur)[k - 1]'(by omega)).here.start := by
  induction n generalizing cur with
  | zero => intro k hk; simp [prevChain] at hk
  | succ n ih =>
    intro k hk
    rw [prevChain] at hk
    cases hp : cur.prevToken with
    | none => rw [hp] at hk; simp at hk
    | some t =>
      obtain ⟨tok, ttok, tstop⟩ := hok.prevToken hp
      have hch : prevChain (n + 1) cur = t :: prevChain n t := by rw [prevChain, hp]
      cases k with
      | zero => simp only [hch, List.getElem_cons_zero, if_true]; exact ⟨ttok, tstop⟩
      | succ k =>
        have hk' : k < (prevChain n t).length := by rw [hp] at hk; simpa using hk
        obtain ⟨h1, h2⟩ := ih t tok k hk'
        simp only [hch, List.getElem_cons_succ, Nat.add_sub_cancel, Nat.add_eq_zero_iff, Nat.succ_ne_zero,
          and_false, if_false]
        refine ⟨h1, ?_⟩
        rw [h2]
        cases k with
        | zero => simp
        | succ k => simp

/-! ## Non-vacuity: concrete inputs that satisfy the hypotheses -/


/-- `A<1>`: a class reference with one positional argument -/
def exTree : PTree :=
  .node .SourceFile 0 4 4 #[
    .node .ClassRef 0 4 3 #[
      .node .Identifier 0 1 1 #[.token .Id 0 1 "A"],
      .node .ArgValueList 1 4 2 #[
        .token .Less 1 2 "<",
        .node .PositionalArgValue 2 3 1 #[.token .IntVal 2 3 "1"],
        .token .Greater 3 4 ">"]]]

def exWs : Workspace := { files := #[{ path := "a.td", tree := exTree, errors := [] }], root := 0, fileSet := [0] }

def exCls : Record :=
  { name := "A", kind := .cls, nameToTemplateArg := #[("x", 0)], defineLoc := ⟨0, 0, 0⟩ }

def exSm : SymMap :=
  { recordList := #[exCls],
    templateArgList := #[{ name := "x", typ := .int, hasDefaultValue := false, defineLoc := ⟨0, 0, 0⟩ }],
    gidToSym := #[.record 0] }

def exAn : Analysis :=
  { ws := exWs, index := .ok { symbolMap := exSm, diagnostics := #[] },
    symState := Thunk.mk fun _ => { syms := [], pos := [(⟨0, 0, 1⟩, 0)] } }

example : inlayHintClass exAn exSm exCls ⟨0, 0, 1⟩ =
    .ok (some [{ position := 2, label := "x" ++ ":", kind := .templateArg }]) := by
  rfl

/-- non-vacuity of `inlay_hints_inside_request` / `inlay_hints_exact` on the request level (an empty
request range; `Array.qsort` in `symbolsInRange` does not reduce in the kernel, so the substantive
examples are stated on `inlayHintClass` / `inlayHintRecordField`) -/
example : inlayHintExec exAn 0 5 5 = .ok (some []) := rfl

/-- `let x = 1;` inside a record body: a field override -/
def flTree : PTree :=
  .node .SourceFile 0 10 4 #[
    .node .FieldLet 0 10 3 #[
      .token .LetKw 0 3 "let", .token .Whitespace 3 4 " ",
      .node .Identifier 4 6 1 #[.token .Id 4 5 "x", .token .Whitespace 5 6 " "],
      .token .Equal 6 7 "=", .token .Whitespace 7 8 " ",
      .node .Value 8 9 2 #[.node .InnerValue 8 9 1 #[.token .IntVal 8 9 "1"]],
      .token .Semi 9 10 ";"]]

def flAn : Analysis :=
  { ws := { files := #[{ path := "a.td", tree := flTree, errors := [] }], root := 0, fileSet := [0] },
    index := .ok { symbolMap := {}, diagnostics := #[] }, symState := Thunk.mk fun _ => {} }

/-- non-vacuity of `inlayHintRecordField_spec` -/
example : inlayHintRecordField flAn { name := "x", typ := .int, parent := 0, defineLoc := ⟨0, 0, 0⟩ } ⟨0, 4, 5⟩ =
    .ok (some [{ position := 5, label := ":" ++ toString Ty.int ++ "", kind := .fieldLet }]) := rfl


/-- `// doc\nclass A;` -/
def hvTree : PTree :=
  .node .SourceFile 0 15 5 #[
    .node .StatementList 0 15 4 #[
      .token .LineComment 0 6 "// doc",
      .token .Whitespace 6 7 "\n",
      .node .Class 7 15 3 #[
        .token .ClassKw 7 12 "class",
        .token .Whitespace 12 13 " ",
        .node .Identifier 13 14 1 #[.token .Id 13 14 "A"],
        .node .RecordBody 14 15 2 #[
          .node .ParentClassList 14 14 1 #[],
          .node .Body 14 15 1 #[.token .Semi 14 15 ";"]]]]]

theorem hvTree_wf : hvTree.WF := PTree.wfb_sound 10 (by decide +kernel)

def hvWs : Workspace := { files := #[{ path := "a.td", tree := hvTree, errors := [] }], root := 0, fileSet := [0] }

def hvSm : SymMap := (SymMap.addRecord {} { name := "A", kind := .cls, defineLoc := ⟨0, 13, 14⟩ } false).2

def hvAn : Analysis :=
  { ws := hvWs, index := .ok { symbolMap := hvSm, diagnostics := #[] },
    symState := Thunk.mk fun _ => Tg.SymbolMap.run hvSm.ops.toList }

theorem hvAn_coherent : Coherent hvAn := by
  intro idx h
  cases h
  refine ⟨rfl, ?_⟩
  show LogOK hvSm
  unfold hvSm
  exact LogOK.addRecord LogOK.empty _ _

def hvCur : Cursor :=
  ⟨.token .ClassKw 7 12 "class", [(hvTree.children[0]!.children[2]!, 0), (hvTree.children[0]!, 2), (hvTree, 0)]⟩

theorem hv_anchor : docAnchor hvTree 13 14 = .ok (some hvCur) := rfl

theorem hv_lines : docLines ((prevChain 100 hvCur).map (·.here)) = ["doc"] := by
  have h0 : (prevChain 100 hvCur).map (·.here) =
      [.token .Whitespace 6 7 "\n", .token .LineComment 0 6 "// doc"] := rfl
  have h1 : isLineBreak (.token .Whitespace 6 7 "\n") = true := by decide
  have h2 : isDocLine (.token .LineComment 0 6 "// doc") = true := by
    simp [isDocLine, PTree.kind, PTree.text, String.startsWith_string_iff]
  have h3 : trimComment "// doc" = "doc" := by decide
  rw [h0]
  simp [docLines, h1, h2, PTree.text, h3]

example : extractDocComments hvTree 13 14 = .ok (some "doc") := by
  rw [doc_comments_spec hvTree hvTree_wf 13 14 hvCur hv_anchor 100 (by decide), hv_lines]
  simp [docOfLines]

theorem hv_find : findSymbolAt hvAn hvSm 0 13 = some (.record 0) := rfl

theorem hv_doc : extractDocComments hvTree 13 14 = .ok (some "doc") := by
  rw [doc_comments_spec hvTree hvTree_wf 13 14 hvCur hv_anchor 100 (by decide), hv_lines]
  simp [docOfLines]

theorem hv_hover : hoverExec hvAn 0 13 = .ok (some ⟨symbolSignature hvSm (.record 0), some "doc"⟩) := by
  have h1 : hvAn.index = .ok ⟨hvSm, #[]⟩ := rfl
  have h2 : extractDocComments (hvAn.ws.tree (symbolDefineLoc hvSm (.record 0)).file)
      (symbolDefineLoc hvSm (.record 0)).start (symbolDefineLoc hvSm (.record 0)).stop = .ok (some "doc") := hv_doc
  rw [hoverExec_eq, h1]
  simp only [hv_find, h2]

example : symbolSignature hvSm (.record 0) = "class A" := by
  simp [symbolSignature, hvSm, SymMap.addRecord, SymMap.record, SymMap.logDefine]

section endToEnd
open Tg.SymbolMap (Op Loc run)

/-! ## End to end: a hint sits on a location the indexer registered for the symbol it describes -/

/-- how the location `loc` got into the position map for the symbol with allocation index `gid`:
it is the symbol's definition, or the indexer registered it as a reference to that symbol
(`add_reference`, after resolving the name written there to that symbol) -/
def RegisteredAt (ops : List Op) (loc : Loc) (gid : Nat) : Prop :=
  (∃ pre name post, ops = pre ++ Op.define name loc :: post ∧ gid = (run pre).syms.length) ∨
  (∃ pre post, ops = pre ++ Op.reference gid loc :: post ∧ gid < (run pre).syms.length)

theorem fileSymbols_registered (an : Analysis) (hc : Coherent an) (idx : Index.IndexResult)
    (hidx : an.index = .ok idx) (file : Nat) (e : Loc × Nat) (he : e ∈ fileSymbols an file) :
    e.1.file = file ∧ RegisteredAt idx.symbolMap.ops.toList e.1 e.2 := by
  unfold fileSymbols symbolsInRange at he
  simp only at he
  rw [Array.mem_toList_iff, Tg.QSort.mem_qsort, ← Array.mem_toList_iff, List.toList_toArray] at he
  obtain ⟨hmem, hf⟩ := List.mem_filter.1 he
  obtain ⟨hrun, _⟩ := hc idx hidx
  rw [hrun] at hmem
  refine ⟨by simp only [Bool.and_eq_true, beq_iff_eq] at hf; exact hf.1.1, ?_⟩
  rcases SymbolMap.pos_origin idx.symbolMap.ops.toList {} e hmem with h | h | h
  · cases h
  · exact Or.inl h
  · exact Or.inr h

/-- **end-to-end hint theorem**: on a coherent analysis (every `Analysis.new ws`), every returned hint
* sits at the first character of the `k`-th positional argument of the `ClassRef` / `ClassValue`
  whose name identifier `loc` the indexer registered (as the definition of, or a reference to) the
  class or multiclass `S`, and is labelled with the name of `S`'s `k`-th template parameter, or
* sits right after the name `loc` of a `FieldLet`, which the indexer registered for the field symbol
  whose type the label shows. -/
theorem inlay_hint_end_to_end (an : Analysis) (hc : Coherent an) (file a b : Nat) (hab : a < b)
    (hints : List InlayHint) (h : inlayHintExec an file a b = .ok (some hints)) (x : InlayHint)
    (hx : x ∈ hints) :
    ∃ idx loc gid, an.index = .ok idx ∧ loc.file = file ∧
      RegisteredAt idx.symbolMap.ops.toList loc gid ∧ a ≤ x.position ∧ x.position ≤ b ∧
      ((∃ (names : List String) (argList : PTree) (k : Nat) (arg : PTree) (name : String),
          ((∃ id, idx.symbolMap.gidToSym[gid]? = some (.record id) ∧ (idx.symbolMap.record id).kind = .cls ∧
              names = paramNames idx.symbolMap (idx.symbolMap.record id)) ∨
           (∃ id, idx.symbolMap.gidToSym[gid]? = some (.multiclass id) ∧
              names = multiclassParamNames idx.symbolMap (idx.symbolMap.multiclass id))) ∧
          classRefArgsAt an ⟨file, loc.start, loc.stop⟩ argList ∧
          (positionalArgs argList)[k]? = some arg ∧ names[k]? = some name ∧
          x.position = arg.start ∧ x.label = name ++ ":") ∨
       (∃ id, idx.symbolMap.gidToSym[gid]? = some (.recordField id) ∧
          (∃ idNode identifierNode fieldLet,
            coveringElement (an.ws.tree file) loc.start loc.stop = .ok idNode ∧
            identifierNodeOf idNode false = some identifierNode ∧
            identifierNode.parent = some fieldLet ∧ fieldLet.here.kind = .FieldLet) ∧
          x.position = loc.stop ∧ x.label = ":" ++ (idx.symbolMap.recordField id).typ.toStr)) := by
  obtain ⟨hlo, hhi⟩ := inlay_hints_inside_request an file a b hints h x hx
  obtain ⟨idx, e, hidx, he, hcase⟩ := inlay_hint_origin an file a b hab hints h x hx
  obtain ⟨hfile, hreg⟩ := fileSymbols_registered an hc idx hidx file e he
  refine ⟨idx, e.1, e.2, hidx, hfile, hreg, hlo, hhi, ?_⟩
  rcases hcase with ⟨id, hs, hg, hk, hcls, hxs⟩ | ⟨id, hs, hg, hmc, hxs⟩ | ⟨id, hs, hg, hfl, hxs⟩
  · left
    obtain ⟨argList, hargs, hlen, hall⟩ := positional_arg_hint an idx.symbolMap _ _ hs hcls
    obtain ⟨k, hk', rfl⟩ := List.getElem_of_mem hxs
    obtain ⟨arg, name, h1, h2, h3, h4⟩ := hall k hk'
    exact ⟨_, argList, k, arg, name, Or.inl ⟨id, hg, hk, rfl⟩, hargs, h1, h2, h3, h4⟩
  · left
    obtain ⟨argList, hargs, hlen, hall⟩ := template_arg_hint an _ _ hs hmc
    obtain ⟨k, hk', rfl⟩ := List.getElem_of_mem hxs
    obtain ⟨arg, name, h1, h2, h3, h4⟩ := hall k hk'
    exact ⟨_, argList, k, arg, name, Or.inr ⟨id, hg, rfl⟩, hargs, h1, h2, h3, h4⟩
  · right
    obtain ⟨hnav, hint, rfl, hp, hl⟩ := inlayHintRecordField_spec an _ _ hs hfl
    simp only [List.mem_singleton] at hxs
    subst hxs
    exact ⟨id, hg, hnav, hp, hl⟩

theorem qsort_singleton {α : Type} (x : α) (lt : α → α → Bool) : #[x].qsort lt = #[x] := by
  have hs : (#[x].qsort lt).size = 1 := by simp [Array.qsort]
  have hm : ∀ y, y ∈ #[x].qsort lt → y = x := fun y hy => by
    simpa using (Tg.QSort.mem_qsort _ _ _).1 hy
  apply Array.ext
  · simpa using hs
  · intro i h1 h2
    have : i = 0 := by omega
    subst this
    exact hm _ (Array.getElem_mem _)

def e2Sm : SymMap :=
  (((SymMap.addTemplateArgument {} { name := "x", typ := .int, hasDefaultValue := false, defineLoc := ⟨1, 12, 13⟩ }).2.addRecord
    { name := "A", kind := .cls, nameToTemplateArg := #[("x", 0)], defineLoc := ⟨1, 6, 7⟩ } false).2).addReference (.record 0) ⟨0, 0, 1⟩

def e2An : Analysis :=
  { ws := exWs, index := .ok { symbolMap := e2Sm, diagnostics := #[] },
    symState := Thunk.mk fun _ => run e2Sm.ops.toList }

theorem e2An_coherent : Coherent e2An := by
  intro idx h
  cases h
  exact ⟨rfl, ((LogOK.empty.addTemplateArgument _).addRecord _ _).addReference _ _⟩

theorem qsort_of_eq_singleton {α : Type} (as : Array α) (x : α) (lt : α → α → Bool) (h : as = #[x]) :
    (as.qsort lt).toList = [x] := by
  subst h; rw [qsort_singleton]

theorem e2_fileSymbols : fileSymbols e2An 0 = [(⟨0, 0, 1⟩, 1)] := by
  unfold fileSymbols symbolsInRange
  exact qsort_of_eq_singleton _ _ _ (by decide +kernel)

/-- non-vacuity of `inlay_hint_end_to_end`: a coherent analysis with one hint (the position map is the
run of the hook log `define x; define A; reference A @ 0..1`) -/
theorem e2_hints : inlayHintExec e2An 0 0 4 =
    .ok (some [{ position := 2, label := "x" ++ ":", kind := .templateArg }]) := by
  rw [inlayHintExec_eq, e2_fileSymbols]
  show (if 4 ≤ 0 then _ else _) = _
  rw [if_neg (by decide)]
  rw [if_neg (by decide +kernel)]
  have : List.mapM (entryHints e2An e2Sm 0) [(⟨0, 0, 1⟩, 1)] =
      .ok [[{ position := 2, label := "x" ++ ":", kind := .templateArg }]] := by
    rfl
  simp only [this]
  rfl

example := inlay_hint_end_to_end e2An e2An_coherent 0 0 4 (by decide) _ e2_hints _ (List.mem_singleton.2 rfl)

end endToEnd


/-! ## Hover shows the declared type -/

/-- the signature hover prints is the signature of the symbol found at the position -/
theorem hover_signature (an : Analysis) (file pos : Nat) (hv : Hover)
    (h : hoverExec an file pos = .ok (some hv)) :
    ∃ idx s, an.index = .ok idx ∧ findSymbolAt an idx.symbolMap file pos = some s ∧
      hv.signature = symbolSignature idx.symbolMap s := by
  rw [hoverExec_eq] at h
  split at h
  · cases h
  · rename_i idx hidx
    split at h
    · cases h
    · rename_i s hs
      split at h
      · cases h
      · cases h
        exact ⟨idx, s, hidx, hs, rfl⟩

/-- the signature of a field prints the type stored in its arena entry -/
theorem signature_field (sm : SymMap) (id : Nat) (fld : RecordField) (h : sm.recordFieldList[id]? = some fld) :
    symbolSignature sm (.recordField id) =
      fld.typ.toStr ++ " " ++ (sm.record fld.parent).name ++ "::" ++ fld.name := by
  simp only [symbolSignature, SymMap.recordField, getElem!_of_getElem? _ _ _ h]

theorem signature_templateArg (sm : SymMap) (id : Nat) (arg : TemplateArgument)
    (h : sm.templateArgList[id]? = some arg) :
    symbolSignature sm (.templateArgument id) = arg.typ.toStr ++ " " ++ arg.name := by
  simp only [symbolSignature, SymMap.templateArg, getElem!_of_getElem? _ _ _ h]

theorem signature_var (sm : SymMap) (id : Nat) (v : Variable) (h : sm.variableList[id]? = some v) :
    symbolSignature sm (.var id) = v.typ.toStr ++ " " ++ v.name := by
  simp only [symbolSignature, SymMap.var, getElem!_of_getElem? _ _ _ h]

/-- **hover shows the declared type of a field**: when the indexer (`Index.mkRec (fuel+1)`, whose
`typ` is `indexType`) runs `indexFieldDef` on a `FieldDef` node from `c` to `c'`, then - unless the
declaration is incomplete or its type does not resolve - the field symbol it allocates (`id`) has, in
every later symbol map `sm` (`ArenaKeep c'.symbolMap sm`: all indexer functions only append to the
typed arenas, `mkRec_typRel`), the signature `<ty> <record>::<name>` where `ty` is the `Ty` that
`indexType` returned on the declaration's type node -/
theorem hover_signature_of_declared_type (fuel : Nat) (n : PTree) (c c' : IndexCtx)
    (h : (Index.indexFieldDef (Index.mkRec (fuel + 1)) n).run c = .ok ((), c'))
    (sm : SymMap) (hlater : ArenaKeep c'.symbolMap sm) :
    (Ast.fieldDefName n = none ∨ Ast.fieldDefType n = none ∨
      (∃ nameNode c1, Ast.fieldDefName n = some nameNode ∧ (utilsIdentifier nameNode).run c = .ok (none, c1)) ∨
      (∃ typNode c1 c2, Ast.fieldDefType n = some typNode ∧
        (Index.indexType (Index.mkRec fuel) typNode).run c1 = .ok (none, c2))) ∨
    ∃ nameNode name loc typNode ty c1 c2 id,
      Ast.fieldDefName n = some nameNode ∧ (utilsIdentifier nameNode).run c = .ok (some (name, loc), c1) ∧
      Ast.fieldDefType n = some typNode ∧
      (Index.indexType (Index.mkRec fuel) typNode).run c1 = .ok (some ty, c2) ∧
      id = c2.symbolMap.recordFieldList.size ∧
      symbolDefineLoc sm (.recordField id) = loc ∧
      symbolSignature sm (.recordField id) =
        ty.toStr ++ " " ++ (sm.record (sm.recordField id).parent).name ++ "::" ++ name := by
  rcases indexFieldDef_typ (mkRec_typRel (fuel + 1)).1 n c c' h with hl | hr
  · exact Or.inl hl
  · obtain ⟨nameNode, name, loc, typNode, typ, c1, c2, fld, h1, h2, h3, h4, h5, rfl, rfl, rfl⟩ := hr
    have h6 := hlater.1 _ _ h5
    refine Or.inr ⟨nameNode, _, _, typNode, _, c1, c2, _, h1, h2, h3, h4, rfl, ?_, ?_⟩
    · simp only [symbolDefineLoc, SymMap.recordField, getElem!_of_getElem? _ _ _ h6]
    · rw [signature_field sm _ fld h6]
      simp only [SymMap.recordField, getElem!_of_getElem? _ _ _ h6]

/-- the same for a template argument: `<ty> <name>` -/
theorem hover_signature_of_declared_type_templateArg (fuel : Nat) (n : PTree) (c c' : IndexCtx)
    (h : (Index.indexTemplateArgDecl (Index.mkRec (fuel + 1)) n).run c = .ok ((), c'))
    (sm : SymMap) (hlater : ArenaKeep c'.symbolMap sm) :
    (Ast.templateArgDeclName n = none ∨ Ast.templateArgDeclType n = none ∨
      (∃ nameNode c1, Ast.templateArgDeclName n = some nameNode ∧ (utilsIdentifier nameNode).run c = .ok (none, c1)) ∨
      (∃ typNode c1 c2, Ast.templateArgDeclType n = some typNode ∧
        (Index.indexType (Index.mkRec fuel) typNode).run c1 = .ok (none, c2))) ∨
    ∃ nameNode name loc typNode ty c1 c2 id,
      Ast.templateArgDeclName n = some nameNode ∧ (utilsIdentifier nameNode).run c = .ok (some (name, loc), c1) ∧
      Ast.templateArgDeclType n = some typNode ∧
      (Index.indexType (Index.mkRec fuel) typNode).run c1 = .ok (some ty, c2) ∧
      id = c2.symbolMap.templateArgList.size ∧
      symbolDefineLoc sm (.templateArgument id) = loc ∧
      symbolSignature sm (.templateArgument id) = ty.toStr ++ " " ++ name := by
  rcases indexTemplateArgDecl_typ (mkRec_typRel (fuel + 1)).1 n c c' h with hl | hr
  · exact Or.inl hl
  · obtain ⟨nameNode, name, loc, typNode, typ, c1, c2, arg, h1, h2, h3, h4, h5, rfl, rfl, rfl⟩ := hr
    have h6 := hlater.2.1 _ _ h5
    refine Or.inr ⟨nameNode, _, _, typNode, _, c1, c2, _, h1, h2, h3, h4, rfl, ?_, ?_⟩
    · simp only [symbolDefineLoc, SymMap.templateArg, getElem!_of_getElem? _ _ _ h6]
    · exact signature_templateArg sm _ arg h6

/-- a `defvar` has no type node: hover shows the type the indexer computed for its initialiser
(`indexValue`), `unknown` if there is none -/
theorem hover_signature_of_declared_type_defvar (fuel : Nat) (n : PTree) (c c' : IndexCtx)
    (h : (Index.indexDefvar (Index.mkRec (fuel + 1)) n).run c = .ok ((), c'))
    (sm : SymMap) (hlater : ArenaKeep c'.symbolMap sm) :
    (Ast.defvarName n = none ∨ Ast.defvarValue n = none ∨
      (∃ nameNode c1, Ast.defvarName n = some nameNode ∧ (utilsIdentifier nameNode).run c = .ok (none, c1))) ∨
    ∃ nameNode name loc value ty c1 c2 id,
      Ast.defvarName n = some nameNode ∧ (utilsIdentifier nameNode).run c = .ok (some (name, loc), c1) ∧
      Ast.defvarValue n = some value ∧
      (Index.indexValue (Index.mkRec fuel) value).run c1 = .ok (ty, c2) ∧
      id = c2.symbolMap.variableList.size ∧
      symbolDefineLoc sm (.var id) = loc ∧
      symbolSignature sm (.var id) = (ty.getD .unknown).toStr ++ " " ++ name := by
  rcases indexDefvar_typ n c c' h with hl | hr
  · exact Or.inl hl
  · obtain ⟨nameNode, name, loc, value, typ, c1, c2, v, h1, h2, h3, h4, h5, rfl, h7, rfl⟩ := hr
    have h6 := hlater.2.2 _ _ h5
    refine Or.inr ⟨nameNode, _, _, value, typ, c1, c2, _, h1, h2, h3, h4, rfl, ?_, ?_⟩
    · simp only [symbolDefineLoc, SymMap.var, getElem!_of_getElem? _ _ _ h6]
    · rw [signature_var sm _ v h6, h7]

/-- `int x;` inside a record body -/
def fdTree : PTree :=
  .node .FieldDef 0 6 2 #[
    .node .IntType 0 4 1 #[.token .Int 0 3 "int", .token .Whitespace 3 4 " "],
    .node .Identifier 4 5 1 #[.token .Id 4 5 "x"],
    .token .Semi 5 6 ";"]

def fdCtx : IndexCtx :=
  { ws := exWs, fileTrace := [0], indexedFiles := [0],
    symbolMap := (SymMap.addRecord {} { name := "A", kind := .cls, defineLoc := ⟨0, 0, 0⟩ } false).2,
    scopes := ({} : Scopes).push (.record 0) }

/-- non-vacuity of `hover_signature_of_declared_type`: the run succeeds, and it is the second
alternative that holds (`int A::x`) -/
example : ∃ c', (Index.indexFieldDef (Index.mkRec 1) fdTree).run fdCtx = .ok ((), c') ∧
    symbolSignature c'.symbolMap (.recordField 0) = "int A::x" := by
  refine ⟨_, rfl, ?_⟩
  decide +kernel


/-! ### … without the hypothesis on later states: declarations in the root file of an indexed workspace

The indexer visits (`VisitsA`, `Lemmas/Sem10Visits.lean`) every body item of a `class` / `def` statement of
the root file and every template parameter declaration of a `class` statement, and everything it does
afterwards only appends to the typed arenas (`mkRec_typRel`): the `ArenaKeep` hypothesis of the three
theorems above holds for the final symbol map `res.symbolMap`. -/

/-- **hover shows the declared type of a field, on the final index**: for a field definition `item` in the
body of a `class` / `def` statement `s` of the root file (`InClass` / `InDef`: static conditions on the
tree), the indexer runs `indexFieldDef` on it, in the root file, and the conclusion of
`hover_signature_of_declared_type` holds for the symbol map of the result -/
theorem hover_signature_of_declared_type_root {ws : Workspace} {res : Index.IndexResult}
    (hr : Index.index ws = .ok res) (sf sl : PTree) (hsf : Ast.sourceFileCast (ws.tree ws.root) = some sf)
    (hsl : Ast.sourceFileStatementList sf = some sl) (spre : List PTree) (s : PTree) (spost : List PTree)
    (hsplit : Ast.statementListStatements sl = spre ++ s :: spost) (item : PTree)
    (hu : InClass s item ∨ InDef s item) (hk : item.kind = .FieldDef) :
    ∃ fuel c c', c.fileTrace = [ws.root] ∧
      (Index.indexFieldDef (Index.mkRec (fuel + 1)) item).run c = .ok ((), c') ∧
      ((Ast.fieldDefName item = none ∨ Ast.fieldDefType item = none ∨
        (∃ nameNode c1, Ast.fieldDefName item = some nameNode ∧ (utilsIdentifier nameNode).run c = .ok (none, c1)) ∨
        (∃ typNode c1 c2, Ast.fieldDefType item = some typNode ∧
          (Index.indexType (Index.mkRec fuel) typNode).run c1 = .ok (none, c2))) ∨
      ∃ nameNode name loc typNode ty c1 c2 id,
        Ast.fieldDefName item = some nameNode ∧ (utilsIdentifier nameNode).run c = .ok (some (name, loc), c1) ∧
        Ast.fieldDefType item = some typNode ∧
        (Index.indexType (Index.mkRec fuel) typNode).run c1 = .ok (some ty, c2) ∧
        id = c2.symbolMap.recordFieldList.size ∧
        symbolDefineLoc res.symbolMap (.recordField id) = loc ∧
        symbolSignature res.symbolMap (.recordField id) =
          ty.toStr ++ " " ++ (res.symbolMap.record (res.symbolMap.recordField id).parent).name ++ "::" ++ name) := by
  obtain ⟨j, c, b, c', cfin, hft, _, hrun, hlater, hfin⟩ :=
    index_visitsA (A := TypRel) (site := fun j => Index.indexFieldDef (Index.mkRec (j + 1)) item) hr sf sl hsf hsl
      (fun j => statementList_visitsA j sl spre s spost hsplit
        (statement_item_visitsA j s item hu (by
          unfold Index.indexBodyItem
          simp only [hk]
          exact VisitsA.self _)))
  cases b
  have hl : ArenaKeep c'.symbolMap res.symbolMap := by rw [← hfin]; exact hlater
  exact ⟨j, c, c', hft, hrun, hover_signature_of_declared_type j item c c' hrun res.symbolMap hl⟩

/-- the same for a template parameter declaration `d` of a `class` statement of the root file -/
theorem hover_signature_of_declared_type_templateArg_root {ws : Workspace} {res : Index.IndexResult}
    (hr : Index.index ws = .ok res) (sf sl : PTree) (hsf : Ast.sourceFileCast (ws.tree ws.root) = some sf)
    (hsl : Ast.sourceFileStatementList sf = some sl) (spre : List PTree) (s : PTree) (spost : List PTree)
    (hsplit : Ast.statementListStatements sl = spre ++ s :: spost) (d : PTree) (hu : ParamOfClass s d) :
    ∃ fuel c c', c.fileTrace = [ws.root] ∧
      (Index.indexTemplateArgDecl (Index.mkRec (fuel + 1)) d).run c = .ok ((), c') ∧
      ((Ast.templateArgDeclName d = none ∨ Ast.templateArgDeclType d = none ∨
        (∃ nameNode c1, Ast.templateArgDeclName d = some nameNode ∧ (utilsIdentifier nameNode).run c = .ok (none, c1)) ∨
        (∃ typNode c1 c2, Ast.templateArgDeclType d = some typNode ∧
          (Index.indexType (Index.mkRec fuel) typNode).run c1 = .ok (none, c2))) ∨
      ∃ nameNode name loc typNode ty c1 c2 id,
        Ast.templateArgDeclName d = some nameNode ∧ (utilsIdentifier nameNode).run c = .ok (some (name, loc), c1) ∧
        Ast.templateArgDeclType d = some typNode ∧
        (Index.indexType (Index.mkRec fuel) typNode).run c1 = .ok (some ty, c2) ∧
        id = c2.symbolMap.templateArgList.size ∧
        symbolDefineLoc res.symbolMap (.templateArgument id) = loc ∧
        symbolSignature res.symbolMap (.templateArgument id) = ty.toStr ++ " " ++ name) := by
  obtain ⟨j, c, b, c', cfin, hft, _, hrun, hlater, hfin⟩ :=
    index_visitsA (A := TypRel) (site := fun j => Index.indexTemplateArgDecl (Index.mkRec (j + 1)) d) hr sf sl hsf hsl
      (fun j => statementList_visitsA j sl spre s spost hsplit (statement_param_visitsA j s d hu))
  cases b
  have hl : ArenaKeep c'.symbolMap res.symbolMap := by rw [← hfin]; exact hlater
  exact ⟨j, c, c', hft, hrun, hover_signature_of_declared_type_templateArg j d c c' hrun res.symbolMap hl⟩

/-- the same for a `defvar` in the body of a `class` / `def` statement of the root file -/
theorem hover_signature_of_declared_type_defvar_root {ws : Workspace} {res : Index.IndexResult}
    (hr : Index.index ws = .ok res) (sf sl : PTree) (hsf : Ast.sourceFileCast (ws.tree ws.root) = some sf)
    (hsl : Ast.sourceFileStatementList sf = some sl) (spre : List PTree) (s : PTree) (spost : List PTree)
    (hsplit : Ast.statementListStatements sl = spre ++ s :: spost) (item : PTree)
    (hu : InClass s item ∨ InDef s item) (hk : item.kind = .Defvar) :
    ∃ fuel c c', c.fileTrace = [ws.root] ∧
      (Index.indexDefvar (Index.mkRec (fuel + 1)) item).run c = .ok ((), c') ∧
      ((Ast.defvarName item = none ∨ Ast.defvarValue item = none ∨
        (∃ nameNode c1, Ast.defvarName item = some nameNode ∧ (utilsIdentifier nameNode).run c = .ok (none, c1))) ∨
      ∃ nameNode name loc value ty c1 c2 id,
        Ast.defvarName item = some nameNode ∧ (utilsIdentifier nameNode).run c = .ok (some (name, loc), c1) ∧
        Ast.defvarValue item = some value ∧
        (Index.indexValue (Index.mkRec fuel) value).run c1 = .ok (ty, c2) ∧
        id = c2.symbolMap.variableList.size ∧
        symbolDefineLoc res.symbolMap (.var id) = loc ∧
        symbolSignature res.symbolMap (.var id) = (ty.getD .unknown).toStr ++ " " ++ name) := by
  obtain ⟨j, c, b, c', cfin, hft, _, hrun, hlater, hfin⟩ :=
    index_visitsA (A := TypRel) (site := fun j => Index.indexDefvar (Index.mkRec (j + 1)) item) hr sf sl hsf hsl
      (fun j => statementList_visitsA j sl spre s spost hsplit
        (statement_item_visitsA j s item hu (by
          unfold Index.indexBodyItem
          simp only [hk]
          exact VisitsA.self _)))
  cases b
  have hl : ArenaKeep c'.symbolMap res.symbolMap := by rw [← hfin]; exact hlater
  exact ⟨j, c, c', hft, hrun, hover_signature_of_declared_type_defvar j item c c' hrun res.symbolMap hl⟩


/-- the conclusion of `hover_signature_of_declared_type` for the field definition `item`, indexed from `c` -/
def FieldShown (sm : SymMap) (fuel : Nat) (item : PTree) (c : IndexCtx) : Prop :=
  (Ast.fieldDefName item = none ∨ Ast.fieldDefType item = none ∨
    (∃ nameNode c1, Ast.fieldDefName item = some nameNode ∧ (utilsIdentifier nameNode).run c = .ok (none, c1)) ∨
    (∃ typNode c1 c2, Ast.fieldDefType item = some typNode ∧
      (Index.indexType (Index.mkRec fuel) typNode).run c1 = .ok (none, c2))) ∨
  ∃ nameNode name loc typNode ty c1 c2 id,
    Ast.fieldDefName item = some nameNode ∧ (utilsIdentifier nameNode).run c = .ok (some (name, loc), c1) ∧
    Ast.fieldDefType item = some typNode ∧
    (Index.indexType (Index.mkRec fuel) typNode).run c1 = .ok (some ty, c2) ∧
    id = c2.symbolMap.recordFieldList.size ∧
    symbolDefineLoc sm (.recordField id) = loc ∧
    symbolSignature sm (.recordField id) =
      ty.toStr ++ " " ++ (sm.record (sm.recordField id).parent).name ++ "::" ++ name

/-- the conclusion of `hover_signature_of_declared_type_templateArg` -/
def ParamShown (sm : SymMap) (fuel : Nat) (d : PTree) (c : IndexCtx) : Prop :=
  (Ast.templateArgDeclName d = none ∨ Ast.templateArgDeclType d = none ∨
    (∃ nameNode c1, Ast.templateArgDeclName d = some nameNode ∧ (utilsIdentifier nameNode).run c = .ok (none, c1)) ∨
    (∃ typNode c1 c2, Ast.templateArgDeclType d = some typNode ∧
      (Index.indexType (Index.mkRec fuel) typNode).run c1 = .ok (none, c2))) ∨
  ∃ nameNode name loc typNode ty c1 c2 id,
    Ast.templateArgDeclName d = some nameNode ∧ (utilsIdentifier nameNode).run c = .ok (some (name, loc), c1) ∧
    Ast.templateArgDeclType d = some typNode ∧
    (Index.indexType (Index.mkRec fuel) typNode).run c1 = .ok (some ty, c2) ∧
    id = c2.symbolMap.templateArgList.size ∧
    symbolDefineLoc sm (.templateArgument id) = loc ∧
    symbolSignature sm (.templateArgument id) = ty.toStr ++ " " ++ name

/-- the conclusion of `hover_signature_of_declared_type_defvar` -/
def DefvarShown (sm : SymMap) (fuel : Nat) (item : PTree) (c : IndexCtx) : Prop :=
  (Ast.defvarName item = none ∨ Ast.defvarValue item = none ∨
    (∃ nameNode c1, Ast.defvarName item = some nameNode ∧ (utilsIdentifier nameNode).run c = .ok (none, c1))) ∨
  ∃ nameNode name loc value ty c1 c2 id,
    Ast.defvarName item = some nameNode ∧ (utilsIdentifier nameNode).run c = .ok (some (name, loc), c1) ∧
    Ast.defvarValue item = some value ∧
    (Index.indexValue (Index.mkRec fuel) value).run c1 = .ok (ty, c2) ∧
    id = c2.symbolMap.variableList.size ∧
    symbolDefineLoc sm (.var id) = loc ∧
    symbolSignature sm (.var id) = (ty.getD .unknown).toStr ++ " " ++ name

/-- **built workspaces**: the workspace is indexed (C03), and for the `j`-th body item of the `i`-th statement
of the root file - a `class`, or a `def` that is anonymous or named by one identifier (`stmtItemAt`:
executable) - that is a field definition, hover shows the declared type on the final index -/
theorem hover_signature_of_declared_type_built {vfs : List (String × String)} {rootPath : String}
    {includeDir : Option String} {ws : Workspace} (hb : buildWorkspace vfs rootPath includeDir = .ok ws)
    (i j : Nat) (item : PTree) (hitem : (rootStatement ws i).bind (stmtItemAt · j) = some item)
    (hk : item.kind = .FieldDef) :
    ∃ res, Index.index ws = .ok res ∧ ∃ fuel c c', c.fileTrace = [ws.root] ∧
      (Index.indexFieldDef (Index.mkRec (fuel + 1)) item).run c = .ok ((), c') ∧
      FieldShown res.symbolMap fuel item c := by
  obtain ⟨res, hr⟩ := C03.index_never_panics _ _ _ ws hb
  cases hs : rootStatement ws i with
  | none => rw [hs] at hitem; cases hitem
  | some s =>
    rw [hs] at hitem
    obtain ⟨sf, sl, spre, spost, hsf, hsl, hsplit⟩ := rootStatement_sound hs
    exact ⟨res, hr, hover_signature_of_declared_type_root hr sf sl hsf hsl spre s spost hsplit item
      (stmtItemAt_sound hitem) hk⟩

theorem hover_signature_of_declared_type_templateArg_built {vfs : List (String × String)} {rootPath : String}
    {includeDir : Option String} {ws : Workspace} (hb : buildWorkspace vfs rootPath includeDir = .ok ws)
    (i j : Nat) (d : PTree) (hd : (rootStatement ws i).bind (stmtParamAt · j) = some d) :
    ∃ res, Index.index ws = .ok res ∧ ∃ fuel c c', c.fileTrace = [ws.root] ∧
      (Index.indexTemplateArgDecl (Index.mkRec (fuel + 1)) d).run c = .ok ((), c') ∧
      ParamShown res.symbolMap fuel d c := by
  obtain ⟨res, hr⟩ := C03.index_never_panics _ _ _ ws hb
  cases hs : rootStatement ws i with
  | none => rw [hs] at hd; cases hd
  | some s =>
    rw [hs] at hd
    obtain ⟨sf, sl, spre, spost, hsf, hsl, hsplit⟩ := rootStatement_sound hs
    exact ⟨res, hr, hover_signature_of_declared_type_templateArg_root hr sf sl hsf hsl spre s spost hsplit d
      (stmtParamAt_sound hd)⟩

theorem hover_signature_of_declared_type_defvar_built {vfs : List (String × String)} {rootPath : String}
    {includeDir : Option String} {ws : Workspace} (hb : buildWorkspace vfs rootPath includeDir = .ok ws)
    (i j : Nat) (item : PTree) (hitem : (rootStatement ws i).bind (stmtItemAt · j) = some item)
    (hk : item.kind = .Defvar) :
    ∃ res, Index.index ws = .ok res ∧ ∃ fuel c c', c.fileTrace = [ws.root] ∧
      (Index.indexDefvar (Index.mkRec (fuel + 1)) item).run c = .ok ((), c') ∧
      DefvarShown res.symbolMap fuel item c := by
  obtain ⟨res, hr⟩ := C03.index_never_panics _ _ _ ws hb
  cases hs : rootStatement ws i with
  | none => rw [hs] at hitem; cases hitem
  | some s =>
    rw [hs] at hitem
    obtain ⟨sf, sl, spre, spost, hsf, hsl, hsplit⟩ := rootStatement_sound hs
    exact ⟨res, hr, hover_signature_of_declared_type_defvar_root hr sf sl hsf hsl spre s spost hsplit item
      (stmtItemAt_sound hitem) hk⟩

/-- `class A<int p> { int x; defvar v = 1; }` -/
def hvSource : String := "class A<int p> { int x; defvar v = 1; }\n"

/-- the static hypotheses of the three `_built` theorems hold of the program (checked by evaluation): item 0 of
statement 0 is a field definition, item 1 a `defvar`, and parameter 0 exists -/
theorem hvSource_checked : (match buildWorkspace [("/w/a.td", hvSource)] "/w/a.td" none with
    | .ok ws =>
      (match (rootStatement ws 0).bind (stmtItemAt · 0) with
        | some item => item.kind == .FieldDef
        | none => false) &&
      (match (rootStatement ws 0).bind (stmtItemAt · 1) with
        | some item => item.kind == .Defvar
        | none => false) &&
      ((rootStatement ws 0).bind (stmtParamAt · 0)).isSome
    | .error _ => false) = true := by decide +kernel

/-- non-vacuity: the three theorems apply to the built workspace -/
example : ∃ ws res, buildWorkspace [("/w/a.td", hvSource)] "/w/a.td" none = .ok ws ∧ Index.index ws = .ok res ∧
    (∃ item fuel c c', (Index.indexFieldDef (Index.mkRec (fuel + 1)) item).run c = .ok ((), c') ∧
      FieldShown res.symbolMap fuel item c) ∧
    (∃ d fuel c c', (Index.indexTemplateArgDecl (Index.mkRec (fuel + 1)) d).run c = .ok ((), c') ∧
      ParamShown res.symbolMap fuel d c) ∧
    (∃ item fuel c c', (Index.indexDefvar (Index.mkRec (fuel + 1)) item).run c = .ok ((), c') ∧
      DefvarShown res.symbolMap fuel item c) := by
  have hk := hvSource_checked
  cases hb : buildWorkspace [("/w/a.td", hvSource)] "/w/a.td" none with
  | error e => rw [hb] at hk; cases hk
  | ok ws =>
    rw [hb] at hk
    simp only [Bool.and_eq_true] at hk
    obtain ⟨⟨h1, h2⟩, h3⟩ := hk
    cases hi0 : (rootStatement ws 0).bind (stmtItemAt · 0) with
    | none => rw [hi0] at h1; cases h1
    | some item0 =>
    cases hi1 : (rootStatement ws 0).bind (stmtItemAt · 1) with
    | none => rw [hi1] at h2; cases h2
    | some item1 =>
    obtain ⟨d, hd⟩ := Option.isSome_iff_exists.1 h3
    rw [hi0] at h1
    rw [hi1] at h2
    obtain ⟨res, hr, f0, c0, c0', _, r0, s0⟩ := hover_signature_of_declared_type_built hb 0 0 item0 hi0 (by simpa using h1)
    obtain ⟨res1, hr1, f1, c1, c1', _, r1, s1⟩ := hover_signature_of_declared_type_templateArg_built hb 0 0 d hd
    obtain ⟨res2, hr2, f2, c2, c2', _, r2, s2⟩ := hover_signature_of_declared_type_defvar_built hb 0 1 item1 hi1 (by simpa using h2)
    have e1 : res1 = res := by rw [hr] at hr1; cases hr1; rfl
    have e2 : res2 = res := by rw [hr] at hr2; cases hr2; rfl
    subst e1 e2
    exact ⟨ws, _, rfl, hr, ⟨item0, f0, c0, c0', r0, s0⟩, ⟨d, f1, c1, c1', r1, s1⟩, ⟨item1, f2, c2, c2', r2, s2⟩⟩

end Tg.C19
