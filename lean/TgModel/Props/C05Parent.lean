/-
C05, identifier values in the template-argument values of parent class references (`class C : B<x>`,
`def d : B<x>`): `parent_arg_use_goes_to_declaration` - the use site is visited in a live state, and
go-to-definition / find-references answer the declaration of what `resolve_id` answers there - under the
static side condition that makes the lookup of the class succeed: `B` is declared by an earlier top-level
`class B …` statement of the same file (`Ix11.DeclaresClass`).  Limits: the reference is the FIRST parent
of the record, the argument is positional, and a `class` has no template arguments of its own.
-/
import TgModel.Props.C05Foreach
import TgModel.Lemmas.Ix11ClassRef
import TgModel.Lemmas.Ix12ClassRef

namespace Tg.C05
open Tg Tg.Ide Tg.Bodied
open Tg.Ide.Handlers
open Tg.SymbolMap (Op Loc run refsOf)
open Tg.Ide.Ix10 Tg.Ide.Ix11

theorem parent_arg_use_goes_to_declaration {ws : Workspace} (hw : WsGood ws) {res : Index.IndexResult}
    (hr : Index.index ws = .ok res) (g : Nat) (hg : TopReach ws g) (sf sl : PTree)
    (hsf : Ast.sourceFileCast (ws.tree g) = some sf) (hsl : Ast.sourceFileStatementList sf = some sl)
    (p1 : List PTree) (d : PTree) (p2 : List PTree) (s : PTree) (spost : List PTree)
    (hsplit : Ast.statementListStatements sl = p1 ++ d :: (p2 ++ s :: spost))
    (B : String) (hd : DeclaresClass B d) (id : PTree) (hu : ParentSite B s id) (name : String) (se : Nat × Nat)
    (hiv : Ast.identifierValue id = some name) (hir : Ast.identifierRange id = some se) (hne : name ≠ "") :
    ∃ c t c' rest, c.fileTrace = g :: rest ∧ LiveInv c ∧
      (Index.indexIdentifierValue id).run c = .ok (t, c') ∧ SmLater c'.symbolMap res.symbolMap ∧
      ∀ S, Tg.C13.resolveName c name = some S → ∀ p, se.1 ≤ p → p < se.2 →
        gotoDefinitionExec (Analysis.new ws) g p = .ok (some (symbolDefineLoc res.symbolMap S).toLoc) ∧
        referencesExec (Analysis.new ws) g p =
          .ok (some (refsOf res.symbolMap.ops.toList (c.symbolMap.gidOf S))) ∧
        (⟨g, se.1, se.2⟩ : Loc) ∈ refsOf res.symbolMap.ops.toList (c.symbolMap.gidOf S) := by
  obtain ⟨k, cs, cs', rest, hlive, _, htr, hruns, hla⟩ := file_stmtsRun ws res hr g hg sf sl hsf hsl
  rw [hsplit] at hruns
  obtain ⟨c1, c2, r1, rd, r2⟩ := hruns.split
  obtain ⟨e1, e2, m1, ms, m3⟩ := r2.split
  have hc2 : HasClass B c2 := class_declares k B d hd c1 c2 () rd
  obtain ⟨cv, ct, csl, csf⟩ := mkRec_cls B k
  have he1 : HasClass B e1 :=
    (m1.keeps (R := ClsRel B) (fun x _ => Index.indexStatement_keeps cv ct csl csf x)) hc2
  obtain ⟨c, t, c', hpre, hsite, hl⟩ := statement_parent_visits k B s id hu e1 () e2 he1 ms
  have pp : PreR cs e1 := KeepRel.trans (r1.keeps (fun x _ => statement_preR k x))
    (KeepRel.trans ((statement_preR k d).run _ _ _ rd) (m1.keeps (fun x _ => statement_preR k x)))
  have hlater : SmLater c'.symbolMap res.symbolMap :=
    SmLater.trans hl (SmLater.trans (m3.keeps (fun x _ => statement_later k x)) hla)
  have hft : c.fileTrace = g :: rest := (hpre.2.trans pp.2).trans htr
  have hlv : LiveInv c := (KeepRel.trans pp.1 hpre.1).inv hlive
  refine ⟨c, t, c', rest, hft, hlv, hsite, hlater, fun S hS p h1 h2 => ?_⟩
  exact use_goes_to_declaration_live hw hr id c c' t g rest hft name ⟨g, se.1, se.2⟩
    (identOf_of g id name se hiv hir) hne S hS hlv hsite hlater p h1 h2

/-! ### executable form -/

def classNameOf (d : PTree) : Option String :=
  if d.kind == .Class then
    match Ast.className d with
    | some nn => if identOKB nn then Ast.identifierValue nn else none
    | none => none
  else none

theorem classNameOf_sound {d : PTree} {B : String} (h : classNameOf d = some B) : DeclaresClass B d := by
  unfold classNameOf at h
  split at h
  · rename_i hk
    split at h
    · rename_i nn hnn
      split at h
      · rename_i hok
        obtain ⟨name, se, a, b⟩ := identOKB_sound hok
        rw [a] at h
        cases h
        exact ⟨by simpa using hk, nn, se, hnn, a, b⟩
      · cases h
    · cases h
  · cases h

def argUseId (av : PTree) : Option PTree :=
  if av.kind == .PositionalArgValue then
    match Ast.positionalArgValueValue av with
    | some v => identValueNode v
    | none => none
  else none

theorem argUseId_sound {av id : PTree} (h : argUseId av = some id) : ArgUse av id := by
  unfold argUseId at h
  split at h
  · rename_i hk
    split at h
    · rename_i v hv; exact ⟨by simpa using hk, v, hv, h⟩
    · cases h
  · cases h

/-- class name and identifier of the `ai`-th argument of the class reference -/
def classRefUseId (cref : PTree) (ai : Nat) : Option (String × PTree) :=
  match Ast.classRefName cref, Ast.classRefArgValueList cref with
  | some nn, some l =>
    match Ast.identifierValue nn, Ast.identifierRange nn, (Ast.argValueListArgValues l)[ai]? with
    | some B, some _, some av =>
      match argUseId av with
      | some id => some (B, id)
      | none => none
    | _, _, _ => none
  | _, _ => none

theorem classRefUseId_sound {cref id : PTree} {ai : Nat} {B : String} (h : classRefUseId cref ai = some (B, id)) :
    ClassRefUse B cref id := by
  unfold classRefUseId at h
  split at h
  · rename_i nn l hnn hl
    split at h
    · rename_i B' se av hiv hir hav
      split at h
      · rename_i id' hid
        cases h
        exact ⟨⟨nn, se, hnn, hiv, hir⟩, l, _, av, _, hl, split_take_drop _ _ _ hav, argUseId_sound hid⟩
      · cases h
    · cases h
  · cases h

def parentUseId (rb : PTree) (ai : Nat) : Option (String × PTree) :=
  match Ast.recordBodyParentClassList rb with
  | some pcl =>
    match Ast.parentClassListClasses pcl with
    | cref :: _ => classRefUseId cref ai
    | [] => none
  | none => none

theorem parentUseId_sound {rb id : PTree} {ai : Nat} {B : String} (h : parentUseId rb ai = some (B, id)) :
    ParentUse B rb id := by
  unfold parentUseId at h
  split at h
  · rename_i pcl hp
    split at h
    · rename_i cref cpost hcl
      exact ⟨pcl, cref, cpost, hp, hcl, classRefUseId_sound h⟩
    · cases h
  · cases h

def stmtParentUse (s : PTree) (ai : Nat) : Option (String × PTree) :=
  if s.kind == .Class then
    match Ast.className s, Ast.classTemplateArgList s, Ast.classRecordBody s with
    | some nn, none, some rb => if identOKB nn then parentUseId rb ai else none
    | _, _, _ => none
  else if s.kind == .Def then
    match Ast.defRecordBody s with
    | some rb => if defNameOKB s then parentUseId rb ai else none
    | none => none
  else none

theorem stmtParentUse_sound {s id : PTree} {ai : Nat} {B : String} (h : stmtParentUse s ai = some (B, id)) :
    ParentSite B s id := by
  unfold stmtParentUse at h
  split at h
  · rename_i hk
    split at h
    · rename_i nn rb hnn hta hrb
      split at h
      · rename_i hok
        obtain ⟨name, se, a, b⟩ := identOKB_sound hok
        exact .cls ⟨by simpa using hk, ⟨nn, name, se, hnn, a, b⟩, hta, rb, hrb, parentUseId_sound h⟩
      · cases h
    · cases h
  · split at h
    · rename_i hk
      split at h
      · rename_i rb hrb
        split at h
        · rename_i hok
          exact .def_ ⟨by simpa using hk, defNameOKB_sound hok, rb, hrb, parentUseId_sound h⟩
        · cases h
      · cases h
    · cases h

/-- in the file reached by `incs`: the `ai`-th template-argument value of the first parent class reference
`B<…>` of the `i`-th statement is an identifier, and an earlier statement of the file declares the class `B` -/
def parentUse (ws : Workspace) (incs : List Nat) (i ai : Nat) : Option (Nat × PTree × String × (Nat × Nat)) :=
  match fileStmts ws incs with
  | none => none
  | some (g, sl) =>
    match (Ast.statementListStatements sl)[i]? with
    | none => none
    | some s =>
      match stmtParentUse s ai with
      | none => none
      | some (B, id) =>
        if ((Ast.statementListStatements sl).take i).any (fun d => classNameOf d == some B) then
          match Ast.identifierValue id, Ast.identifierRange id with
          | some name, some se => if name ≠ "" then some (g, id, name, se) else none
          | _, _ => none
        else none

theorem parent_arg_use_goes_to_declarationB {ws : Workspace} (hw : WsGood ws) {res : Index.IndexResult}
    (hr : Index.index ws = .ok res) (incs : List Nat) (i ai : Nat) (g : Nat) (id : PTree) (name : String)
    (se : Nat × Nat) (h : parentUse ws incs i ai = some (g, id, name, se)) :
    ∃ c t c' rest, c.fileTrace = g :: rest ∧ LiveInv c ∧
      (Index.indexIdentifierValue id).run c = .ok (t, c') ∧ SmLater c'.symbolMap res.symbolMap ∧
      ∀ S, Tg.C13.resolveName c name = some S → ∀ p, se.1 ≤ p → p < se.2 →
        gotoDefinitionExec (Analysis.new ws) g p = .ok (some (symbolDefineLoc res.symbolMap S).toLoc) ∧
        referencesExec (Analysis.new ws) g p =
          .ok (some (refsOf res.symbolMap.ops.toList (c.symbolMap.gidOf S))) ∧
        (⟨g, se.1, se.2⟩ : Loc) ∈ refsOf res.symbolMap.ops.toList (c.symbolMap.gidOf S) := by
  unfold parentUse at h
  split at h
  · cases h
  · rename_i g' sl hfs
    obtain ⟨hg, sf, hsf, hsl⟩ := fileStmts_sound hfs
    split at h
    · cases h
    · rename_i s hs
      split at h
      · cases h
      · rename_i B id' hpu
        split at h
        · rename_i hany
          split at h
          · rename_i name' se' hv hrg
            split at h
            · rename_i hne
              cases h
              obtain ⟨d, hdm, hdn⟩ := List.any_eq_true.1 hany
              obtain ⟨p1, p2, hp⟩ := List.append_of_mem hdm
              have hsplit := split_take_drop _ _ _ hs
              rw [hp, List.append_assoc, List.cons_append] at hsplit
              exact parent_arg_use_goes_to_declaration hw hr g hg sf sl hsf hsl p1 d p2 s _ hsplit B
                (classNameOf_sound (by simpa using hdn)) id (stmtParentUse_sound hpu) name se hv hrg hne
            · cases h
          · cases h
        · cases h

/-- `parentUse` on the workspace built from `vfs` (root `/a.td`), without the tree -/
def parentUseOf (vfs : List (String × String)) (incs : List Nat) (i ai : Nat) : Option (Nat × String × (Nat × Nat)) :=
  match buildWorkspace vfs "/a.td" none with
  | .ok ws => (parentUse ws incs i ai).map fun x => (x.1, x.2.2)
  | .error _ => none

/-- non-vacuity, in an included file: `class B<int a>;  defvar x = 1;  class C : B<x>;  def d : B<x>;` -/
example : parentUseOf [("/a.td", "include \"b.td\"\n"),
      ("/b.td", "class B<int a>;\ndefvar x = 1;\nclass C : B<x>;\ndef d : B<x>;\n")] [0] 2 0 =
    some (1, "x", (42, 43)) := by
  decide +kernel

example : parentUseOf [("/a.td", "include \"b.td\"\n"),
      ("/b.td", "class B<int a>;\ndefvar x = 1;\nclass C : B<x>;\ndef d : B<x>;\n")] [0] 3 0 =
    some (1, "x", (56, 57)) := by
  decide +kernel

/-! ## the limits lifted (built workspaces)

`parent_arg_use_goes_to_declaration_wide`: any parent of the list, positional or named argument
(`B<x>`, `B<a = x>`), and a `class` statement may have template arguments of its own
(`class C<int p> : A, B<x>;`) - on a workspace built by `buildWorkspace` (its trees are bodied, so the
values and types of the template argument list leave the scope stack as it is). -/

open Tg.Ide.Ix12

theorem parent_arg_use_goes_to_declaration_wide {vfs : List (String × String)} {rootPath : String}
    {inc : Option String} {ws : Workspace} (hws : buildWorkspace vfs rootPath inc = .ok ws)
    {res : Index.IndexResult} (hr : Index.index ws = .ok res) (g : Nat) (hg : TopReach ws g) (sf sl : PTree)
    (hsf : Ast.sourceFileCast (ws.tree g) = some sf) (hsl : Ast.sourceFileStatementList sf = some sl)
    (p1 : List PTree) (d : PTree) (p2 : List PTree) (s : PTree) (spost : List PTree)
    (hsplit : Ast.statementListStatements sl = p1 ++ d :: (p2 ++ s :: spost))
    (B : String) (hd : DeclaresClass B d) (id : PTree) (hu : ParentSiteW B s id) (name : String) (se : Nat × Nat)
    (hiv : Ast.identifierValue id = some name) (hir : Ast.identifierRange id = some se) (hne : name ≠ "") :
    ∃ c t c' rest, c.fileTrace = g :: rest ∧ LiveInv c ∧
      (Index.indexIdentifierValue id).run c = .ok (t, c') ∧ SmLater c'.symbolMap res.symbolMap ∧
      ∀ S, Tg.C13.resolveName c name = some S → ∀ p, se.1 ≤ p → p < se.2 →
        gotoDefinitionExec (Analysis.new ws) g p = .ok (some (symbolDefineLoc res.symbolMap S).toLoc) ∧
        referencesExec (Analysis.new ws) g p =
          .ok (some (refsOf res.symbolMap.ops.toList (c.symbolMap.gidOf S))) ∧
        (⟨g, se.1, se.2⟩ : Loc) ∈ refsOf res.symbolMap.ops.toList (c.symbolMap.gidOf S) := by
  have hb := buildWorkspace_bodied hws
  have hw := built_wsGood hws
  obtain ⟨k, cs, cs', rest, hlive, hcws, htr, hruns, hla⟩ := file_stmtsRun ws res hr g hg sf sl hsf hsl
  rw [hsplit] at hruns
  obtain ⟨c1, c2, r1, rd, r2⟩ := hruns.split
  obtain ⟨e1, e2, m1, ms, m3⟩ := r2.split
  have hc2 : HasClass B c2 := class_declares k B d hd c1 c2 () rd
  obtain ⟨cv, ct, csl, csf⟩ := mkRec_cls B k
  have he1 : HasClass B e1 :=
    (m1.keeps (R := ClsRel B) (fun x _ => Index.indexStatement_keeps cv ct csl csf x)) hc2
  have ae : AttrRel cs e1 := KeepRel.trans (r1.keeps (fun x _ => statement_attr k x))
    (KeepRel.trans ((statement_attr k d).run _ _ _ rd) (m1.keeps (fun x _ => statement_attr k x)))
  have hews : e1.ws = ws := ae.ws.trans hcws
  obtain ⟨c, t, c', hpre, hsite, hl⟩ := statement_parent_visitsW k hb B s id hu e1 () e2 ⟨he1, hews⟩ ms
  have pp : PreR cs e1 := KeepRel.trans (r1.keeps (fun x _ => statement_preR k x))
    (KeepRel.trans ((statement_preR k d).run _ _ _ rd) (m1.keeps (fun x _ => statement_preR k x)))
  have hlater : SmLater c'.symbolMap res.symbolMap :=
    SmLater.trans hl (SmLater.trans (m3.keeps (fun x _ => statement_later k x)) hla)
  have hft : c.fileTrace = g :: rest := (hpre.2.trans pp.2).trans htr
  have hlv : LiveInv c := (KeepRel.trans pp.1 hpre.1).inv hlive
  refine ⟨c, t, c', rest, hft, hlv, hsite, hlater, fun S hS p h1 h2 => ?_⟩
  exact use_goes_to_declaration_live hw hr id c c' t g rest hft name ⟨g, se.1, se.2⟩
    (identOf_of g id name se hiv hir) hne S hS hlv hsite hlater p h1 h2

/-! ### executable form -/

def namedArgUseId (av : PTree) : Option PTree :=
  if av.kind == .NamedArgValue then
    match Ast.namedArgValueName av, Ast.namedArgValueValue av with
    | some nameValue, some v =>
      match (Ast.valueInnerValues nameValue).head? with
      | some inner =>
        match Ast.innerValueSimpleValue inner with
        | some sv => if sv.kind == .Identifier && (Ast.identifierValue sv).isSome then identValueNode v else none
        | none => none
      | none => none
    | _, _ => none
  else none

theorem namedArgUseId_sound {av id : PTree} (h : namedArgUseId av = some id) : NamedArgUse av id := by
  unfold namedArgUseId at h
  split at h
  · rename_i hk
    split at h
    · rename_i nameValue v h1 hv
      split at h
      · rename_i inner h2
        split at h
        · rename_i sv h3
          split at h
          · rename_i hc
            simp only [Bool.and_eq_true, beq_iff_eq, Option.isSome_iff_exists] at hc
            obtain ⟨h4, nm, h5⟩ := hc
            exact ⟨by simpa using hk, ⟨nameValue, inner, sv, nm, h1, h2, h3, h4, h5⟩, v, hv, h⟩
          · cases h
        · cases h
      · cases h
    · cases h
  · cases h

def anyArgUseId (av : PTree) : Option PTree :=
  match argUseId av with
  | some id => some id
  | none => namedArgUseId av

theorem anyArgUseId_sound {av id : PTree} (h : anyArgUseId av = some id) : AnyArgUse av id := by
  unfold anyArgUseId at h
  split at h
  · rename_i x hx; cases h; exact .positional (argUseId_sound hx)
  · exact .named (namedArgUseId_sound h)

def classRefUseIdW (cref : PTree) (ai : Nat) : Option (String × PTree) :=
  match Ast.classRefName cref, Ast.classRefArgValueList cref with
  | some nn, some l =>
    match Ast.identifierValue nn, Ast.identifierRange nn, (Ast.argValueListArgValues l)[ai]? with
    | some B, some _, some av =>
      match anyArgUseId av with
      | some id => some (B, id)
      | none => none
    | _, _, _ => none
  | _, _ => none

theorem classRefUseIdW_sound {cref id : PTree} {ai : Nat} {B : String} (h : classRefUseIdW cref ai = some (B, id)) :
    ClassRefUseW B cref id := by
  unfold classRefUseIdW at h
  split at h
  · rename_i nn l hnn hl
    split at h
    · rename_i B' se av hiv hir hav
      split at h
      · rename_i id' hid
        cases h
        exact ⟨⟨nn, se, hnn, hiv, hir⟩, l, _, av, _, hl, split_take_drop _ _ _ hav, anyArgUseId_sound hid⟩
      · cases h
    · cases h
  · cases h

/-- class name and identifier of the `ai`-th argument of the `ci`-th parent class reference -/
def parentUseIdW (rb : PTree) (ci ai : Nat) : Option (String × PTree) :=
  match Ast.recordBodyParentClassList rb with
  | some pcl =>
    match (Ast.parentClassListClasses pcl)[ci]? with
    | some cref => classRefUseIdW cref ai
    | none => none
  | none => none

theorem parentUseIdW_sound {rb id : PTree} {ci ai : Nat} {B : String} (h : parentUseIdW rb ci ai = some (B, id)) :
    ParentUseW B rb id := by
  unfold parentUseIdW at h
  split at h
  · rename_i pcl hp
    split at h
    · rename_i cref hc
      exact ⟨pcl, _, cref, _, hp, split_take_drop _ _ _ hc, classRefUseIdW_sound h⟩
    · cases h
  · cases h

def stmtParentUseW (s : PTree) (ci ai : Nat) : Option (String × PTree) :=
  if s.kind == .Class then
    match Ast.className s, Ast.classRecordBody s with
    | some nn, some rb => if identOKB nn then parentUseIdW rb ci ai else none
    | _, _ => none
  else if s.kind == .Def then
    match Ast.defRecordBody s with
    | some rb => if defNameOKB s then parentUseIdW rb ci ai else none
    | none => none
  else none

theorem stmtParentUseW_sound {s id : PTree} {ci ai : Nat} {B : String} (h : stmtParentUseW s ci ai = some (B, id)) :
    ParentSiteW B s id := by
  unfold stmtParentUseW at h
  split at h
  · rename_i hk
    split at h
    · rename_i nn rb hnn hrb
      split at h
      · rename_i hok
        obtain ⟨name, se, a, b⟩ := identOKB_sound hok
        exact .cls ⟨by simpa using hk, ⟨nn, name, se, hnn, a, b⟩, rb, hrb, parentUseIdW_sound h⟩
      · cases h
    · cases h
  · split at h
    · rename_i hk
      split at h
      · rename_i rb hrb
        split at h
        · rename_i hok
          exact .def_ ⟨by simpa using hk, defNameOKB_sound hok, rb, hrb, parentUseIdW_sound h⟩
        · cases h
      · cases h
    · cases h

/-- in the file reached by `incs`: the `ai`-th template-argument value (positional or named) of the `ci`-th
parent class reference `B<…>` of the `i`-th statement is an identifier, and an earlier statement of the file
declares the class `B` -/
def parentUseAt (ws : Workspace) (incs : List Nat) (i ci ai : Nat) : Option (Nat × PTree × String × (Nat × Nat)) :=
  match fileStmts ws incs with
  | none => none
  | some (g, sl) =>
    match (Ast.statementListStatements sl)[i]? with
    | none => none
    | some s =>
      match stmtParentUseW s ci ai with
      | none => none
      | some (B, id) =>
        if ((Ast.statementListStatements sl).take i).any (fun d => classNameOf d == some B) then
          match Ast.identifierValue id, Ast.identifierRange id with
          | some name, some se => if name ≠ "" then some (g, id, name, se) else none
          | _, _ => none
        else none

theorem parent_arg_use_goes_to_declaration_wideB {vfs : List (String × String)} {rootPath : String}
    {inc : Option String} {ws : Workspace} (hws : buildWorkspace vfs rootPath inc = .ok ws)
    {res : Index.IndexResult} (hr : Index.index ws = .ok res) (incs : List Nat) (i ci ai : Nat) (g : Nat)
    (id : PTree) (name : String) (se : Nat × Nat) (h : parentUseAt ws incs i ci ai = some (g, id, name, se)) :
    ∃ c t c' rest, c.fileTrace = g :: rest ∧ LiveInv c ∧
      (Index.indexIdentifierValue id).run c = .ok (t, c') ∧ SmLater c'.symbolMap res.symbolMap ∧
      ∀ S, Tg.C13.resolveName c name = some S → ∀ p, se.1 ≤ p → p < se.2 →
        gotoDefinitionExec (Analysis.new ws) g p = .ok (some (symbolDefineLoc res.symbolMap S).toLoc) ∧
        referencesExec (Analysis.new ws) g p =
          .ok (some (refsOf res.symbolMap.ops.toList (c.symbolMap.gidOf S))) ∧
        (⟨g, se.1, se.2⟩ : Loc) ∈ refsOf res.symbolMap.ops.toList (c.symbolMap.gidOf S) := by
  unfold parentUseAt at h
  split at h
  · cases h
  · rename_i g' sl hfs
    obtain ⟨hg, sf, hsf, hsl⟩ := fileStmts_sound hfs
    split at h
    · cases h
    · rename_i s hs
      split at h
      · cases h
      · rename_i B id' hpu
        split at h
        · rename_i hany
          split at h
          · rename_i name' se' hv hrg
            split at h
            · rename_i hne
              cases h
              obtain ⟨d, hdm, hdn⟩ := List.any_eq_true.1 hany
              obtain ⟨p1, p2, hp⟩ := List.append_of_mem hdm
              have hsplit := split_take_drop _ _ _ hs
              rw [hp, List.append_assoc, List.cons_append] at hsplit
              exact parent_arg_use_goes_to_declaration_wide hws hr g hg sf sl hsf hsl p1 d p2 s _ hsplit B
                (classNameOf_sound (by simpa using hdn)) id (stmtParentUseW_sound hpu) name se hv hrg hne
            · cases h
          · cases h
        · cases h

/-- `parentUseAt` on the workspace built from `vfs` (root `/a.td`), without the tree -/
def parentUseAtOf (vfs : List (String × String)) (incs : List Nat) (i ci ai : Nat) :
    Option (Nat × String × (Nat × Nat)) :=
  match buildWorkspace vfs "/a.td" none with
  | .ok ws => (parentUseAt ws incs i ci ai).map fun x => (x.1, x.2.2)
  | .error _ => none

/-- non-vacuity: `class C<int p> : A, B<x>;` - own template arguments, second parent -/
example : parentUseAtOf [("/a.td", "class A;\nclass B<int a>;\ndefvar x = 1;\nclass C<int p> : A, B<x>;\n")] [] 3 1 0 =
    some (0, "x", (61, 62)) := by
  decide +kernel

/-- a named argument, and the class's own template argument as the value: `class D<int p> : A, B<a = p>;` -/
example : parentUseAtOf [("/a.td", "class A;\nclass B<int a>;\nclass D<int p> : A, B<a = p>;\n")] [] 2 1 0 =
    some (0, "p", (51, 52)) := by
  decide +kernel

end Tg.C05
