/-
C05, capstone for EVERY indexed file and more use sites (`use_goes_to_declaration_file`): the widening of
`use_goes_to_declaration_root` (`C05.lean`)

* from the root file to every file `g` reachable from the root through `include` statements of top-level
  statement lists (`TopReach ws g`, `IdeInclude.lean`; all of these are indexed, `C16Ide.indexed_files_any`):
  the state `c` in which the identifier is visited has `c.fileTrace = g :: rest`;
* from identifier initialisers of field definitions in `class` / `def` bodies to `Ix10.StmtUse`: also the
  identifier values of `let x = id;` items, `defvar x = id;` and `dump id;` (as body items and as statements),
  and all of these in the body of a `foreach` statement (to any depth).

`fileUse` is the executable form of the static hypotheses (`use_goes_to_declaration_fileB`); the examples
at the end run it on two-file workspaces built by `buildWorkspace`.
-/
import TgModel.Props.C05
import TgModel.Lemmas.Ix10Hist

namespace Tg.C05
open Tg Tg.Ide Tg.Bodied
open Tg.Ide.Handlers
open Tg.SymbolMap (Op Loc run refsOf)

/-- **`use_goes_to_declaration_file`**: the indexer visits the identifier `id` - a use site (`Ix10.StmtUse`)
of a statement `s` of a file `g` reachable through top-level includes - in a state `c` that is live and
has `g` as current file, the run continues from the state `c'` after the visit to the final result, and
for the symbol `S` that `resolve_id` answers *in `c`*: on the final analysis, from every offset of the
identifier go-to-definition lands exactly on the declaring identifier of `S`, and find-references
answers the uses of `S`, this one among them. -/
theorem use_goes_to_declaration_file {ws : Workspace} (hw : WsGood ws) {res : Index.IndexResult}
    (hr : Index.index ws = .ok res) (g : Nat) (hg : TopReach ws g) (sf sl : PTree)
    (hsf : Ast.sourceFileCast (ws.tree g) = some sf)
    (hsl : Ast.sourceFileStatementList sf = some sl) (spre : List PTree) (s : PTree) (spost : List PTree)
    (hsplit : Ast.statementListStatements sl = spre ++ s :: spost) (id : PTree)
    (hu : Ix10.StmtUse s id) (name : String) (se : Nat × Nat)
    (hiv : Ast.identifierValue id = some name) (hir : Ast.identifierRange id = some se) (hne : name ≠ "") :
    ∃ c t c' rest, c.fileTrace = g :: rest ∧ LiveInv c ∧
      (Index.indexIdentifierValue id).run c = .ok (t, c') ∧ SmLater c'.symbolMap res.symbolMap ∧
      ∀ S, Tg.C13.resolveName c name = some S → ∀ p, se.1 ≤ p → p < se.2 →
        gotoDefinitionExec (Analysis.new ws) g p = .ok (some (symbolDefineLoc res.symbolMap S).toLoc) ∧
        referencesExec (Analysis.new ws) g p =
          .ok (some (refsOf res.symbolMap.ops.toList (c.symbolMap.gidOf S))) ∧
        (⟨g, se.1, se.2⟩ : Loc) ∈ refsOf res.symbolMap.ops.toList (c.symbolMap.gidOf S) := by
  obtain ⟨c, t, c', rest, hft, hlive, hsite, hlater⟩ :=
    Ix10.file_use_visited ws res hr g hg sf sl hsf hsl spre s spost hsplit id hu
  refine ⟨c, t, c', rest, hft, hlive, hsite, hlater, fun S hS p h1 h2 => ?_⟩
  exact use_goes_to_declaration_live hw hr id c c' t g rest hft name ⟨g, se.1, se.2⟩
    (identOf_of g id name se hiv hir) hne S hS hlive hsite hlater p h1 h2

/-- the widened root theorem: `use_goes_to_declaration_root` for every `Ix10.StmtUse` -/
theorem use_goes_to_declaration_root_wide {ws : Workspace} (hw : WsGood ws) {res : Index.IndexResult}
    (hr : Index.index ws = .ok res) (sf sl : PTree) (hsf : Ast.sourceFileCast (ws.tree ws.root) = some sf)
    (hsl : Ast.sourceFileStatementList sf = some sl) (spre : List PTree) (s : PTree) (spost : List PTree)
    (hsplit : Ast.statementListStatements sl = spre ++ s :: spost) (id : PTree)
    (hu : Ix10.StmtUse s id) (name : String) (se : Nat × Nat)
    (hiv : Ast.identifierValue id = some name) (hir : Ast.identifierRange id = some se) (hne : name ≠ "") :
    ∃ c t c' rest, c.fileTrace = ws.root :: rest ∧ LiveInv c ∧
      (Index.indexIdentifierValue id).run c = .ok (t, c') ∧ SmLater c'.symbolMap res.symbolMap ∧
      ∀ S, Tg.C13.resolveName c name = some S → ∀ p, se.1 ≤ p → p < se.2 →
        gotoDefinitionExec (Analysis.new ws) ws.root p = .ok (some (symbolDefineLoc res.symbolMap S).toLoc) ∧
        referencesExec (Analysis.new ws) ws.root p =
          .ok (some (refsOf res.symbolMap.ops.toList (c.symbolMap.gidOf S))) ∧
        (⟨ws.root, se.1, se.2⟩ : Loc) ∈ refsOf res.symbolMap.ops.toList (c.symbolMap.gidOf S) :=
  use_goes_to_declaration_file hw hr ws.root .root sf sl hsf hsl spre s spost hsplit id hu name se hiv hir hne

/-! ### executable form -/

/-- follow a chain of top-level include statements: `i :: rest` = the `i`-th top-level statement of the
file is an `include` that resolves to a file, from which `rest` is followed -/
def includeChain (ws : Workspace) : Nat → List Nat → Option Nat
  | g, [] => some g
  | g, i :: rest =>
    match (topStatements ws g)[i]? with
    | some n =>
      if n.kind == .Include then
        match incTarget ws g n with
        | some t => includeChain ws t rest
        | none => none
      else none
    | none => none

theorem includeChain_reach {ws : Workspace} {incs : List Nat} :
    ∀ {g t : Nat}, TopReach ws g → includeChain ws g incs = some t → TopReach ws t := by
  induction incs with
  | nil => intro g t hg h; cases h; exact hg
  | cons i rest ih =>
    intro g t hg h
    unfold includeChain at h
    split at h
    · rename_i n hn
      split at h
      · rename_i hk
        split at h
        · rename_i t' ht
          exact ih (.step hg (List.mem_of_getElem? hn) (by simpa using hk) ht) h
        · cases h
      · cases h
    · cases h

/-- in the file reached from the root by the include chain `incs`: the use site at `path`
(`Ix10.stmtUseAt`) of the `i`-th statement - the file, the identifier, its (non-empty) text and its range -/
def fileUse (ws : Workspace) (incs : List Nat) (i : Nat) (path : List Nat) :
    Option (Nat × PTree × String × (Nat × Nat)) :=
  match includeChain ws ws.root incs with
  | none => none
  | some g =>
    match (Ast.sourceFileCast (ws.tree g)).bind Ast.sourceFileStatementList with
    | none => none
    | some sl =>
      match (Ast.statementListStatements sl)[i]? with
      | none => none
      | some s =>
        match Ix10.stmtUseAt s path with
        | none => none
        | some id =>
          match Ast.identifierValue id, Ast.identifierRange id with
          | some name, some se => if name ≠ "" then some (g, id, name, se) else none
          | _, _ => none

theorem use_goes_to_declaration_fileB {ws : Workspace} (hw : WsGood ws) {res : Index.IndexResult}
    (hr : Index.index ws = .ok res) (incs : List Nat) (i : Nat) (path : List Nat) (g : Nat) (id : PTree)
    (name : String) (se : Nat × Nat) (h : fileUse ws incs i path = some (g, id, name, se)) :
    TopReach ws g ∧
    ∃ c t c' rest, c.fileTrace = g :: rest ∧ LiveInv c ∧
      (Index.indexIdentifierValue id).run c = .ok (t, c') ∧ SmLater c'.symbolMap res.symbolMap ∧
      ∀ S, Tg.C13.resolveName c name = some S → ∀ p, se.1 ≤ p → p < se.2 →
        gotoDefinitionExec (Analysis.new ws) g p = .ok (some (symbolDefineLoc res.symbolMap S).toLoc) ∧
        referencesExec (Analysis.new ws) g p =
          .ok (some (refsOf res.symbolMap.ops.toList (c.symbolMap.gidOf S))) ∧
        (⟨g, se.1, se.2⟩ : Loc) ∈ refsOf res.symbolMap.ops.toList (c.symbolMap.gidOf S) := by
  unfold fileUse at h
  split at h
  · cases h
  · rename_i g' hchain
    have hg : TopReach ws g' := includeChain_reach .root hchain
    split at h
    · cases h
    · rename_i sl hsl
      split at h
      · cases h
      · rename_i s hs
        split at h
        · cases h
        · rename_i id' hid
          split at h
          · rename_i name' se' hv hrg
            split at h
            · rename_i hne
              cases h
              cases hsf : Ast.sourceFileCast (ws.tree g) with
              | none => rw [hsf] at hsl; cases hsl
              | some sf =>
                rw [hsf] at hsl
                obtain ⟨spre, spost, hsplit⟩ := split_of_getElem? _ _ _ hs
                exact ⟨hg, use_goes_to_declaration_file hw hr g hg sf sl hsf hsl spre s spost hsplit id
                  (Ix10.stmtUseAt_sound hid) name se hv hrg hne⟩
            · cases h
          · cases h

/-! ### non-vacuity: two-file workspaces -/

/-- the use found by `fileUse` in the workspace built from `vfs` with root `/a.td`, without the tree -/
def useOf (vfs : List (String × String)) (incs : List Nat) (i : Nat) (path : List Nat) :
    Option (Nat × String × (Nat × Nat)) :=
  match buildWorkspace vfs "/a.td" none with
  | .ok ws => (fileUse ws incs i path).map fun x => (x.1, x.2.2)
  | .error _ => none

theorem useOf_applies (vfs : List (String × String)) (incs : List Nat) (i : Nat) (path : List Nat) (g : Nat)
    (name : String) (se : Nat × Nat) (h : useOf vfs incs i path = some (g, name, se)) :
    ∃ ws res id, buildWorkspace vfs "/a.td" none = .ok ws ∧ Index.index ws = .ok res ∧
      fileUse ws incs i path = some (g, id, name, se) ∧ TopReach ws g ∧
      ∃ c t c' rest, c.fileTrace = g :: rest ∧ LiveInv c ∧
        (Index.indexIdentifierValue id).run c = .ok (t, c') ∧ SmLater c'.symbolMap res.symbolMap := by
  unfold useOf at h
  split at h
  · rename_i ws hws
    have hw := built_wsGood hws
    obtain ⟨res, hres⟩ := C03.index_never_panics_of_ready hw.ready
    cases hu : fileUse ws incs i path with
    | none => rw [hu] at h; cases h
    | some x =>
      obtain ⟨g', id, name', se'⟩ := x
      rw [hu] at h
      simp only [Option.map_some, Option.some.injEq, Prod.mk.injEq] at h
      obtain ⟨rfl, rfl, rfl⟩ := h
      obtain ⟨hg, c, t, c', rest, h1, h2, h3, h4, _⟩ := use_goes_to_declaration_fileB hw hres incs i path _ id _ _ hu
      exact ⟨ws, res, id, hws, hres, hu, hg, c, t, c', rest, h1, h2, h3, h4⟩
  · cases h

/-- a field initialiser in a `def` of an INCLUDED file: `/b.td` (file 1) is reached through the first
statement of the root; the second body item of its first statement uses `f` at 27..28 -/
example : useOf [("/a.td", "include \"b.td\"\n"), ("/b.td", "def d { int f = 1; int g = f; }\n")] [0] 0 [1] =
    some (1, "f", (27, 28)) := by
  decide +kernel

/-- `defvar` in the body of a `foreach` of an included file, after a top-level `defvar`: the first statement
of the body of the second statement of `/b.td` uses `x` -/
example : useOf [("/a.td", "include \"b.td\"\n"),
      ("/b.td", "defvar x = 1;\nforeach i = [1, 2] in {\n  defvar y = x;\n}\n")] [0] 1 [0] =
    some (1, "x", (51, 52)) := by
  decide +kernel

/-- a `let` item and a `dump` in a class body of the root file -/
example : useOf [("/a.td", "class C { int f = 1; let f = f; dump f; }\n")] [] 0 [1] = some (0, "f", (29, 30)) := by
  decide +kernel

/-! ## companions of `name_after_block_not_resolved`

In the model the body of a `multiclass` is an ordinary statement list (`indexMultiClass` runs
`r.statementList`), so `name_after_block_not_resolved` - stated for every statement node of every file -
already covers the statements of multiclass bodies; `name_after_block_sealed_later` adds that the
variables stay unreachable through later statement LISTS, values and body items.  Inside the body of a
`class` / `def` the only constructs that declare variables and end are the operators `!foreach`,
`!filter`, `!foldl` of a value: `name_after_value_not_resolved` is the companion for values. -/

theorem sealed_kept_bodyItem (lo hi fuel : Nat) (n : PTree) (c c' : IndexCtx) (a : Unit)
    (h : (Index.indexBodyItem (Index.mkRec fuel) n).run c = .ok (a, c')) (hc : Sealed lo hi c) :
    Sealed lo hi c' := by
  haveI := BRel.varRel (sealed_good lo hi)
  obtain ⟨hv, ht, hsl, hsf⟩ := mkRec_brel (sealed_good lo hi) fuel
  exact ((Index.indexBodyItem_keeps hv ht n).run c a c' h).2 hc

/-- what a sealed window means for everything that is indexed later -/
def SealedLater (lo hi : Nat) (c' : IndexCtx) : Prop :=
  (∀ v, lo ≤ v → v < hi → ∀ sm name, c'.scopes.findLocal sm name ≠ some (.var v)) ∧
  (∀ fuel' n' c'' a', (Index.indexStatement (Index.mkRec fuel') n').run c' = .ok (a', c'') →
    ∀ v, lo ≤ v → v < hi → ∀ sm name, c''.scopes.findLocal sm name ≠ some (.var v)) ∧
  (∀ fuel' n' c'' a', ((Index.mkRec fuel').statementList n').run c' = .ok (a', c'') →
    ∀ v, lo ≤ v → v < hi → ∀ sm name, c''.scopes.findLocal sm name ≠ some (.var v)) ∧
  (∀ fuel' n' c'' a', ((Index.mkRec fuel').value n').run c' = .ok (a', c'') →
    ∀ v, lo ≤ v → v < hi → ∀ sm name, c''.scopes.findLocal sm name ≠ some (.var v)) ∧
  (∀ fuel' n' c'' a', (Index.indexBodyItem (Index.mkRec fuel') n').run c' = .ok (a', c'') →
    ∀ v, lo ≤ v → v < hi → ∀ sm name, c''.scopes.findLocal sm name ≠ some (.var v))

theorem Sealed.later {lo hi : Nat} {c' : IndexCtx} (hs : Sealed lo hi c') : SealedLater lo hi c' :=
  ⟨fun v h1 h2 sm name => sealed_not_found hs v h1 h2 sm name,
   fun fuel' n' c'' a' hrun v h1 h2 sm name =>
     sealed_not_found (sealed_kept_statement _ _ fuel' n' c' c'' a' hrun hs) v h1 h2 sm name,
   fun fuel' n' c'' a' hrun v h1 h2 sm name =>
     sealed_not_found (sealed_kept_statementList _ _ fuel' n' c' c'' a' hrun hs) v h1 h2 sm name,
   fun fuel' n' c'' a' hrun v h1 h2 sm name =>
     sealed_not_found (sealed_kept_value _ _ fuel' n' c' c'' a' hrun hs) v h1 h2 sm name,
   fun fuel' n' c'' a' hrun v h1 h2 sm name =>
     sealed_not_found (sealed_kept_bodyItem _ _ fuel' n' c' c'' a' hrun hs) v h1 h2 sm name⟩

/-- `name_after_block_not_resolved`, for everything that can follow the statement: in the state after
it, and after any further statement, statement list (the rest of a block or of a multiclass body), value
or body item, no name resolves to a variable declared during its run -/
theorem name_after_block_sealed_later {vfs : List (String × String)} {rootPath : String}
    {inc : Option String} {ws : Workspace} (hws : buildWorkspace vfs rootPath inc = .ok ws) (fuel : Nat)
    (n : PTree) (hn : WsNode ws n) (hnode : n.isNode = true) (hk : restoresExactly n.kind = true)
    (c c' : IndexCtx) (a : Unit) (hc : c.ws = ws) (hids : ScopeIdsOK c)
    (hrun : (Index.indexStatement (Index.mkRec fuel) n).run c = .ok (a, c')) :
    SealedLater (vsize c) (vsize c') c' :=
  (name_after_block_not_resolved hws fuel n hn hnode hk c c' a hc hids hrun).1.later

/-- **a variable of `!foreach` / `!filter` / `!foldl` is not resolved after the value**: every value
restores the scope stack exactly, and the variables declared while it was indexed (the variables of the
operators inside it) are unreachable afterwards - in the rest of the field initialiser, in the following
items of the class body, and in everything indexed later -/
theorem name_after_value_not_resolved {vfs : List (String × String)} {rootPath : String}
    {inc : Option String} {ws : Workspace} (hws : buildWorkspace vfs rootPath inc = .ok ws) (fuel : Nat)
    (v : PTree) (c c' : IndexCtx) (t : Option Ty) (hc : c.ws = ws) (hids : ScopeIdsOK c)
    (hrun : ((Index.mkRec fuel).value v).run c = .ok (t, c')) :
    c'.scopes = c.scopes ∧ Sealed (vsize c) (vsize c') c' ∧ SealedLater (vsize c) (vsize c') c' := by
  have hb := buildWorkspace_bodied hws
  have hsc : c'.scopes = c.scopes := (((mkRec_w hb fuel).value v).run c t c' hrun hc).2
  have hle : vsize c ≤ vsize c' :=
    (((mkRec_brel (T := 0) (Good := fun _ => True) (fun _ _ => trivial) fuel).1 v).run c t c' hrun).1
  have hs := sealed_after_balanced hids hsc hle
  exact ⟨hsc, hs, hs.later⟩

/-- the number of variables the index run of the workspace built from `vfs` (root `/a.td`) declares -/
def varCount (vfs : List (String × String)) : Option Nat :=
  match buildWorkspace vfs "/a.td" none with
  | .ok ws =>
    match Index.index ws with
    | .ok r => some r.symbolMap.variableList.size
    | .error _ => none
  | .error _ => none

/-- non-vacuity: `!foreach` in a field initialiser of a class body does declare a variable (the window
of `name_after_value_not_resolved` is not empty), -/
example : varCount [("/a.td", "class C { list<int> l = !foreach(x, [1, 2], 1); int y = 1; }\n")] = some 1 := by
  decide +kernel

/-- and so do a `foreach` and the `defvar`s in a multiclass body -/
example : varCount [("/a.td", "multiclass M { foreach i = [1, 2] in { defvar v = 1; } defvar w = 1; }\n")] =
    some 3 := by
  decide +kernel

end Tg.C05
