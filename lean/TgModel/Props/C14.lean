/-
C14 — Lexical conformance with the TableGen language reference.

`LexSpec.lean` is a declarative description of TableGen's tokens and separators written from the
"TableGen Programmer's Reference" (it does not import the lexer model): `SpecTok` has one
constructor per token class (identifiers including digit-leading ones, keywords, decimal /
hexadecimal / binary integers, string literals with escapes, code fragments, variable names, bang
operators, punctuation) with its text `render`, its kind `kind` and a decidable well-formedness
`WF`; `Sep` describes blanks, line comments (modelled with the line terminator that ends them:
`//text` + LF / CR LF / CR) and block comments with arbitrarily nested comments inside.
`renderAll` writes each token followed by its separators.

The theorems say that the lexer model `Lex.next`, iterated by `Lex.allTokens`, splits every such text
into exactly the specified tokens.  All proofs are in `Lemmas/LexSpecLemmas.lean`.
-/
import TgModel.Lemmas.LexSpecLemmas

namespace Tg.C14
open LexSpec

/-- **lexical conformance**: any sequence of well-formed tokens, each followed by a non-empty list of
well-formed separators, is split into exactly those tokens — the non-trivia tokens are the
specified ones with the specified kinds and texts in the same order, no token is an `Error`
(hence nothing is reported), and the token texts tile the input.  No side condition on adjacent
separators is needed: two adjacent blank runs simply merge into one `Whitespace` token. -/
theorem lex_conforms (items : List (SpecTok × List Sep))
    (hwf : ∀ it ∈ items, it.1.WF ∧ it.2 ≠ [] ∧ ∀ s ∈ it.2, s.WF) :
    (Lex.allTokens (renderAll items)).filter (fun t => !t.kind.isTrivia) =
        items.map (fun it => ({ kind := it.1.kind, text := it.1.render } : Tok)) ∧
    (∀ t ∈ Lex.allTokens (renderAll items), t.kind ≠ .Error) ∧
    ((Lex.allTokens (renderAll items)).map (·.text)).flatten = renderAll items := by
  obtain ⟨trivs, hl, ht⟩ := allTokens_items items hwf [] (HeadNot.nil _)
  rw [List.append_nil, Lex.allTokens_nil, List.append_nil] at ht
  rw [ht]
  exact ⟨interleave_filter items hwf trivs hl, interleave_no_error items hwf trivs hl,
    interleave_texts items trivs hl⟩

/-- **nothing is reported**: none of the lexer calls made on such a text sets a message
(`allOuts` lists the successive results of `Lex.next`, of which `Lex.allTokens` keeps kind and text) -/
theorem lex_reports_nothing (items : List (SpecTok × List Sep))
    (hwf : ∀ it ∈ items, it.1.WF ∧ it.2 ≠ [] ∧ ∀ s ∈ it.2, s.WF) :
    ∀ o ∈ allOuts (renderAll items), o.kind ≠ .Error ∧ o.err = none := by
  have h := (lex_conforms items hwf).2.1
  intro o ho
  refine ⟨?_, allOuts_err_none _ h o ho⟩
  apply h { kind := o.kind, text := o.text }
  rw [allTokens_eq_allOuts]
  exact List.mem_map.mpr ⟨o, ho, rfl⟩

/-- **exact boundaries**: the token stream is, for each item in order, the specified token followed
by trivia tokens (`Whitespace`, `LineComment`, `BlockComment`) whose texts cover exactly that
item's separators (`Layout`), and nothing else. -/
theorem lex_conforms_layout (items : List (SpecTok × List Sep))
    (hwf : ∀ it ∈ items, it.1.WF ∧ it.2 ≠ [] ∧ ∀ s ∈ it.2, s.WF) :
    ∃ trivs : List (List Tok), Layout items trivs ∧
      Lex.allTokens (renderAll items) = interleave items trivs := by
  obtain ⟨trivs, hl, ht⟩ := allTokens_items items hwf [] (HeadNot.nil _)
  rw [List.append_nil, Lex.allTokens_nil, List.append_nil] at ht
  exact ⟨trivs, hl, ht⟩

/-- variant where a final token ends the input without a separator.  The exclusion is genuine: a
`-` or `+` that is the very last character of the input is read as the start of a number and
becomes an `Error` token ("Invalid number"), see the `example`s below. -/
theorem lex_conforms_eof (items : List (SpecTok × List Sep)) (last : SpecTok)
    (hwf : ∀ it ∈ items, it.1.WF ∧ it.2 ≠ [] ∧ ∀ s ∈ it.2, s.WF)
    (hlast : last.WF) (hsign : last.isSignPunct = false) :
    (Lex.allTokens (renderAll items ++ last.render)).filter (fun t => !t.kind.isTrivia) =
        items.map (fun it => ({ kind := it.1.kind, text := it.1.render } : Tok)) ++
          [{ kind := last.kind, text := last.render }] ∧
    (∀ t ∈ Lex.allTokens (renderAll items ++ last.render), t.kind ≠ .Error) := by
  obtain ⟨c, r, hc, hws⟩ := last.render_head hlast
  obtain ⟨trivs, hl, ht⟩ := allTokens_items items hwf last.render (by rw [hc]; exact HeadNot.cons hws)
  rw [allTokens_single last hlast hsign] at ht
  rw [ht]
  constructor
  · rw [List.filter_append, interleave_filter items hwf trivs hl]
    simp [SpecTok.tok, (last.kind_ok hlast).1]
  · intro t h
    rcases List.mem_append.mp h with h | h
    · exact interleave_no_error items hwf trivs hl t h
    · simp only [List.mem_singleton] at h
      rw [h]; exact (last.kind_ok hlast).2

/-! ### non-vacuity -/

/-- `1st def 0x1F "a\\" [{ x }] !add ... - -5 0b101 $v` with blanks, a line comment and a nested block
comment in between -/
def sample : List (SpecTok × List Sep) := [
  (.ident ['1', 's', 't'], [.ws [' ']]),
  (.keyword ['d', 'e', 'f'] .Def, [.lineComment [' ', 'c', '/', '*'] .lf, .ws [' ', ' ']]),
  (.hexInt ['1', 'F'], [.blockComment (.ch 'a' (.nest (.ch '*' (.ch 'b' .nil)) (.ch 'c' .nil)))]),
  (.str [.ch 'a', .esc '\\'], [.ws ['\t'], .ws ['\r', '\n']]),
  (.code [' ', 'x', '}', ' '], [.lineComment [] .crlf]),
  (.bang ['a', 'd', 'd'] .XAdd, [.blockComment .nil, .lineComment ['/'] .lf]),
  (.punct .dotdotdot, [.ws [' ']]),
  (.punct .minus, [.ws [' ']]),
  (.decInt .minus ['5'], [.ws [' ']]),
  (.binInt ['1', '0', '1'], [.blockComment (.nest (.nest .nil .nil) .nil)]),
  (.varName ['v'], [.ws ['\n']])]

theorem sample_wf : ∀ it ∈ sample, it.1.WF ∧ it.2 ≠ [] ∧ ∀ s ∈ it.2, s.WF := by decide +kernel

example :
    (Lex.allTokens (renderAll sample)).filter (fun t => !t.kind.isTrivia) =
      sample.map (fun it => ({ kind := it.1.kind, text := it.1.render } : Tok)) ∧
    (∀ t ∈ Lex.allTokens (renderAll sample), t.kind ≠ .Error) ∧
    ((Lex.allTokens (renderAll sample)).map (·.text)).flatten = renderAll sample :=
  lex_conforms sample sample_wf

/-- the sample text really contains what it is meant to contain -/
example : renderAll sample =
    ['1', 's', 't', ' ', 'd', 'e', 'f', '/', '/', ' ', 'c', '/', '*', '\n', ' ', ' ', '0', 'x', '1', 'F',
     '/', '*', 'a', '/', '*', '*', 'b', '*', '/', 'c', '*', '/', '"', 'a', '\\', '\\', '"', '\t', '\r', '\n',
     '[', '{', ' ', 'x', '}', ' ', '}', ']', '/', '/', '\r', '\n', '!', 'a', 'd', 'd', '/', '*', '*', '/',
     '/', '/', '/', '\n', '.', '.', '.', ' ', '-', ' ', '-', '5', ' ', '0', 'b', '1', '0', '1',
     '/', '*', '/', '*', '/', '*', '*', '/', '*', '/', '*', '/', '$', 'v', '\n'] := by decide +kernel

/-- a sign at the very end of the input (the case `lex_conforms_eof` excludes through `hsign`) is
punctuation too since the `fix:` commit 209370e; before it both lexed as `Error` ("Invalid number") -/
theorem sign_at_eof : (Lex.next ['-']).kind = .Minus ∧ (Lex.next ['-']).rest = [] ∧
    (Lex.next ['+']).kind = .Plus ∧ (Lex.next ['+']).rest = [] := by decide +kernel

/-! ### the specification accepts and rejects what it should -/

example : (SpecTok.ident ['0', 'x', 'g']).WF ∧ (SpecTok.ident ['0', 'b', '2']).WF ∧
    (SpecTok.ident ['0', '0', 'x', '1']).WF ∧ (SpecTok.ident ['_']).WF ∧
    ¬ (SpecTok.ident ['0', 'x', '1', 'g']).WF ∧ ¬ (SpecTok.ident ['0', 'b', '1']).WF ∧
    ¬ (SpecTok.ident ['d', 'e', 'f']).WF ∧ ¬ (SpecTok.ident ['1', '2']).WF ∧
    ¬ (SpecTok.ident ['a', '-']).WF := by decide +kernel

example : (SpecTok.decInt .none ['1', '8', '4', '4', '6', '7', '4', '4', '0', '7', '3', '7', '0', '9', '5', '5',
      '1', '6', '1', '5']).WF ∧
    ¬ (SpecTok.decInt .none ['1', '8', '4', '4', '6', '7', '4', '4', '0', '7', '3', '7', '0', '9', '5', '5',
      '1', '6', '1', '6']).WF ∧
    (SpecTok.decInt .minus ['9', '2', '2', '3', '3', '7', '2', '0', '3', '6', '8', '5', '4', '7', '7', '5',
      '8', '0', '8']).WF ∧
    ¬ (SpecTok.decInt .minus ['9', '2', '2', '3', '3', '7', '2', '0', '3', '6', '8', '5', '4', '7', '7', '5',
      '8', '0', '9']).WF ∧
    ¬ (SpecTok.hexInt []).WF ∧ ¬ (SpecTok.hexInt ['g']).WF ∧ ¬ (SpecTok.binInt ['2']).WF ∧
    ¬ (SpecTok.decInt .plus []).WF := by decide +kernel

example : ¬ (SpecTok.str [.ch '"']).WF ∧ ¬ (SpecTok.str [.ch '\\']).WF ∧ ¬ (SpecTok.str [.esc 'x']).WF ∧
    ¬ (SpecTok.str [.ch '\n']).WF ∧ (SpecTok.str [.esc '"', .esc 'n', .ch '/']).WF ∧
    ¬ (SpecTok.code ['}', ']']).WF ∧ (SpecTok.code [']', '}']).WF ∧
    ¬ (SpecTok.varName ['1']).WF ∧ ¬ (SpecTok.bang ['a', 'd', 'd'] .XAnd).WF ∧
    ¬ (SpecTok.keyword ['d', 'e', 'f'] .Defm).WF := by decide +kernel

/-- `/*/*/` and `/**/*/` are not comments with a plain `/` resp. `*` inside; `/***/` is -/
example : ¬ (Sep.blockComment (.ch '/' .nil)).WF ∧ ¬ (Sep.blockComment (.ch '*' (.ch '/' .nil))).WF ∧
    (Sep.blockComment (.ch '*' .nil)).WF ∧ (Sep.blockComment (.ch '/' (.nest .nil .nil))).WF ∧
    ¬ (Sep.blockComment (.ch '*' (.nest .nil .nil))).WF ∧
    ¬ (Sep.ws []).WF ∧ ¬ (Sep.ws ['x']).WF ∧ ¬ (Sep.lineComment ['\n'] .lf).WF := by decide +kernel

end Tg.C14
