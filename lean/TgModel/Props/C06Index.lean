/-
C06 for the logs of the indexer — the hypotheses of `C06.lean` about the operation log, proved for
the hook log `r.symbolMap.ops` of the indexer model on every ready workspace
(`Ready ws`: what `buildWorkspace` produces, see `C03.built_ready`).

Statements only; the proofs are in `TgModel/Lemmas/IdeNames.lean` (token ranges are equal or
disjoint, the text under a token range is the token's text), `IdeInv.lean` / `IdePrim.lean` /
`IdeCtx.lean` / `IdeIndex.lean` / `IdeBang.lean` (the names invariant `SymMap.NamesOK` is part of
the invariant `Inv` that every `indexX` keeps) and `IdeHookLog.lean`.

What the names invariant says (at every step of the indexer, not only at the end):
* the log has as many allocations as `gidToSym` has entries, and every `reference s _` has
  `s <` the number of allocations logged before it (`RefsValid`);
* every `define name loc` and every `reference s loc` of the log sits on a *token* of file
  `loc.file` (`identifier.range()` is the range of the identifier's first token, `identifier.value()`
  its text) whose text is the name — for a reference: the name under which symbol `s` was
  `define`d, in particular `s` is not an anonymous def/defm;
* the keys of `name_to_class / name_to_def / name_to_multiclass / name_to_defset`, of the
  per-record / per-multiclass `name_to_template_arg / name_to_record_field` and of the scope
  variable maps are the names of the entries they point to (this is why a lookup by the text
  under the cursor returns a symbol of that name).

Residual hypothesis: `RefStable` (needed by `goto_from_references_agrees` only).  It says that
after `reference s loc` nothing is registered at `loc` for another symbol.  For the indexer this
is "every identifier token is visited once" (the only token registered twice is the name of a
`let f = …` body item: `define` of the new field first, then `reference` of the overridden one),
which needs, on top of the invariant above, a locality argument (the registrations made while a
node is indexed lie inside the node, or in files that had not been indexed before) through all
`indexX`; it is not proved here.  It does not follow from `Ready ws` alone: `Ready` allows trees
with empty tokens, and two empty tokens at the same offset have the same range.
`IdeHookLog.refStableB` is an executable form (sound: `refStableB_sound`).
-/
import TgModel.Props.C06
import TgModel.Props.C03
import TgModel.Lemmas.IdeHookLog
import TgModel.Lemmas.IdeOnceBuilt

namespace Tg.C06
open SymbolMap Tg.Ide

/-- the hook log of an index result -/
abbrev opsOf (r : Index.IndexResult) : List Op := r.symbolMap.ops.toList

/-- the text of file `loc.file` between the byte offsets `loc.start` and `loc.stop`
(`(ws.tree f).chars` is the text of file `f`: the concatenation of its token texts) -/
def fileText (ws : Workspace) (loc : Loc) : List Char :=
  sliceBytes (ws.tree loc.file).chars loc.start loc.stop

/-! ### the hypotheses of `C06.lean`, for the indexer's log -/

/-- (a) every reference of the log names a symbol that was allocated before it -/
theorem index_refsValid {ws : Workspace} (h : C03.Ready ws) {r : Index.IndexResult}
    (hr : Index.index ws = .ok r) : RefsValid (opsOf r) 0 := (Index.index_names h.wf h.root hr).log.rv

/-- (b) only named symbols are referenced (never an anonymous def / defm) -/
theorem index_namedRefs {ws : Workspace} (h : C03.Ready ws) {r : Index.IndexResult}
    (hr : Index.index ws = .ok r) : NamedRefs (opsOf r) := (Index.index_names h.wf h.root hr).log.namedRefs

/-- (c) the text under every `define` is the name that is logged with it, the text under every
`reference` is the name of the referenced symbol -/
theorem index_textOk {ws : Workspace} (h : C03.Ready ws) {r : Index.IndexResult}
    (hr : Index.index ws = .ok r) : TextOk (fileText ws) (opsOf r) :=
  (Index.index_names h.wf h.root hr).log.textOk h.wf

/-- (d) registered ranges of one file are equal or disjoint: they are ranges of identifier tokens, or the inside of
a quoted token (`def "name"`).  `hplain`: identifiers are not quoted (`IdsPlain`: the first token of an
`Identifier` node does not begin with `"`), which is true of every workspace built by `buildWorkspace`
(`Index.built_idsPlain`, used by the `built_…` / `c06_all` theorems of `C06RefStable.lean`); without it a tree
could have the same token registered as a whole and by its inside. -/
theorem index_disjointLocs {ws : Workspace} (h : C03.Ready ws) (hplain : IdsPlain ws) {r : Index.IndexResult}
    (hr : Index.index ws = .ok r) : DisjointLocs (opsOf r) :=
  (Index.index_names h.wf h.root hr).log.disjointLocs h.wf hplain

/-- every registered location is the range of a token of its file -/
theorem index_registrations_are_tokens {ws : Workspace} (h : C03.Ready ws) {r : Index.IndexResult}
    (hr : Index.index ws = .ok r) :
    (∀ name loc, Op.define name loc ∈ opsOf r → ∃ nm : String, nm.toList = name ∧ TokAt ws loc nm) ∧
    (∀ s loc, Op.reference s loc ∈ opsOf r → ∃ nm : String, NamedGid (opsOf r) s nm.toList ∧ TokAt ws loc nm) :=
  ⟨(Index.index_names h.wf h.root hr).log.defTok, (Index.index_names h.wf h.root hr).log.refTok⟩

/-! ### the C06 theorems for the position map built from the indexer's log -/

/-- clause 4, for the indexer: if go-to-definition answers at an offset, the interval under the
cursor is the target or one of the references -/
theorem index_cursor_is_target_or_reference {ws : Workspace} {r : Index.IndexResult} (file p : Nat) (c : Loc)
    (hc : cursorLoc (run (opsOf r)) file p = some c) :
    ∃ S, findSymbolAt (run (opsOf r)) file p = some S ∧ (c = S.define ∨ c ∈ S.refs) :=
  cursor_is_target_or_reference (opsOf r) file p c hc

/-- clauses 1 and 2, for the indexer, without hypotheses on the log: on a ready workspace the file
text under the cursor, under the target and under every reference of the symbol under the cursor
is the symbol's name -/
theorem index_same_text {ws : Workspace} (h : C03.Ready ws) (hplain : IdsPlain ws) {r : Index.IndexResult}
    (hr : Index.index ws = .ok r) (file p : Nat) (c : Loc) (hc : cursorLoc (run (opsOf r)) file p = some c) :
    ∃ S, findSymbolAt (run (opsOf r)) file p = some S ∧ fileText ws c = S.name ∧
      fileText ws S.define = S.name ∧ ∀ x ∈ S.refs, fileText ws x = S.name :=
  same_text (fileText ws) (opsOf r) (index_textOk h hr) (index_namedRefs h hr) (index_disjointLocs h hplain hr) file p c hc

/-- clause 3, for the indexer: `RefsValid` and `DisjointLocs` are discharged, `RefStable` is the
residual hypothesis (see the header) -/
theorem index_goto_from_references_agrees {ws : Workspace} (h : C03.Ready ws) (hplain : IdsPlain ws)
    {r : Index.IndexResult} (hr : Index.index ws = .ok r) (hs : RefStable (opsOf r)) (file p : Nat) (S : Sym)
    (hf : findSymbolAt (run (opsOf r)) file p = some S) (x : Loc) (hx : x ∈ S.refs) (hne : x.isEmpty = false)
    (q : Nat) (hq : overlaps x x.file q = true) :
    gotoDef (run (opsOf r)) x.file q = some S.define :=
  goto_from_references_agrees (opsOf r) (index_refsValid h hr) hs (index_disjointLocs h hplain hr) file p S hf x hx hne q hq

/-! ### non-vacuity -/

/-- a def with a field and a `let` of that field -/
def exInput : List Char := "def d { int f = 1; let f = 2; }".toList

def exTree : Tree :=
  match Grammar.parse exInput with
  | .ok r => r.tree
  | _ => .node .SourceFile []

theorem exTree_shape : shapeCheck (PTree.ofTree exTree) = true := by decide +kernel

theorem ex_ready : C03.Ready (wsOfTree exTree) :=
  ⟨(wsOfTree_wf exTree_shape).1, (wsOfTree_wf exTree_shape).2.1⟩

/-- the log of the example: `d`, `f`, and the reference from the `let` to the field it sets (a field the
record declares itself keeps its entry, the `let` adds none) -/
def exOps : List Op :=
  [.define ['d'] ⟨0, 4, 5⟩, .define ['f'] ⟨0, 12, 13⟩, .reference 1 ⟨0, 23, 24⟩]

theorem ex_index : ∃ r, Index.index (wsOfTree exTree) = .ok r ∧ opsOf r = exOps := by
  have hk : (match Index.index (wsOfTree exTree) with
      | .ok r => opsBeq r.symbolMap.ops.toList exOps
      | .error _ => false) = true := by decide +kernel
  cases hr : Index.index (wsOfTree exTree) with
  | error e => rw [hr] at hk; cases hk
  | ok r => rw [hr] at hk; exact ⟨r, rfl, opsBeq_eq hk⟩

/-- the identifiers of the example are not quoted (it is parser output) -/
theorem ex_idsPlain : IdsPlain (wsOfTree exTree) := by
  have hid : exTree.idOK := by
    unfold exTree
    split
    · rename_i r hr; exact parse_idOK hr
    · simp
  intro g
  unfold Workspace.tree
  cases g with
  | zero => simpa [wsOfTree] using idsPlain_ofTree hid
  | succ g => simpa [wsOfTree] using defaultTree_idsPlain

/-- the four properties hold of a log that has definitions and a reference -/
example : RefsValid exOps 0 ∧ NamedRefs exOps ∧ TextOk (fileText (wsOfTree exTree)) exOps ∧ DisjointLocs exOps := by
  obtain ⟨r, hr, ho⟩ := ex_index
  rw [← ho]
  exact ⟨index_refsValid ex_ready hr, index_namedRefs ex_ready hr, index_textOk ex_ready hr,
    index_disjointLocs ex_ready ex_idsPlain hr⟩

/-- `index_same_text` applies with the cursor on the `f` of `let f`: the symbol is the field `f`
declared at 12..13, the text under the cursor, the target and the reference is "f" -/
example : ∃ S, findSymbolAt (run exOps) 0 23 = some S ∧ S.define = ⟨0, 12, 13⟩ ∧ S.refs = [⟨0, 23, 24⟩] ∧
    fileText (wsOfTree exTree) ⟨0, 23, 24⟩ = S.name ∧ fileText (wsOfTree exTree) S.define = S.name ∧
    ∀ x ∈ S.refs, fileText (wsOfTree exTree) x = S.name := by
  obtain ⟨r, hr, ho⟩ := ex_index
  have hc : cursorLoc (run exOps) 0 23 = some ⟨0, 23, 24⟩ := by decide
  obtain ⟨S, hS, h1, h2, h3⟩ := index_same_text ex_ready ex_idsPlain hr 0 23 ⟨0, 23, 24⟩ (by rw [ho]; exact hc)
  rw [ho] at hS
  have hS' : findSymbolAt (run exOps) 0 23 = some ⟨['f'], ⟨0, 12, 13⟩, [⟨0, 23, 24⟩]⟩ := rfl
  have : S = ⟨['f'], ⟨0, 12, 13⟩, [⟨0, 23, 24⟩]⟩ := by rw [hS] at hS'; exact Option.some.inj hS'
  subst this
  exact ⟨_, hS, rfl, rfl, h1, h2, h3⟩

/-- `index_goto_from_references_agrees` applies (the example log is `RefStable`): from the `let`
(offset 23) go-to-definition leads to the field declaration -/
example : gotoDef (run exOps) 0 23 = some ⟨0, 12, 13⟩ := by
  obtain ⟨r, hr, ho⟩ := ex_index
  have hs : RefStable (opsOf r) := by rw [ho]; exact refStableB_sound (by decide)
  have hf : findSymbolAt (run (opsOf r)) 0 12 = some ⟨['f'], ⟨0, 12, 13⟩, [⟨0, 23, 24⟩]⟩ := by rw [ho]; rfl
  have := index_goto_from_references_agrees ex_ready ex_idsPlain hr hs 0 12 _ hf ⟨0, 23, 24⟩ (by simp) (by decide) 23 (by decide)
  rwa [ho] at this

/-! ### `RefStable` does not follow from `Ready` -/

/-- a tree with all token texts erased (every token is empty and sits at offset 0) -/
def eraseText : Tree → Tree
  | .token k _ => .token k []
  | .node k cs => .node k (eraseTextL cs)
where eraseTextL : List Tree → List Tree
  | [] => []
  | t :: ts => eraseText t :: eraseTextL ts

/-- the parse tree of `def d { int f; let f = 1; int f; }` with the texts erased: not a tree the
parser can produce (its identifier tokens are empty), but `Ready` does not exclude it -/
def badTree : Tree :=
  match Grammar.parse "def d { int f; let f = 1; int f; }".toList with
  | .ok r => eraseText r.tree
  | _ => .node .SourceFile []

theorem badTree_shape : shapeCheck (PTree.ofTree badTree) = true := by decide +kernel

theorem bad_ready : C03.Ready (wsOfTree badTree) :=
  ⟨(wsOfTree_wf badTree_shape).1, (wsOfTree_wf badTree_shape).2.1⟩

def badOps : List Op :=
  [.define [] ⟨0, 0, 0⟩, .define [] ⟨0, 0, 0⟩, .reference 1 ⟨0, 0, 0⟩, .define [] ⟨0, 0, 0⟩]

theorem bad_index : ∃ r, Index.index (wsOfTree badTree) = .ok r ∧ opsOf r = badOps := by
  have hk : (match Index.index (wsOfTree badTree) with
      | .ok r => opsBeq r.symbolMap.ops.toList badOps
      | .error _ => false) = true := by decide +kernel
  cases hr : Index.index (wsOfTree badTree) with
  | error e => rw [hr] at hk; cases hk
  | ok r => rw [hr] at hk; exact ⟨r, rfl, opsBeq_eq hk⟩

/-- **`Ready` alone does not give `RefStable`**: on this (artificial) ready workspace all tokens are
empty, the fields and the `let` share the range 0..0, and the last `define` re-registers the
range of the reference for another symbol.  For workspaces built by `buildWorkspace` the
identifier tokens are non-empty; `RefStable` stays a hypothesis of
`index_goto_from_references_agrees` there. -/
theorem refStable_not_from_ready :
    ∃ ws, C03.Ready ws ∧ ∃ r, Index.index ws = .ok r ∧ ¬ RefStable (opsOf r) := by
  obtain ⟨r, hr, ho⟩ := bad_index
  refine ⟨_, bad_ready, r, hr, ?_⟩
  rw [ho]
  intro h
  have := h [.define [] ⟨0, 0, 0⟩, .define [] ⟨0, 0, 0⟩] [.define [] ⟨0, 0, 0⟩] 1 ⟨0, 0, 0⟩ rfl
    (⟨0, 0, 0⟩, 2) (by simp [registrations, RefStable.registrations.count]) rfl
  simp at this

/-- the other four properties do hold of this log (they are theorems for every ready workspace) -/
example : RefsValid badOps 0 ∧ NamedRefs badOps ∧ TextOk (fileText (wsOfTree badTree)) badOps ∧ DisjointLocs badOps := by
  obtain ⟨r, hr, ho⟩ := bad_index
  refine ⟨?_, ?_, ?_, ?_⟩
  · rw [← ho]; exact index_refsValid bad_ready hr
  · rw [← ho]; exact index_namedRefs bad_ready hr
  · rw [← ho]; exact index_textOk bad_ready hr
  · -- every location of this log is empty
    intro a ha b hb _ hae _
    exfalso
    simp [registrations, badOps] at ha
    rcases ha with rfl | rfl | rfl <;> simp [Loc.isEmpty] at hae

end Tg.C06
