/-
C16 — Include graphs: termination, exact reachability, links, single indexing.
Model: `Include.lean` (`collect` = collect_sources, `indexIncs` = the indexer's include descent).
All theorems quantify over every finite include graph: self-includes, cycles, diamonds,
unresolvable includes.
-/
import TgModel.Lemmas.IncludeLemmas

namespace Tg.C16
open Include

/-- **termination**: selecting the root always terminates (the fuel `collectFuel` suffices) -/
theorem collect_terminates (w : World) (hw : w.WF) (root : Nat) (hr : root < w.n) :
    ∃ vs, fileSet w root = some vs :=
  Include.collect_terminates w hw root hr

/-- **exact reachability**: the workspace is exactly the set of files reachable from the root
through resolvable includes -/
theorem collect_exact (w : World) (hw : w.WF) (root : Nat) (hr : root < w.n) (vs : List Nat)
    (h : fileSet w root = some vs) : ∀ f, f ∈ vs ↔ Reach w root f :=
  Include.collect_exact w hw root hr vs h

/-- every file is collected once -/
theorem collect_nodup (w : World) (hw : w.WF) (root : Nat) (hr : root < w.n) (vs : List Nat)
    (h : fileSet w root = some vs) : vs.Nodup :=
  Include.collect_nodup w hw root hr vs h

/-- **links**: an include statement yields a link to `t` iff it resolves to `t` -/
theorem link_iff_resolved (w : World) (f i t : Nat) :
    (i, t) ∈ links w f ↔ (w.incs f)[i]? = some (some t) :=
  Include.link_iff_resolved w f i t

/-- **single indexing**: no file is indexed twice -/
theorem indexed_once (w : World) (hw : w.WF) (root : Nat) (hr : root < w.n) :
    (indexOrder w root).1.Nodup :=
  Include.indexed_once w hw root hr

/-- the indexed files are exactly the reachable ones -/
theorem indexed_exact (w : World) (hw : w.WF) (root : Nat) (hr : root < w.n) :
    ∀ f, f ∈ (indexOrder w root).1 ↔ Reach w root f :=
  Include.indexed_exact w hw root hr

/-- **not-found diagnostics**: every unresolvable include statement of every indexed file is
diagnosed, and every diagnostic is such a statement -/
theorem unresolved_diagnosed (w : World) (hw : w.WF) (root : Nat) (hr : root < w.n) (f i : Nat) :
    (f, i) ∈ (indexOrder w root).2 ↔ (f ∈ (indexOrder w root).1 ∧ (w.incs f)[i]? = some none) :=
  Include.unresolved_diagnosed w hw root hr f i

/-- non-vacuity: a world with a self-include, a 2-cycle, a diamond and a missing target -/
def demo : World :=
  { n := 4, incs := fun f => match f with
      | 0 => [some 0, some 1, some 2, none]
      | 1 => [some 3, some 0]
      | 2 => [some 3]
      | _ => [] }

example : fileSet demo 0 = some [3, 2, 1, 0] ∧ (indexOrder demo 0).1 = [2, 3, 1, 0] ∧
    (indexOrder demo 0).2 = [(0, 3)] := by decide

end Tg.C16
