/-
C03 / C13, the saturating width of a bits literal (`Index.satAdd`, mirroring `saturating_add` on `u64`
in the real code): the width reported for `{ … }` is below `2^64` for every input, it is the saturating
sum of the widths of its elements, and the saturating sum is the plain sum whenever that is below `2^64`.
-/
import TgModel.Lemmas.IdeSemMonad
import TgModel.Ide.Index

namespace Tg.C03
open Tg Tg.Ide Tg.Ide.Index

theorem satAdd_lt (a b : Nat) : satAdd a b < 18446744073709551616 := by
  unfold satAdd
  split <;> omega

theorem satAdd_eq_add (a b : Nat) (h : a + b < 18446744073709551616) : satAdd a b = a + b := by
  unfold satAdd
  rw [if_pos h]

theorem satAdd_le_add (a b : Nat) : satAdd a b ≤ a + b := by
  unfold satAdd
  split <;> omega

/-- the saturating sum of a list of widths -/
def satSum (ws : List Nat) : Nat := ws.foldl satAdd 0

theorem foldl_satAdd_lt (ws : List Nat) (a : Nat) (ha : a < 18446744073709551616) :
    ws.foldl satAdd a < 18446744073709551616 := by
  induction ws generalizing a with
  | nil => exact ha
  | cons x t ih => exact ih _ (satAdd_lt a x)

theorem satSum_lt (ws : List Nat) : satSum ws < 18446744073709551616 :=
  foldl_satAdd_lt ws 0 (by omega)

theorem foldl_satAdd_eq (ws : List Nat) (a : Nat) (h : a + ws.sum < 18446744073709551616) :
    ws.foldl satAdd a = a + ws.sum := by
  induction ws generalizing a with
  | nil => simp
  | cons x t ih =>
    simp only [List.sum_cons] at h
    simp only [List.foldl_cons, List.sum_cons]
    rw [satAdd_eq_add a x (by omega), ih _ (by omega)]
    omega

/-- **nothing changes for realistic programs**: below `2^64` the saturating sum is the sum -/
theorem satSum_eq_sum (ws : List Nat) (h : ws.sum < 18446744073709551616) : satSum ws = ws.sum := by
  unfold satSum
  rw [foldl_satAdd_eq ws 0 (by omega)]
  omega

/-- an invariant of the loop state of a `for … in` -/
theorem forIn_state_inv {α β : Type} (P : β → Prop) (l : List α) (body : α → β → IxM (ForInStep β))
    (hb : ∀ x b c st c1, P b → (body x b).run c = .ok (st, c1) →
      match st with
      | .done b' => P b'
      | .yield b' => P b') :
    ∀ (init : β) (c : IndexCtx) (b : β) (c' : IndexCtx), P init → (forIn l init body).run c = .ok (b, c') → P b := by
  induction l with
  | nil =>
    intro init c b c' hi h
    simp only [List.forIn_nil, StateT.run_pure] at h
    cases h
    exact hi
  | cons x t ih =>
    intro init c b c' hi h
    simp only [List.forIn_cons] at h
    obtain ⟨st, c1, h1, h2⟩ := IxM.run_bind_ok h
    have := hb x init c st c1 hi h1
    cases st with
    | done b' =>
      simp only [StateT.run_pure] at h2
      cases h2
      exact this
    | yield b' => exact ih b' c1 b c' this h2

/-- **the width reported for a bits literal**: for every `Rec`, node and state, when `{ … }` is indexed
successfully with type `bits<w>`, `w` is the saturating sum of some list of element widths (one per element
that was indexed), and in particular `w < 2^64` -/
theorem bits_literal_width (r : Rec) (n : PTree) (hk : n.kind = .Bits) (c c' : IndexCtx) (t : Ty)
    (h : (indexSimpleValue r n).run c = .ok (some t, c')) :
    ∃ ws : List Nat, t = .bits (satSum ws) ∧ satSum ws < 18446744073709551616 := by
  unfold indexSimpleValue at h
  simp only [hk] at h
  split at h
  · rename_i valueList _
    obtain ⟨w, c1, h1, h2⟩ := IxM.run_bind_ok h
    simp only [StateT.run_pure] at h2
    cases h2
    have hw : ∃ ws : List Nat, w = satSum ws := by
      refine forIn_state_inv (fun b => ∃ ws : List Nat, b = satSum ws) _ _ ?_ 0 c w c' ⟨[], rfl⟩ h1
      intro x b s st s1 hP hrun
      obtain ⟨ws, rfl⟩ := hP
      obtain ⟨o, s2, _, hrun⟩ := IxM.run_bind_ok hrun
      split at hrun
      · simp only [StateT.run_pure] at hrun
        cases hrun
        exact ⟨ws ++ [_], by simp only [satSum, List.foldl_append, List.foldl_cons, List.foldl_nil]; rfl⟩
      · simp only [StateT.run_pure] at hrun
        cases hrun
        exact ⟨ws ++ [_], by simp only [satSum, List.foldl_append, List.foldl_cons, List.foldl_nil]; rfl⟩
    obtain ⟨ws, rfl⟩ := hw
    exact ⟨ws, rfl, satSum_lt ws⟩
  · simp only [StateT.run_pure] at h
    cases h

end Tg.C03
