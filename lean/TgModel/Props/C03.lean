/-
C03 — Analysis totality: for every workspace and every request the analysis returns without
panicking.

Statements only; the proofs are in `TgModel/Lemmas/Ide*.lean` (one preservation lemma per
`indexX` / bang-operator arm in `IdeIndex.lean` / `IdeBang.lean`, the recursion knot `mkRec_ok`
with the fuel argument in `IdeIndex.lean`, the handlers in `IdeHandlers.lean`, `buildWorkspace`
in `IdeWorkspace.lean`).  In the model a Rust panic is `Except.error msg`.

Hypotheses, and where they come from:

* `Ready ws` = `ws.WF ∧ RootOK ws`: the facts about a workspace the proofs use — the root and
  every resolved include name a file of the workspace; every tree carries consistent offsets and
  heights (`Spans`); the root file's tree is a `SourceFile` node (otherwise `fn index` panics with
  "failed to SourceFile::cast"); every `BangOperator` node starts with one of the 51 bang-operator
  tokens (otherwise `unreachable!` in `bang_operator.rs` is reached).  `built_ready` proves them
  for every workspace produced by `buildWorkspace`: the tree facts are `parserShape`
  (`Lemmas/ParserShape.lean`: an abstract interpreter over the parser DSL, sound w.r.t. `exec`,
  accepts every grammar function by kernel evaluation), the rest is an invariant of `collectLoop`.
* `completion` needs `offset ≤ length of the file in bytes`: `token_at_offset` panics with
  "Bad offset" past the end of the file.  No other handler needs an offset hypothesis in the
  model: go-to-definition / references / hover / inlay hints look the position up in the interval
  map and only walk trees at locations taken from the index (valid by C17).
* `Scopes::add_variable` inserts into the innermost scope that is not a defset scope and panics
  ("scope is empty") if there is none: the invariant keeps a non-defset scope (the root scope, which
  is never popped: pops only remove what was pushed above the scopes of the caller) on the stack.
* arena lookups (`expect("invalid … id")`) are `[id]!` in the model, so they are not `Except`
  errors; that they are never reached with a bad id is the invariant `SymMap.IdsOK`
  (`index_ids_valid`): every id stored in an arena entry, name map, scope, per-file symbol list,
  allocation table or the hook log is below the size of the arena it indexes — at every step of the
  indexer (`Inv` is a precondition and postcondition of every `indexX` lemma).  Ids carried inside
  `Ty.record` values are *not* tracked (gap: `Type::find_field` / `is_subclass_of` on a type
  returned by an earlier sub-expression).
-/
import TgModel.Lemmas.IdeCheck
import TgModel.Lemmas.ParserShape
import TgModel.Lemmas.IdeTotal
import TgModel.Props.C02Fuel

namespace Tg.C03
open Tg.Ide Tg.Ide.Handlers

/-- what the proofs need to know about a workspace -/
structure Ready (ws : Workspace) : Prop where
  wf : ws.WF
  root : Index.Workspace.RootOK ws

/-- workspaces produced by `buildWorkspace` are ready -/
theorem built_ready {vfs : List (String × String)} {rootPath : String}
    {includeDir : Option String} {ws : Workspace} (h : buildWorkspace vfs rootPath includeDir = .ok ws) :
    Ready ws := ⟨(buildWorkspace_wf parserShape h).1, (buildWorkspace_wf parserShape h).2.1⟩

/-! ### the indexer -/

/-- the indexer never panics on a ready workspace — all 38 bang-operator arms, all statements,
`include` cycles, unbalanced scope pushes after early returns, and `Workspace.depthBound` is enough
fuel -/
theorem index_never_panics_of_ready {ws : Workspace} (h : Ready ws) : ∃ r, Index.index ws = .ok r :=
  let ⟨r, hr, _⟩ := Index.index_ok h.wf h.root; ⟨r, hr⟩

/-- **the indexer never panics on a workspace built by `buildWorkspace`** -/
theorem index_never_panics (vfs : List (String × String)) (rootPath : String) (includeDir : Option String)
    (ws : Workspace) (h : buildWorkspace vfs rootPath includeDir = .ok ws) : ∃ r, Index.index ws = .ok r :=
  index_never_panics_of_ready (built_ready h)

/-- no `expect("invalid … id")` can fail: every id in the result is valid (and, inside the proof,
in every intermediate state) -/
theorem index_ids_valid {ws : Workspace} (h : Ready ws) {r : Index.IndexResult} (hr : Index.index ws = .ok r) :
    r.symbolMap.IdsOK := by
  obtain ⟨r', hr', hi, _⟩ := Index.index_ok h.wf h.root
  rw [hr] at hr'; cases hr'; exact hi

/-- the fuel of the model (`Workspace.depthBound`) is sufficient: `mkRec fuel` handles every node
whose height plus the budget of the files not yet entered is at most `fuel` -/
theorem fuel_sufficient (fuel : Nat) : RecOK (Index.mkRec fuel) fuel := Index.mkRec_ok fuel

/-! ### the handlers, on `Analysis.new ws` -/

theorem diagnostics_never_panics {ws : Workspace} (h : Ready ws) :
    ∃ res, diagnosticsExec (Analysis.new ws) = .ok res :=
  let ⟨r, hr, _⟩ := diagnosticsExec_ok h.wf h.root; ⟨r, hr⟩

theorem documentSymbol_never_panics {ws : Workspace} (h : Ready ws) (file : Nat) :
    ∃ res, documentSymbolExec (Analysis.new ws) file = .ok res :=
  let ⟨r, hr, _⟩ := documentSymbolExec_ok h.wf h.root file; ⟨r, hr⟩

theorem foldingRange_never_panics {ws : Workspace} (h : Ready ws) (file : Nat) :
    ∃ res, foldingRangeExec (Analysis.new ws) file = .ok res :=
  let ⟨r, hr, _⟩ := foldingRangeExec_ok h.wf file; ⟨some r, hr⟩

theorem documentLink_never_panics (ws : Workspace) (file : Nat) :
    ∃ res, documentLinkExec (Analysis.new ws) file = .ok res := ⟨_, rfl⟩

theorem inlayHint_never_panics {ws : Workspace} (h : Ready ws) (file a b : Nat) :
    ∃ res, inlayHintExec (Analysis.new ws) file a b = .ok res :=
  let ⟨r, hr, _⟩ := inlayHintExec_ok h.wf h.root file a b; ⟨r, hr⟩

theorem gotoDefinition_never_panics {ws : Workspace} (h : Ready ws) (file pos : Nat) :
    ∃ res, gotoDefinitionExec (Analysis.new ws) file pos = .ok res :=
  let ⟨r, hr, _⟩ := gotoDefinitionExec_ok h.wf h.root file pos; ⟨r, hr⟩

theorem references_never_panics {ws : Workspace} (h : Ready ws) (file pos : Nat) :
    ∃ res, referencesExec (Analysis.new ws) file pos = .ok res :=
  let ⟨r, hr, _⟩ := referencesExec_ok h.wf h.root file pos; ⟨r, hr⟩

theorem hover_never_panics {ws : Workspace} (h : Ready ws) (file pos : Nat) :
    ∃ res, hoverExec (Analysis.new ws) file pos = .ok res :=
  hoverExec_ok h.wf h.root file pos

/-- completion needs the offset to lie within the file (rowan: "Bad offset" otherwise) -/
theorem completion_never_panics {ws : Workspace} (h : Ready ws) (file pos : Nat) (trigger : Option String)
    (hpos : pos ≤ (ws.tree file).stop) :
    ∃ res, completionExec (Analysis.new ws) file pos trigger = .ok res :=
  completionExec_ok h.wf h.root file pos trigger hpos

/-- `(ws.tree file).stop` is the length of the file in bytes -/
theorem tree_stop_eq_byteLen {ws : Workspace} (h : Ready ws) (file : Nat) :
    (ws.tree file).stop = byteLen (ws.tree file).chars := by
  obtain ⟨txt, hs, h0⟩ := h.wf.tree_spans file
  rw [hs.chars_eq, hs.stop_eq, h0]; omega

/-- **every request on every built workspace returns** -/
theorem analysis_total (vfs : List (String × String)) (rootPath : String) (includeDir : Option String)
    (ws : Workspace) (hb : buildWorkspace vfs rootPath includeDir = .ok ws) :
    (∃ r, diagnosticsExec (Analysis.new ws) = .ok r) ∧
    (∀ file, ∃ r, documentSymbolExec (Analysis.new ws) file = .ok r) ∧
    (∀ file, ∃ r, foldingRangeExec (Analysis.new ws) file = .ok r) ∧
    (∀ file, ∃ r, documentLinkExec (Analysis.new ws) file = .ok r) ∧
    (∀ file a b, ∃ r, inlayHintExec (Analysis.new ws) file a b = .ok r) ∧
    (∀ file pos, ∃ r, gotoDefinitionExec (Analysis.new ws) file pos = .ok r) ∧
    (∀ file pos, ∃ r, referencesExec (Analysis.new ws) file pos = .ok r) ∧
    (∀ file pos, ∃ r, hoverExec (Analysis.new ws) file pos = .ok r) ∧
    (∀ file pos trigger, pos ≤ (ws.tree file).stop →
      ∃ r, completionExec (Analysis.new ws) file pos trigger = .ok r) := by
  have h := built_ready hb
  exact ⟨diagnostics_never_panics h, documentSymbol_never_panics h, foldingRange_never_panics h,
    documentLink_never_panics ws, inlayHint_never_panics h, gotoDefinition_never_panics h,
    references_never_panics h, hover_never_panics h, fun f p t hp' => completion_never_panics h f p t hp'⟩

/-! ### `buildWorkspace` is total -/

/-- parsing a file never fails (`C02.parse_never_panics`: no panic, and `parseFuel` is enough) -/
theorem parseFile_total (text : String) : ∃ r, parseFile text = .ok r := by
  obtain ⟨r, hr⟩ := Tg.C02.parse_never_panics text.toList
  exact ⟨_, by unfold parseFile; rw [hr]⟩

/-- **`buildWorkspace` always returns a workspace**: the parser does not fail, and the fuel of the
`collect_sources` loop (`16 + Σ (length + 1)` over the virtual file system) is enough — a queue entry
whose file is already collected costs one unit, a new file at most one entry per character of its
text (one per `include`), and different file ids read different entries of the file system
(`Lemmas/IdeTotal.lean`, `IncCount*.lean`) -/
theorem buildWorkspace_total (vfs : List (String × String)) (rootPath : String) (includeDir : Option String) :
    ∃ ws, buildWorkspace vfs rootPath includeDir = .ok ws :=
  buildWorkspace_total_of parseFile_total vfs rootPath includeDir

/-- the indexer runs, and does not panic, for every virtual file system, root path and include
directory -/
theorem index_never_panics_all (vfs : List (String × String)) (rootPath : String) (includeDir : Option String) :
    ∃ ws r, buildWorkspace vfs rootPath includeDir = .ok ws ∧ Index.index ws = .ok r := by
  obtain ⟨ws, hb⟩ := buildWorkspace_total vfs rootPath includeDir
  obtain ⟨r, hr⟩ := index_never_panics vfs rootPath includeDir ws hb
  exact ⟨ws, r, hb, hr⟩

/-- **analysis totality without hypotheses**: for every virtual file system, root path and include
directory the workspace is built and every request returns -/
theorem analysis_total_all (vfs : List (String × String)) (rootPath : String) (includeDir : Option String) :
    ∃ ws, buildWorkspace vfs rootPath includeDir = .ok ws ∧
    (∃ r, diagnosticsExec (Analysis.new ws) = .ok r) ∧
    (∀ file, ∃ r, documentSymbolExec (Analysis.new ws) file = .ok r) ∧
    (∀ file, ∃ r, foldingRangeExec (Analysis.new ws) file = .ok r) ∧
    (∀ file, ∃ r, documentLinkExec (Analysis.new ws) file = .ok r) ∧
    (∀ file a b, ∃ r, inlayHintExec (Analysis.new ws) file a b = .ok r) ∧
    (∀ file pos, ∃ r, gotoDefinitionExec (Analysis.new ws) file pos = .ok r) ∧
    (∀ file pos, ∃ r, referencesExec (Analysis.new ws) file pos = .ok r) ∧
    (∀ file pos, ∃ r, hoverExec (Analysis.new ws) file pos = .ok r) ∧
    (∀ file pos trigger, pos ≤ (ws.tree file).stop →
      ∃ r, completionExec (Analysis.new ws) file pos trigger = .ok r) := by
  obtain ⟨ws, hb⟩ := buildWorkspace_total vfs rootPath includeDir
  exact ⟨ws, hb, analysis_total vfs rootPath includeDir ws hb⟩

/-! ### non-vacuity -/

def isOk {ε α : Type} : Except ε α → Bool
  | .ok _ => true
  | .error _ => false

set_option maxRecDepth 100000 in
/-- `buildWorkspace` does return a workspace (a root file that includes another file) -/
example : isOk (buildWorkspace [("/w/a.td", "include \"b.td\"\nclass A;"), ("/w/b.td", "def x;")]
    "/w/a.td" none) = true := by decide +kernel

set_option maxRecDepth 100000 in
/-- the root path `/` (a path without parent: no directory of its own to search) with an include
that does not resolve -/
example : isOk (buildWorkspace [("/", "class R;\ninclude \"x.td\"\n")] "/" none) = true := by decide +kernel

/-- a text with a class with a template argument and a field whose value is a bang operator, a
comment, a def with a parent class -/
def exInput : List Char := "class A<int x> { int y = !add(x, 1); }\n// c\ndef d : A<2>;".toList

/-- its parse tree (the parser model does return one: `exInput_parses`) -/
def exTree : Tree :=
  match Grammar.parse exInput with
  | .ok r => r.tree
  | _ => .node .SourceFile []

set_option maxRecDepth 100000 in
theorem exInput_parses : (match Grammar.parse exInput with | .ok _ => true | _ => false) = true := by
  decide +kernel

set_option maxRecDepth 100000 in
/-- the tree-shape hypotheses hold for this parse tree (kernel evaluation of the checker) -/
theorem exTree_shape : shapeCheck (PTree.ofTree exTree) = true := by decide +kernel

/-- `Ready` is satisfiable by a workspace with a non-trivial file -/
theorem ex_ready : Ready (wsOfTree exTree) :=
  ⟨(wsOfTree_wf exTree_shape).1, (wsOfTree_wf exTree_shape).2.1⟩

example : ∃ r, Index.index (wsOfTree exTree) = .ok r := index_never_panics_of_ready ex_ready
example : ∃ r, hoverExec (Analysis.new (wsOfTree exTree)) 0 6 = .ok r := hover_never_panics ex_ready 0 6
example : ∃ r, completionExec (Analysis.new (wsOfTree exTree)) 0 0 none = .ok r :=
  completion_never_panics ex_ready 0 0 none (Nat.zero_le _)

/-- the hypothesis of `completion_never_panics` cannot be dropped: past the end of the file the model
(like rowan) fails -/
example : completionExec (Analysis.new (wsOfTree (.node .SourceFile []))) 0 1 none =
    .error "Bad offset: range 0..0 offset 1" := by
  have hshape : shapeCheck (PTree.ofTree (.node .SourceFile [])) = true := by decide +kernel
  obtain ⟨r, hr⟩ := index_never_panics_of_ready ⟨(wsOfTree_wf hshape).1, (wsOfTree_wf hshape).2.1⟩
  have hidx : (Analysis.new (wsOfTree (.node .SourceFile []))).index = .ok r := by simp [Analysis.new, hr]
  unfold completionExec
  simp only [hidx, bind, Except.bind]
  rfl

end Tg.C03
