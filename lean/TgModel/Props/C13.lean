/-
C13 — Diagnostics are sound and complete on the supported core: the decision logic.

(1) the typing rule `can_be_casted_to`, (2) `check_template_args`, (3) the arity check of the bang
operators (`expect_values`).  All theorems are about the model.
-/
import TgModel.Lemmas.IdeSemRun

namespace Tg.C13
open Tg Tg.Ide Tg.Ide.Index

/-! ## (1) the typing rule of the diagnostics: `can_be_casted_to` -/

theorem Ty.beq_iff_eq : ∀ (a b : Ty), (a == b) = true ↔ a = b := by
  intro a
  induction a with
  | list x ih =>
    intro b
    cases b with
    | list y =>
      have : (Ty.list x == Ty.list y) = (x == y) := rfl
      rw [this, ih y]
      constructor
      · rintro rfl; rfl
      · intro h; cases h; rfl
    | _ => constructor <;> intro h <;> cases h
  | bits n =>
    intro b
    cases b with
    | bits m =>
      have : (Ty.bits n == Ty.bits m) = (n == m) := rfl
      rw [this]
      simp
    | _ => constructor <;> intro h <;> cases h
  | record i nm =>
    intro b
    cases b with
    | record j mm =>
      have : (Ty.record i nm == Ty.record j mm) = (i == j && nm == mm) := rfl
      rw [this]
      simp
    | _ => constructor <;> intro h <;> cases h
  | _ =>
    intro b
    cases b <;> first | exact ⟨fun _ => rfl, fun _ => rfl⟩ | (constructor <;> intro h <;> cases h)

/-- **the cast rule**, as a case list (`sub i j` = record `i` is a strict subclass of record `j`) -/
inductive Castable (sub : Nat → Nat → Bool) : Ty → Ty → Prop
  /-- the same type -/
  | refl (a : Ty) : Castable sub a a
  /-- `?` (uninitialized), `any` and `unknown` are compatible with everything, in both directions -/
  | uninitL (b : Ty) : Castable sub .uninitialized b
  | uninitR (a : Ty) : Castable sub a .uninitialized
  | anyL (b : Ty) : Castable sub .any b
  | anyR (a : Ty) : Castable sub a .any
  /-- `unknown` (the type of a value that could not be typed) is compatible with everything too -/
  | unknownL (b : Ty) : Castable sub .unknown b
  | unknownR (a : Ty) : Castable sub a .unknown
  /-- `int` ↔ `bit`, `int` ↔ `bits<n>` -/
  | intBit : Castable sub .int .bit
  | bitInt : Castable sub .bit .int
  | intBits (n : Nat) : Castable sub .int (.bits n)
  | bitsInt (n : Nat) : Castable sub (.bits n) .int
  /-- `string` ↔ `code` -/
  | stringCode : Castable sub .string .code
  | codeString : Castable sub .code .string
  /-- lists: element-wise -/
  | list {x y : Ty} (h : Castable sub x y) : Castable sub (.list x) (.list y)
  /-- records: the same record (the stored name is not compared) or a subclass -/
  | recordSame (i : Nat) (n m : String) : Castable sub (.record i n) (.record i m)
  | recordSub {i j : Nat} (n m : String) (h : sub i j = true) : Castable sub (.record i n) (.record j m)

theorem canBeCastedTo_refl (sub : Nat → Nat → Bool) (a : Ty) : Ty.canBeCastedTo sub a a = true := by
  induction a with
  | list x ih => simpa [Ty.canBeCastedTo] using ih
  | record i n => simp [Ty.canBeCastedTo]
  | bits n => simp [Ty.canBeCastedTo, Ty.beq_iff_eq]
  | _ => simp [Ty.canBeCastedTo, Ty.beq_iff_eq]

theorem canBeCastedTo_iff (sub : Nat → Nat → Bool) (a b : Ty) :
    Ty.canBeCastedTo sub a b = true ↔ Castable sub a b := by
  constructor
  · intro h
    fun_induction Ty.canBeCastedTo sub a b with
    | case1 => exact .uninitL _
    | case2 => exact .uninitR _
    | case3 => exact .anyL _
    | case4 => exact .anyR _
    | case5 => exact .unknownL _
    | case6 => exact .unknownR _
    | case7 => exact .intBit
    | case8 => exact .bitInt
    | case9 => exact .intBits _
    | case10 => exact .bitsInt _
    | case11 => exact .stringCode
    | case12 => exact .codeString
    | case13 a b ih => exact .list (ih h)
    | case14 i n j m =>
      simp only [Bool.or_eq_true, beq_iff_eq] at h
      rcases h with rfl | h
      · exact .recordSame _ _ _
      · exact .recordSub _ _ h
    | case15 a b =>
      rw [Ty.beq_iff_eq] at h
      subst h
      exact .refl _
  · intro h
    induction h with
    | refl a => exact canBeCastedTo_refl sub a
    | uninitL b => simp [Ty.canBeCastedTo]
    | uninitR a => cases a <;> simp [Ty.canBeCastedTo]
    | anyL b => cases b <;> simp [Ty.canBeCastedTo]
    | anyR a => cases a <;> simp [Ty.canBeCastedTo]
    | unknownL b => cases b <;> simp [Ty.canBeCastedTo]
    | unknownR a => cases a <;> simp [Ty.canBeCastedTo]
    | list _ ih => simpa [Ty.canBeCastedTo] using ih
    | recordSame i n m => simp [Ty.canBeCastedTo]
    | recordSub n m h => simp [Ty.canBeCastedTo, h]
    | _ => simp [Ty.canBeCastedTo]
/-! ## (2) `check_template_args` -/

/-- the kinds of diagnostics of `check_template_args` -/
inductive ArgReport where
  | tooMany (n : Nat)
  | typeMismatch (param : String) (valueTyp paramTyp : Ty)
  | duplicate (name : String)
  | unknown (name : String)
  | missing (param : String)

def ArgReport.message : ArgReport → String
  | .tooMany n => s!"too many arguments: {n}"
  | .typeMismatch p vt pt => s!"value specified for template argument '{p}' is type of {vt}; expected type {pt}"
  | .duplicate n => s!"we can only specify the template argument '{n}' once"
  | .unknown n => s!"argument '{n}' doesn't exist"
  | .missing p => s!"value not specified for template argument '{p}'"

abbrev Report := (Nat × Nat) × ArgReport

/-- the type check of one bound value -/
def mismatch (sm : SymMap) (rng : Nat × Nat) (param : String) (valueTyp paramTyp : Ty) : List Report :=
  if sm.canBeCastedTo valueTyp paramTyp then [] else [(rng, .typeMismatch param valueTyp paramTyp)]

/-- one argument value: the parameters still unbound afterwards and the reports; `none` = the
`unwrap` of the positional parameter panics -/
def argStep (sm : SymMap) (tas : List TemplateArgument) (unsolved : List String) (i : Nat) :
    Option ArgValue → Option (List String × List Report)
  | none => some (unsolved, [])
  | some (none, typ, rng) =>
    match tas[i]? with
    | some arg => some (unsolved.erase arg.name, mismatch sm rng arg.name typ arg.typ)
    | none => none
  | some (some nm, typ, rng) =>
    if unsolved.contains nm then
      some (unsolved.erase nm,
        match tas.find? fun a => a.name == nm with
        | some a => mismatch sm rng a.name typ a.typ
        | none => [])
    else if (tas.find? fun a => a.name == nm).isSome then some (unsolved, [(rng, .duplicate nm)])
    else some (unsolved, [(rng, .unknown nm)])

def reportAll (c : IndexCtx) (f : Nat) (rs : List Report) : IndexCtx :=
  rs.foldl (fun c r => c.report f r.1 r.2.message) c


theorem reportAll_fileTrace (c : IndexCtx) (f : Nat) (rs : List Report) : (reportAll c f rs).fileTrace = c.fileTrace := by
  unfold reportAll
  induction rs generalizing c with
  | nil => rfl
  | cons r t ih => simp only [List.foldl_cons]; rw [ih]; rfl

theorem reportAll_symbolMap (c : IndexCtx) (f : Nat) (rs : List Report) : (reportAll c f rs).symbolMap = c.symbolMap := by
  unfold reportAll
  induction rs generalizing c with
  | nil => rfl
  | cons r t ih => simp only [List.foldl_cons]; rw [ih]; rfl

theorem reportAll_append (c : IndexCtx) (f : Nat) (rs rs' : List Report) :
    reportAll c f (rs ++ rs') = reportAll (reportAll c f rs) f rs' := by
  unfold reportAll; rw [List.foldl_append]

/-- folding a step function that may fail (`none`), collecting the reports -/
def foldSteps {α σ : Type} (step : α → σ → Option (σ × List Report)) : List α → σ → Option (σ × List Report)
  | [], s => some (s, [])
  | x :: t, s =>
    match step x s with
    | none => none
    | some (s', rs) =>
      match foldSteps step t s' with
      | none => none
      | some (s'', rs') => some (s'', rs ++ rs')

/-- a `for` loop whose body only reports diagnostics and updates the loop state -/
theorem forIn_run_reports {α σ : Type} (sm : SymMap) (f : Nat) (rest : List Nat) (msg : String)
    (body : α → σ → IxM (ForInStep σ)) (step : α → σ → Option (σ × List Report))
    (hbody : ∀ x s c, c.fileTrace = f :: rest → c.symbolMap = sm →
      (body x s).run c = match step x s with
        | some (s', rs) => .ok (.yield s', reportAll c f rs)
        | none => .error msg)
    (l : List α) (init : σ) (c : IndexCtx) (hc : c.fileTrace = f :: rest) (hsm : c.symbolMap = sm) :
    (forIn l init body).run c = match foldSteps step l init with
      | some (s', rs) => .ok (s', reportAll c f rs)
      | none => .error msg := by
  induction l generalizing init c with
  | nil => simp [foldSteps, reportAll]; rfl
  | cons x t ih =>
    rw [List.forIn_cons]
    simp only [StateT.run_bind, hbody x init c hc hsm, foldSteps]
    cases hs : step x init with
    | none => rfl
    | some p =>
      obtain ⟨s', rs⟩ := p
      simp only [Except.ok_bind]
      rw [ih s' (reportAll c f rs) (by rw [reportAll_fileTrace]; exact hc) (by rw [reportAll_symbolMap]; exact hsm)]
      cases foldSteps step t s' with
      | none => rfl
      | some q => simp only [reportAll_append]

def loopStep (sm : SymMap) (tas : List TemplateArgument) (av : Option ArgValue)
    (s : (List String × Nat)) : Option ((List String × Nat) × List Report) :=
  (argStep sm tas s.1 s.2 av).map fun p => ((p.1, s.2 + 1), p.2)

/-- the parameters left unbound that have no default value -/
def missingOf (tas : List TemplateArgument) (range : Nat × Nat) (u : String) : List Report :=
  match tas.find? fun a => a.name == u with
  | some a => if !a.hasDefaultValue then [(range, .missing u)] else []
  | none => []

/-- **the decision logic of `check_template_args`** as a pure function: the reports in order;
`none` = panic -/
def checkPure (sm : SymMap) (tas : List TemplateArgument) (avs : List (Option ArgValue))
    (range : Nat × Nat) : Option (List Report) :=
  if avs.length > tas.length then some [(range, .tooMany avs.length)] else
  match foldSteps (loopStep sm tas) avs ((tas.map (·.name)).eraseDups, 0) with
  | none => none
  | some (s, rs) => some (rs ++ s.1.flatMap (missingOf tas range))

theorem foldSteps_pure {α σ : Type} (g : α → List Report) (l : List α) (s : σ) :
    foldSteps (fun x s => some (s, g x)) l s = some (s, l.flatMap g) := by
  induction l with
  | nil => rfl
  | cons x t ih => simp [foldSteps, ih]

theorem cast_step {β : Type} (sm : SymMap) (c : IndexCtx) (f : Nat) (rest : List Nat)
    (hc : c.fileTrace = f :: rest) (hsm : c.symbolMap = sm) (rng : Nat × Nat) (p : String) (vt pt : Ty)
    (m : String) (hm : m = (ArgReport.typeMismatch p vt pt).message) (y : β) :
    (canBeCastedTo vt pt >>= fun l =>
      if (!l) = true then (error rng m >>= fun _ => (pure y : IxM β)) else pure y).run c =
      .ok (y, reportAll c f (mismatch sm rng p vt pt)) := by
  simp only [StateT.run_bind, canBeCastedTo_run, Except.ok_bind, hsm, mismatch]
  by_cases h : sm.canBeCastedTo vt pt = true
  · simp [h, reportAll]
    rfl
  · simp only [h, Bool.not_false, if_true, Bool.false_eq_true, if_false, StateT.run_bind,
      error_run _ _ c f rest hc, Except.ok_bind]
    subst hm
    rfl

theorem report_step {β : Type} (c : IndexCtx) (f : Nat) (rest : List Nat)
    (hc : c.fileTrace = f :: rest) (rng : Nat × Nat) (r : ArgReport) (m : String) (hm : m = r.message) (y : β) :
    (error rng m >>= fun _ => (pure y : IxM β)).run c = .ok (y, reportAll c f [(rng, r)]) := by
  simp only [StateT.run_bind, error_run _ _ c f rest hc, Except.ok_bind]
  subst hm
  rfl

theorem checkTemplateArgs_run (sm : SymMap) (tas : List TemplateArgument) (avs : List (Option ArgValue))
    (range : Nat × Nat) (c : IndexCtx) (f : Nat) (rest : List Nat) (hc : c.fileTrace = f :: rest)
    (hsm : c.symbolMap = sm) :
    (checkTemplateArgs tas avs range).run c =
      match checkPure sm tas avs range with
      | some rs => .ok ((), reportAll c f rs)
      | none => .error "called `Option::unwrap()` on a `None` value" := by
  unfold checkTemplateArgs checkPure
  by_cases hlen : avs.length > tas.length
  · simp only [hlen, if_true, StateT.run_bind, error_run _ _ c f rest hc, Except.ok_bind]
    rfl
  · simp only [hlen, if_false]
    simp only [StateT.run_bind]
    have key := fun body hb => forIn_run_reports (α := Option ArgValue) (σ := (List String × Nat)) sm f rest
      "called `Option::unwrap()` on a `None` value" body (loopStep sm tas) hb avs ((tas.map (·.name)).eraseDups, 0) c hc hsm
    rw [key]
    · cases hfold : foldSteps (loopStep sm tas) avs ((tas.map (·.name)).eraseDups, 0) with
      | none => rfl
      | some p =>
        obtain ⟨st, rs⟩ := p
        simp only [Except.ok_bind]
        rw [forIn_run_reports sm f rest "" _ (fun u s => some (s, missingOf tas range u)) ?_ _ _ _
          (by rw [reportAll_fileTrace]; exact hc) (by rw [reportAll_symbolMap]; exact hsm)]
        · rw [foldSteps_pure]
          simp only [Except.ok_bind, reportAll_append]
          rfl
        · intro u s c' hc' _
          unfold missingOf
          cases tas.find? (fun a => a.name == u) with
          | none => rfl
          | some a =>
            simp only
            by_cases hd : (!a.hasDefaultValue) = true
            · simp only [hd, if_true]
              exact report_step c' f rest hc' range (.missing u) _ rfl _
            · simp only [hd, Bool.false_eq_true, if_false]
              rfl
    · intro x s c hc hsm
      unfold loopStep argStep
      cases x with
      | none => rfl
      | some av =>
        obtain ⟨nm, typ, rng⟩ := av
        cases nm with
        | none =>
          simp only
          cases htas : tas[s.2]? with
          | none => rfl
          | some arg =>
            simp only [Option.map_some]
            exact cast_step sm c f rest hc hsm rng arg.name typ arg.typ _ rfl _
        | some nm =>
          simp only
          by_cases hcont : s.1.contains nm = true
          · simp only [hcont, if_true, Option.map_some]
            cases tas.find? (fun a => a.name == nm) with
            | none => rfl
            | some a =>
              simp only [Option.map_some]
              exact cast_step sm c f rest hc hsm rng a.name typ a.typ _ rfl _
          · simp only [hcont, Bool.false_eq_true, if_false]
            by_cases hsome : (tas.find? (fun a => a.name == nm)).isSome = true
            · simp only [hsome, if_true, Option.map_some]
              exact report_step c f rest hc rng (.duplicate nm) _ rfl _
            · simp only [hsome, Bool.false_eq_true, if_false, Option.map_some]
              exact report_step c f rest hc rng (.unknown nm) _ rfl _
theorem nodup_eraseDups {α : Type} [BEq α] [LawfulBEq α] (l : List α) : l.eraseDups.Nodup := by
  generalize hn : l.length = n
  induction n using Nat.strongRecOn generalizing l with
  | _ n ih =>
    cases l with
    | nil => simp
    | cons a t =>
      rw [List.eraseDups_cons, List.nodup_cons]
      constructor
      · rw [List.mem_eraseDups]
        simp
      · have : (t.filter fun b => !b == a).length < n := by
          have := List.length_filter_le (fun b => !b == a) t
          simp at hn; omega
        exact ih _ this _ rfl

/-! ### what the pure function reports -/

/-- the argument values from position `i` on: the parameters still unbound afterwards and the
reports, value by value -/
def argsFrom (sm : SymMap) (tas : List TemplateArgument) :
    List (Option ArgValue) → List String → Nat → Option (List String × List Report)
  | [], u, _ => some (u, [])
  | av :: t, u, i =>
    match argStep sm tas u i av with
    | none => none
    | some (u', rs) =>
      match argsFrom sm tas t u' (i + 1) with
      | none => none
      | some (u'', rs') => some (u'', rs ++ rs')

theorem foldSteps_loopStep (sm : SymMap) (tas : List TemplateArgument) (avs : List (Option ArgValue))
    (u : List String) (i : Nat) :
    foldSteps (loopStep sm tas) avs (u, i) =
      (argsFrom sm tas avs u i).map fun p => ((p.1, i + avs.length), p.2) := by
  induction avs generalizing u i with
  | nil => rfl
  | cons av t ih =>
    simp only [foldSteps, argsFrom, loopStep]
    cases argStep sm tas u i av with
    | none => rfl
    | some p =>
      obtain ⟨u', rs⟩ := p
      simp only [Option.map_some, ih]
      cases argsFrom sm tas t u' (i + 1) with
      | none => rfl
      | some q => simp only [Option.map_some, List.length_cons]; congr 3; omega

theorem checkPure_eq (sm : SymMap) (tas : List TemplateArgument) (avs : List (Option ArgValue))
    (range : Nat × Nat) :
    checkPure sm tas avs range =
      if avs.length > tas.length then some [(range, .tooMany avs.length)] else
      (argsFrom sm tas avs (tas.map (·.name)).eraseDups 0).map fun p =>
        p.2 ++ p.1.flatMap (missingOf tas range) := by
  unfold checkPure
  split
  · rfl
  · rw [foldSteps_loopStep]
    cases argsFrom sm tas avs (tas.map (·.name)).eraseDups 0 <;> rfl

/-- the parameter names bound by the argument values from position `i` on: a positional value binds
the parameter at its position, a named value binds its name -/
def boundNames (tas : List TemplateArgument) : List (Option ArgValue) → Nat → List String
  | [], _ => []
  | none :: t, i => boundNames tas t (i + 1)
  | some (none, _, _) :: t, i =>
    (match tas[i]? with | some a => [a.name] | none => []) ++ boundNames tas t (i + 1)
  | some (some nm, _, _) :: t, i => nm :: boundNames tas t (i + 1)

theorem argStep_unsolved (sm : SymMap) (tas : List TemplateArgument) (u u' : List String) (i : Nat)
    (av : Option ArgValue) (rs : List Report) (hnd : u.Nodup) (h : argStep sm tas u i av = some (u', rs)) :
    u'.Nodup ∧ ∀ x, x ∈ u' ↔ x ∈ u ∧ x ∉ boundNames tas [av] i := by
  unfold argStep at h
  split at h
  · cases h; exact ⟨hnd, fun x => by simp [boundNames]⟩
  · rename_i typ rng
    split at h
    · rename_i arg harg
      cases h
      refine ⟨hnd.erase _, fun x => ?_⟩
      rw [hnd.mem_erase_iff]
      simp [boundNames, harg, and_comm]
    · cases h
  · rename_i nm typ rng
    split at h
    · rename_i hcont
      cases h
      refine ⟨hnd.erase _, fun x => ?_⟩
      rw [hnd.mem_erase_iff]
      simp [boundNames, and_comm]
    · rename_i hcont
      have hnm : nm ∉ u := by simpa using hcont
      have : ∀ x, x ∈ u ↔ x ∈ u ∧ x ∉ boundNames tas [some (some nm, typ, rng)] i := by
        intro x
        simp only [boundNames, List.mem_cons, List.not_mem_nil, or_false]
        constructor
        · intro hx; exact ⟨hx, fun he => hnm (he ▸ hx)⟩
        · exact fun hx => hx.1
      split at h <;> (cases h; exact ⟨hnd, this⟩)

theorem boundNames_cons (tas : List TemplateArgument) (av : Option ArgValue) (t : List (Option ArgValue)) (i : Nat) :
    boundNames tas (av :: t) i = boundNames tas [av] i ++ boundNames tas t (i + 1) := by
  cases av with
  | none => simp [boundNames]
  | some p =>
    obtain ⟨nm, typ, rng⟩ := p
    cases nm <;> simp [boundNames]

/-- the parameters still unbound after the argument values: those not bound by any of them -/
theorem argsFrom_unsolved (sm : SymMap) (tas : List TemplateArgument) (avs : List (Option ArgValue))
    (u u' : List String) (i : Nat) (rs : List Report) (hnd : u.Nodup)
    (h : argsFrom sm tas avs u i = some (u', rs)) :
    u'.Nodup ∧ ∀ x, x ∈ u' ↔ x ∈ u ∧ x ∉ boundNames tas avs i := by
  induction avs generalizing u i rs with
  | nil => cases h; exact ⟨hnd, fun x => by simp [boundNames]⟩
  | cons av t ih =>
    unfold argsFrom at h
    cases hs : argStep sm tas u i av with
    | none => rw [hs] at h; cases h
    | some p =>
      obtain ⟨u1, rs1⟩ := p
      rw [hs] at h
      simp only at h
      cases ht : argsFrom sm tas t u1 (i + 1) with
      | none => rw [ht] at h; cases h
      | some q =>
        obtain ⟨u2, rs2⟩ := q
        rw [ht] at h
        cases h
        obtain ⟨n1, m1⟩ := argStep_unsolved sm tas u u1 i av rs1 hnd hs
        obtain ⟨n2, m2⟩ := ih u1 (i + 1) rs2 n1 ht
        refine ⟨n2, fun x => ?_⟩
        rw [boundNames_cons tas av t i, List.mem_append, m2, m1]
        constructor
        · rintro ⟨⟨a, b⟩, c⟩; exact ⟨a, fun h => h.elim b c⟩
        · rintro ⟨a, b⟩; exact ⟨⟨a, fun h => b (Or.inl h)⟩, fun h => b (Or.inr h)⟩

/-- no panic when there are not more values than parameters -/
theorem argsFrom_isSome (sm : SymMap) (tas : List TemplateArgument) (avs : List (Option ArgValue))
    (u : List String) (i : Nat) (h : i + avs.length ≤ tas.length) : (argsFrom sm tas avs u i).isSome := by
  induction avs generalizing u i with
  | nil => rfl
  | cons av t ih =>
    have hstep : (argStep sm tas u i av).isSome := by
      unfold argStep
      split
      · rfl
      · have : i < tas.length := by simp at h; omega
        rw [List.getElem?_eq_getElem this]; rfl
      · split
        · rfl
        · split <;> rfl
    unfold argsFrom
    cases hs : argStep sm tas u i av with
    | none => rw [hs] at hstep; cases hstep
    | some p =>
      obtain ⟨u1, rs1⟩ := p
      simp only
      have := ih u1 (i + 1) (by simp at h; omega)
      cases ht : argsFrom sm tas t u1 (i + 1) with
      | none => rw [ht] at this; cases this
      | some q => rfl

/-- the value-by-value reports are type mismatches, duplicates and unknown names only -/
theorem argStep_kinds (sm : SymMap) (tas : List TemplateArgument) (u u' : List String) (i : Nat)
    (av : Option ArgValue) (rs : List Report) (h : argStep sm tas u i av = some (u', rs)) :
    ∀ r ∈ rs, (∀ n, r.2 ≠ .tooMany n) ∧ (∀ x, r.2 ≠ .missing x) := by
  unfold argStep at h
  split at h
  · cases h; intro r hr; cases hr
  · split at h
    · cases h
      intro r hr
      unfold mismatch at hr
      split at hr
      · cases hr
      · simp at hr; subst hr; exact ⟨fun _ h => (by cases h), fun _ h => (by cases h)⟩
    · cases h
  · split at h
    · cases h
      intro r hr
      split at hr
      · unfold mismatch at hr
        split at hr
        · cases hr
        · simp at hr; subst hr; exact ⟨fun _ h => (by cases h), fun _ h => (by cases h)⟩
      · cases hr
    · split at h <;>
      · cases h
        intro r hr
        simp at hr; subst hr; exact ⟨fun _ h => (by cases h), fun _ h => (by cases h)⟩

theorem argsFrom_kinds (sm : SymMap) (tas : List TemplateArgument) (avs : List (Option ArgValue))
    (u u' : List String) (i : Nat) (rs : List Report) (h : argsFrom sm tas avs u i = some (u', rs)) :
    ∀ r ∈ rs, (∀ n, r.2 ≠ .tooMany n) ∧ (∀ x, r.2 ≠ .missing x) := by
  induction avs generalizing u i rs with
  | nil => cases h; intro r hr; cases hr
  | cons av t ih =>
    unfold argsFrom at h
    cases hs : argStep sm tas u i av with
    | none => rw [hs] at h; cases h
    | some p =>
      obtain ⟨u1, rs1⟩ := p
      rw [hs] at h
      simp only at h
      cases ht : argsFrom sm tas t u1 (i + 1) with
      | none => rw [ht] at h; cases h
      | some q =>
        obtain ⟨u2, rs2⟩ := q
        rw [ht] at h
        cases h
        intro r hr
        rcases List.mem_append.1 hr with hr | hr
        · exact argStep_kinds sm tas u u1 i av rs1 hs r hr
        · exact ih u1 (i + 1) rs2 ht r hr

/-- **(2a)** "too many arguments" is reported iff there are more values than parameters (and then it
is the only report) -/
theorem too_many_arguments (sm : SymMap) (tas : List TemplateArgument) (avs : List (Option ArgValue))
    (range : Nat × Nat) :
    (avs.length > tas.length → checkPure sm tas avs range = some [(range, .tooMany avs.length)]) ∧
    (∀ rs, checkPure sm tas avs range = some rs → (∃ r ∈ rs, ∃ n, r.2 = .tooMany n) → avs.length > tas.length) := by
  refine ⟨fun h => by rw [checkPure_eq, if_pos h], ?_⟩
  intro rs hrs ⟨r, hr, n, hn⟩
  by_cases hlen : avs.length > tas.length
  · exact hlen
  · exfalso
    rw [checkPure_eq, if_neg hlen] at hrs
    cases ha : argsFrom sm tas avs (tas.map (·.name)).eraseDups 0 with
    | none => rw [ha] at hrs; cases hrs
    | some p =>
      obtain ⟨u', rs'⟩ := p
      rw [ha] at hrs
      simp only [Option.map_some, Option.some.injEq] at hrs
      subst hrs
      rcases List.mem_append.1 hr with hr | hr
      · exact (argsFrom_kinds sm tas avs _ u' 0 rs' ha r hr).1 n hn
      · obtain ⟨x, _, hx⟩ := List.mem_flatMap.1 hr
        unfold missingOf at hx
        split at hx
        · split at hx
          · simp at hx; subst hx; cases hn
          · cases hx
        · cases hx

/-- **(2b)** with not more values than parameters there is no panic, and "value not specified for
template argument 'x'" is reported exactly for the parameters `x` without default value (the first
parameter of that name decides) that no positional value and no named value binds -/
theorem value_not_specified (sm : SymMap) (tas : List TemplateArgument) (avs : List (Option ArgValue))
    (range : Nat × Nat) (hlen : avs.length ≤ tas.length) :
    ∃ rs, checkPure sm tas avs range = some rs ∧
      ∀ x, (range, ArgReport.missing x) ∈ rs ↔
        x ∉ boundNames tas avs 0 ∧ ∃ a, tas.find? (fun a => a.name == x) = some a ∧ a.hasDefaultValue = false := by
  have hsome := argsFrom_isSome sm tas avs (tas.map (·.name)).eraseDups 0 (by omega)
  cases ha : argsFrom sm tas avs (tas.map (·.name)).eraseDups 0 with
  | none => rw [ha] at hsome; cases hsome
  | some p =>
    obtain ⟨u', rs'⟩ := p
    refine ⟨rs' ++ u'.flatMap (missingOf tas range), by rw [checkPure_eq, if_neg (by omega), ha]; rfl, ?_⟩
    obtain ⟨_, hmem⟩ := argsFrom_unsolved sm tas avs _ u' 0 rs' (nodup_eraseDups _) ha
    intro x
    rw [List.mem_append]
    constructor
    · rintro (h | h)
      · exact absurd rfl ((argsFrom_kinds sm tas avs _ u' 0 rs' ha _ h).2 x)
      · obtain ⟨y, hy, hx⟩ := List.mem_flatMap.1 h
        unfold missingOf at hx
        split at hx
        · rename_i a hfind
          split at hx
          · rename_i hdef
            simp only [List.mem_singleton, Prod.mk.injEq, true_and] at hx
            cases hx
            exact ⟨((hmem x).1 hy).2, a, hfind, by simpa using hdef⟩
          · cases hx
        · cases hx
    · rintro ⟨hnb, a, hfind, hdef⟩
      right
      have hxin : x ∈ (tas.map (·.name)).eraseDups := by
        rw [List.mem_eraseDups]
        have := List.mem_of_find?_eq_some hfind
        have hn : a.name = x := by simpa using List.find?_some hfind
        exact List.mem_map.2 ⟨a, this, hn⟩
      refine List.mem_flatMap.2 ⟨x, (hmem x).2 ⟨hxin, hnb⟩, ?_⟩
      unfold missingOf
      rw [hfind]
      simp [hdef]

/-- **(2c)** the report of a positional value: a type error iff the value's type cannot be cast to
the type of the parameter at its position (`Castable`, the rule of (1)) -/
theorem positional_type_error (sm : SymMap) (tas : List TemplateArgument) (u : List String) (i : Nat)
    (arg : TemplateArgument) (harg : tas[i]? = some arg) (typ : Ty) (rng : Nat × Nat) :
    ∃ rs, argStep sm tas u i (some (none, typ, rng)) = some (u.erase arg.name, rs) ∧
      (rs = [(rng, .typeMismatch arg.name typ arg.typ)] ∨ rs = []) ∧
      (rs ≠ [] ↔ ¬ Castable sm.isSubclassOf typ arg.typ) := by
  refine ⟨mismatch sm rng arg.name typ arg.typ, by simp [argStep, harg], ?_, ?_⟩
  · unfold mismatch; split
    · exact Or.inr rfl
    · exact Or.inl rfl
  · unfold mismatch
    rw [← canBeCastedTo_iff]
    unfold SymMap.canBeCastedTo
    split <;> simp_all

/-- … and of a named value that binds a parameter for the first time -/
theorem named_type_error (sm : SymMap) (tas : List TemplateArgument) (u : List String) (i : Nat)
    (nm : String) (hun : nm ∈ u) (a : TemplateArgument) (hfind : tas.find? (fun a => a.name == nm) = some a)
    (typ : Ty) (rng : Nat × Nat) :
    ∃ rs, argStep sm tas u i (some (some nm, typ, rng)) = some (u.erase nm, rs) ∧
      (rs = [(rng, .typeMismatch a.name typ a.typ)] ∨ rs = []) ∧
      (rs ≠ [] ↔ ¬ Castable sm.isSubclassOf typ a.typ) := by
  refine ⟨mismatch sm rng a.name typ a.typ, by simp [argStep, hun, hfind], ?_, ?_⟩
  · unfold mismatch; split
    · exact Or.inr rfl
    · exact Or.inl rfl
  · unfold mismatch
    rw [← canBeCastedTo_iff]
    unfold SymMap.canBeCastedTo
    split <;> simp_all

/-- a named value for a parameter that is already bound, or that does not exist -/
theorem named_rebound (sm : SymMap) (tas : List TemplateArgument) (u : List String) (i : Nat)
    (nm : String) (hun : nm ∉ u) (typ : Ty) (rng : Nat × Nat) :
    argStep sm tas u i (some (some nm, typ, rng)) =
      some (u, [(rng, if (tas.find? fun a => a.name == nm).isSome then .duplicate nm else .unknown nm)]) := by
  unfold argStep
  have : u.contains nm = false := by simpa using hun
  simp only [this, Bool.false_eq_true, if_false]
  split <;> rfl

/-! ## (3) bang-operator arity: `expect_values` -/

/-- the operand count is within `lo ..= hi` (`hi = none`: no upper bound) -/
def arityOk (lo : Nat) (hi : Option Nat) (len : Nat) : Bool :=
  match hi with
  | some h => decide (lo ≤ len) && decide (len ≤ h)
  | none => decide (lo ≤ len)

def arityMessage (lo : Nat) (hi : Option Nat) (len : Nat) : String :=
  match hi with
  | some h =>
    if lo == h then s!"expected {lo} arguments, found {len}"
    else s!"expected {lo} to {h} arguments, found {len}"
  | none => s!"expected {lo} or more arguments, found {len}"

/-- **(3)** `expect_values` always returns the operands; it reports (exactly one diagnostic, at the
operator's range, with the message for that form of bound) iff the operand count is out of range -/
theorem expectValues_contract (node : PTree) (lo : Nat) (hi : Option Nat) (c : IndexCtx) (f : Nat)
    (rest : List Nat) (hft : c.fileTrace = f :: rest) :
    (Bang.expectValues node lo hi).run c =
      .ok (Ast.bangOperatorValues node,
        if arityOk lo hi (Ast.bangOperatorValues node).length then c
        else c.report f (node.start, node.stop) (arityMessage lo hi (Ast.bangOperatorValues node).length)) := by
  unfold Bang.expectValues arityOk arityMessage
  cases hi with
  | none =>
    simp only
    by_cases h : (Ast.bangOperatorValues node).length < lo
    · simp only [h, if_true, StateT.run_bind, error_run _ _ c f rest hft, Except.ok_bind]
      have : ¬ lo ≤ (Ast.bangOperatorValues node).length := by omega
      simp [this, Bang.nodeRange]
      rfl
    · have : lo ≤ (Ast.bangOperatorValues node).length := by omega
      simp [h, this]
      rfl
  | some hh =>
    simp only
    by_cases heq : (lo == hh) = true
    · simp only [heq, if_true]
      have heq' : lo = hh := by simpa using heq
      subst heq'
      by_cases hne : ((Ast.bangOperatorValues node).length != lo) = true
      · simp only [hne, if_true, StateT.run_bind, error_run _ _ c f rest hft, Except.ok_bind]
        have : ¬ (lo ≤ (Ast.bangOperatorValues node).length ∧ (Ast.bangOperatorValues node).length ≤ lo) := by
          intro h; simp at hne; omega
        simp [this, Bang.nodeRange]
        rfl
      · have : (Ast.bangOperatorValues node).length = lo := by simpa using hne
        simp [this]
        rfl
    · simp only [heq, Bool.false_eq_true, if_false]
      by_cases hout : (Ast.bangOperatorValues node).length < lo ∨ hh < (Ast.bangOperatorValues node).length
      · have h1 : (decide ((Ast.bangOperatorValues node).length < lo) || decide (hh < (Ast.bangOperatorValues node).length)) = true := by
          simpa using hout
        simp only [h1, if_true, StateT.run_bind, error_run _ _ c f rest hft, Except.ok_bind]
        have : ¬ (lo ≤ (Ast.bangOperatorValues node).length ∧ (Ast.bangOperatorValues node).length ≤ hh) := by omega
        simp [this, Bang.nodeRange]
        rfl
      · have h1 : (decide ((Ast.bangOperatorValues node).length < lo) || decide (hh < (Ast.bangOperatorValues node).length)) = false := by
          simpa using hout
        have : lo ≤ (Ast.bangOperatorValues node).length ∧ (Ast.bangOperatorValues node).length ≤ hh := by omega
        simp [h1, this]
        rfl


/-! ## Non-vacuity -/

example : Ty.canBeCastedTo (fun _ _ => false) (.list .int) (.list (.bits 4)) = true :=
  (canBeCastedTo_iff _ _ _).2 (.list (.intBits 4))

example : ¬ Castable (fun _ _ => false) .string .int := by
  rw [← canBeCastedTo_iff]; decide

def exWs : Workspace := { files := #[], root := 0, fileSet := [0] }

def paramX : TemplateArgument := { name := "x", typ := .int, hasDefaultValue := false, defineLoc := ⟨0, 0, 0⟩ }

/-- `class A<int x>` referenced as `A<>`: the hypotheses of `checkTemplateArgs_run` and
`value_not_specified` hold, and the missing value is reported -/
example : ∃ rs, (checkTemplateArgs [paramX] [] (3, 4)).run (IndexCtx.new exWs) =
      .ok ((), reportAll (IndexCtx.new exWs) 0 rs) ∧ ((3, 4), ArgReport.missing "x") ∈ rs := by
  obtain ⟨rs, h1, h2⟩ := value_not_specified {} [paramX] [] (3, 4) (by simp)
  refine ⟨rs, ?_, (h2 "x").2 ⟨by simp [boundNames], paramX, by simp [paramX], rfl⟩⟩
  rw [checkTemplateArgs_run {} [paramX] [] (3, 4) (IndexCtx.new exWs) 0 [] rfl rfl, h1]

/-- one positional value of type `string` for the parameter `int x`: a type error -/
example : ∃ rs, argStep {} [paramX] ["x"] 0 (some (none, .string, (5, 6))) = some ([], rs) ∧ rs ≠ [] := by
  obtain ⟨rs, h1, _, h3⟩ := positional_type_error {} [paramX] ["x"] 0 paramX rfl .string (5, 6)
  refine ⟨rs, by rw [h1]; simp [paramX], h3.2 ?_⟩
  rw [← canBeCastedTo_iff]
  simp [paramX, Ty.canBeCastedTo]
  rfl

/-- `!add(1)`: one operand where two or more are expected -/
def addNode : PTree :=
  .node .BangOperator 0 7 3 #[.token .XAdd 0 4 "!add", .token .LParen 4 5 "(",
    .node .Value 5 6 2 #[.node .InnerValue 5 6 1 #[.token .IntVal 5 6 "1"]], .token .RParen 6 7 ")"]

example : (Bang.expectValues addNode 2 none).run (IndexCtx.new exWs) =
    .ok (Ast.bangOperatorValues addNode,
      (IndexCtx.new exWs).report 0 (0, 7) (arityMessage 2 none 1)) := by
  rw [expectValues_contract addNode 2 none (IndexCtx.new exWs) 0 [] rfl]
  rfl


end Tg.C13
