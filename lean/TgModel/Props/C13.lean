/-
C13 — Diagnostics are sound and complete on the supported core: the decision logic.

(1) the typing rule `can_be_casted_to`, (2) `check_template_args`, (3) the arity check of the bang
operators (`expect_values`), (4) every `ctx.error(` site of `index.rs` / `bang_operator.rs`, one
theorem per site (table at the head of the section: completeness and its converse at the function
that owns the site), (5) attribution of diagnostics to files ("none in files the fault does not
touch"), (6) soundness on a syntactically specified core (`core_no_diagnostics_partial`), and one
fault class that is *not* reported (`letItem_unchecked`: the top-level `let` statement).
All theorems are about the model.
-/
import TgModel.Lemmas.IdeSemRun
import TgModel.Lemmas.IdeSemDiag
import TgModel.Lemmas.IdeSemDiagCore
import TgModel.Lemmas.IdeSemCore
import TgModel.Lemmas.IdeSemCoreP
import TgModel.Lemmas.IdeSemCoreT
import TgModel.Lemmas.Sem10Core5
import TgModel.Lemmas.Sem10List
import TgModel.Lemmas.Sem11Core7
import TgModel.Lemmas.Sem12Core8
import TgModel.Lemmas.Sem12Checker8
import TgModel.Props.C03

namespace Tg.C13
open Tg Tg.Ide Tg.Ide.Index

/-! ## (1) the typing rule of the diagnostics: `can_be_casted_to` -/

theorem Ty.beq_iff_eq : ∀ (a b : Ty), (a == b) = true ↔ a = b := by
  intro a
  induction a with
  | list x ih =>
    intro b
    cases b with
    | list y =>
      have : (Ty.list x == Ty.list y) = (x == y) := rfl
      rw [this, ih y]
      constructor
      · rintro rfl; rfl
      · intro h; cases h; rfl
    | _ => constructor <;> intro h <;> cases h
  | bits n =>
    intro b
    cases b with
    | bits m =>
      have : (Ty.bits n == Ty.bits m) = (n == m) := rfl
      rw [this]
      simp
    | _ => constructor <;> intro h <;> cases h
  | record i nm =>
    intro b
    cases b with
    | record j mm =>
      have : (Ty.record i nm == Ty.record j mm) = (i == j && nm == mm) := rfl
      rw [this]
      simp
    | _ => constructor <;> intro h <;> cases h
  | _ =>
    intro b
    cases b <;> first | exact ⟨fun _ => rfl, fun _ => rfl⟩ | (constructor <;> intro h <;> cases h)

/-- **the cast rule**, as a case list (`sub i j` = record `i` is a strict subclass of record `j`) -/
inductive Castable (sub : Nat → Nat → Bool) : Ty → Ty → Prop
  /-- the same type -/
  | refl (a : Ty) : Castable sub a a
  /-- `?` (uninitialized), `any` and `unknown` are compatible with everything, in both directions -/
  | uninitL (b : Ty) : Castable sub .uninitialized b
  | uninitR (a : Ty) : Castable sub a .uninitialized
  | anyL (b : Ty) : Castable sub .any b
  | anyR (a : Ty) : Castable sub a .any
  /-- `unknown` (the type of a value that could not be typed) is compatible with everything too -/
  | unknownL (b : Ty) : Castable sub .unknown b
  | unknownR (a : Ty) : Castable sub a .unknown
  /-- `int` ↔ `bit`, `bit` ↔ `bits<1>`, `int` ↔ `bits<n>` -/
  | intBit : Castable sub .int .bit
  | bitInt : Castable sub .bit .int
  | bitBits1 : Castable sub .bit (.bits 1)
  | bits1Bit : Castable sub (.bits 1) .bit
  | intBits (n : Nat) : Castable sub .int (.bits n)
  | bitsInt (n : Nat) : Castable sub (.bits n) .int
  /-- `string` ↔ `code` -/
  | stringCode : Castable sub .string .code
  | codeString : Castable sub .code .string
  /-- lists: element-wise -/
  | list {x y : Ty} (h : Castable sub x y) : Castable sub (.list x) (.list y)
  /-- records: the same record (the stored name is not compared) or a subclass -/
  | recordSame (i : Nat) (n m : String) : Castable sub (.record i n) (.record i m)
  | recordSub {i j : Nat} (n m : String) (h : sub i j = true) : Castable sub (.record i n) (.record j m)

theorem canBeCastedTo_refl (sub : Nat → Nat → Bool) (a : Ty) : Ty.canBeCastedTo sub a a = true := by
  induction a with
  | list x ih => simpa [Ty.canBeCastedTo] using ih
  | record i n => simp [Ty.canBeCastedTo]
  | bits n => simp [Ty.canBeCastedTo, Ty.beq_iff_eq]
  | _ => simp [Ty.canBeCastedTo, Ty.beq_iff_eq]

theorem canBeCastedTo_iff (sub : Nat → Nat → Bool) (a b : Ty) :
    Ty.canBeCastedTo sub a b = true ↔ Castable sub a b := by
  constructor
  · intro h
    fun_induction Ty.canBeCastedTo sub a b with
    | case1 => exact .uninitL _
    | case2 => exact .uninitR _
    | case3 => exact .anyL _
    | case4 => exact .anyR _
    | case5 => exact .unknownL _
    | case6 => exact .unknownR _
    | case7 => exact .intBit
    | case8 => exact .bitInt
    | case9 => exact .bitBits1
    | case10 => exact .bits1Bit
    | case11 => exact .intBits _
    | case12 => exact .bitsInt _
    | case13 => exact .stringCode
    | case14 => exact .codeString
    | case15 a b ih => exact .list (ih h)
    | case16 i n j m =>
      simp only [Bool.or_eq_true, beq_iff_eq] at h
      rcases h with rfl | h
      · exact .recordSame _ _ _
      · exact .recordSub _ _ h
    | case17 a b =>
      rw [Ty.beq_iff_eq] at h
      subst h
      exact .refl _
  · intro h
    induction h with
    | refl a => exact canBeCastedTo_refl sub a
    | uninitL b => simp [Ty.canBeCastedTo]
    | uninitR a => cases a <;> simp [Ty.canBeCastedTo]
    | anyL b => cases b <;> simp [Ty.canBeCastedTo]
    | anyR a => cases a <;> simp [Ty.canBeCastedTo]
    | unknownL b => cases b <;> simp [Ty.canBeCastedTo]
    | unknownR a => cases a <;> simp [Ty.canBeCastedTo]
    | list _ ih => simpa [Ty.canBeCastedTo] using ih
    | recordSame i n m => simp [Ty.canBeCastedTo]
    | recordSub n m h => simp [Ty.canBeCastedTo, h]
    | _ => simp [Ty.canBeCastedTo]
/-! ## (2) `check_template_args` -/

/-- the kinds of diagnostics of `check_template_args` -/
inductive ArgReport where
  | tooMany (n : Nat)
  | typeMismatch (param : String) (valueTyp paramTyp : Ty)
  | duplicate (name : String)
  | unknown (name : String)
  | missing (param : String)

def ArgReport.message : ArgReport → String
  | .tooMany n => s!"too many arguments: {n}"
  | .typeMismatch p vt pt => s!"value specified for template argument '{p}' is type of {vt}; expected type {pt}"
  | .duplicate n => s!"we can only specify the template argument '{n}' once"
  | .unknown n => s!"argument '{n}' doesn't exist"
  | .missing p => s!"value not specified for template argument '{p}'"

abbrev Report := (Nat × Nat) × ArgReport

/-- the type check of one bound value -/
def mismatch (sm : SymMap) (rng : Nat × Nat) (param : String) (valueTyp paramTyp : Ty) : List Report :=
  if sm.canBeCastedTo valueTyp paramTyp then [] else [(rng, .typeMismatch param valueTyp paramTyp)]

/-- one argument value: the parameters still unbound afterwards and the reports; `none` = the
`unwrap` of the positional parameter panics -/
def argStep (sm : SymMap) (tas : List TemplateArgument) (unsolved : List String) (i : Nat) :
    Option ArgValue → Option (List String × List Report)
  | none => some (unsolved, [])
  | some (none, typ, rng) =>
    match tas[i]? with
    | some arg => some (unsolved.erase arg.name, mismatch sm rng arg.name typ arg.typ)
    | none => none
  | some (some nm, typ, rng) =>
    if unsolved.contains nm then
      some (unsolved.erase nm,
        match tas.find? fun a => a.name == nm with
        | some a => mismatch sm rng a.name typ a.typ
        | none => [])
    else if (tas.find? fun a => a.name == nm).isSome then some (unsolved, [(rng, .duplicate nm)])
    else some (unsolved, [(rng, .unknown nm)])

def reportAll (c : IndexCtx) (f : Nat) (rs : List Report) : IndexCtx :=
  rs.foldl (fun c r => c.report f r.1 r.2.message) c


theorem reportAll_fileTrace (c : IndexCtx) (f : Nat) (rs : List Report) : (reportAll c f rs).fileTrace = c.fileTrace := by
  unfold reportAll
  induction rs generalizing c with
  | nil => rfl
  | cons r t ih => simp only [List.foldl_cons]; rw [ih]; rfl

theorem reportAll_symbolMap (c : IndexCtx) (f : Nat) (rs : List Report) : (reportAll c f rs).symbolMap = c.symbolMap := by
  unfold reportAll
  induction rs generalizing c with
  | nil => rfl
  | cons r t ih => simp only [List.foldl_cons]; rw [ih]; rfl

theorem reportAll_append (c : IndexCtx) (f : Nat) (rs rs' : List Report) :
    reportAll c f (rs ++ rs') = reportAll (reportAll c f rs) f rs' := by
  unfold reportAll; rw [List.foldl_append]

/-- folding a step function that may fail (`none`), collecting the reports -/
def foldSteps {α σ : Type} (step : α → σ → Option (σ × List Report)) : List α → σ → Option (σ × List Report)
  | [], s => some (s, [])
  | x :: t, s =>
    match step x s with
    | none => none
    | some (s', rs) =>
      match foldSteps step t s' with
      | none => none
      | some (s'', rs') => some (s'', rs ++ rs')

/-- a `for` loop whose body only reports diagnostics and updates the loop state -/
theorem forIn_run_reports {α σ : Type} (sm : SymMap) (f : Nat) (rest : List Nat) (msg : String)
    (body : α → σ → IxM (ForInStep σ)) (step : α → σ → Option (σ × List Report))
    (hbody : ∀ x s c, c.fileTrace = f :: rest → c.symbolMap = sm →
      (body x s).run c = match step x s with
        | some (s', rs) => .ok (.yield s', reportAll c f rs)
        | none => .error msg)
    (l : List α) (init : σ) (c : IndexCtx) (hc : c.fileTrace = f :: rest) (hsm : c.symbolMap = sm) :
    (forIn l init body).run c = match foldSteps step l init with
      | some (s', rs) => .ok (s', reportAll c f rs)
      | none => .error msg := by
  induction l generalizing init c with
  | nil => simp [foldSteps, reportAll]; rfl
  | cons x t ih =>
    rw [List.forIn_cons]
    simp only [StateT.run_bind, hbody x init c hc hsm, foldSteps]
    cases hs : step x init with
    | none => rfl
    | some p =>
      obtain ⟨s', rs⟩ := p
      simp only [Except.ok_bind]
      rw [ih s' (reportAll c f rs) (by rw [reportAll_fileTrace]; exact hc) (by rw [reportAll_symbolMap]; exact hsm)]
      cases foldSteps step t s' with
      | none => rfl
      | some q => simp only [reportAll_append]

def loopStep (sm : SymMap) (tas : List TemplateArgument) (av : Option ArgValue)
    (s : (List String × Nat)) : Option ((List String × Nat) × List Report) :=
  (argStep sm tas s.1 s.2 av).map fun p => ((p.1, s.2 + 1), p.2)

/-- the parameters left unbound that have no default value -/
def missingOf (tas : List TemplateArgument) (range : Nat × Nat) (u : String) : List Report :=
  match tas.find? fun a => a.name == u with
  | some a => if !a.hasDefaultValue then [(range, .missing u)] else []
  | none => []

/-- **the decision logic of `check_template_args`** as a pure function: the reports in order;
`none` = panic -/
def checkPure (sm : SymMap) (tas : List TemplateArgument) (avs : List (Option ArgValue))
    (range : Nat × Nat) : Option (List Report) :=
  if avs.length > tas.length then some [(range, .tooMany avs.length)] else
  match foldSteps (loopStep sm tas) avs ((tas.map (·.name)).eraseDups, 0) with
  | none => none
  | some (s, rs) => some (rs ++ s.1.flatMap (missingOf tas range))

theorem foldSteps_pure {α σ : Type} (g : α → List Report) (l : List α) (s : σ) :
    foldSteps (fun x s => some (s, g x)) l s = some (s, l.flatMap g) := by
  induction l with
  | nil => rfl
  | cons x t ih => simp [foldSteps, ih]

theorem cast_step {β : Type} (sm : SymMap) (c : IndexCtx) (f : Nat) (rest : List Nat)
    (hc : c.fileTrace = f :: rest) (hsm : c.symbolMap = sm) (rng : Nat × Nat) (p : String) (vt pt : Ty)
    (m : String) (hm : m = (ArgReport.typeMismatch p vt pt).message) (y : β) :
    (canBeCastedTo vt pt >>= fun l =>
      if (!l) = true then (error rng m >>= fun _ => (pure y : IxM β)) else pure y).run c =
      .ok (y, reportAll c f (mismatch sm rng p vt pt)) := by
  simp only [StateT.run_bind, canBeCastedTo_run, Except.ok_bind, hsm, mismatch]
  by_cases h : sm.canBeCastedTo vt pt = true
  · simp [h, reportAll]
    rfl
  · simp only [h, Bool.not_false, if_true, Bool.false_eq_true, if_false, StateT.run_bind,
      error_run _ _ c f rest hc, Except.ok_bind]
    subst hm
    rfl

theorem report_step {β : Type} (c : IndexCtx) (f : Nat) (rest : List Nat)
    (hc : c.fileTrace = f :: rest) (rng : Nat × Nat) (r : ArgReport) (m : String) (hm : m = r.message) (y : β) :
    (error rng m >>= fun _ => (pure y : IxM β)).run c = .ok (y, reportAll c f [(rng, r)]) := by
  simp only [StateT.run_bind, error_run _ _ c f rest hc, Except.ok_bind]
  subst hm
  rfl

theorem checkTemplateArgs_run (sm : SymMap) (tas : List TemplateArgument) (avs : List (Option ArgValue))
    (range : Nat × Nat) (c : IndexCtx) (f : Nat) (rest : List Nat) (hc : c.fileTrace = f :: rest)
    (hsm : c.symbolMap = sm) :
    (checkTemplateArgs tas avs range).run c =
      match checkPure sm tas avs range with
      | some rs => .ok ((), reportAll c f rs)
      | none => .error "called `Option::unwrap()` on a `None` value" := by
  unfold checkTemplateArgs checkPure
  by_cases hlen : avs.length > tas.length
  · simp only [hlen, if_true, StateT.run_bind, error_run _ _ c f rest hc, Except.ok_bind]
    rfl
  · simp only [hlen, if_false]
    simp only [StateT.run_bind]
    have key := fun body hb => forIn_run_reports (α := Option ArgValue) (σ := (List String × Nat)) sm f rest
      "called `Option::unwrap()` on a `None` value" body (loopStep sm tas) hb avs ((tas.map (·.name)).eraseDups, 0) c hc hsm
    rw [key]
    · cases hfold : foldSteps (loopStep sm tas) avs ((tas.map (·.name)).eraseDups, 0) with
      | none => rfl
      | some p =>
        obtain ⟨st, rs⟩ := p
        simp only [Except.ok_bind]
        rw [forIn_run_reports sm f rest "" _ (fun u s => some (s, missingOf tas range u)) ?_ _ _ _
          (by rw [reportAll_fileTrace]; exact hc) (by rw [reportAll_symbolMap]; exact hsm)]
        · rw [foldSteps_pure]
          simp only [Except.ok_bind, reportAll_append]
          rfl
        · intro u s c' hc' _
          unfold missingOf
          cases tas.find? (fun a => a.name == u) with
          | none => rfl
          | some a =>
            simp only
            by_cases hd : (!a.hasDefaultValue) = true
            · simp only [hd, if_true]
              exact report_step c' f rest hc' range (.missing u) _ rfl _
            · simp only [hd, Bool.false_eq_true, if_false]
              rfl
    · intro x s c hc hsm
      unfold loopStep argStep
      cases x with
      | none => rfl
      | some av =>
        obtain ⟨nm, typ, rng⟩ := av
        cases nm with
        | none =>
          simp only
          cases htas : tas[s.2]? with
          | none => rfl
          | some arg =>
            simp only [Option.map_some]
            exact cast_step sm c f rest hc hsm rng arg.name typ arg.typ _ rfl _
        | some nm =>
          simp only
          by_cases hcont : s.1.contains nm = true
          · simp only [hcont, if_true, Option.map_some]
            cases tas.find? (fun a => a.name == nm) with
            | none => rfl
            | some a =>
              simp only [Option.map_some]
              exact cast_step sm c f rest hc hsm rng a.name typ a.typ _ rfl _
          · simp only [hcont, Bool.false_eq_true, if_false]
            by_cases hsome : (tas.find? (fun a => a.name == nm)).isSome = true
            · simp only [hsome, if_true, Option.map_some]
              exact report_step c f rest hc rng (.duplicate nm) _ rfl _
            · simp only [hsome, Bool.false_eq_true, if_false, Option.map_some]
              exact report_step c f rest hc rng (.unknown nm) _ rfl _
theorem nodup_eraseDups {α : Type} [BEq α] [LawfulBEq α] (l : List α) : l.eraseDups.Nodup := by
  generalize hn : l.length = n
  induction n using Nat.strongRecOn generalizing l with
  | _ n ih =>
    cases l with
    | nil => simp
    | cons a t =>
      rw [List.eraseDups_cons, List.nodup_cons]
      constructor
      · rw [List.mem_eraseDups]
        simp
      · have : (t.filter fun b => !b == a).length < n := by
          have := List.length_filter_le (fun b => !b == a) t
          simp at hn; omega
        exact ih _ this _ rfl

/-! ### what the pure function reports -/

/-- the argument values from position `i` on: the parameters still unbound afterwards and the
reports, value by value -/
def argsFrom (sm : SymMap) (tas : List TemplateArgument) :
    List (Option ArgValue) → List String → Nat → Option (List String × List Report)
  | [], u, _ => some (u, [])
  | av :: t, u, i =>
    match argStep sm tas u i av with
    | none => none
    | some (u', rs) =>
      match argsFrom sm tas t u' (i + 1) with
      | none => none
      | some (u'', rs') => some (u'', rs ++ rs')

theorem foldSteps_loopStep (sm : SymMap) (tas : List TemplateArgument) (avs : List (Option ArgValue))
    (u : List String) (i : Nat) :
    foldSteps (loopStep sm tas) avs (u, i) =
      (argsFrom sm tas avs u i).map fun p => ((p.1, i + avs.length), p.2) := by
  induction avs generalizing u i with
  | nil => rfl
  | cons av t ih =>
    simp only [foldSteps, argsFrom, loopStep]
    cases argStep sm tas u i av with
    | none => rfl
    | some p =>
      obtain ⟨u', rs⟩ := p
      simp only [Option.map_some, ih]
      cases argsFrom sm tas t u' (i + 1) with
      | none => rfl
      | some q => simp only [Option.map_some, List.length_cons]; congr 3; omega

theorem checkPure_eq (sm : SymMap) (tas : List TemplateArgument) (avs : List (Option ArgValue))
    (range : Nat × Nat) :
    checkPure sm tas avs range =
      if avs.length > tas.length then some [(range, .tooMany avs.length)] else
      (argsFrom sm tas avs (tas.map (·.name)).eraseDups 0).map fun p =>
        p.2 ++ p.1.flatMap (missingOf tas range) := by
  unfold checkPure
  split
  · rfl
  · rw [foldSteps_loopStep]
    cases argsFrom sm tas avs (tas.map (·.name)).eraseDups 0 <;> rfl

/-- the parameter names bound by the argument values from position `i` on: a positional value binds
the parameter at its position, a named value binds its name -/
def boundNames (tas : List TemplateArgument) : List (Option ArgValue) → Nat → List String
  | [], _ => []
  | none :: t, i => boundNames tas t (i + 1)
  | some (none, _, _) :: t, i =>
    (match tas[i]? with | some a => [a.name] | none => []) ++ boundNames tas t (i + 1)
  | some (some nm, _, _) :: t, i => nm :: boundNames tas t (i + 1)

theorem argStep_unsolved (sm : SymMap) (tas : List TemplateArgument) (u u' : List String) (i : Nat)
    (av : Option ArgValue) (rs : List Report) (hnd : u.Nodup) (h : argStep sm tas u i av = some (u', rs)) :
    u'.Nodup ∧ ∀ x, x ∈ u' ↔ x ∈ u ∧ x ∉ boundNames tas [av] i := by
  unfold argStep at h
  split at h
  · cases h; exact ⟨hnd, fun x => by simp [boundNames]⟩
  · rename_i typ rng
    split at h
    · rename_i arg harg
      cases h
      refine ⟨hnd.erase _, fun x => ?_⟩
      rw [hnd.mem_erase_iff]
      simp [boundNames, harg, and_comm]
    · cases h
  · rename_i nm typ rng
    split at h
    · rename_i hcont
      cases h
      refine ⟨hnd.erase _, fun x => ?_⟩
      rw [hnd.mem_erase_iff]
      simp [boundNames, and_comm]
    · rename_i hcont
      have hnm : nm ∉ u := by simpa using hcont
      have : ∀ x, x ∈ u ↔ x ∈ u ∧ x ∉ boundNames tas [some (some nm, typ, rng)] i := by
        intro x
        simp only [boundNames, List.mem_cons, List.not_mem_nil, or_false]
        constructor
        · intro hx; exact ⟨hx, fun he => hnm (he ▸ hx)⟩
        · exact fun hx => hx.1
      split at h <;> (cases h; exact ⟨hnd, this⟩)

theorem boundNames_cons (tas : List TemplateArgument) (av : Option ArgValue) (t : List (Option ArgValue)) (i : Nat) :
    boundNames tas (av :: t) i = boundNames tas [av] i ++ boundNames tas t (i + 1) := by
  cases av with
  | none => simp [boundNames]
  | some p =>
    obtain ⟨nm, typ, rng⟩ := p
    cases nm <;> simp [boundNames]

/-- the parameters still unbound after the argument values: those not bound by any of them -/
theorem argsFrom_unsolved (sm : SymMap) (tas : List TemplateArgument) (avs : List (Option ArgValue))
    (u u' : List String) (i : Nat) (rs : List Report) (hnd : u.Nodup)
    (h : argsFrom sm tas avs u i = some (u', rs)) :
    u'.Nodup ∧ ∀ x, x ∈ u' ↔ x ∈ u ∧ x ∉ boundNames tas avs i := by
  induction avs generalizing u i rs with
  | nil => cases h; exact ⟨hnd, fun x => by simp [boundNames]⟩
  | cons av t ih =>
    unfold argsFrom at h
    cases hs : argStep sm tas u i av with
    | none => rw [hs] at h; cases h
    | some p =>
      obtain ⟨u1, rs1⟩ := p
      rw [hs] at h
      simp only at h
      cases ht : argsFrom sm tas t u1 (i + 1) with
      | none => rw [ht] at h; cases h
      | some q =>
        obtain ⟨u2, rs2⟩ := q
        rw [ht] at h
        cases h
        obtain ⟨n1, m1⟩ := argStep_unsolved sm tas u u1 i av rs1 hnd hs
        obtain ⟨n2, m2⟩ := ih u1 (i + 1) rs2 n1 ht
        refine ⟨n2, fun x => ?_⟩
        rw [boundNames_cons tas av t i, List.mem_append, m2, m1]
        constructor
        · rintro ⟨⟨a, b⟩, c⟩; exact ⟨a, fun h => h.elim b c⟩
        · rintro ⟨a, b⟩; exact ⟨⟨a, fun h => b (Or.inl h)⟩, fun h => b (Or.inr h)⟩

/-- no panic when there are not more values than parameters -/
theorem argsFrom_isSome (sm : SymMap) (tas : List TemplateArgument) (avs : List (Option ArgValue))
    (u : List String) (i : Nat) (h : i + avs.length ≤ tas.length) : (argsFrom sm tas avs u i).isSome := by
  induction avs generalizing u i with
  | nil => rfl
  | cons av t ih =>
    have hstep : (argStep sm tas u i av).isSome := by
      unfold argStep
      split
      · rfl
      · have : i < tas.length := by simp at h; omega
        rw [List.getElem?_eq_getElem this]; rfl
      · split
        · rfl
        · split <;> rfl
    unfold argsFrom
    cases hs : argStep sm tas u i av with
    | none => rw [hs] at hstep; cases hstep
    | some p =>
      obtain ⟨u1, rs1⟩ := p
      simp only
      have := ih u1 (i + 1) (by simp at h; omega)
      cases ht : argsFrom sm tas t u1 (i + 1) with
      | none => rw [ht] at this; cases this
      | some q => rfl

/-- the value-by-value reports are type mismatches, duplicates and unknown names only -/
theorem argStep_kinds (sm : SymMap) (tas : List TemplateArgument) (u u' : List String) (i : Nat)
    (av : Option ArgValue) (rs : List Report) (h : argStep sm tas u i av = some (u', rs)) :
    ∀ r ∈ rs, (∀ n, r.2 ≠ .tooMany n) ∧ (∀ x, r.2 ≠ .missing x) := by
  unfold argStep at h
  split at h
  · cases h; intro r hr; cases hr
  · split at h
    · cases h
      intro r hr
      unfold mismatch at hr
      split at hr
      · cases hr
      · simp at hr; subst hr; exact ⟨fun _ h => (by cases h), fun _ h => (by cases h)⟩
    · cases h
  · split at h
    · cases h
      intro r hr
      split at hr
      · unfold mismatch at hr
        split at hr
        · cases hr
        · simp at hr; subst hr; exact ⟨fun _ h => (by cases h), fun _ h => (by cases h)⟩
      · cases hr
    · split at h <;>
      · cases h
        intro r hr
        simp at hr; subst hr; exact ⟨fun _ h => (by cases h), fun _ h => (by cases h)⟩

theorem argsFrom_kinds (sm : SymMap) (tas : List TemplateArgument) (avs : List (Option ArgValue))
    (u u' : List String) (i : Nat) (rs : List Report) (h : argsFrom sm tas avs u i = some (u', rs)) :
    ∀ r ∈ rs, (∀ n, r.2 ≠ .tooMany n) ∧ (∀ x, r.2 ≠ .missing x) := by
  induction avs generalizing u i rs with
  | nil => cases h; intro r hr; cases hr
  | cons av t ih =>
    unfold argsFrom at h
    cases hs : argStep sm tas u i av with
    | none => rw [hs] at h; cases h
    | some p =>
      obtain ⟨u1, rs1⟩ := p
      rw [hs] at h
      simp only at h
      cases ht : argsFrom sm tas t u1 (i + 1) with
      | none => rw [ht] at h; cases h
      | some q =>
        obtain ⟨u2, rs2⟩ := q
        rw [ht] at h
        cases h
        intro r hr
        rcases List.mem_append.1 hr with hr | hr
        · exact argStep_kinds sm tas u u1 i av rs1 hs r hr
        · exact ih u1 (i + 1) rs2 ht r hr

/-- **(2a)** "too many arguments" is reported iff there are more values than parameters (and then it
is the only report) -/
theorem too_many_arguments (sm : SymMap) (tas : List TemplateArgument) (avs : List (Option ArgValue))
    (range : Nat × Nat) :
    (avs.length > tas.length → checkPure sm tas avs range = some [(range, .tooMany avs.length)]) ∧
    (∀ rs, checkPure sm tas avs range = some rs → (∃ r ∈ rs, ∃ n, r.2 = .tooMany n) → avs.length > tas.length) := by
  refine ⟨fun h => by rw [checkPure_eq, if_pos h], ?_⟩
  intro rs hrs ⟨r, hr, n, hn⟩
  by_cases hlen : avs.length > tas.length
  · exact hlen
  · exfalso
    rw [checkPure_eq, if_neg hlen] at hrs
    cases ha : argsFrom sm tas avs (tas.map (·.name)).eraseDups 0 with
    | none => rw [ha] at hrs; cases hrs
    | some p =>
      obtain ⟨u', rs'⟩ := p
      rw [ha] at hrs
      simp only [Option.map_some, Option.some.injEq] at hrs
      subst hrs
      rcases List.mem_append.1 hr with hr | hr
      · exact (argsFrom_kinds sm tas avs _ u' 0 rs' ha r hr).1 n hn
      · obtain ⟨x, _, hx⟩ := List.mem_flatMap.1 hr
        unfold missingOf at hx
        split at hx
        · split at hx
          · simp at hx; subst hx; cases hn
          · cases hx
        · cases hx

/-- **(2b)** with not more values than parameters there is no panic, and "value not specified for
template argument 'x'" is reported exactly for the parameters `x` without default value (the first
parameter of that name decides) that no positional value and no named value binds -/
theorem value_not_specified (sm : SymMap) (tas : List TemplateArgument) (avs : List (Option ArgValue))
    (range : Nat × Nat) (hlen : avs.length ≤ tas.length) :
    ∃ rs, checkPure sm tas avs range = some rs ∧
      ∀ x, (range, ArgReport.missing x) ∈ rs ↔
        x ∉ boundNames tas avs 0 ∧ ∃ a, tas.find? (fun a => a.name == x) = some a ∧ a.hasDefaultValue = false := by
  have hsome := argsFrom_isSome sm tas avs (tas.map (·.name)).eraseDups 0 (by omega)
  cases ha : argsFrom sm tas avs (tas.map (·.name)).eraseDups 0 with
  | none => rw [ha] at hsome; cases hsome
  | some p =>
    obtain ⟨u', rs'⟩ := p
    refine ⟨rs' ++ u'.flatMap (missingOf tas range), by rw [checkPure_eq, if_neg (by omega), ha]; rfl, ?_⟩
    obtain ⟨_, hmem⟩ := argsFrom_unsolved sm tas avs _ u' 0 rs' (nodup_eraseDups _) ha
    intro x
    rw [List.mem_append]
    constructor
    · rintro (h | h)
      · exact absurd rfl ((argsFrom_kinds sm tas avs _ u' 0 rs' ha _ h).2 x)
      · obtain ⟨y, hy, hx⟩ := List.mem_flatMap.1 h
        unfold missingOf at hx
        split at hx
        · rename_i a hfind
          split at hx
          · rename_i hdef
            simp only [List.mem_singleton, Prod.mk.injEq, true_and] at hx
            cases hx
            exact ⟨((hmem x).1 hy).2, a, hfind, by simpa using hdef⟩
          · cases hx
        · cases hx
    · rintro ⟨hnb, a, hfind, hdef⟩
      right
      have hxin : x ∈ (tas.map (·.name)).eraseDups := by
        rw [List.mem_eraseDups]
        have := List.mem_of_find?_eq_some hfind
        have hn : a.name = x := by simpa using List.find?_some hfind
        exact List.mem_map.2 ⟨a, this, hn⟩
      refine List.mem_flatMap.2 ⟨x, (hmem x).2 ⟨hxin, hnb⟩, ?_⟩
      unfold missingOf
      rw [hfind]
      simp [hdef]

/-- **(2c)** the report of a positional value: a type error iff the value's type cannot be cast to
the type of the parameter at its position (`Castable`, the rule of (1)) -/
theorem positional_type_error (sm : SymMap) (tas : List TemplateArgument) (u : List String) (i : Nat)
    (arg : TemplateArgument) (harg : tas[i]? = some arg) (typ : Ty) (rng : Nat × Nat) :
    ∃ rs, argStep sm tas u i (some (none, typ, rng)) = some (u.erase arg.name, rs) ∧
      (rs = [(rng, .typeMismatch arg.name typ arg.typ)] ∨ rs = []) ∧
      (rs ≠ [] ↔ ¬ Castable sm.isSubclassOf typ arg.typ) := by
  refine ⟨mismatch sm rng arg.name typ arg.typ, by simp [argStep, harg], ?_, ?_⟩
  · unfold mismatch; split
    · exact Or.inr rfl
    · exact Or.inl rfl
  · unfold mismatch
    rw [← canBeCastedTo_iff]
    unfold SymMap.canBeCastedTo
    split <;> simp_all

/-- … and of a named value that binds a parameter for the first time -/
theorem named_type_error (sm : SymMap) (tas : List TemplateArgument) (u : List String) (i : Nat)
    (nm : String) (hun : nm ∈ u) (a : TemplateArgument) (hfind : tas.find? (fun a => a.name == nm) = some a)
    (typ : Ty) (rng : Nat × Nat) :
    ∃ rs, argStep sm tas u i (some (some nm, typ, rng)) = some (u.erase nm, rs) ∧
      (rs = [(rng, .typeMismatch a.name typ a.typ)] ∨ rs = []) ∧
      (rs ≠ [] ↔ ¬ Castable sm.isSubclassOf typ a.typ) := by
  refine ⟨mismatch sm rng a.name typ a.typ, by simp [argStep, hun, hfind], ?_, ?_⟩
  · unfold mismatch; split
    · exact Or.inr rfl
    · exact Or.inl rfl
  · unfold mismatch
    rw [← canBeCastedTo_iff]
    unfold SymMap.canBeCastedTo
    split <;> simp_all

/-- a named value for a parameter that is already bound, or that does not exist -/
theorem named_rebound (sm : SymMap) (tas : List TemplateArgument) (u : List String) (i : Nat)
    (nm : String) (hun : nm ∉ u) (typ : Ty) (rng : Nat × Nat) :
    argStep sm tas u i (some (some nm, typ, rng)) =
      some (u, [(rng, if (tas.find? fun a => a.name == nm).isSome then .duplicate nm else .unknown nm)]) := by
  unfold argStep
  have : u.contains nm = false := by simpa using hun
  simp only [this, Bool.false_eq_true, if_false]
  split <;> rfl

/-! ## (3) bang-operator arity: `expect_values` -/

/-- the operand count is within `lo ..= hi` (`hi = none`: no upper bound) -/
def arityOk (lo : Nat) (hi : Option Nat) (len : Nat) : Bool :=
  match hi with
  | some h => decide (lo ≤ len) && decide (len ≤ h)
  | none => decide (lo ≤ len)

def arityMessage (lo : Nat) (hi : Option Nat) (len : Nat) : String :=
  match hi with
  | some h =>
    if lo == h then s!"expected {lo} arguments, found {len}"
    else s!"expected {lo} to {h} arguments, found {len}"
  | none => s!"expected {lo} or more arguments, found {len}"

/-- **(3)** `expect_values` always returns the operands; it reports (exactly one diagnostic, at the
operator's range, with the message for that form of bound) iff the operand count is out of range -/
theorem expectValues_contract (node : PTree) (lo : Nat) (hi : Option Nat) (c : IndexCtx) (f : Nat)
    (rest : List Nat) (hft : c.fileTrace = f :: rest) :
    (Bang.expectValues node lo hi).run c =
      .ok (Ast.bangOperatorValues node,
        if arityOk lo hi (Ast.bangOperatorValues node).length then c
        else c.report f (node.start, node.stop) (arityMessage lo hi (Ast.bangOperatorValues node).length)) := by
  unfold Bang.expectValues arityOk arityMessage
  cases hi with
  | none =>
    simp only
    by_cases h : (Ast.bangOperatorValues node).length < lo
    · simp only [h, if_true, StateT.run_bind, error_run _ _ c f rest hft, Except.ok_bind]
      have : ¬ lo ≤ (Ast.bangOperatorValues node).length := by omega
      simp [this, Bang.nodeRange]
      rfl
    · have : lo ≤ (Ast.bangOperatorValues node).length := by omega
      simp [h, this]
      rfl
  | some hh =>
    simp only
    by_cases heq : (lo == hh) = true
    · simp only [heq, if_true]
      have heq' : lo = hh := by simpa using heq
      subst heq'
      by_cases hne : ((Ast.bangOperatorValues node).length != lo) = true
      · simp only [hne, if_true, StateT.run_bind, error_run _ _ c f rest hft, Except.ok_bind]
        have : ¬ (lo ≤ (Ast.bangOperatorValues node).length ∧ (Ast.bangOperatorValues node).length ≤ lo) := by
          intro h; simp at hne; omega
        simp [this, Bang.nodeRange]
        rfl
      · have : (Ast.bangOperatorValues node).length = lo := by simpa using hne
        simp [this]
        rfl
    · simp only [heq, Bool.false_eq_true, if_false]
      by_cases hout : (Ast.bangOperatorValues node).length < lo ∨ hh < (Ast.bangOperatorValues node).length
      · have h1 : (decide ((Ast.bangOperatorValues node).length < lo) || decide (hh < (Ast.bangOperatorValues node).length)) = true := by
          simpa using hout
        simp only [h1, if_true, StateT.run_bind, error_run _ _ c f rest hft, Except.ok_bind]
        have : ¬ (lo ≤ (Ast.bangOperatorValues node).length ∧ (Ast.bangOperatorValues node).length ≤ hh) := by omega
        simp [this, Bang.nodeRange]
        rfl
      · have h1 : (decide ((Ast.bangOperatorValues node).length < lo) || decide (hh < (Ast.bangOperatorValues node).length)) = false := by
          simpa using hout
        have : lo ≤ (Ast.bangOperatorValues node).length ∧ (Ast.bangOperatorValues node).length ≤ hh := by omega
        simp [h1, this]
        rfl



/-! ## (4) every `ctx.error(` site of `index.rs` / `index/bang_operator.rs`, site by site

Shape of the theorems: *run equations* for the indexer function that owns the site.  Where the
function has no sub-calls before the decision, the equation gives both directions at once (`match`
on the lookup: not found ⇒ the final state is the initial state plus exactly one diagnostic, in the
file at the head of `file_trace`, at the named node, with the named message; found ⇒ no diagnostic).
Where there are sub-calls (`r.value`, `r.typ`, argument lists) their runs are hypotheses and the
conclusion says what the function itself adds after them (`if cast then c4 else c4.report …`).
`r` is any `Rec` whose `value` / `typ` keep `AttrRel` (true for every `Index.mkRec fuel`:
`mkRec_attr`).

| site (index.rs line)                                   | message                                     | theorem |
|---------------------------------------------------------|---------------------------------------------|---------|
| I1  Include (120)                                        | include file not found: ‹path›              | `include_not_found`, converse `include_found` |
| A1  TemplateArgDecl default (435)                        | template argument '‹n›' of type … incompatible | `classParam_default`, `multiclassParam_default` |
| P3  ParentClassList, own class (467)                     | a record cannot inherit from itself         | `parent_self_inherit` |
| P1  resolve_class_ref_as_class (519)                     | class not found: ‹n›                        | `classRef_class_lookup` |
| P2  resolve_class_ref_as_multiclass (552; multiclass parents; first parent of a defm; later defm parents that do not name a class only) | multiclass not found: ‹n› | `classRef_multiclass_lookup` |
| P2″ ParentClassList, multiclass branch (parents of a multiclass, and of a defm written inside one) | class parents of such a defm: no `class not found`, arguments checked against the class | `multiclass_later_parent` |
| P2′ ParentClassList, defm branch: which lookup a parent gets (`names_class_only`) | class parents of a defm: no `class not found`, template arguments checked against the class | `defm_later_parent`, `namesClassOnly_run` |
| C1–C5 check_template_args (586, 609, 617, 628, 642)      | too many arguments / only once / doesn't exist / is type of … / value not specified | section (2): `checkTemplateArgs_run`, `too_many_arguments`, `named_rebound`, `positional_type_error`, `named_type_error`, `value_not_specified` |
| N1  ArgValue, named (675)                                | the name of named argument should be a valid identifier | `namedArg_bad_name`, converse `namedArg_good_name` |
| F1  FieldDef initialiser (731)                           | field '‹n›' of type … incompatible          | `fieldDef_initialiser` |
| L1  FieldLet, unknown field (754)                        | field not found: ‹n›                        | `fieldLet_field_not_found`, `fieldLet_field_not_found_reported` |
| L2  FieldLet value (779; `let f = v;` against the field type, `let f{…} = v;` against `rangeTyp` of the range list) | field '‹n›' of type … incompatible | `fieldLet_value` (`rangeListWidth_examples`, `bitsTyp_one`) |
| V3  InnerValue field suffix `x.f` (836)                  | cannot access field: ‹n›                    | `innerValue_suffixes` (+ `suffixStep`) |
| V1  SimpleValue::Identifier (897)                        | symbol not found: ‹n›                       | `identifier_lookup` (= `Tg.C05.identifier_not_found` / `identifier_found`) |
| V2  SimpleValue::ClassValue (920)                        | class not found: ‹n›                        | `classValue_lookup` |
| LL  SimpleValue::List, the fold over the element types (at the range of the whole literal) | list elements of type '‹a›' and '‹b›' are incompatible | `list_literal`, `list_literal_annotated`, `list_literal_unresolved` (`listFold`, `listStep_reported`) |
| T1  Type::ClassId (992; also the annotation of a list literal: `[]<Undefined>`) | class not found: ‹n›                        | `type_class_lookup` |
| B0  bang operators, arity (`expect_values`, 3 sites, used by every operator) | expected ‹n› arguments, found ‹m› … | section (3): `expectValues_contract` |
| B1  `expect_type_annotation`                             | expected type annotation                    | `expectTypeAnnotation_contract` |
| B2  `unexpect_type_annotation`                           | unexpected type annotation                  | `unexpectTypeAnnotation_contract` |
| B3  `index_values_and_check_types` (arithmetic, logic, `!con`, `!strconcat`, `!listconcat`, … families) | expected ‹ty›, found ‹ty› | `indexValuesAndCheckTypes_contract` (`CheckRun`) |
| B4  the `if let Some((range, Some(typ))) = value_types.next()` tests (model: `checkNext`; `!dag`, `!empty`, `!size`, `!head`/`!tail`, `!substr`, `!find`, `!isa`, `!exists`, `!getdagarg…`, `!setdagarg…`, `!range`, …) | expected ‹what›, found ‹ty› | `checkNext_contract` |

NOT covered (the diagnostics these sites emit are only known to be attributed to the current file,
(5a)): the 17 type checks written inline in `bang_operator.rs` that compare two operand types with
each other - model lines `Bang.lean` 149 (`!eq`/`!ne`), 228 (`!lt`…), 265 (`!foreach` list), 284
(`!if` branches: reported only when neither branch can be cast to the other and `common_typ` finds
nothing), 317/327 (`!listconcat`: an operand is reported only when it has no common type with the
list type so far), 341 (`!listsplat`/`!filter` list), 350/355 (`!listremove`),
391/394/396 (`!range`), 443 (`!strconcat` variants), 458/460/463 (`!subst`), 482 (`!foldl`).
No `defvar` / `foreach` check exists in `index.rs` (their initialiser types are stored, never compared).
No check at all exists for the top-level `let` statement: see `letItem_unchecked` at the end of the file
(a fault class that is **not reported**). -/


/-- **site T1 `class not found` in a type position** (`ClassId`), both directions: the name does not
denote a class ⇒ exactly one diagnostic, at the identifier, in the current file; it does ⇒ the
reference is registered and the diagnostics are unchanged -/
theorem type_class_lookup (r : Rec) (n : PTree) (hk : n.kind = .ClassId) (c : IndexCtx) (f : Nat)
    (rest : List Nat) (hft : c.fileTrace = f :: rest) (nameNode : PTree) (hnn : Ast.classIdName n = some nameNode)
    (name : String) (loc : FileRange) (hid : identOf f nameNode = some (name, loc)) :
    (indexType r n).run c =
      match c.symbolMap.findClass name with
      | some classId => .ok (some (.record classId name),
          (c.setSM (c.symbolMap.addReference (.record classId) loc)))
      | none => .ok (none, c.report f (loc.start, loc.stop) ("class not found: " ++ name)) := by
  unfold indexType
  simp only [hk, hnn, StateT.run_bind, utilsIdentifier_runOf nameNode c f rest hft, hid, Except.ok_bind, withSM_run]
  cases c.symbolMap.findClass name with
  | some classId => rfl
  | none =>
    simp only [StateT.run_bind, error_run _ _ c f rest hft, Except.ok_bind]
    simp [toString]
    rfl


/-- the argument values of a class reference / class value (`none`: no `<…>`) -/
def argValuesOf (r : Rec) (l : Option PTree) : IxM (List (Option ArgValue)) :=
  match l with
  | some l => indexArgValueList r l
  | none => pure []

/-- the template parameters of a class, as `resolve_class_ref_as_class` collects them -/
def classParams (sm : SymMap) (classId : Nat) : List TemplateArgument :=
  (sm.record classId).nameToTemplateArg.toList.map fun e => sm.templateArg e.2

def multiclassParams (sm : SymMap) (id : Nat) : List TemplateArgument :=
  (sm.multiclass id).nameToTemplateArg.toList.map fun e => sm.templateArg e.2

/-- the file an `include` statement resolves to (`include_map` of the current file) -/
def includeTarget (ws : Workspace) (f : Nat) (n : PTree) : Option Nat :=
  (match ws.file? f with
    | some fi => fi.includeMap
    | none => []).lookup (n.start, n.stop)

/-- **site I1 `include file not found`**: an include that the workspace could not resolve is reported
at the whole `include` statement, in the including file, and nothing else happens -/
theorem include_not_found (r : Rec) (n : PTree) (c : IndexCtx) (f : Nat) (rest : List Nat)
    (hft : c.fileTrace = f :: rest) (h : includeTarget c.ws f n = none) :
    (indexInclude r n).run c = .ok ((), c.report f (nodeRange n)
      ("include file not found: " ++ ((Ast.includePath n).map Ast.stringValue).getD "")) := by
  unfold indexInclude
  unfold includeTarget at h
  simp only [StateT.run_bind, currentFileId_run c f rest hft, Except.ok_bind, IxM.run_get]
  show (match (List.lookup (n.start, n.stop) (match c.ws.file? f with
      | some fi => fi.includeMap
      | none => [])) with
    | none => _
    | some includeFileId => _ : IxM Unit).run c = _
  rw [h]
  simp only [error_run _ _ c f rest hft]
  simp [toString]

/-- **I1, converse**: an include that resolves reports nothing in the including file (nor in any
file indexed before): every diagnostic it appends belongs to a file that had not been indexed -/
theorem include_found (r : Rec) (hsf : ∀ n, Keeps AttrRel (r.sourceFile n)) (n : PTree) (c c' : IndexCtx)
    (f : Nat) (rest : List Nat) (hft : c.fileTrace = f :: rest) (inc : Nat)
    (h : includeTarget c.ws f n = some inc) (hrun : (indexInclude r n).run c = .ok ((), c')) :
    ∃ extra, c'.diagnostics.toList = c.diagnostics.toList ++ extra ∧
      ∀ d ∈ extra, d.location.file ∉ c.indexedFiles ∧ d.location.file ∈ c'.indexedFiles := by
  unfold indexInclude at hrun
  unfold includeTarget at h
  simp only [StateT.run_bind, currentFileId_run c f rest hft, Except.ok_bind, IxM.run_get] at hrun
  change ((match (List.lookup (n.start, n.stop) (match c.ws.file? f with
      | some fi => fi.includeMap
      | none => [])) with
    | none => _
    | some includeFileId => _ : IxM Unit).run c) = _ at hrun
  rw [h] at hrun
  simp only at hrun
  obtain ⟨b, c1, h1, hrun⟩ := IxM.run_bind_ok hrun
  unfold markIndexed at h1
  rw [IxM.run_modifyGet] at h1
  by_cases hin : c.indexedFiles.contains inc = true
  · simp only [hin, if_true, Except.ok.injEq, Prod.mk.injEq] at h1
    obtain ⟨rfl, rfl⟩ := h1
    simp only [Bool.not_false, if_true, StateT.run_pure] at hrun
    cases hrun
    exact ⟨[], by simp, fun _ h => nomatch h⟩
  · simp only [hin, Bool.false_eq_true, if_false, Except.ok.injEq, Prod.mk.injEq] at h1
    obtain ⟨rfl, rfl⟩ := h1
    have hnot : inc ∉ c.indexedFiles := by simpa using hin
    simp only [Bool.not_true, Bool.false_eq_true, if_false] at hrun
    split at hrun
    · rename_i sf _
      obtain ⟨_, c2, h2, hrun⟩ := IxM.run_bind_ok hrun
      unfold pushFile at h2
      rw [IxM.run_modify] at h2
      cases h2
      obtain ⟨_, c3, h3, hrun⟩ := IxM.run_bind_ok hrun
      have r3 := (hsf sf).run _ _ _ h3
      unfold popFile at hrun
      obtain ⟨c3', c3'', hg, hrun⟩ := IxM.run_bind_ok hrun
      rw [IxM.run_get] at hg
      cases hg
      have htr : c3.fileTrace = inc :: c.fileTrace := r3.trace
      rw [htr] at hrun
      simp only [IxM.run_modify] at hrun
      cases hrun
      obtain ⟨extra, he, ha⟩ := r3.diags
      refine ⟨extra, he, fun d hd => ?_⟩
      rcases ha d hd with h | ⟨h, h'⟩
      · have : d.location.file = inc := by simpa using h.symm
        rw [this]
        exact ⟨hnot, r3.mono _ (List.mem_cons_self ..)⟩
      · exact ⟨fun hin' => h (List.mem_cons_of_mem _ hin'), h'⟩
    · simp only [StateT.run_pure] at hrun
      cases hrun
      exact ⟨[], by simp, fun _ h => nomatch h⟩

section sub
variable {r : Rec} (hv : ∀ n, Keeps AttrRel (r.value n)) (ht : ∀ n, Keeps AttrRel (r.typ n))
include hv ht

theorem argValuesOf_attr (l : Option PTree) : Keeps AttrRel (argValuesOf r l) := by
  unfold argValuesOf
  cases l with
  | none => exact Keeps.pure _
  | some l => exact Index.indexArgValueList_keeps hv ht l

/-- **site P1 `class not found` in a parent class list**, both directions: not a class ⇒ exactly one
diagnostic at the identifier, nothing else happens; a class ⇒ the reference is registered, the argument
values are indexed (sub-calls) and the only further diagnostics are those of `check_template_args`
(`checkPure`, characterised in section (2)) -/
theorem classRef_class_lookup (classRef : PTree) (c : IndexCtx) (f : Nat) (rest : List Nat)
    (hft : c.fileTrace = f :: rest) (nameNode : PTree) (hnn : Ast.classRefName classRef = some nameNode)
    (name : String) (loc : FileRange) (hid : identOf f nameNode = some (name, loc)) :
    match c.symbolMap.findClass name with
    | none => (resolveClassRefAsClass r classRef).run c =
        .ok (none, c.report f (loc.start, loc.stop) ("class not found: " ++ name))
    | some classId =>
      ∀ res c', (resolveClassRefAsClass r classRef).run c = .ok (res, c') →
        res = some classId ∧
        ∃ avs c2 rs,
          (argValuesOf r (Ast.classRefArgValueList classRef)).run
            (c.setSM (c.symbolMap.addReference (.record classId) loc)) = .ok (avs, c2) ∧
          checkPure c2.symbolMap (classParams (c.symbolMap.addReference (.record classId) loc) classId) avs
            (nodeRange classRef) = some rs ∧
          c' = reportAll c2 f rs := by
  cases hfc : c.symbolMap.findClass name with
  | none =>
    unfold resolveClassRefAsClass
    simp only [hnn, StateT.run_bind, utilsIdentifier_runOf nameNode c f rest hft, hid, Except.ok_bind, withSM_run, hfc,
      error_run _ _ c f rest hft]
    simp [toString]
    rfl
  | some classId =>
    intro res c' hrun
    unfold resolveClassRefAsClass at hrun
    simp only [hnn, StateT.run_bind, utilsIdentifier_runOf nameNode c f rest hft, hid, Except.ok_bind, withSM_run, hfc,
      addReference_run, templateArgsOf] at hrun
    have tail : ∀ avs c2, (argValuesOf r (Ast.classRefArgValueList classRef)).run
          (c.setSM (c.symbolMap.addReference (.record classId) loc)) = .ok (avs, c2) →
        (do checkTemplateArgs (classParams (c.symbolMap.addReference (.record classId) loc) classId) avs
              (nodeRange classRef)
            pure (some classId) : IxM (Option Nat)).run c2 = .ok (res, c') →
        res = some classId ∧ ∃ avs c2 rs,
          (argValuesOf r (Ast.classRefArgValueList classRef)).run
            (c.setSM (c.symbolMap.addReference (.record classId) loc)) = .ok (avs, c2) ∧
          checkPure c2.symbolMap (classParams (c.symbolMap.addReference (.record classId) loc) classId) avs
            (nodeRange classRef) = some rs ∧
          c' = reportAll c2 f rs := by
      intro avs c2 hav h2
      have hft2 : c2.fileTrace = f :: rest := by
        rw [((argValuesOf_attr hv ht _).run _ _ _ hav).trace]; exact hft
      simp only [StateT.run_bind] at h2
      rw [checkTemplateArgs_run c2.symbolMap _ avs _ c2 f rest hft2 rfl] at h2
      cases hcp : checkPure c2.symbolMap (classParams (c.symbolMap.addReference (.record classId) loc) classId) avs
          (nodeRange classRef) with
      | none => rw [hcp] at h2; cases h2
      | some rs =>
        rw [hcp] at h2
        simp only [Except.ok_bind, StateT.run_pure] at h2
        cases h2
        exact ⟨rfl, avs, c2, rs, hav, hcp, rfl⟩
    cases hl : Ast.classRefArgValueList classRef with
    | none =>
      rw [hl] at hrun tail
      simp only [pure_bind] at hrun
      exact tail [] _ rfl hrun
    | some l =>
      rw [hl] at hrun tail
      simp only at hrun
      obtain ⟨avs, c2, hav, h2⟩ := IxM.run_bind_ok hrun
      exact tail avs c2 hav h2

/-- **site P2 `multiclass not found`** (parents of a `multiclass` / `defm`), both directions -/
theorem classRef_multiclass_lookup (classRef : PTree) (c : IndexCtx) (f : Nat) (rest : List Nat)
    (hft : c.fileTrace = f :: rest) (nameNode : PTree) (hnn : Ast.classRefName classRef = some nameNode)
    (name : String) (loc : FileRange) (hid : identOf f nameNode = some (name, loc)) :
    match c.symbolMap.findMulticlass name with
    | none => (resolveClassRefAsMulticlass r classRef).run c =
        .ok (none, c.report f (loc.start, loc.stop) ("multiclass not found: " ++ name))
    | some classId =>
      ∀ res c', (resolveClassRefAsMulticlass r classRef).run c = .ok (res, c') →
        res = some classId ∧
        ∃ avs c2 rs,
          (argValuesOf r (Ast.classRefArgValueList classRef)).run
            (c.setSM (c.symbolMap.addReference (.multiclass classId) loc)) = .ok (avs, c2) ∧
          checkPure c2.symbolMap (multiclassParams (c.symbolMap.addReference (.multiclass classId) loc) classId) avs
            (nodeRange classRef) = some rs ∧
          c' = reportAll c2 f rs := by
  cases hfc : c.symbolMap.findMulticlass name with
  | none =>
    unfold resolveClassRefAsMulticlass
    simp only [hnn, StateT.run_bind, utilsIdentifier_runOf nameNode c f rest hft, hid, Except.ok_bind, withSM_run, hfc,
      error_run _ _ c f rest hft]
    simp [toString]
    rfl
  | some classId =>
    intro res c' hrun
    unfold resolveClassRefAsMulticlass at hrun
    simp only [hnn, StateT.run_bind, utilsIdentifier_runOf nameNode c f rest hft, hid, Except.ok_bind, withSM_run, hfc,
      addReference_run, templateArgsOf] at hrun
    have tail : ∀ avs c2, (argValuesOf r (Ast.classRefArgValueList classRef)).run
          (c.setSM (c.symbolMap.addReference (.multiclass classId) loc)) = .ok (avs, c2) →
        (do checkTemplateArgs (multiclassParams (c.symbolMap.addReference (.multiclass classId) loc) classId) avs
              (nodeRange classRef)
            pure (some classId) : IxM (Option Nat)).run c2 = .ok (res, c') →
        res = some classId ∧ ∃ avs c2 rs,
          (argValuesOf r (Ast.classRefArgValueList classRef)).run
            (c.setSM (c.symbolMap.addReference (.multiclass classId) loc)) = .ok (avs, c2) ∧
          checkPure c2.symbolMap (multiclassParams (c.symbolMap.addReference (.multiclass classId) loc) classId) avs
            (nodeRange classRef) = some rs ∧
          c' = reportAll c2 f rs := by
      intro avs c2 hav h2
      have hft2 : c2.fileTrace = f :: rest := by
        rw [((argValuesOf_attr hv ht _).run _ _ _ hav).trace]; exact hft
      simp only [StateT.run_bind] at h2
      rw [checkTemplateArgs_run c2.symbolMap _ avs _ c2 f rest hft2 rfl] at h2
      cases hcp : checkPure c2.symbolMap (multiclassParams (c.symbolMap.addReference (.multiclass classId) loc) classId) avs
          (nodeRange classRef) with
      | none => rw [hcp] at h2; cases h2
      | some rs =>
        rw [hcp] at h2
        simp only [Except.ok_bind, StateT.run_pure] at h2
        cases h2
        exact ⟨rfl, avs, c2, rs, hav, hcp, rfl⟩
    cases hl : Ast.classRefArgValueList classRef with
    | none =>
      rw [hl] at hrun tail
      simp only [pure_bind] at hrun
      exact tail [] _ rfl hrun
    | some l =>
      rw [hl] at hrun tail
      simp only at hrun
      obtain ⟨avs, c2, hav, h2⟩ := IxM.run_bind_ok hrun
      exact tail avs c2 hav h2

/-- **site V2 `class not found` in a class value `A<…>`**, both directions -/
theorem classValue_lookup (classRef : PTree) (c : IndexCtx) (f : Nat) (rest : List Nat)
    (hft : c.fileTrace = f :: rest) (nameNode : PTree) (hnn : Ast.classValueName classRef = some nameNode)
    (name : String) (loc : FileRange) (hid : identOf f nameNode = some (name, loc)) :
    match c.symbolMap.findClass name with
    | none => (indexClassValue r classRef).run c =
        .ok (none, c.report f (loc.start, loc.stop) ("class not found: " ++ name))
    | some classId =>
      ∀ res c', (indexClassValue r classRef).run c = .ok (res, c') →
        res = some (.record classId name) ∧
        ∃ avs c2 rs,
          (argValuesOf r (Ast.classValueArgValueList classRef)).run
            (c.setSM (c.symbolMap.addReference (.record classId) loc)) = .ok (avs, c2) ∧
          checkPure c2.symbolMap (classParams (c.symbolMap.addReference (.record classId) loc) classId) avs
            (nodeRange classRef) = some rs ∧
          c' = reportAll c2 f rs := by
  cases hfc : c.symbolMap.findClass name with
  | none =>
    unfold indexClassValue
    simp only [hnn, StateT.run_bind, utilsIdentifier_runOf nameNode c f rest hft, hid, Except.ok_bind, withSM_run, hfc,
      error_run _ _ c f rest hft]
    simp [toString]
    rfl
  | some classId =>
    intro res c' hrun
    unfold indexClassValue at hrun
    simp only [hnn, StateT.run_bind, utilsIdentifier_runOf nameNode c f rest hft, hid, Except.ok_bind, withSM_run, hfc,
      addReference_run, templateArgsOf] at hrun
    have tail : ∀ avs c2, (argValuesOf r (Ast.classValueArgValueList classRef)).run
          (c.setSM (c.symbolMap.addReference (.record classId) loc)) = .ok (avs, c2) →
        (do checkTemplateArgs (classParams (c.symbolMap.addReference (.record classId) loc) classId) avs
              (nodeRange classRef)
            pure (some (.record classId name)) : IxM (Option Ty)).run c2 = .ok (res, c') →
        res = some (.record classId name) ∧ ∃ avs c2 rs,
          (argValuesOf r (Ast.classValueArgValueList classRef)).run
            (c.setSM (c.symbolMap.addReference (.record classId) loc)) = .ok (avs, c2) ∧
          checkPure c2.symbolMap (classParams (c.symbolMap.addReference (.record classId) loc) classId) avs
            (nodeRange classRef) = some rs ∧
          c' = reportAll c2 f rs := by
      intro avs c2 hav h2
      have hft2 : c2.fileTrace = f :: rest := by
        rw [((argValuesOf_attr hv ht _).run _ _ _ hav).trace]; exact hft
      simp only [StateT.run_bind] at h2
      rw [checkTemplateArgs_run c2.symbolMap _ avs _ c2 f rest hft2 rfl] at h2
      cases hcp : checkPure c2.symbolMap (classParams (c.symbolMap.addReference (.record classId) loc) classId) avs
          (nodeRange classRef) with
      | none => rw [hcp] at h2; cases h2
      | some rs =>
        rw [hcp] at h2
        simp only [Except.ok_bind, StateT.run_pure] at h2
        cases h2
        exact ⟨rfl, avs, c2, rs, hav, hcp, rfl⟩
    cases hl : Ast.classValueArgValueList classRef with
    | none =>
      rw [hl] at hrun tail
      simp only [pure_bind] at hrun
      exact tail [] _ rfl hrun
    | some l =>
      rw [hl] at hrun tail
      simp only at hrun
      obtain ⟨avs, c2, hav, h2⟩ := IxM.run_bind_ok hrun
      exact tail avs c2 hav h2

end sub

section sub
variable {r : Rec} (hv : ∀ n, Keeps AttrRel (r.value n)) (ht : ∀ n, Keeps AttrRel (r.typ n))
include hv ht

/-- **site F1 `field '…' of type '…' is incompatible with type '…'` (`FieldDef` with initialiser)**,
both directions at once: after the sub-calls (type node, then value node, both returning a type), the
function appends exactly one diagnostic at the value node iff the value's type cannot be cast to the
declared type, and nothing otherwise -/
theorem fieldDef_initialiser (n : PTree) (c : IndexCtx) (f : Nat) (rest : List Nat) (hft : c.fileTrace = f :: rest)
    (recordId : Nat) (hrec : c.scopes.currentRecordId = some recordId)
    (nameNode : PTree) (hnn : Ast.fieldDefName n = some nameNode)
    (name : String) (loc : FileRange) (hid : identOf f nameNode = some (name, loc))
    (typNode : PTree) (htn : Ast.fieldDefType n = some typNode)
    (typ : Ty) (c2 : IndexCtx) (htyp : (r.typ typNode).run c = .ok (some typ, c2))
    (value : PTree) (hvn : Ast.fieldDefValue n = some value)
    (valueTyp : Ty) (c4 : IndexCtx)
    (hval : (r.value value).run (withField c2 recordId { name := name, typ := typ, parent := recordId, defineLoc := loc })
      = .ok (some valueTyp, c4)) :
    (indexFieldDef r n).run c = .ok ((),
      if c4.symbolMap.canBeCastedTo valueTyp typ then c4
      else c4.report f (nodeRange value)
        s!"field '{name}' of type '{typ}' is incompatible with type '{valueTyp}'") := by
  have hft2 : c2.fileTrace = f :: rest := by rw [((ht _).run _ _ _ htyp).trace]; exact hft
  have hft4 : c4.fileTrace = f :: rest := by rw [((hv _).run _ _ _ hval).trace]; exact hft2
  unfold indexFieldDef
  simp only [StateT.run_bind, currentRecordId_run, hrec, Except.ok_bind, hnn,
    utilsIdentifier_runOf nameNode c f rest hft, hid, htn, htyp]
  unfold withField at hval
  simp only [addRecordField_run, recordMut_run, Except.ok_bind, hvn, StateT.run_bind, hval, canBeCastedTo_run]
  by_cases hc : c4.symbolMap.canBeCastedTo valueTyp typ = true
  · simp only [hc, Bool.not_true, Bool.false_eq_true, if_false, if_true]
    rfl
  · simp only [hc, Bool.not_false, if_true, error_run _ _ c4 f rest hft4]
    rfl

end sub

theorem AttrRel.keeps_diag {c c' : IndexCtx} (h : AttrRel c c') (d : Diagnostic) (hd : d ∈ c.diagnostics.toList) :
    d ∈ c'.diagnostics.toList := by
  obtain ⟨extra, he, _⟩ := h.diags
  rw [he]; exact List.mem_append_left _ hd

theorem report_mem (c : IndexCtx) (f : Nat) (rg : Nat × Nat) (msg : String) :
    ({ location := ⟨f, rg.1, rg.2⟩, message := msg } : Diagnostic) ∈ (c.report f rg msg).diagnostics.toList := by
  simp [IndexCtx.report]

section sub
variable {r : Rec} (hv : ∀ n, Keeps AttrRel (r.value n)) (ht : ∀ n, Keeps AttrRel (r.typ n))

/-- **site L1 `field not found`** (`let f = …` in a record body): the unknown field is reported at
the field name, then the value is still indexed (from the state with the report) -/
theorem fieldLet_field_not_found (n : PTree) (c : IndexCtx) (f : Nat) (rest : List Nat) (hft : c.fileTrace = f :: rest)
    (nameNode : PTree) (hnn : Ast.fieldLetName n = some nameNode)
    (name : String) (loc : FileRange) (hid : identOf f nameNode = some (name, loc))
    (recordId : Nat) (hrec : c.scopes.currentRecordId = some recordId)
    (hnf : c.symbolMap.recordFindField recordId name = none) :
    (indexFieldLet r n).run c =
      (match Ast.fieldLetValue n with
        | some value => (do let _ ← r.value value : IxM Unit)
        | none => pure ()).run (c.report f (loc.start, loc.stop) ("field not found: " ++ name)) := by
  unfold indexFieldLet
  simp only [hnn, StateT.run_bind, utilsIdentifier_runOf nameNode c f rest hft, hid, Except.ok_bind,
    currentRecordId_run, hrec, withSM_run, hnf, error_run _ _ c f rest hft]
  cases Ast.fieldLetValue n with
  | none => simp [toString]
  | some value => simp [toString]

include hv in
/-- … and the report survives to the end of `indexFieldLet` -/
theorem fieldLet_field_not_found_reported (n : PTree) (c c' : IndexCtx) (f : Nat) (rest : List Nat)
    (hft : c.fileTrace = f :: rest)
    (nameNode : PTree) (hnn : Ast.fieldLetName n = some nameNode)
    (name : String) (loc : FileRange) (hid : identOf f nameNode = some (name, loc))
    (recordId : Nat) (hrec : c.scopes.currentRecordId = some recordId)
    (hnf : c.symbolMap.recordFindField recordId name = none)
    (hrun : (indexFieldLet r n).run c = .ok ((), c')) :
    ({ location := ⟨f, loc.start, loc.stop⟩, message := "field not found: " ++ name } : Diagnostic)
      ∈ c'.diagnostics.toList := by
  rw [fieldLet_field_not_found n c f rest hft nameNode hnn name loc hid recordId hrec hnf] at hrun
  cases hval : Ast.fieldLetValue n with
  | none =>
    rw [hval] at hrun
    cases hrun
    exact report_mem c f (loc.start, loc.stop) _
  | some value =>
    rw [hval] at hrun
    simp only at hrun
    obtain ⟨x, c1, h1, h2⟩ := IxM.run_bind_ok hrun
    cases h2
    exact AttrRel.keeps_diag ((hv value).run _ _ _ h1) _ (report_mem c f (loc.start, loc.stop) _)

include hv in
/-- **site L2 `field '…' of type '…' is incompatible with type '…'` (`let f = v` in a record body)**,
both directions: the field exists (so no `field not found`); if it is inherited (its `parent` is another
record) the override is declared as a new field of this record with the type of the overridden field,
if this record declares it itself nothing is declared (`cd` is the state after that step, in both
cases); the reference to the found field is registered; and after indexing the value exactly one
diagnostic is appended at the value
iff the value's type cannot be cast to the *compared* type `cmpTyp`: the field's type for a plain
`let f = v;`, and `rangeTyp (some rangeList)` - the bits that the range list selects (`bit` for one
bit, `bits w` for `w`, `unknown` when a bound cannot be read) - for `let f{…} = v;` -/
theorem fieldLet_value (n : PTree) (c : IndexCtx) (f : Nat) (rest : List Nat) (hft : c.fileTrace = f :: rest)
    (nameNode : PTree) (hnn : Ast.fieldLetName n = some nameNode)
    (name : String) (loc : FileRange) (hid : identOf f nameNode = some (name, loc))
    (recordId : Nat) (hrec : c.scopes.currentRecordId = some recordId)
    (fieldId : Nat) (hfound : c.symbolMap.recordFindField recordId name = some fieldId)
    (fieldTyp : Ty) (hfty : fieldTyp = (c.symbolMap.recordField fieldId).typ)
    (cmpTyp : Ty) (hcmp : cmpTyp = match Ast.fieldLetRangeList n with
      | some rangeList => rangeTyp (some rangeList)
      | none => fieldTyp)
    (cd : IndexCtx) (hcd : cd = if ((c.symbolMap.recordField fieldId).parent != recordId) = true
      then withField c recordId ⟨name, fieldTyp, recordId, loc⟩ else c)
    (value : PTree) (hvn : Ast.fieldLetValue n = some value)
    (valueTyp : Ty) (c4 : IndexCtx)
    (hval : (r.value value).run (cd.setSM (cd.symbolMap.addReference (.recordField fieldId) loc))
      = .ok (some valueTyp, c4)) :
    (indexFieldLet r n).run c = .ok ((),
      if c4.symbolMap.canBeCastedTo valueTyp cmpTyp then c4
      else c4.report f (nodeRange value)
        s!"field '{name}' of type '{cmpTyp}' is incompatible with type '{valueTyp}'") := by
  subst hfty
  subst hcmp
  subst hcd
  unfold indexFieldLet
  by_cases hpar : ((c.symbolMap.recordField fieldId).parent != recordId) = true
  · simp only [hpar, if_true] at hval
    have hft4 : c4.fileTrace = f :: rest := by rw [((hv _).run _ _ _ hval).trace]; exact hft
    unfold withField at hval
    simp only [hnn, StateT.run_bind, utilsIdentifier_runOf nameNode c f rest hft, hid, Except.ok_bind,
      currentRecordId_run, hrec, withSM_run, hfound, hpar, if_true, addRecordField_run, recordMut_run,
      addReference_run, hvn, hval, canBeCastedTo_run]
    cases Ast.fieldLetRangeList n with
    | none =>
      simp only
      by_cases hc : c4.symbolMap.canBeCastedTo valueTyp (c.symbolMap.recordField fieldId).typ = true
      · simp only [hc, Bool.not_true, Bool.false_eq_true, if_false, if_true]
        rfl
      · simp only [hc, Bool.not_false, if_true, error_run _ _ c4 f rest hft4]
        rfl
    | some rangeList =>
      simp only
      by_cases hc : c4.symbolMap.canBeCastedTo valueTyp (rangeTyp (some rangeList)) = true
      · simp only [hc, Bool.not_true, Bool.false_eq_true, if_false, if_true]
        rfl
      · simp only [hc, Bool.not_false, if_true, error_run _ _ c4 f rest hft4]
        rfl
  · simp only [hpar, Bool.false_eq_true, if_false] at hval
    have hft4 : c4.fileTrace = f :: rest := by rw [((hv _).run _ _ _ hval).trace]; exact hft
    simp only [hnn, StateT.run_bind, utilsIdentifier_runOf nameNode c f rest hft, hid, Except.ok_bind,
      currentRecordId_run, hrec, withSM_run, hfound, hpar, Bool.false_eq_true, if_false, pure_bind,
      addReference_run, hvn, hval, canBeCastedTo_run]
    cases Ast.fieldLetRangeList n with
    | none =>
      simp only
      by_cases hc : c4.symbolMap.canBeCastedTo valueTyp (c.symbolMap.recordField fieldId).typ = true
      · simp only [hc, Bool.not_true, Bool.false_eq_true, if_false, if_true]
        rfl
      · simp only [hc, Bool.not_false, if_true, error_run _ _ c4 f rest hft4]
        rfl
    | some rangeList =>
      simp only
      by_cases hc : c4.symbolMap.canBeCastedTo valueTyp (rangeTyp (some rangeList)) = true
      · simp only [hc, Bool.not_true, Bool.false_eq_true, if_false, if_true]
        rfl
      · simp only [hc, Bool.not_false, if_true, error_run _ _ c4 f rest hft4]
        rfl

end sub

section sub
variable {r : Rec} (hv : ∀ n, Keeps AttrRel (r.value n)) (ht : ∀ n, Keeps AttrRel (r.typ n))
include hv ht

/-- **site A1 `template argument '…' of type '…' is incompatible with type '…'` (default value of a
class template parameter)**, both directions -/
theorem classParam_default (n : PTree) (c : IndexCtx) (f : Nat) (rest : List Nat) (hft : c.fileTrace = f :: rest)
    (nameNode : PTree) (hnn : Ast.templateArgDeclName n = some nameNode)
    (name : String) (loc : FileRange) (hid : identOf f nameNode = some (name, loc))
    (typNode : PTree) (htn : Ast.templateArgDeclType n = some typNode)
    (typ : Ty) (c2 : IndexCtx) (htyp : (r.typ typNode).run c = .ok (some typ, c2))
    (recordId : Nat) (hrec : c2.scopes.currentRecordId = some recordId)
    (value : PTree) (hvn : Ast.templateArgDeclValue n = some value)
    (valueTyp : Ty) (c4 : IndexCtx)
    (hval : (r.value value).run (withClassParam c2 recordId ⟨name, typ, true, loc⟩) = .ok (some valueTyp, c4)) :
    (indexTemplateArgDecl r n).run c = .ok ((),
      if c4.symbolMap.canBeCastedTo valueTyp typ then c4
      else c4.report f (nodeRange value)
        s!"template argument '{name}' of type '{typ}' is incompatible with type '{valueTyp}'") := by
  have hft2 : c2.fileTrace = f :: rest := by rw [((ht _).run _ _ _ htyp).trace]; exact hft
  have hft4 : c4.fileTrace = f :: rest := by rw [((hv _).run _ _ _ hval).trace]; exact hft2
  unfold indexTemplateArgDecl
  unfold withClassParam at hval
  simp only [hnn, StateT.run_bind, utilsIdentifier_runOf nameNode c f rest hft, hid, Except.ok_bind, htn, htyp, hvn,
    Option.isSome_some, addTemplateArgument_run, currentRecordId_run, IndexCtx.setSM_scopes, hrec, recordMut_run,
    hval, canBeCastedTo_run]
  by_cases hc : c4.symbolMap.canBeCastedTo valueTyp typ = true
  · simp only [hc, Bool.not_true, Bool.false_eq_true, if_false, if_true]
    rfl
  · simp only [hc, Bool.not_false, if_true, error_run _ _ c4 f rest hft4]
    rfl

/-- **site A1′ `template argument '…' of type '…' is incompatible with type '…'` (default value of a
multiclass template parameter)**, both directions -/
theorem multiclassParam_default (n : PTree) (c : IndexCtx) (f : Nat) (rest : List Nat) (hft : c.fileTrace = f :: rest)
    (nameNode : PTree) (hnn : Ast.templateArgDeclName n = some nameNode)
    (name : String) (loc : FileRange) (hid : identOf f nameNode = some (name, loc))
    (typNode : PTree) (htn : Ast.templateArgDeclType n = some typNode)
    (typ : Ty) (c2 : IndexCtx) (htyp : (r.typ typNode).run c = .ok (some typ, c2))
    (hnorec : c2.scopes.currentRecordId = none)
    (multiclassId : Nat) (hmc : c2.scopes.currentMulticlassId = some multiclassId)
    (value : PTree) (hvn : Ast.templateArgDeclValue n = some value)
    (valueTyp : Ty) (c4 : IndexCtx)
    (hval : (r.value value).run (withMulticlassParam c2 multiclassId ⟨name, typ, true, loc⟩) = .ok (some valueTyp, c4)) :
    (indexTemplateArgDecl r n).run c = .ok ((),
      if c4.symbolMap.canBeCastedTo valueTyp typ then c4
      else c4.report f (nodeRange value)
        s!"template argument '{name}' of type '{typ}' is incompatible with type '{valueTyp}'") := by
  have hft2 : c2.fileTrace = f :: rest := by rw [((ht _).run _ _ _ htyp).trace]; exact hft
  have hft4 : c4.fileTrace = f :: rest := by rw [((hv _).run _ _ _ hval).trace]; exact hft2
  unfold indexTemplateArgDecl
  unfold withMulticlassParam at hval
  simp only [hnn, StateT.run_bind, utilsIdentifier_runOf nameNode c f rest hft, hid, Except.ok_bind, htn, htyp, hvn,
    Option.isSome_some, addTemplateArgument_run, currentRecordId_run, IndexCtx.setSM_scopes, hnorec, hmc, currentMulticlassId_run, multiclassMut_run,
    hval, canBeCastedTo_run]
  by_cases hc : c4.symbolMap.canBeCastedTo valueTyp typ = true
  · simp only [hc, Bool.not_true, Bool.false_eq_true, if_false, if_true]
    rfl
  · simp only [hc, Bool.not_false, if_true, error_run _ _ c4 f rest hft4]
    rfl

end sub

/-- **site N1 `the name of named argument should be a valid identifier`**: a named argument whose
name is neither an identifier nor a string literal is reported at the whole argument; its value is
not indexed -/
theorem namedArg_bad_name (r : Rec) (n : PTree) (hk : n.kind ≠ .PositionalArgValue) (c : IndexCtx) (f : Nat)
    (rest : List Nat) (hft : c.fileTrace = f :: rest)
    (nameValue : PTree) (h1 : Ast.namedArgValueName n = some nameValue)
    (inner : PTree) (h2 : (Ast.valueInnerValues nameValue).head? = some inner)
    (sv : PTree) (h3 : Ast.innerValueSimpleValue inner = some sv)
    (h4 : sv.kind ≠ .Identifier) (h5 : sv.kind ≠ .String) :
    (indexArgValue r n).run c =
      .ok (none, c.report f (nodeRange n) "the name of named argument should be a valid identifier") := by
  unfold indexArgValue
  split
  · rename_i hk'; exact absurd hk' hk
  · have e4 : (sv.kind == SyntaxKind.Identifier) = false := by simpa using h4
    have e5 : (sv.kind == SyntaxKind.String) = false := by simpa using h5
    simp only [h1, h2, h3, e4, e5, Bool.false_eq_true, if_false, StateT.run_bind, error_run _ _ c f rest hft,
      Except.ok_bind]
    rfl

/-- **N1, converse**: with an identifier or string name the function itself reports nothing: the
diagnostics after it are those after indexing the value -/
theorem namedArg_good_name (r : Rec) (n : PTree) (hk : n.kind ≠ .PositionalArgValue) (c : IndexCtx)
    (nameValue : PTree) (h1 : Ast.namedArgValueName n = some nameValue)
    (inner : PTree) (h2 : (Ast.valueInnerValues nameValue).head? = some inner)
    (sv : PTree) (h3 : Ast.innerValueSimpleValue inner = some sv)
    (h4 : sv.kind = .Identifier ∨ sv.kind = .String)
    (res : Option ArgValue) (c' : IndexCtx) (hrun : (indexArgValue r n).run c = .ok (res, c')) :
    c' = c ∨ ∃ value t, Ast.namedArgValueValue n = some value ∧ (r.value value).run c = .ok (t, c') := by
  unfold indexArgValue at hrun
  split at hrun
  · rename_i hk'; exact absurd hk' hk
  · simp only [h1, h2, h3] at hrun
    have key : ∀ name : String, (do
        let some value := Ast.namedArgValueValue n | return none
        let some typ ← r.value value | return none
        return some (some name, typ, nodeRange n) : IxM (Option ArgValue)).run c = .ok (res, c') →
        c' = c ∨ ∃ value t, Ast.namedArgValueValue n = some value ∧ (r.value value).run c = .ok (t, c') := by
      intro name h
      cases hv : Ast.namedArgValueValue n with
      | none => rw [hv] at h; cases h; exact Or.inl rfl
      | some value =>
        rw [hv] at h
        simp only at h
        obtain ⟨t, c1, ht, h⟩ := IxM.run_bind_ok h
        cases t with
        | none => cases h; exact Or.inr ⟨value, none, rfl, ht⟩
        | some ty => cases h; exact Or.inr ⟨value, some ty, rfl, ht⟩
    rcases h4 with h4 | h4
    · simp only [h4, beq_self_eq_true, if_true] at hrun
      cases hid : Ast.identifierValue sv with
      | none => rw [hid] at hrun; cases hrun; exact Or.inl rfl
      | some name =>
        rw [hid] at hrun
        simp only [pure_bind] at hrun
        exact key name hrun
    · have : (sv.kind == SyntaxKind.Identifier) = false := by rw [h4]; decide
      simp only [h4, beq_self_eq_true, if_true, pure_bind] at hrun
      exact key _ hrun


/-- a `for` loop without loop state whose body never breaks, cut at one element -/
theorem forIn_unit_split {α : Type} (body : α → PUnit → IxM (ForInStep PUnit)) (pre : List α) (x : α)
    (post : List α) (c c' : IndexCtx) (u : PUnit)
    (hy : ∀ x c st c1, (body x PUnit.unit).run c = .ok (st, c1) → st = .yield PUnit.unit)
    (h : (forIn (pre ++ x :: post) PUnit.unit body).run c = .ok (u, c')) :
    ∃ c1 c2, (forIn pre PUnit.unit body).run c = .ok (PUnit.unit, c1) ∧
      (body x PUnit.unit).run c1 = .ok (.yield PUnit.unit, c2) ∧
      (forIn post PUnit.unit body).run c2 = .ok (PUnit.unit, c') := by
  induction pre generalizing c with
  | nil =>
    simp only [List.nil_append, List.forIn_cons] at h
    obtain ⟨st, c2, h1, h⟩ := IxM.run_bind_ok h
    have := hy _ _ _ _ h1
    subst this
    exact ⟨c, c2, rfl, h1, h⟩
  | cons y pre ih =>
    simp only [List.cons_append, List.forIn_cons] at h
    obtain ⟨st, c0, h1, h⟩ := IxM.run_bind_ok h
    have := hy _ _ _ _ h1
    subst this
    obtain ⟨c1, c2, i1, i2, i3⟩ := ih c0 h
    refine ⟨c1, c2, ?_, i2, i3⟩
    simp only [List.forIn_cons, StateT.run_bind, h1, Except.ok_bind]
    exact i1

section sub
variable {r : Rec} (hv : ∀ n, Keeps AttrRel (r.value n)) (ht : ∀ n, Keeps AttrRel (r.typ n))
include hv ht

/-- **site P3 `a record cannot inherit from itself`**, both directions, for the parent `classRef` of
the record `recordId` (`c1`/`c2`: the states before / after resolving that parent; `c3`: after the
whole iteration): if the parent resolves to the record itself the diagnostic (at the class reference)
is in the final diagnostics; otherwise the iteration appends nothing of its own -/
theorem parent_self_inherit (n : PTree) (c c' : IndexCtx) (f : Nat) (rest : List Nat) (hft : c.fileTrace = f :: rest)
    (recordId : Nat) (hrec : c.scopes.currentRecordId = some recordId)
    (pre : List PTree) (classRef : PTree) (post : List PTree)
    (hsplit : Ast.parentClassListClasses n = pre ++ classRef :: post)
    (hrun : (indexParentClassList r n).run c = .ok ((), c')) :
    ∃ c1 res c2 c3, AttrRel c c1 ∧ (pre = [] → c1 = c) ∧
      (resolveClassRefAsClass r classRef).run c1 = .ok (res, c2) ∧ AttrRel c3 c' ∧
      (res = some recordId →
        c3 = c2.report f (nodeRange classRef) "a record cannot inherit from itself" ∧
        ({ location := ⟨f, classRef.start, classRef.stop⟩, message := "a record cannot inherit from itself" } : Diagnostic)
          ∈ c'.diagnostics.toList) ∧
      (res ≠ some recordId → c3.diagnostics = c2.diagnostics) := by
  unfold indexParentClassList at hrun
  simp only [StateT.run_bind, currentRecordId_run, hrec, Except.ok_bind, hsplit] at hrun
  obtain ⟨u, c'', hloop, hpure⟩ := IxM.run_bind_ok hrun
  simp only [StateT.run_pure] at hpure
  cases hpure
  have hsplitrun := forIn_unit_split _ pre classRef post c c' _ ?_ hloop
  · obtain ⟨c1, c3, i1, i2, i3⟩ := hsplitrun
    have r1 : AttrRel c c1 := (?_ : Keeps AttrRel _).run _ _ _ i1
    have r3 : AttrRel c3 c' := (?_ : Keeps AttrRel _).run _ _ _ i3
    · obtain ⟨res, c2, j1, j2⟩ := IxM.run_bind_ok i2
      have hft2 : c2.fileTrace = f :: rest := by
        rw [((Index.resolveClassRefAsClass_keeps hv ht classRef).run _ _ _ j1).trace, r1.trace]; exact hft
      have hpre : pre = [] → c1 = c := by
        intro hp
        subst hp
        simp only [List.forIn_nil, StateT.run_pure] at i1
        cases i1
        rfl
      refine ⟨c1, res, c2, c3, r1, hpre, j1, r3, ?_, ?_⟩
      · intro hres
        subst hres
        simp only [beq_self_eq_true, if_true, StateT.run_bind, error_run _ _ c2 f rest hft2, Except.ok_bind,
          StateT.run_pure] at j2
        cases j2
        exact ⟨rfl, AttrRel.keeps_diag r3 _ (report_mem c2 f _ _)⟩
      · intro hres
        cases res with
        | none => simp only [StateT.run_pure] at j2; cases j2; rfl
        | some classId =>
          have : (classId == recordId) = false := by
            simpa using fun h => hres (by rw [h])
          simp only [this, Bool.false_eq_true, if_false, StateT.run_bind, recordMut_run, Except.ok_bind,
            StateT.run_pure] at j2
          cases j2
          rfl
    · keeps
    · keeps
  · intro x c0 st c1 h
    obtain ⟨res, c2, j1, j2⟩ := IxM.run_bind_ok h
    cases res with
    | none => simp only [StateT.run_pure] at j2; cases j2; rfl
    | some classId =>
      simp only at j2
      split at j2
      · obtain ⟨_, _, _, j3⟩ := IxM.run_bind_ok j2
        simp only [StateT.run_pure] at j3; cases j3; rfl
      · obtain ⟨_, _, _, j3⟩ := IxM.run_bind_ok j2
        simp only [StateT.run_pure] at j3; cases j3; rfl

end sub

/-- `names_class_only` reads the symbol map only: the reference names a class and no multiclass -/
theorem namesClassOnly_run (classRef : PTree) (c : IndexCtx) (f : Nat) (rest : List Nat)
    (hft : c.fileTrace = f :: rest) :
    (namesClassOnly classRef).run c = .ok
      (match Ast.classRefName classRef with
        | none => false
        | some nameNode =>
          match identOf f nameNode with
          | none => false
          | some (name, _) => (c.symbolMap.findMulticlass name).isNone && (c.symbolMap.findClass name).isSome, c) := by
  unfold namesClassOnly
  cases Ast.classRefName classRef with
  | none => rfl
  | some nameNode =>
    simp only [StateT.run_bind, utilsIdentifier_runOf nameNode c f rest hft, Except.ok_bind]
    cases identOf f nameNode with
    | none => rfl
    | some nl => obtain ⟨name, loc⟩ := nl; rfl

theorem Except.bind_ok_inv {ε α β : Type} {x : Except ε α} {g : α → Except ε β} {b : β}
    (h : (x >>= g) = .ok b) : ∃ a, x = .ok a ∧ g a = .ok b := by
  cases x with
  | error e => cases h
  | ok a => exact ⟨a, rfl, h⟩

section sub
variable {r : Rec} (hv : ∀ n, Keeps AttrRel (r.value n)) (ht : ∀ n, Keeps AttrRel (r.typ n))
include hv ht

/-- **site P2′ the parents of a `defm` after the first**: the first parent is resolved as a
multiclass (`defmMulticlassParent`, i.e. `classRef_multiclass_lookup`: `multiclass not found` if it is
none).  A later parent `classRef` (`c1`/`c2`: the states before / after its iteration) is resolved
* as a **class** iff its name denotes a class and no multiclass (`names_class_only`): then the
  iteration is exactly `resolveClassRefAsClass`, `class not found` cannot occur, the reference is
  registered and the template arguments are checked against the class's parameters
  (`checkPure … (classParams …)`, section (2));
* as a multiclass otherwise (`defmMulticlassParent`), with `multiclass not found` if there is none. -/
theorem defm_later_parent (n : PTree) (c c' : IndexCtx) (f : Nat) (rest : List Nat) (hft : c.fileTrace = f :: rest)
    (hnorec : c.scopes.currentRecordId = none) (hnomc : c.scopes.currentMulticlassId = none)
    (defmId : Nat) (hdefm : c.scopes.currentDefmId = some defmId)
    (first : PTree) (pre : List PTree) (classRef : PTree) (post : List PTree)
    (hsplit : Ast.parentClassListClasses n = first :: (pre ++ classRef :: post))
    (hrun : (indexParentClassList r n).run c = .ok ((), c')) :
    ∃ c0 c1 c2, (defmMulticlassParent r defmId first).run c = .ok ((), c0) ∧ AttrRel c0 c1 ∧ (pre = [] → c1 = c0) ∧
      AttrRel c2 c' ∧
      ((∃ nameNode name loc classId, Ast.classRefName classRef = some nameNode ∧ identOf f nameNode = some (name, loc) ∧
          c1.symbolMap.findMulticlass name = none ∧ c1.symbolMap.findClass name = some classId ∧
          ∃ avs c3 rs,
            (resolveClassRefAsClass r classRef).run c1 = .ok (some classId, c2) ∧
            (argValuesOf r (Ast.classRefArgValueList classRef)).run
              (c1.setSM (c1.symbolMap.addReference (.record classId) loc)) = .ok (avs, c3) ∧
            checkPure c3.symbolMap (classParams (c1.symbolMap.addReference (.record classId) loc) classId) avs
              (nodeRange classRef) = some rs ∧
            c2 = reportAll c3 f rs) ∨
       ((namesClassOnly classRef).run c1 = .ok (false, c1) ∧
          (defmMulticlassParent r defmId classRef).run c1 = .ok ((), c2))) := by
  unfold indexParentClassList at hrun
  simp only [StateT.run_bind, currentRecordId_run, hnorec, Except.ok_bind, currentMulticlassId_run, hnomc,
    currentDefmId_run, hdefm, hsplit] at hrun
  obtain ⟨⟨u0, c0⟩, h0, hrun⟩ := Except.bind_ok_inv hrun
  have r0 : AttrRel c c0 := (Index.defmMulticlassParent_keeps hv ht defmId first).run _ _ _ h0
  obtain ⟨⟨u, c''⟩, hloop, hpure⟩ := Except.bind_ok_inv hrun
  simp only [StateT.run_pure] at hpure
  cases hpure
  have hsplitrun := forIn_unit_split _ pre classRef post c0 c' _ ?_ hloop
  · obtain ⟨c1, c2, i1, i2, i3⟩ := hsplitrun
    have r1 : AttrRel c0 c1 := (?_ : Keeps AttrRel _).run _ _ _ i1
    have r3 : AttrRel c2 c' := (?_ : Keeps AttrRel _).run _ _ _ i3
    · have hft1 : c1.fileTrace = f :: rest := by rw [r1.trace, r0.trace]; exact hft
      have hpre : pre = [] → c1 = c0 := by
        intro hp
        subst hp
        simp only [List.forIn_nil, StateT.run_pure] at i1
        cases i1
        rfl
      refine ⟨c0, c1, c2, h0, r1, hpre, r3, ?_⟩
      obtain ⟨b, c1', j1, j2⟩ := IxM.run_bind_ok i2
      have hnames := namesClassOnly_run classRef c1 f rest hft1
      have hb : (match Ast.classRefName classRef with
          | none => false
          | some nameNode =>
            match identOf f nameNode with
            | none => false
            | some (name, _) => (c1.symbolMap.findMulticlass name).isNone && (c1.symbolMap.findClass name).isSome) = b
          ∧ c1 = c1' := by
        rw [hnames] at j1
        cases j1
        exact ⟨rfl, rfl⟩
      obtain ⟨hb, rfl⟩ := hb
      rw [hb] at hnames
      cases b with
      | false =>
        simp only [Bool.false_eq_true, if_false] at j2
        obtain ⟨_, c2', k1, k2⟩ := IxM.run_bind_ok j2
        simp only [StateT.run_pure] at k2
        cases k2
        exact Or.inr ⟨hnames, k1⟩
      | true =>
        simp only [if_true] at j2
        obtain ⟨res, c2', k1, k2⟩ := IxM.run_bind_ok j2
        simp only [StateT.run_pure] at k2
        cases k2
        left
        cases hnn : Ast.classRefName classRef with
        | none => rw [hnn] at hb; cases hb
        | some nameNode =>
          rw [hnn] at hb
          simp only at hb
          cases hid : identOf f nameNode with
          | none => rw [hid] at hb; cases hb
          | some nl =>
            obtain ⟨name, loc⟩ := nl
            rw [hid] at hb
            simp only [Bool.and_eq_true, Option.isNone_iff_eq_none] at hb
            obtain ⟨hmc, hcls⟩ := hb
            obtain ⟨classId, hcls⟩ := Option.isSome_iff_exists.1 hcls
            have := classRef_class_lookup hv ht classRef c1 f rest hft1 nameNode hnn name loc hid
            rw [hcls] at this
            obtain ⟨hres, avs, c3, rs, a1, a2, a3⟩ := this res c2 k1
            subst hres
            exact ⟨nameNode, name, loc, classId, rfl, hid, hmc, hcls, avs, c3, rs, k1, a1, a2, a3⟩
    · keeps
    · keeps
  · intro x cx st cy h
    obtain ⟨b, cz, j1, j2⟩ := IxM.run_bind_ok h
    split at j2
    · obtain ⟨_, _, _, j3⟩ := IxM.run_bind_ok j2
      simp only [StateT.run_pure] at j3; cases j3; rfl
    · obtain ⟨_, _, _, j3⟩ := IxM.run_bind_ok j2
      simp only [StateT.run_pure] at j3; cases j3; rfl

/-- **site P2″ the parents of a `multiclass` - and of a `defm` written inside a multiclass, whose
parent list is indexed in the multiclass branch (`inDefm`)** - after the first: the first parent is
resolved as a multiclass (`multiclassParent`).  A later parent `classRef` is resolved
* as a **class** iff the list belongs to a `defm` (`inDefm = true`) and its name denotes a class and
  no multiclass: then the iteration is exactly `resolveClassRefAsClass` - no `class not found`, the
  template arguments are checked against the class;
* as a multiclass otherwise (`multiclassParent`: in a plain multiclass always). -/
theorem multiclass_later_parent (n : PTree) (c c' : IndexCtx) (f : Nat) (rest : List Nat) (hft : c.fileTrace = f :: rest)
    (hnorec : c.scopes.currentRecordId = none)
    (mcId : Nat) (hmc : c.scopes.currentMulticlassId = some mcId)
    (inDefm : Bool) (hdefm : c.scopes.currentDefmId.isSome = inDefm)
    (first : PTree) (pre : List PTree) (classRef : PTree) (post : List PTree)
    (hsplit : Ast.parentClassListClasses n = first :: (pre ++ classRef :: post))
    (hrun : (indexParentClassList r n).run c = .ok ((), c')) :
    ∃ c0 c1 c2, (multiclassParent r mcId first).run c = .ok ((), c0) ∧ AttrRel c0 c1 ∧ (pre = [] → c1 = c0) ∧
      AttrRel c2 c' ∧
      ((inDefm = true ∧ ∃ nameNode name loc classId, Ast.classRefName classRef = some nameNode ∧ identOf f nameNode = some (name, loc) ∧
          c1.symbolMap.findMulticlass name = none ∧ c1.symbolMap.findClass name = some classId ∧
          ∃ avs c3 rs,
            (resolveClassRefAsClass r classRef).run c1 = .ok (some classId, c2) ∧
            (argValuesOf r (Ast.classRefArgValueList classRef)).run
              (c1.setSM (c1.symbolMap.addReference (.record classId) loc)) = .ok (avs, c3) ∧
            checkPure c3.symbolMap (classParams (c1.symbolMap.addReference (.record classId) loc) classId) avs
              (nodeRange classRef) = some rs ∧
            c2 = reportAll c3 f rs) ∨
       ((inDefm = false ∨ (namesClassOnly classRef).run c1 = .ok (false, c1)) ∧
          (multiclassParent r mcId classRef).run c1 = .ok ((), c2))) := by
  unfold indexParentClassList at hrun
  simp only [StateT.run_bind, currentRecordId_run, hnorec, Except.ok_bind, currentMulticlassId_run, hmc,
    currentDefmId_run, hdefm, hsplit] at hrun
  obtain ⟨⟨u0, c0⟩, h0, hrun⟩ := Except.bind_ok_inv hrun
  have r0 : AttrRel c c0 := (Index.multiclassParent_keeps hv ht mcId first).run _ _ _ h0
  obtain ⟨⟨u, c''⟩, hloop, hpure⟩ := Except.bind_ok_inv hrun
  simp only [StateT.run_pure] at hpure
  cases hpure
  have hsplitrun := forIn_unit_split _ pre classRef post c0 c' _ ?_ hloop
  · obtain ⟨c1, c2, i1, i2, i3⟩ := hsplitrun
    have r1 : AttrRel c0 c1 := (?_ : Keeps AttrRel _).run _ _ _ i1
    have r3 : AttrRel c2 c' := (?_ : Keeps AttrRel _).run _ _ _ i3
    · have hft1 : c1.fileTrace = f :: rest := by rw [r1.trace, r0.trace]; exact hft
      have hpre : pre = [] → c1 = c0 := by
        intro hp
        subst hp
        simp only [List.forIn_nil, StateT.run_pure] at i1
        cases i1
        rfl
      refine ⟨c0, c1, c2, h0, r1, hpre, r3, ?_⟩
      obtain ⟨b, c1', j1, j2⟩ := IxM.run_bind_ok i2
      have hnames := namesClassOnly_run classRef c1 f rest hft1
      have hb : (match Ast.classRefName classRef with
          | none => false
          | some nameNode =>
            match identOf f nameNode with
            | none => false
            | some (name, _) => (c1.symbolMap.findMulticlass name).isNone && (c1.symbolMap.findClass name).isSome) = b
          ∧ c1 = c1' := by
        rw [hnames] at j1
        cases j1
        exact ⟨rfl, rfl⟩
      obtain ⟨hb, rfl⟩ := hb
      rw [hb] at hnames
      cases inDefm with
      | false =>
        simp only [Bool.false_and, Bool.false_eq_true, if_false] at j2
        obtain ⟨_, c2', k1, k2⟩ := IxM.run_bind_ok j2
        simp only [StateT.run_pure] at k2
        cases k2
        exact Or.inr ⟨Or.inl rfl, k1⟩
      | true =>
      cases b with
      | false =>
        simp only [Bool.and_false, Bool.false_eq_true, if_false] at j2
        obtain ⟨_, c2', k1, k2⟩ := IxM.run_bind_ok j2
        simp only [StateT.run_pure] at k2
        cases k2
        exact Or.inr ⟨Or.inr hnames, k1⟩
      | true =>
        simp only [Bool.and_self, if_true] at j2
        obtain ⟨res, c2', k1, k2⟩ := IxM.run_bind_ok j2
        simp only [StateT.run_pure] at k2
        cases k2
        left
        cases hnn : Ast.classRefName classRef with
        | none => rw [hnn] at hb; cases hb
        | some nameNode =>
          rw [hnn] at hb
          simp only at hb
          cases hid : identOf f nameNode with
          | none => rw [hid] at hb; cases hb
          | some nl =>
            obtain ⟨name, loc⟩ := nl
            rw [hid] at hb
            simp only [Bool.and_eq_true, Option.isNone_iff_eq_none] at hb
            obtain ⟨hmc', hcls⟩ := hb
            obtain ⟨classId, hcls⟩ := Option.isSome_iff_exists.1 hcls
            have := classRef_class_lookup hv ht classRef c1 f rest hft1 nameNode hnn name loc hid
            rw [hcls] at this
            obtain ⟨hres, avs, c3, rs, a1, a2, a3⟩ := this res c2 k1
            subst hres
            exact ⟨rfl, nameNode, name, loc, classId, rfl, hid, hmc', hcls, avs, c3, rs, k1, a1, a2, a3⟩
    · keeps
    · keeps
  · intro x cx st cy h
    obtain ⟨b, cz, j1, j2⟩ := IxM.run_bind_ok h
    split at j2
    · obtain ⟨_, _, _, j3⟩ := IxM.run_bind_ok j2
      simp only [StateT.run_pure] at j3; cases j3; rfl
    · obtain ⟨_, _, _, j3⟩ := IxM.run_bind_ok j2
      simp only [StateT.run_pure] at j3; cases j3; rfl

end sub

/-- one suffix: `some (ty', c')` = continue with the type `ty'` in state `c'`; `none, c'` = stop -/
def suffixStep (f : Nat) (ty : Ty) (s : PTree) (c : IndexCtx) : Option Ty × IndexCtx :=
  match s.kind with
  | .RangeSuffix =>
    match ty with
    | .bits _ => (some (rangeTyp (Ast.rangeSuffixRangeList s)), c)
    | _ => (none, c)
  | .SliceSuffix =>
    if Ast.sliceSuffixIsSingleElement s then
      match ty.elementTyp with
      | some t => (some t, c)
      | none => (none, c)
    else (some ty, c)
  | _ =>
    match Ast.fieldSuffixName s with
    | none => (none, c)
    | some nameNode =>
      match identOf f nameNode with
      | none => (none, c)
      | some (name, loc) =>
        match c.symbolMap.typFindField ty name with
        | some fieldId =>
          (some ((c.symbolMap.addReference (.recordField fieldId) loc).recordField fieldId).typ,
            c.setSM (c.symbolMap.addReference (.recordField fieldId) loc))
        | none => (none, c.report f (nodeRange s) ("cannot access field: " ++ name))

/-- the suffix loop of `impl Indexable for ast::InnerValue` as a function: the resulting type (`none`:
the walk stopped) and the final state -/
def suffixWalk (f : Nat) : Ty → List PTree → IndexCtx → Option Ty × IndexCtx
  | ty, [], c => (some ty, c)
  | ty, s :: rest, c =>
    match suffixStep f ty s c with
    | (some ty', c') => suffixWalk f ty' rest c'
    | (none, c') => (none, c')

theorem suffixStep_fileTrace (f : Nat) (ty : Ty) (s : PTree) (c : IndexCtx) :
    (suffixStep f ty s c).2.fileTrace = c.fileTrace := by
  unfold suffixStep
  repeat' split
  all_goals rfl

/-- the body of the suffix loop (as elaborated from the `for … in` of `indexInnerValue`) -/
def suffixBody (suffix : PTree) (s : Option (Option Ty) × Ty) : IxM (ForInStep (Option (Option Ty) × Ty)) :=
  match suffix.kind with
  | .RangeSuffix =>
    match s.2 with
    | .bits _ => pure (.yield (none, rangeTyp (Ast.rangeSuffixRangeList suffix)))
    | _ => pure (.done (some none, s.2))
  | .SliceSuffix =>
    if Ast.sliceSuffixIsSingleElement suffix = true then
      match s.2.elementTyp with
      | some t => pure (.yield (none, t))
      | _ => pure (.done (some none, s.2))
    else pure (.yield (none, s.2))
  | _ =>
    match Ast.fieldSuffixName suffix with
    | some nameNode => do
      let x ← utilsIdentifier nameNode
      match x with
      | some (name, referenceLoc) => do
        let x ← withSM fun sm => sm.typFindField s.2 name
        match x with
        | some fieldId => do
          addReference (.recordField fieldId) referenceLoc
          let lhsTyp ← withSM fun sm => (sm.recordField fieldId).typ
          pure (.yield (none, lhsTyp))
        | _ => do
          error (nodeRange suffix) (toString "cannot access field: " ++ toString name)
          pure (.done (some none, s.2))
      | _ => pure (.done (some none, s.2))
    | _ => pure (.done (some none, s.2))

theorem suffixBody_run (f : Nat) (rest : List Nat) (s : PTree) (fl : Option (Option Ty)) (ty : Ty) (c : IndexCtx)
    (hft : c.fileTrace = f :: rest) :
    (suffixBody s (fl, ty)).run c = .ok
      (match (suffixStep f ty s c).1 with
        | some ty' => .yield (none, ty')
        | none => .done (some none, ty), (suffixStep f ty s c).2) := by
  unfold suffixBody suffixStep
  split
  · cases ty <;> rfl
  · split
    · split
      · rename_i t ht; simp only [ht]; rfl
      · rename_i hne
        cases he : ty.elementTyp with
        | none => rfl
        | some t => exact absurd he (hne t)
    · rfl
  · cases Ast.fieldSuffixName s with
    | none => rfl
    | some nameNode =>
      simp only [StateT.run_bind, utilsIdentifier_runOf nameNode c f rest hft, Except.ok_bind]
      cases identOf f nameNode with
      | none => rfl
      | some nl =>
        obtain ⟨name, loc⟩ := nl
        simp only [StateT.run_bind, withSM_run, Except.ok_bind]
        cases c.symbolMap.typFindField ty name with
        | some fieldId => rfl
        | none =>
          simp only [StateT.run_bind, error_run _ _ c f rest hft, Except.ok_bind, StateT.run_pure]
          simp [toString]
          rfl

theorem suffixLoop_run (f : Nat) (rest : List Nat) (l : List PTree) (ty : Ty) (c1 : IndexCtx)
    (hft : c1.fileTrace = f :: rest) :
    ∃ flag last, (forIn l ((none, ty) : Option (Option Ty) × Ty) suffixBody).run c1 =
        .ok ((flag, last), (suffixWalk f ty l c1).2) ∧
      (match flag with | some r => r | none => some last) = (suffixWalk f ty l c1).1 := by
  induction l generalizing ty c1 with
  | nil => exact ⟨none, ty, rfl, rfl⟩
  | cons s tl ih =>
    rw [List.forIn_cons]
    simp only [StateT.run_bind, suffixBody_run f rest s none ty c1 hft, Except.ok_bind]
    unfold suffixWalk
    have hft' := suffixStep_fileTrace f ty s c1
    cases hstep : suffixStep f ty s c1 with
    | mk o c2 =>
      rw [hstep] at hft'
      cases o with
      | none => exact ⟨some none, ty, rfl, rfl⟩
      | some ty' =>
        obtain ⟨flag, last, h1, h2⟩ := ih ty' c2 (by rw [hft']; exact hft)
        exact ⟨flag, last, h1, h2⟩

/-- **site V3 `cannot access field`** (`x.f`), both directions, for every position of the suffix
chain: after the simple value has been indexed (sub-call, result `lhs`), `indexInnerValue` is exactly
`suffixWalk`: each field suffix whose field exists registers a reference and continues with the
field's type and reports nothing; the first one whose field does not exist in the current type is
reported at the suffix, and the walk stops.  (A range suffix `b{…}` on a `bits` value continues with
`rangeTyp` of its range list: `bit` for one selected bit, `bits w` for `w`, `unknown` if a bound
cannot be read; on any other type the walk stops without a diagnostic.) -/
theorem innerValue_suffixes (r : Rec) (n : PTree) (sv : PTree) (hsv : Ast.innerValueSimpleValue n = some sv)
    (c c1 : IndexCtx) (lhs : Ty) (hrun : (indexSimpleValue r sv).run c = .ok (some lhs, c1))
    (f : Nat) (rest : List Nat) (hft : c1.fileTrace = f :: rest) :
    (indexInnerValue r n).run c = .ok (suffixWalk f lhs (Ast.innerValueSuffixes n) c1) := by
  unfold indexInnerValue
  simp only [hsv, StateT.run_bind, hrun, Except.ok_bind]
  obtain ⟨flag, last, h1, h2⟩ := suffixLoop_run f rest (Ast.innerValueSuffixes n) lhs c1 hft
  change ((forIn (Ast.innerValueSuffixes n) ((none, lhs) : Option (Option Ty) × Ty) suffixBody).run c1 >>= _) = _
  rw [h1]
  simp only [Except.ok_bind]
  cases flag with
  | none =>
    simp only at h2
    show Except.ok (some last, _) = _
    rw [h2]
  | some r' =>
    simp only at h2
    show Except.ok (r', _) = _
    rw [h2]


/-! list literals: the one type of the elements - site LL: `listStep`, `listFold`, `listStep_reported`,
`list_literal`, `list_literal_annotated`, `list_literal_unresolved` are in `Lemmas/Sem10List.lean` -/

/-! bang operators: the helpers through which 35 of the 52 `ctx.error` sites of `bang_operator.rs` go -/

/-- **site B2 `unexpected type annotation`**, both directions -/
theorem unexpectTypeAnnotation_contract (node : PTree) (c : IndexCtx) (f : Nat) (rest : List Nat)
    (hft : c.fileTrace = f :: rest) :
    (Bang.unexpectTypeAnnotation node).run c = .ok ((),
      match Ast.bangOperatorType node with
      | some typ => c.report f (typ.start, typ.stop) "unexpected type annotation"
      | none => c) := by
  unfold Bang.unexpectTypeAnnotation
  cases Ast.bangOperatorType node with
  | none => rfl
  | some typ => simp only [error_run _ _ c f rest hft]; rfl

/-- **site B1 `expected type annotation`**, both directions: without annotation one diagnostic at the
operator; with one, the function is the sub-call on the annotation -/
theorem expectTypeAnnotation_contract (r : Rec) (node : PTree) (c : IndexCtx) (f : Nat) (rest : List Nat)
    (hft : c.fileTrace = f :: rest) :
    (Bang.expectTypeAnnotation r node).run c =
      match Ast.bangOperatorType node with
      | some typ => (r.typ typ).run c
      | none => .ok (none, c.report f (node.start, node.stop) "expected type annotation") := by
  unfold Bang.expectTypeAnnotation
  cases Ast.bangOperatorType node with
  | none => simp only [StateT.run_bind, error_run _ _ c f rest hft, Except.ok_bind]; rfl
  | some typ => rfl

/-- **sites B4 (`if let Some((range, Some(typ))) = value_types.next()` followed by a type test)**:
`checkNext` consumes one operand; it reports (at that operand, with the operator's message) iff the
operand has a type and the test fails -/
theorem checkNext_contract (vt : Bang.ValueTypes) (ok : SymMap → Ty → Bool) (msg : Ty → String) (c : IndexCtx)
    (f : Nat) (rest : List Nat) (hft : c.fileTrace = f :: rest) :
    (Bang.checkNext vt ok msg).run c = .ok (vt.tail,
      match vt with
      | (range, some typ) :: _ => if ok c.symbolMap typ then c else c.report f range (msg typ)
      | _ => c) := by
  unfold Bang.checkNext
  match vt with
  | [] => rfl
  | (range, none) :: tl => rfl
  | (range, some typ) :: tl =>
    simp only [StateT.run_bind, withSM_run, Except.ok_bind, List.tail_cons]
    by_cases h : ok c.symbolMap typ = true
    · simp only [h, Bool.not_true, Bool.false_eq_true, if_false, if_true]; rfl
    · simp only [h, Bool.not_false, if_true, StateT.run_bind, error_run _ _ c f rest hft, Except.ok_bind]
      rfl

/-- the runs of `index_values_and_check_types`: one sub-call per operand, each followed by exactly
one diagnostic at that operand iff it has a type that cannot be cast to the expected type -/
inductive CheckRun (r : Rec) (expected : Ty) (f : Nat) : List PTree → IndexCtx → IndexCtx → Prop
  | nil (c) : CheckRun r expected f [] c c
  | cons (v vs c t c1 c') : (r.value v).run c = .ok (t, c1) →
      CheckRun r expected f vs
        (match t with
          | some vt => if c1.symbolMap.canBeCastedTo vt expected then c1
              else c1.report f (v.start, v.stop) s!"expected {expected}, found {vt}"
          | none => c1) c' →
      CheckRun r expected f (v :: vs) c c'

/-- **sites B3 `expected <ty>, found <ty>`** (all operators whose operands share one type: the
arithmetic, logical, `!con`, `!strconcat`, … families), both directions -/
theorem indexValuesAndCheckTypes_contract {r : Rec} (hv : ∀ n, Keeps AttrRel (r.value n)) (values : List PTree)
    (expected : Ty) (c c' : IndexCtx) (f : Nat) (rest : List Nat) (hft : c.fileTrace = f :: rest)
    (hrun : (Bang.indexValuesAndCheckTypes r values expected).run c = .ok ((), c')) :
    CheckRun r expected f values c c' := by
  unfold Bang.indexValuesAndCheckTypes at hrun
  obtain ⟨u, c'', hloop, hpure⟩ := IxM.run_bind_ok hrun
  simp only [StateT.run_pure] at hpure
  cases hpure
  clear hrun
  induction values generalizing c with
  | nil =>
    simp only [List.forIn_nil, StateT.run_pure] at hloop
    cases hloop
    exact .nil _
  | cons v vs ih =>
    rw [List.forIn_cons] at hloop
    obtain ⟨st, c2, h1, hloop⟩ := IxM.run_bind_ok hloop
    obtain ⟨t, c1, ht, h1⟩ := IxM.run_bind_ok h1
    have hft1 : c1.fileTrace = f :: rest := by rw [((hv _).run _ _ _ ht).trace]; exact hft
    cases t with
    | none =>
      simp only [StateT.run_pure] at h1
      cases h1
      exact .cons v vs c none _ c' ht (ih _ hft1 hloop)
    | some vt =>
      simp only [StateT.run_bind, canBeCastedTo_run, Except.ok_bind] at h1
      by_cases hc : c1.symbolMap.canBeCastedTo vt expected = true
      · simp only [hc, Bool.not_true, Bool.false_eq_true, if_false, StateT.run_pure] at h1
        cases h1
        refine .cons v vs c (some vt) _ c' ht ?_
        simp only [hc, if_true]
        exact ih _ hft1 hloop
      · simp only [hc, Bool.not_false, if_true, StateT.run_bind, error_run _ _ c1 f rest hft1, Except.ok_bind,
          StateT.run_pure] at h1
        cases h1
        refine .cons v vs c (some vt) _ c' ht ?_
        simp only [hc, Bool.false_eq_true, if_false]
        exact ih _ (by simpa using hft1) hloop



/-- `resolve_id`: innermost local scope first, then the defs, then the defsets -/
def resolveName (c : IndexCtx) (name : String) : Option SymbolId :=
  match c.scopes.findLocal c.symbolMap name with
  | some s => some s
  | none =>
    match c.symbolMap.findDef name with
    | some d => some (.record d)
    | none => (c.symbolMap.findDefset name).map .defset

theorem resolveId_runName (name : String) (c : IndexCtx) :
    (resolveId name).run c = .ok (resolveName c name, c) := by
  unfold resolveId resolveName
  simp only [StateT.run_bind, IxM.run_get, Except.ok_bind]
  cases c.scopes.findLocal c.symbolMap name with
  | some s => rfl
  | none =>
    simp only
    cases c.symbolMap.findDef name with
    | some d => rfl
    | none => simp only; cases c.symbolMap.findDefset name <;> rfl

/-- **site V1 `symbol not found`** (identifier value), both directions (the same statement with
explicit name / range hypotheses is `Tg.C05.identifier_not_found` / `identifier_found`): an
identifier that does not resolve is reported at the identifier - unless it is `NAME` -, one that
resolves registers a reference and reports nothing -/
theorem identifier_lookup (id : PTree) (c : IndexCtx) (f : Nat) (rest : List Nat) (hft : c.fileTrace = f :: rest)
    (name : String) (loc : FileRange) (hid : identOf f id = some (name, loc)) :
    match resolveName c name with
    | none => (indexIdentifierValue id).run c =
        if name == "NAME" then .ok (some .string, c)
        else .ok (none, c.report f (loc.start, loc.stop) ("symbol not found: " ++ name))
    | some sym => ∃ t, (indexIdentifierValue id).run c = .ok (t, c.setSM (c.symbolMap.addReference sym loc)) := by
  cases hres : resolveName c name with
  | none =>
    unfold indexIdentifierValue
    simp only [StateT.run_bind, utilsIdentifier_runOf id c f rest hft, hid, Except.ok_bind, resolveId_runName, hres]
    by_cases hname : (name == "NAME") = true
    · simp only [hname, if_true]; rfl
    · simp only [hname, Bool.false_eq_true, if_false, StateT.run_bind, error_run _ _ c f rest hft, Except.ok_bind]
      simp [toString]
      rfl
  | some sym =>
    unfold indexIdentifierValue
    simp only [StateT.run_bind, utilsIdentifier_runOf id c f rest hft, hid, Except.ok_bind, resolveId_runName, hres,
      addReference_run]
    cases sym with
    | record rid =>
      simp only [StateT.run_bind, withSM_run, Except.ok_bind]
      split
      · simp only [StateT.run_bind, withSM_run, Except.ok_bind]
        split <;> exact ⟨_, rfl⟩
      · exact ⟨_, rfl⟩
    | _ => exact ⟨_, rfl⟩

/-! ## (5) attribution: "none in files the fault does not touch" -/

/-- the diagnostics of file `g` -/
def diagsOf (g : Nat) (c : IndexCtx) : List Diagnostic := c.diagnostics.toList.filter (·.location.file == g)

/-- **(5a)** every function of the indexer (`Index.mkRec fuel` - statement lists, source files,
values, types, and everything they call) only appends diagnostics, each attributed to the file at
the head of `file_trace` when the function was entered, or to a file that this very run indexed for
the first time (an included file); the file trace is restored and the workspace untouched -/
theorem diagnostics_attributed (fuel : Nat) (n : PTree) (c c' : IndexCtx)
    (h : ((mkRec fuel).statementList n).run c = .ok ((), c')) :
    c'.fileTrace = c.fileTrace ∧
    ∃ extra, c'.diagnostics.toList = c.diagnostics.toList ++ extra ∧
      ∀ d ∈ extra, c.fileTrace.head? = some d.location.file ∨
        (d.location.file ∉ c.indexedFiles ∧ d.location.file ∈ c'.indexedFiles) := by
  have := ((mkRec_attr fuel).2.2.1 n).run _ _ _ h
  exact ⟨this.trace, this.diags⟩

/-- **(5b)** hence the diagnostics of every other file that had already been indexed are unchanged -/
theorem other_files_unchanged {c c' : IndexCtx} (h : AttrRel c c') (g : Nat) (hg : g ∈ c.indexedFiles)
    (hne : c.fileTrace.head? ≠ some g) : diagsOf g c' = diagsOf g c := by
  obtain ⟨extra, he, ha⟩ := h.diags
  unfold diagsOf
  rw [he, List.filter_append]
  have : extra.filter (fun d => d.location.file == g) = [] := by
    rw [List.filter_eq_nil_iff]
    intro d hd hdg
    have hdg' : d.location.file = g := by simpa using hdg
    rcases ha d hd with h1 | h1
    · exact hne (by rw [h1, hdg'])
    · exact h1.1 (by rw [hdg']; exact hg)
  rw [this, List.append_nil]

theorem statements_leave_other_files (fuel : Nat) (n : PTree) (c c' : IndexCtx)
    (h : ((mkRec fuel).statementList n).run c = .ok ((), c')) (g : Nat) (hg : g ∈ c.indexedFiles)
    (hne : c.fileTrace.head? ≠ some g) : diagsOf g c' = diagsOf g c :=
  other_files_unchanged (((mkRec_attr fuel).2.2.1 n).run _ _ _ h) g hg hne

/-- **(5d)** the result of `index`: every diagnostic is attributed to the root file or to a file that
some `include` statement of the workspace resolves to (and that was indexed because of it) -/
theorem index_diagnostics_files (ws : Workspace) (res : IndexResult) (h : index ws = .ok res) :
    ∀ d ∈ res.diagnostics.toList, d.location.file = ws.root ∨ IsIncludeTarget ws d.location.file := by
  obtain ⟨c', hR, _, hd⟩ := index_keeps (R := AttrRel) ws res h
  obtain ⟨extra, he, ha⟩ := hR.diags
  intro d hdm
  rw [← hd, he] at hdm
  have hdm' : d ∈ extra := by simpa [IndexCtx.new] using hdm
  rcases ha d hdm' with h1 | h1
  · left; simpa [IndexCtx.new] using h1.symm
  · rcases hR.targets _ h1.2 with h2 | h2
    · exact absurd h2 h1.1
    · exact Or.inr h2


/-! ## Non-vacuity -/

example : Ty.canBeCastedTo (fun _ _ => false) (.list .int) (.list (.bits 4)) = true :=
  (canBeCastedTo_iff _ _ _).2 (.list (.intBits 4))

example : ¬ Castable (fun _ _ => false) .string .int := by
  rw [← canBeCastedTo_iff]; decide

def exWs : Workspace := { files := #[], root := 0, fileSet := [0] }

def paramX : TemplateArgument := { name := "x", typ := .int, hasDefaultValue := false, defineLoc := ⟨0, 0, 0⟩ }

/-- `class A<int x>` referenced as `A<>`: the hypotheses of `checkTemplateArgs_run` and
`value_not_specified` hold, and the missing value is reported -/
example : ∃ rs, (checkTemplateArgs [paramX] [] (3, 4)).run (IndexCtx.new exWs) =
      .ok ((), reportAll (IndexCtx.new exWs) 0 rs) ∧ ((3, 4), ArgReport.missing "x") ∈ rs := by
  obtain ⟨rs, h1, h2⟩ := value_not_specified {} [paramX] [] (3, 4) (by simp)
  refine ⟨rs, ?_, (h2 "x").2 ⟨by simp [boundNames], paramX, by simp [paramX], rfl⟩⟩
  rw [checkTemplateArgs_run {} [paramX] [] (3, 4) (IndexCtx.new exWs) 0 [] rfl rfl, h1]

/-- one positional value of type `string` for the parameter `int x`: a type error -/
example : ∃ rs, argStep {} [paramX] ["x"] 0 (some (none, .string, (5, 6))) = some ([], rs) ∧ rs ≠ [] := by
  obtain ⟨rs, h1, _, h3⟩ := positional_type_error {} [paramX] ["x"] 0 paramX rfl .string (5, 6)
  refine ⟨rs, by rw [h1]; simp [paramX], h3.2 ?_⟩
  rw [← canBeCastedTo_iff]
  simp [paramX, Ty.canBeCastedTo]
  rfl

/-- `!add(1)`: one operand where two or more are expected -/
def addNode : PTree :=
  .node .BangOperator 0 7 3 #[.token .XAdd 0 4 "!add", .token .LParen 4 5 "(",
    .node .Value 5 6 2 #[.node .InnerValue 5 6 1 #[.token .IntVal 5 6 "1"]], .token .RParen 6 7 ")"]

example : (Bang.expectValues addNode 2 none).run (IndexCtx.new exWs) =
    .ok (Ast.bangOperatorValues addNode,
      (IndexCtx.new exWs).report 0 (0, 7) (arityMessage 2 none 1)) := by
  rw [expectValues_contract addNode 2 none (IndexCtx.new exWs) 0 [] rfl]
  rfl


/-! ### non-vacuity of the per-site theorems -/

/-- the recursive impls with enough fuel for the examples, and what (4) asks of them -/
def exR : Rec := mkRec 3
theorem exR_value (n : PTree) : Keeps AttrRel (exR.value n) := (mkRec_attr 3).1 n
theorem exR_typ (n : PTree) : Keeps AttrRel (exR.typ n) := (mkRec_attr 3).2.1 n

def c0 : IndexCtx := IndexCtx.new exWs
/-- inside the body of record 0 (a class `A`) -/
def cRec : IndexCtx :=
  { c0 with symbolMap := (SymMap.addRecord {} { name := "A", kind := .cls, defineLoc := ⟨0, 0, 0⟩ } false).2,
            scopes := ({} : Scopes).push (.record 0) }

def identA : PTree := .node .Identifier 0 1 1 #[.token .Id 0 1 "A"]
def classIdA : PTree := .node .ClassId 0 1 2 #[identA]

theorem findClass_empty (name : String) : (c0.symbolMap).findClass name = none := by
  simp [c0, IndexCtx.new, SymMap.findClass]

/-- T1: `A` in a type position, no class `A` -/
example : (indexType exR classIdA).run c0 = .ok (none, c0.report 0 (0, 1) ("class not found: " ++ "A")) := by
  have := type_class_lookup exR classIdA rfl c0 0 [] rfl identA rfl "A" ⟨0, 0, 1⟩ rfl
  rw [findClass_empty] at this
  exact this

/-- T1, converse: in `cRec` the class `A` exists -/
example : (indexType exR classIdA).run cRec =
    .ok (some (.record 0 "A"), cRec.setSM (cRec.symbolMap.addReference (.record 0) ⟨0, 0, 1⟩)) := by
  have := type_class_lookup exR classIdA rfl cRec 0 [] rfl identA rfl "A" ⟨0, 0, 1⟩ rfl
  have h : cRec.symbolMap.findClass "A" = some 0 := by
    simp [cRec, SymMap.findClass, SymMap.addRecord, SymMap.logDefine]
  rw [h] at this
  exact this


theorem findClass_A : cRec.symbolMap.findClass "A" = some 0 := by
  simp [cRec, SymMap.findClass, SymMap.addRecord, SymMap.logDefine]

/-- `A` as a parent class reference (no argument list) -/
def classRefA : PTree := .node .ClassRef 0 1 2 #[identA]

/-- P1: unknown parent class -/
example : (resolveClassRefAsClass exR classRefA).run c0 =
    .ok (none, c0.report 0 (0, 1) ("class not found: " ++ "A")) := by
  have := classRef_class_lookup exR_value exR_typ classRefA c0 0 [] rfl identA rfl "A" ⟨0, 0, 1⟩ rfl
  rw [findClass_empty] at this
  exact this

/-- P1, converse: the hypothesis (a successful run with the class found) is satisfiable, and the run
reports nothing (`A` has no parameters, no arguments are given) -/
example : ∃ res c', (resolveClassRefAsClass exR classRefA).run cRec = .ok (res, c') ∧
    c'.diagnostics = cRec.diagnostics := by
  have := classRef_class_lookup exR_value exR_typ classRefA cRec 0 [] rfl identA rfl "A" ⟨0, 0, 1⟩ rfl
  rw [findClass_A] at this
  have hrun : ∃ res c', (resolveClassRefAsClass exR classRefA).run cRec = .ok (res, c') := by
    unfold resolveClassRefAsClass
    have e0 : Ast.classRefName classRefA = some identA := rfl
    have e1 : identOf 0 identA = some ("A", ⟨0, 0, 1⟩) := rfl
    simp only [e0, StateT.run_bind, utilsIdentifier_runOf identA cRec 0 [] rfl, e1, Except.ok_bind, withSM_run,
      findClass_A, addReference_run]
    exact ⟨_, _, rfl⟩
  obtain ⟨res, c', hrun⟩ := hrun
  obtain ⟨_, avs, c2, rs, h1, h2, h3⟩ := this res c' hrun
  refine ⟨res, c', hrun, ?_⟩
  have e1 : Ast.classRefArgValueList classRefA = none := rfl
  rw [e1] at h1
  cases h1
  have e2 : rs = [] := by
    have : checkPure (cRec.setSM (cRec.symbolMap.addReference (.record 0) ⟨0, 0, 1⟩)).symbolMap
        (classParams (cRec.symbolMap.addReference (.record 0) ⟨0, 0, 1⟩) 0) [] (nodeRange classRefA) = some [] := by
      rfl
    rw [this] at h2
    exact (Option.some.inj h2).symm
  subst e2
  rw [h3]
  rfl


/-- P2: unknown multiclass in a `defm` / `multiclass` parent list -/
example : (resolveClassRefAsMulticlass exR classRefA).run c0 =
    .ok (none, c0.report 0 (0, 1) ("multiclass not found: " ++ "A")) := by
  have := classRef_multiclass_lookup exR_value exR_typ classRefA c0 0 [] rfl identA rfl "A" ⟨0, 0, 1⟩ rfl
  have h : c0.symbolMap.findMulticlass "A" = none := by simp [c0, IndexCtx.new, SymMap.findMulticlass]
  rw [h] at this
  exact this

/-- `A<>`-less class value `A` -/
def classValueA : PTree := .node .ClassValue 0 1 2 #[identA]

/-- V2: unknown class in a class value -/
example : (indexClassValue exR classValueA).run c0 =
    .ok (none, c0.report 0 (0, 1) ("class not found: " ++ "A")) := by
  have := classValue_lookup exR_value exR_typ classValueA c0 0 [] rfl identA rfl "A" ⟨0, 0, 1⟩ rfl
  rw [findClass_empty] at this
  exact this

/-- `include "x.td"` at 0..15 -/
def includeNode : PTree :=
  .node .Include 0 15 2 #[.token .IncludeKw 0 7 "include", .token .Whitespace 7 8 " ",
    .node .String 8 15 1 #[.token .StrVal 8 15 "\"x.td\""]]

/-- I1: the workspace `exWs` resolves no include -/
example : (indexInclude exR includeNode).run c0 = .ok ((), c0.report 0 (0, 15)
    ("include file not found: " ++ ((Ast.includePath includeNode).map Ast.stringValue).getD "")) :=
  include_not_found exR includeNode c0 0 [] rfl rfl

/-- a workspace in which that include resolves to file 1 (an empty file) -/
def incWs : Workspace :=
  { files := #[{ path := "a.td", tree := .node .SourceFile 0 15 3 #[includeNode], errors := [],
                 includeMap := [((0, 15), 1)] },
               { path := "x.td", tree := .node .SourceFile 0 0 1 #[], errors := [] }],
    root := 0, fileSet := [0, 1] }

/-- I1, converse: the hypotheses of `include_found` are satisfiable -/
example : ∃ c', (indexInclude exR includeNode).run (IndexCtx.new incWs) = .ok ((), c') ∧
    ∃ extra, c'.diagnostics.toList = (IndexCtx.new incWs).diagnostics.toList ++ extra ∧
      ∀ d ∈ extra, d.location.file ∉ (IndexCtx.new incWs).indexedFiles ∧ d.location.file ∈ c'.indexedFiles := by
  have hrun : ∃ c', (indexInclude exR includeNode).run (IndexCtx.new incWs) = .ok ((), c') := ⟨_, rfl⟩
  obtain ⟨c', hrun⟩ := hrun
  exact ⟨c', hrun, include_found exR (mkRec_attr 3).2.2.2 includeNode _ c' 0 [] rfl 1 rfl hrun⟩


def identX : PTree := .node .Identifier 4 5 1 #[.token .Id 4 5 "x"]
def intType : PTree := .node .IntType 0 3 1 #[.token .Int 0 3 "int"]
/-- the value `"s"` -/
def strValue : PTree :=
  .node .Value 8 11 3 #[.node .InnerValue 8 11 2 #[.node .String 8 11 1 #[.token .StrVal 8 11 "\"s\""]]]
/-- the value `1` -/
def intValue : PTree :=
  .node .Value 8 9 3 #[.node .InnerValue 8 9 2 #[.node .Integer 8 9 1 #[.token .IntVal 8 9 "1"]]]

/-- `int x = "s";` -/
def fieldDefBad : PTree :=
  .node .FieldDef 0 12 4 #[intType, .token .Whitespace 3 4 " ", identX, .token .Equal 6 7 "=", strValue, .token .Semi 11 12 ";"]
/-- `int x = 1;` -/
def fieldDefGood : PTree :=
  .node .FieldDef 0 10 4 #[intType, .token .Whitespace 3 4 " ", identX, .token .Equal 6 7 "=", intValue, .token .Semi 9 10 ";"]

/-- the state after declaring `int x` in record 0 -/
def cF : IndexCtx := withField cRec 0 ⟨"x", .int, 0, ⟨0, 4, 5⟩⟩

/-- F1: a string initialiser for an `int` field is reported at the value -/
example : (indexFieldDef exR fieldDefBad).run cRec = .ok ((), cF.report 0 (8, 11)
    s!"field '{"x"}' of type '{Ty.int}' is incompatible with type '{Ty.string}'") := by
  rw [fieldDef_initialiser exR_value exR_typ fieldDefBad cRec 0 [] rfl 0 rfl identX rfl "x" ⟨0, 4, 5⟩ rfl
    intType rfl .int cRec rfl strValue rfl .string cF rfl]
  rfl

/-- F1, converse: an `int` initialiser is not -/
example : (indexFieldDef exR fieldDefGood).run cRec = .ok ((), cF) := by
  rw [fieldDef_initialiser exR_value exR_typ fieldDefGood cRec 0 [] rfl 0 rfl identX rfl "x" ⟨0, 4, 5⟩ rfl
    intType rfl .int cRec rfl intValue rfl .int cF rfl]
  rfl


/-- `let x = 1;` -/
def fieldLetX : PTree :=
  .node .FieldLet 0 10 4 #[.token .LetKw 0 3 "let", .token .Whitespace 3 4 " ", identX, .token .Equal 6 7 "=",
    intValue, .token .Semi 9 10 ";"]
/-- `let x = "s";` -/
def fieldLetBad : PTree :=
  .node .FieldLet 0 12 4 #[.token .LetKw 0 3 "let", .token .Whitespace 3 4 " ", identX, .token .Equal 6 7 "=",
    strValue, .token .Semi 11 12 ";"]

theorem noField_x : cRec.symbolMap.recordFindField 0 "x" = none := by decide +kernel
theorem field_x : cF.symbolMap.recordFindField 0 "x" = some 0 := by decide +kernel

/-- L1: record 0 has no field `x` -/
example : ∃ c', (indexFieldLet exR fieldLetX).run cRec = .ok ((), c') ∧
    ({ location := ⟨0, 4, 5⟩, message := "field not found: " ++ "x" } : Diagnostic) ∈ c'.diagnostics.toList := by
  have hrun : ∃ c', (indexFieldLet exR fieldLetX).run cRec = .ok ((), c') := by
    rw [fieldLet_field_not_found fieldLetX cRec 0 [] rfl identX rfl "x" ⟨0, 4, 5⟩ rfl 0 rfl noField_x]
    exact ⟨_, rfl⟩
  obtain ⟨c', hrun⟩ := hrun
  exact ⟨c', hrun, fieldLet_field_not_found_reported exR_value fieldLetX cRec c' 0 [] rfl identX rfl "x" ⟨0, 4, 5⟩ rfl 0 rfl
    noField_x hrun⟩

/-- the state in which the value of `let x = …` is indexed, in `cF` (where record 0 declares `int x`
itself: no new field, only the reference) -/
def cL : IndexCtx := cF.setSM (cF.symbolMap.addReference (.recordField 0) ⟨0, 4, 5⟩)

theorem cF_own : (if ((cF.symbolMap.recordField 0).parent != 0) = true then withField cF 0 ⟨"x", .int, 0, ⟨0, 4, 5⟩⟩ else cF) = cF := by
  have : ((cF.symbolMap.recordField 0).parent != 0) = false := by decide +kernel
  simp [this]

/-- L2: a string for the `int` field (a field of the record itself) -/
example : (indexFieldLet exR fieldLetBad).run cF = .ok ((), cL.report 0 (8, 11)
    s!"field '{"x"}' of type '{Ty.int}' is incompatible with type '{Ty.string}'") := by
  rw [fieldLet_value exR_value fieldLetBad cF 0 [] rfl identX rfl "x" ⟨0, 4, 5⟩ rfl 0 rfl 0 field_x .int rfl .int rfl
    cF cF_own.symm strValue rfl .string cL rfl]
  rfl

/-- L2, converse -/
example : (indexFieldLet exR fieldLetX).run cF = .ok ((), cL) := by
  rw [fieldLet_value exR_value fieldLetX cF 0 [] rfl identX rfl "x" ⟨0, 4, 5⟩ rfl 0 rfl 0 field_x .int rfl .int rfl
    cF cF_own.symm intValue rfl .int cL rfl]
  rfl

/-- inside the body of `def d : A` (record 1, parent record 0 which declares `int x`) -/
def cInh : IndexCtx :=
  let sm1 := (cF.symbolMap.addRecord { name := "d", kind := .def_, parentList := #[0], defineLoc := ⟨0, 20, 21⟩ } false).2
  { cF with symbolMap := sm1, scopes := ({} : Scopes).push (.record 1) }

theorem inherited_x : cInh.symbolMap.recordFindField 1 "x" = some 0 := by decide +kernel

def cInhDecl : IndexCtx := withField cInh 1 ⟨"x", .int, 1, ⟨0, 4, 5⟩⟩

theorem cInh_inherited : (if ((cInh.symbolMap.recordField 0).parent != 1) = true
    then withField cInh 1 ⟨"x", .int, 1, ⟨0, 4, 5⟩⟩ else cInh) = cInhDecl := by
  have : ((cInh.symbolMap.recordField 0).parent != 1) = true := by decide +kernel
  simp [this, cInhDecl]

/-- L2 on an inherited field: the override is declared as a new field of record 1 (`cInhDecl`), then
the reference is registered and the value checked -/
example : (indexFieldLet exR fieldLetBad).run cInh =
    .ok ((), (cInhDecl.setSM (cInhDecl.symbolMap.addReference (.recordField 0) ⟨0, 4, 5⟩)).report 0 (8, 11)
      s!"field '{"x"}' of type '{Ty.int}' is incompatible with type '{Ty.string}'") := by
  rw [fieldLet_value exR_value fieldLetBad cInh 0 [] rfl identX rfl "x" ⟨0, 4, 5⟩ rfl 1 rfl 0 inherited_x .int rfl .int rfl
    cInhDecl cInh_inherited.symm strValue rfl .string _ rfl]
  rfl


/-- `int x = "s"` as a template parameter -/
def paramBad : PTree :=
  .node .TemplateArgDecl 0 11 4 #[intType, .token .Whitespace 3 4 " ", identX, .token .Equal 6 7 "=", strValue]
def paramGood : PTree :=
  .node .TemplateArgDecl 0 9 4 #[intType, .token .Whitespace 3 4 " ", identX, .token .Equal 6 7 "=", intValue]

def cP : IndexCtx := withClassParam cRec 0 ⟨"x", .int, true, ⟨0, 4, 5⟩⟩

/-- A1: a string default for an `int` parameter -/
example : (indexTemplateArgDecl exR paramBad).run cRec = .ok ((), cP.report 0 (8, 11)
    s!"template argument '{"x"}' of type '{Ty.int}' is incompatible with type '{Ty.string}'") := by
  rw [classParam_default exR_value exR_typ paramBad cRec 0 [] rfl identX rfl "x" ⟨0, 4, 5⟩ rfl intType rfl .int cRec rfl
    0 rfl strValue rfl .string cP rfl]
  rfl

/-- A1, converse -/
example : (indexTemplateArgDecl exR paramGood).run cRec = .ok ((), cP) := by
  rw [classParam_default exR_value exR_typ paramGood cRec 0 [] rfl identX rfl "x" ⟨0, 4, 5⟩ rfl intType rfl .int cRec rfl
    0 rfl intValue rfl .int cP rfl]
  rfl

/-- inside the body of multiclass 0 -/
def cMc : IndexCtx :=
  { c0 with symbolMap := (SymMap.addMulticlass {} { name := "M", defineLoc := ⟨0, 0, 0⟩ }).2,
            scopes := ({} : Scopes).push (.multiclass 0) }

/-- A1′ -/
example : (indexTemplateArgDecl exR paramBad).run cMc =
    .ok ((), (withMulticlassParam cMc 0 ⟨"x", .int, true, ⟨0, 4, 5⟩⟩).report 0 (8, 11)
      s!"template argument '{"x"}' of type '{Ty.int}' is incompatible with type '{Ty.string}'") := by
  rw [multiclassParam_default exR_value exR_typ paramBad cMc 0 [] rfl identX rfl "x" ⟨0, 4, 5⟩ rfl intType rfl .int cMc rfl
    rfl 0 rfl strValue rfl .string _ rfl]
  rfl

/-- the named argument `1 = 1` (the name is an integer) -/
def namedArgBad : PTree := .node .NamedArgValue 0 5 4 #[intValue, .token .Equal 2 3 "=", intValue]

/-- N1 -/
example : (indexArgValue exR namedArgBad).run c0 =
    .ok (none, c0.report 0 (0, 5) "the name of named argument should be a valid identifier") :=
  namedArg_bad_name exR namedArgBad (by decide) c0 0 [] rfl intValue rfl
    (.node .InnerValue 8 9 2 #[.node .Integer 8 9 1 #[.token .IntVal 8 9 "1"]]) rfl
    (.node .Integer 8 9 1 #[.token .IntVal 8 9 "1"]) rfl (by decide) (by decide)

/-- the named argument `x = 1` -/
def namedArgGood : PTree :=
  .node .NamedArgValue 0 5 4 #[.node .Value 0 1 3 #[.node .InnerValue 0 1 2 #[.node .Identifier 0 1 1 #[.token .Id 0 1 "x"]]],
    .token .Equal 2 3 "=", intValue]

/-- N1, converse -/
example : ∃ res c', (indexArgValue exR namedArgGood).run c0 = .ok (res, c') ∧ c' = c0 := by
  have hrun : ∃ res c', (indexArgValue exR namedArgGood).run c0 = .ok (res, c') := ⟨_, _, rfl⟩
  obtain ⟨res, c', hrun⟩ := hrun
  refine ⟨res, c', hrun, ?_⟩
  rcases namedArg_good_name exR namedArgGood (by decide) c0
      (.node .Value 0 1 3 #[.node .InnerValue 0 1 2 #[.node .Identifier 0 1 1 #[.token .Id 0 1 "x"]]]) rfl
      (.node .InnerValue 0 1 2 #[.node .Identifier 0 1 1 #[.token .Id 0 1 "x"]]) rfl
      (.node .Identifier 0 1 1 #[.token .Id 0 1 "x"]) rfl (Or.inl rfl) res c' hrun with h | ⟨value, t, hv, hr⟩
  · exact h
  · have : value = intValue := by
      have e : Ast.namedArgValueValue namedArgGood = some intValue := rfl
      rw [e] at hv; exact (Option.some.inj hv).symm
    subst this
    have e2 : (exR.value intValue).run c0 = .ok (some .int, c0) := rfl
    rw [e2] at hr
    cases hr
    rfl


/-- `: A` -/
def parentsA : PTree := .node .ParentClassList 0 3 3 #[.token .Colon 0 1 ":", classRefA]

def cRef : IndexCtx := cRec.setSM (cRec.symbolMap.addReference (.record 0) ⟨0, 0, 1⟩)

theorem resolveA_run : (resolveClassRefAsClass exR classRefA).run cRec = .ok (some 0, cRef) := by
  unfold resolveClassRefAsClass
  have e0 : Ast.classRefName classRefA = some identA := rfl
  have e1 : identOf 0 identA = some ("A", ⟨0, 0, 1⟩) := rfl
  simp only [e0, StateT.run_bind, utilsIdentifier_runOf identA cRec 0 [] rfl, e1, Except.ok_bind, withSM_run,
    findClass_A, addReference_run]
  rfl

/-- P3: `class A : A` - the hypotheses of `parent_self_inherit` are satisfiable and the diagnostic is
reported -/
example : ∃ c', (indexParentClassList exR parentsA).run cRec = .ok ((), c') ∧
    ({ location := ⟨0, 0, 1⟩, message := "a record cannot inherit from itself" } : Diagnostic)
      ∈ c'.diagnostics.toList := by
  have hrun : ∃ c', (indexParentClassList exR parentsA).run cRec = .ok ((), c') := by
    unfold indexParentClassList
    have e0 : Ast.parentClassListClasses parentsA = [classRefA] := rfl
    have e1 : cRec.scopes.currentRecordId = some 0 := rfl
    simp only [StateT.run_bind, currentRecordId_run, e1, Except.ok_bind, e0, List.forIn_cons, List.forIn_nil,
      resolveA_run]
    exact ⟨_, rfl⟩
  obtain ⟨c', hrun⟩ := hrun
  obtain ⟨c1, res, c2, c3, r1, hpre, hres, r3, hself, _⟩ :=
    parent_self_inherit exR_value exR_typ parentsA cRec c' 0 [] rfl 0 rfl [] classRefA [] rfl hrun
  refine ⟨c', hrun, ?_⟩
  have := hpre rfl
  subst this
  rw [resolveA_run] at hres
  cases hres
  exact (hself rfl).2


/-- `1.f` -/
def innerField : PTree :=
  .node .InnerValue 0 3 3 #[.node .Integer 0 1 1 #[.token .IntVal 0 1 "1"],
    .node .FieldSuffix 1 3 2 #[.token .Dot 1 2 ".", .node .Identifier 2 3 1 #[.token .Id 2 3 "f"]]]

/-- V3: an `int` has no field `f` -/
example : (indexInnerValue exR innerField).run c0 =
    .ok (none, c0.report 0 (1, 3) ("cannot access field: " ++ "f")) := by
  rw [innerValue_suffixes exR innerField (.node .Integer 0 1 1 #[.token .IntVal 0 1 "1"]) rfl c0 c0 .int rfl 0 [] rfl]
  rfl

/-- V3, converse direction on a chain without field suffix: `1` alone -/
example : (indexInnerValue exR (.node .InnerValue 0 1 2 #[.node .Integer 0 1 1 #[.token .IntVal 0 1 "1"]])).run c0 =
    .ok (some .int, c0) := by
  rw [innerValue_suffixes exR _ (.node .Integer 0 1 1 #[.token .IntVal 0 1 "1"]) rfl c0 c0 .int rfl 0 [] rfl]
  rfl

theorem resolveName_y : resolveName c0 "y" = none := by
  unfold resolveName
  have h1 : c0.scopes.findLocal c0.symbolMap "y" = none := by
    simp [c0, IndexCtx.new, Scopes.findLocal, Scope.findVariable, Scope.recordId, Scope.multiclassId]
  rw [h1]
  simp [c0, IndexCtx.new, SymMap.findDef, SymMap.findDefset]

/-- V1 -/
example : (indexIdentifierValue (.node .Identifier 0 1 1 #[.token .Id 0 1 "y"])).run c0 =
    .ok (none, c0.report 0 (0, 1) ("symbol not found: " ++ "y")) := by
  have := identifier_lookup (.node .Identifier 0 1 1 #[.token .Id 0 1 "y"]) c0 0 [] rfl "y" ⟨0, 0, 1⟩ rfl
  rw [resolveName_y] at this
  simpa using this


/-- `!add<int>(1)`: a type annotation where none is allowed -/
def addAnnotated : PTree :=
  .node .BangOperator 0 12 4 #[.token .XAdd 0 4 "!add", .token .Less 4 5 "<", intType, .token .Greater 8 9 ">",
    .token .LParen 9 10 "(", intValue, .token .RParen 11 12 ")"]

/-- B2 -/
example : (Bang.unexpectTypeAnnotation addAnnotated).run c0 =
    .ok ((), c0.report 0 (0, 3) "unexpected type annotation") := by
  rw [unexpectTypeAnnotation_contract addAnnotated c0 0 [] rfl]
  rfl

/-- B2, converse (`addNode` has no annotation) -/
example : (Bang.unexpectTypeAnnotation addNode).run c0 = .ok ((), c0) := by
  rw [unexpectTypeAnnotation_contract addNode c0 0 [] rfl]
  rfl

/-- B1 (`addNode` has no annotation) and its converse -/
example : (Bang.expectTypeAnnotation exR addNode).run c0 =
    .ok (none, c0.report 0 (0, 7) "expected type annotation") := by
  rw [expectTypeAnnotation_contract exR addNode c0 0 [] rfl]
  rfl
example : (Bang.expectTypeAnnotation exR addAnnotated).run c0 = .ok (some .int, c0) := by
  rw [expectTypeAnnotation_contract exR addAnnotated c0 0 [] rfl]
  rfl

/-- B4: the next operand is a string where a list is expected; and one that passes -/
example : (Bang.checkNext [((5, 6), some .string)] (fun _ t => t.isList) (Bang.expectedFound "list")).run c0 =
    .ok ([], c0.report 0 (5, 6) (Bang.expectedFound "list" .string)) := by
  rw [checkNext_contract _ _ _ c0 0 [] rfl]
  rfl
example : (Bang.checkNext [((5, 6), some (.list .int))] (fun _ t => t.isList) (Bang.expectedFound "list")).run c0 =
    .ok ([], c0) := by
  rw [checkNext_contract _ _ _ c0 0 [] rfl]
  rfl

/-- B3: `!add(1, "s")`-style operands `[1, "s"]` checked against `int`: the second is reported -/
example : ∃ c', (Bang.indexValuesAndCheckTypes exR [intValue, strValue] .int).run c0 = .ok ((), c') ∧
    CheckRun exR .int 0 [intValue, strValue] c0 c' ∧
    c' = c0.report 0 (8, 11) s!"expected {Ty.int}, found {Ty.string}" := by
  have hrun : ∃ c', (Bang.indexValuesAndCheckTypes exR [intValue, strValue] .int).run c0 = .ok ((), c') := ⟨_, rfl⟩
  obtain ⟨c', hrun⟩ := hrun
  refine ⟨c', hrun, indexValuesAndCheckTypes_contract exR_value _ _ c0 c' 0 [] rfl hrun, ?_⟩
  have : (Bang.indexValuesAndCheckTypes exR [intValue, strValue] .int).run c0 =
      .ok ((), c0.report 0 (8, 11) s!"expected {Ty.int}, found {Ty.string}") := rfl
  rw [this] at hrun
  cases hrun
  rfl

/-- (5a)/(5b): a statement list with one `include` (of the empty file 1), run in `incWs` -/
def stmtsInc : PTree := .node .StatementList 0 15 3 #[includeNode]

example : ∃ c', ((mkRec 3).statementList stmtsInc).run (IndexCtx.new incWs) = .ok ((), c') ∧
    c'.fileTrace = (IndexCtx.new incWs).fileTrace ∧ diagsOf 0 c' = diagsOf 0 (IndexCtx.new incWs) := by
  have hrun : ∃ c', ((mkRec 3).statementList stmtsInc).run (IndexCtx.new incWs) = .ok ((), c') := ⟨_, rfl⟩
  obtain ⟨c', hrun⟩ := hrun
  refine ⟨c', hrun, (diagnostics_attributed 3 stmtsInc _ c' hrun).1, ?_⟩
  have : ((mkRec 3).statementList stmtsInc).run (IndexCtx.new incWs) =
      .ok ((), { IndexCtx.new incWs with indexedFiles := [1, 0] }) := rfl
  rw [this] at hrun
  cases hrun
  rfl

/-- `dump 1.f;` -/
def stmtsDump : PTree :=
  .node .StatementList 0 9 6 #[.node .Dump 0 9 5 #[.token .Dump 0 4 "dump", .token .Whitespace 4 5 " ",
    .node .Value 5 8 4 #[.node .InnerValue 5 8 3 #[.node .Integer 5 6 1 #[.token .IntVal 5 6 "1"],
      .node .FieldSuffix 6 8 2 #[.token .Dot 6 7 ".", .node .Identifier 7 8 1 #[.token .Id 7 8 "f"]]]],
    .token .Semi 8 9 ";"]]

/-- while file 1 (included from file 0, which already has a diagnostic) is being indexed -/
def cIn1 : IndexCtx :=
  { ws := incWs, fileTrace := [1, 0], indexedFiles := [1, 0],
    diagnostics := #[{ location := ⟨0, 3, 4⟩, message := "earlier" }] }

/-- (5b)/(5c): the faulty statement in file 1 is reported, and the diagnostics of file 0 are untouched -/
example : ∃ c', ((mkRec 3).statementList stmtsDump).run cIn1 = .ok ((), c') ∧
    c'.diagnostics.size = 2 ∧ diagsOf 0 c' = diagsOf 0 cIn1 := by
  have hrun : ∃ c', ((mkRec 3).statementList stmtsDump).run cIn1 = .ok ((), c') := ⟨_, rfl⟩
  obtain ⟨c', hrun⟩ := hrun
  refine ⟨c', hrun, ?_, statements_leave_other_files 3 stmtsDump cIn1 c' hrun 0 (by decide) (by decide)⟩
  have : ((mkRec 3).statementList stmtsDump).run cIn1 =
      .ok ((), cIn1.report 1 (6, 8) ("cannot access field: " ++ "f")) := rfl
  rw [this] at hrun
  cases hrun
  rfl

/-- (5d): the hypothesis is satisfiable (`index` succeeds on `incWs`) -/
example : ∃ res, index incWs = .ok res ∧
    ∀ d ∈ res.diagnostics.toList, d.location.file = incWs.root ∨ IsIncludeTarget incWs d.location.file := by
  have h : ∃ res, index incWs = .ok res := ⟨_, rfl⟩
  obtain ⟨res, h⟩ := h
  exact ⟨res, h, index_diagnostics_files incWs res h⟩



/-- `[1, "s"]` -/
def listBad : PTree :=
  .node .List 0 8 5 #[.token .LSquare 0 1 "[",
    .node .ValueList 1 7 4 #[intValue, .token .Comma 2 3 ",", strValue], .token .RSquare 7 8 "]"]
/-- `[1, 1]` -/
def listGood : PTree :=
  .node .List 0 6 5 #[.token .LSquare 0 1 "[",
    .node .ValueList 1 5 4 #[intValue, .token .Comma 2 3 ",", intValue], .token .RSquare 5 6 "]"]

/-- site LL: the string fits the running type `int` in none of the three ways; the literal is reported once,
as a whole, and keeps the running type -/
example : (indexSimpleValue exR listBad).run c0 =
    .ok (some (.list .int), c0.report 0 (0, 8) "list elements of type 'int' and 'string' are incompatible") := rfl
example : (indexSimpleValue exR listGood).run c0 = .ok (some (.list .int), c0) := rfl
example (sm : SymMap) : listFold sm false none [.int, .string] = (some .int, [(.int, .string)]) ∧
    listFold sm false none [.int, .int] = (some .int, []) ∧ listFold sm false none [.bit, .int] = (some .bit, []) := ⟨rfl, rfl, rfl⟩


/-! ### a fault class that is not reported: top-level `let`

`let f = v in { … }` / `let f = v in def …` (the `Let` statement, as opposed to `let f = v;` inside a
record body) is indexed by `impl Indexable for ast::LetItem`, which only indexes the value: the name
`f` is never looked up and the type of `v` is never compared with the field it overrides.  Hence
neither an unknown field name nor a type-incompatible value in a top-level `let` produces a
diagnostic (witness program: `class A { int x = 1; } let x = "s", nosuch = 1 in { def d : A; }` -
the real TableGen rejects both items). -/

/-- everything `indexLetItem` does is the sub-call on the value node -/
theorem letItem_unchecked (r : Rec) (n : PTree) (c c' : IndexCtx) (h : (indexLetItem r n).run c = .ok ((), c')) :
    (Ast.letItemValue n = none ∧ c' = c) ∨
    ∃ value t, Ast.letItemValue n = some value ∧ (r.value value).run c = .ok (t, c') := by
  unfold indexLetItem at h
  cases hv : Ast.letItemValue n with
  | none => rw [hv] at h; cases h; exact Or.inl ⟨rfl, rfl⟩
  | some value =>
    rw [hv] at h
    simp only at h
    obtain ⟨t, c1, h1, h2⟩ := IxM.run_bind_ok h
    cases h2
    exact Or.inr ⟨value, t, rfl, h1⟩

/-- `x = "s"` as a let item: whatever `x` is, a literal value reports nothing -/
example : (indexLetItem exR (.node .LetItem 0 7 4 #[identX, .token .Equal 2 3 "=", strValue])).run c0 = .ok ((), c0) := rfl


/-! ## (6) soundness on a declaratively specified core -/

/-- the judgement of (6) before the class hierarchy was added: one of the first two checkers accepts.

Accepted: a sequence of `class C { … }` and `def d { … }` statements (named or anonymous defs)
without template parameters and without parent classes, whose bodies consist of field definitions
`T x;` / `T x = init;` where
* `T` is a primitive type: `bit`, `int`, `string`, `code`, `dag`, `bits<n>`;
* `init` is a single literal - integer, string, code, boolean, `?` - whose type can be cast to `T`
  (`coreStatementList`, `Lemmas/IdeSemDiagCore.lean`), or
* `init` is a single identifier naming a field declared earlier in the same body, or `x` itself, whose
  declared type can be cast to `T` (`coreStatementList2`, `Lemmas/IdeSemCore.lean`; the later of two
  declarations of a name counts). -/
def coreProgramB12 (sl : PTree) : Bool := coreStatementList sl || coreStatementList2 sl

/-- **(6a)** on a program of the first two checkers the indexer appends no diagnostic, in any context
with a current file -/
theorem core_statements_quiet (k : Nat) (sl : PTree) (hcore : coreProgramB12 sl = true) (c c' : IndexCtx)
    (htr : c.fileTrace ≠ [])
    (h : ((mkRec (k + 2)).statementList sl).run c = .ok ((), c')) : c'.diagnostics = c.diagnostics := by
  unfold coreProgramB12 at hcore
  rcases Bool.or_eq_true_iff.1 hcore with h1 | h2
  · exact (indexStatementList_quiet k sl h1).run _ _ _ h
  · exact indexStatementList2_quiet k sl h2 c c' htr h

/-- **the judgement of (6)**: a statement list is a *core program* if it passes one of the checkers
(all are Boolean functions of the tree, so concrete programs are checked by `decide`).

Accepted by `coreProgramB12`: see there (no parents, no `let`).

Accepted by `coreStatementList3` (`Lemmas/IdeSemCoreP.lean`), which is strictly wider on named classes:
a sequence of `class C [: P1, P2, …] { … }` and `def d [: P1, P2, …] { … }` statements (named or
anonymous defs; a class needs a name) without template parameters, where
* every parent `Pi` is written without argument list and names a class declared *earlier in the list*
  by an accepted statement (the latest declaration of the name counts; a class cannot name itself);
* the body consists of field definitions `T x;` / `T x = init;` and of `let f = init;` /
  `let f{ranges} = init;`;
* `T` is a primitive type: `bit`, `int`, `string`, `code`, `dag`, `bits<n>`;
* the fields in scope are those of the parents (an earlier parent shadows a later one, as in
  `Record::find_field`) and those declared earlier in the body, `x` itself included; a field of the
  body shadows an inherited one;
* `f` is a field in scope;
* `init` is a single literal - integer, string, code, boolean, `?` - or a single identifier naming a
  field in scope, whose type can be cast to the declared type of the field; for a `let` with a range
  list, to the type of the selected bits (`bit` for one bit, `bits<w>` otherwise).

Accepted by `coreStatementList4` (`Lemmas/IdeSemCoreT.lean`), which is wider again: the same with template
parameters and positional template arguments,
* a class may have a parameter list `<T1 p1 [= d1], T2 p2 [= d2], …>`: the `Ti` primitive, the names
  distinct, every default `di` a literal or the name of `pi` or of an earlier parameter, castable to `Ti`;
* the identifiers in scope in the parent list and the body of a class are the fields in scope and, behind
  them, its parameters; `init` (of a field definition or a `let`) may name either;
* a parent `P<a1, …, an>` (or `P`, `n = 0`) names a class declared earlier with at least `n` parameters:
  every `ai` is a positional argument - a literal or an identifier in scope (the fields inherited from the
  parents to its left, and the parameters) - whose type can be cast to the type of the `i`-th parameter,
  and the parameters after the `n`-th have defaults.

Accepted by `coreStatementList5` (`Lemmas/Sem10Core5.lean`), wider again: the same with `defvar`,
* `defvar x = v;` may stand at top level and among the items of a class / def body; `v` is a single literal or
  a single identifier in scope, and `x` gets its type (the type of the literal, or the declared type of the
  field / parameter / variable named);
* the identifiers in scope - for initialisers, `let` values, `defvar` values, positional template arguments -
  are, in this order: the `defvar`s of the body so far (the latest of a name first), the fields in scope, the
  parameters of the class, the top-level `defvar`s so far (the latest of a name first); at top level only the
  top-level `defvar`s; defaults of template parameters may not name a `defvar`;
* a `def` statement must have its record body node (`def d;` and `def d { … }` have one; a `def` node that the
  parser left without one would leave its scope on the stack, and the variables of the root scope could no
  longer be told from those of that scope).

Accepted by `coreStatementList6` (`Lemmas/Sem10Core5.lean`), wider again: the same with lists,
* the type of a field may also be `list<T>` with `T` primitive;
* `init` of a field definition or a `let` may also be a list literal `[v1, …, vn]`, `n ≥ 1`, without type
  annotation, whose elements are single literals of one and the same literal type `L` (integers; strings; …),
  provided `list<L>` can be cast to the declared type (`list<int>` to `list<bit>` / `list<bits<n>>` / `list<int>`, …);
* fields of list type may be named as initialisers and `defvar` values like the others (a `list<A>` value is
  castable to a `list<B>` field iff `A` is castable to `B`).

Accepted by `coreStatementList7` (`Lemmas/Sem11Core7.lean`), wider again: the same with fields of class type,
* the type of a field may also be the name `A` of a class declared earlier in the list by an accepted statement
  (the latest declaration of the name counts; inside the body of `A` itself the name does not count); the checker
  knows the record id of every class - the `i`-th `class` / `def` statement allocates record `i` - and the static
  type of the field is `A` with that id;
* such a field may be left without initialiser, or be initialised by `?` or by the name of a field in scope of
  the same class type (same record id).

Accepted by `coreStatementList8` (`Lemmas/Sem12Checker8.lean`), wider again: the same with names of defs as values,
* `init` of a field definition or a `let` may also be the name `D` (a single identifier, no suffixes) of a `def`
  declared earlier in the list by an accepted statement under a plain identifier name (the latest def of the name
  counts), provided that no variable, field or template parameter in scope and no top-level `defvar` has the name
  `D`, that the (declared) type of the field is a class `C` (as in the seventh checker), and that `C` is a parent
  of `D` or an ancestor of a parent: the checker files, for every record, the parents named in its parent list,
  each followed by the ancestors filed for it (`St8.anc`); `D` itself is filed when its body is entered, its
  ancestors when its statement is finished (so `D` is not a value inside its own body);
* in this checker every parent must be a class whose record id the checker knows (as for field types), and a
  `def` must either have no name at all (an anonymous record, which is not filed) or a plain identifier as its
  name; defs named by a string or by a computed value are outside this checker (the earlier ones take them).

Rejected (not covered): named template arguments, class values and every other value form as initialiser,
argument or `defvar` value (the empty list `[]`, annotated lists `[…]<T>`, lists of identifiers or of literals
of different types, nested lists included), identifiers naming anything but a variable, field or parameter in
scope or - for a field of class type - a def as above; in particular the name of a def whose ancestors do not
include the class of the field (`GPR g = R0;` with `def R0 : Reg`), the name of a def as a `defvar` value, as a
template argument or as an element of a list, the name of a def for a field of a non-class type, and fields of a
subclass type as initialisers of a field of the superclass type -, `list<list<…>>`, `list<C>`, template parameters of list or class type,
`defvar` in `foreach` / `if` / `multiclass` bodies, `foreach`, `if`, `defset`, `multiclass`/`defm`, bang
operators, `include`, top-level `let`. -/
def coreProgramB (sl : PTree) : Bool :=
  coreProgramB12 sl || coreStatementList3 sl || coreStatementList4 sl || coreStatementList5 sl || coreStatementList6 sl ||
    coreStatementList7 sl || coreStatementList8 sl

/-- the judgement of (6) before names of defs as values were added -/
def coreProgramB7 (sl : PTree) : Bool :=
  coreProgramB12 sl || coreStatementList3 sl || coreStatementList4 sl || coreStatementList5 sl || coreStatementList6 sl ||
    coreStatementList7 sl

/-- the judgement of (6) before fields of class type were added -/
def coreProgramB6 (sl : PTree) : Bool :=
  coreProgramB12 sl || coreStatementList3 sl || coreStatementList4 sl || coreStatementList5 sl || coreStatementList6 sl

/-- the judgement of (6) before lists were added -/
def coreProgramB5 (sl : PTree) : Bool :=
  coreProgramB12 sl || coreStatementList3 sl || coreStatementList4 sl || coreStatementList5 sl

/-- the judgement of (6) before `defvar` was added -/
def coreProgramB34 (sl : PTree) : Bool := coreProgramB12 sl || coreStatementList3 sl || coreStatementList4 sl

/-- **(6a')** on a program of the first four checkers the indexer appends no diagnostic, from a context with a
current file and an empty symbol map (the third checker follows the class table from its beginning) -/
theorem core_statements_quiet' (k : Nat) (sl : PTree) (hcore : coreProgramB34 sl = true) (c c' : IndexCtx)
    (hsm : c.symbolMap = {}) (htr : c.fileTrace ≠ [])
    (h : ((mkRec (k + 2)).statementList sl).run c = .ok ((), c')) : c'.diagnostics = c.diagnostics := by
  unfold coreProgramB34 at hcore
  rcases Bool.or_eq_true_iff.1 hcore with h12 | h4
  · rcases Bool.or_eq_true_iff.1 h12 with h1 | h3
    · exact core_statements_quiet k sl h1 c c' htr h
    · exact indexStatementList3_quiet k sl h3 c c' hsm htr h
  · exact indexStatementList4_quiet k sl h4 c c' hsm htr h

/-- **(6a'')** on a core program the indexer appends no diagnostic, from a context with a current file, an empty
symbol map and the initial scope stack (the fifth checker follows the variables of the root scope) -/
theorem core_statements_quiet5 (k : Nat) (sl : PTree) (hcore : coreProgramB5 sl = true) (c c' : IndexCtx)
    (hsm : c.symbolMap = {}) (hsc : c.scopes = {}) (htr : c.fileTrace ≠ [])
    (h : ((mkRec (k + 2)).statementList sl).run c = .ok ((), c')) : c'.diagnostics = c.diagnostics := by
  unfold coreProgramB5 at hcore
  rcases Bool.or_eq_true_iff.1 hcore with h34 | h5
  · exact core_statements_quiet' k sl h34 c c' hsm htr h
  · exact indexStatementList5_quiet k sl h5 c c' hsm hsc htr h

/-- **(6a''')** the same for the whole judgement, with one more level of fuel (the sixth checker indexes the
elements of list literals one level deeper) -/
theorem core_statements_quiet6 (k : Nat) (sl : PTree) (hcore : coreProgramB6 sl = true) (c c' : IndexCtx)
    (hsm : c.symbolMap = {}) (hsc : c.scopes = {}) (htr : c.fileTrace ≠ [])
    (h : ((mkRec (k + 3)).statementList sl).run c = .ok ((), c')) : c'.diagnostics = c.diagnostics := by
  unfold coreProgramB6 at hcore
  rcases Bool.or_eq_true_iff.1 hcore with h5 | h6
  · exact core_statements_quiet5 (k + 1) sl h5 c c' hsm hsc htr h
  · exact indexStatementList6_quiet k sl h6 c c' hsm hsc htr h

/-- **(6a'''')** the same with fields of class type -/
theorem core_statements_quiet7 (k : Nat) (sl : PTree) (hcore : coreProgramB7 sl = true) (c c' : IndexCtx)
    (hsm : c.symbolMap = {}) (hsc : c.scopes = {}) (htr : c.fileTrace ≠ [])
    (h : ((mkRec (k + 3)).statementList sl).run c = .ok ((), c')) : c'.diagnostics = c.diagnostics := by
  unfold coreProgramB7 at hcore
  rcases Bool.or_eq_true_iff.1 hcore with h6 | h7
  · exact core_statements_quiet6 k sl h6 c c' hsm hsc htr h
  · exact indexStatementList7_quiet k sl h7 c c' hsm hsc htr h

/-- **(6a''''')** the same for the whole judgement -/
theorem core_statements_quiet8 (k : Nat) (sl : PTree) (hcore : coreProgramB sl = true) (c c' : IndexCtx)
    (hsm : c.symbolMap = {}) (hsc : c.scopes = {}) (htr : c.fileTrace ≠ [])
    (h : ((mkRec (k + 3)).statementList sl).run c = .ok ((), c')) : c'.diagnostics = c.diagnostics := by
  unfold coreProgramB at hcore
  rcases Bool.or_eq_true_iff.1 hcore with h7 | h8
  · exact core_statements_quiet7 k sl h7 c c' hsm hsc htr h
  · exact indexStatementList8_quiet k sl h8 c c' hsm hsc htr h

/-- **(6b) `core_no_diagnostics_partial`**: a workspace whose root file is a core program
(`coreProgramB`, see there for exactly what is accepted) and has no other statements - in particular
no `include` - is indexed without any diagnostic -/
theorem core_no_diagnostics_partial (ws : Workspace) (res : IndexResult) (h : index ws = .ok res)
    (sf sl : PTree) (hsf : Ast.sourceFileCast (ws.tree ws.root) = some sf)
    (hsl : Ast.sourceFileStatementList sf = some sl) (hcore : coreProgramB sl = true) :
    res.diagnostics = #[] := by
  unfold index at h
  rw [hsf] at h
  simp only at h
  obtain ⟨j, hj⟩ : ∃ j, ws.depthBound = j + 3 := ⟨ws.depthBound - 3, by have := depthBound_ge ws; omega⟩
  rw [hj] at h
  split at h
  · cases h
  · rename_i u ctx hrun
    cases h
    have hrun' : ((mkRec (j + 1 + 2)).statementList sl).run (IndexCtx.new ws) = .ok (u, ctx) := by
      have : indexSourceFile (mkRec (j + 3)) sf = (mkRec (j + 3)).statementList sl := by
        unfold indexSourceFile
        rw [hsl]
      rw [this] at hrun
      exact hrun
    exact core_statements_quiet8 j sl hcore _ _ rfl rfl (by simp [IndexCtx.new]) hrun'

/-- the judgement on the root file of a workspace -/
def coreWorkspaceB (ws : Workspace) : Bool :=
  match Ast.sourceFileCast (ws.tree ws.root) with
  | some sf =>
    match Ast.sourceFileStatementList sf with
    | some sl => coreProgramB sl
    | none => false
  | none => false

theorem core_workspace_no_diagnostics (ws : Workspace) (res : IndexResult) (h : index ws = .ok res)
    (hcore : coreWorkspaceB ws = true) : res.diagnostics = #[] := by
  unfold coreWorkspaceB at hcore
  split at hcore
  · rename_i sf hsf
    split at hcore
    · rename_i sl hsl
      exact core_no_diagnostics_partial ws res h sf sl hsf hsl hcore
    · cases hcore
  · cases hcore


/-- `class A { int x = 1; string s; }` / `def d { bit b = ?; }` (positions are schematic) -/
def coreProgram : PTree :=
  .node .SourceFile 0 60 8 #[.node .StatementList 0 60 7 #[
    .node .Class 0 36 6 #[.token .ClassKw 0 5 "class",
      .node .Identifier 6 8 1 #[.token .Id 6 7 "A"],
      .node .RecordBody 8 36 5 #[.node .ParentClassList 8 8 1 #[],
        .node .Body 8 36 4 #[.token .LBrace 8 9 "{",
          .node .FieldDef 10 20 3 #[.node .IntType 10 13 1 #[.token .Int 10 13 "int"],
            .node .Identifier 14 15 1 #[.token .Id 14 15 "x"], .token .Equal 16 17 "=",
            .node .Value 18 19 3 #[.node .InnerValue 18 19 2 #[.node .Integer 18 19 1 #[.token .IntVal 18 19 "1"]]],
            .token .Semi 19 20 ";"],
          .node .FieldDef 21 30 3 #[.node .StringType 21 27 1 #[.token .String 21 27 "string"],
            .node .Identifier 28 29 1 #[.token .Id 28 29 "s"], .token .Semi 29 30 ";"],
          .token .RBrace 35 36 "}"]]],
    .node .Def 37 60 6 #[.token .DefKw 37 40 "def",
      .node .Value 41 42 3 #[.node .InnerValue 41 42 2 #[.node .Identifier 41 42 1 #[.token .Id 41 42 "d"]]],
      .node .RecordBody 43 60 5 #[.node .ParentClassList 43 43 1 #[],
        .node .Body 43 60 4 #[.token .LBrace 43 44 "{",
          .node .FieldDef 45 55 3 #[.node .BitType 45 48 1 #[.token .Bit 45 48 "bit"],
            .node .Identifier 49 50 1 #[.token .Id 49 50 "b"], .token .Equal 51 52 "=",
            .node .Value 53 54 3 #[.node .InnerValue 53 54 2 #[.node .Uninitialized 53 54 1 #[.token .Question 53 54 "?"]]],
            .token .Semi 54 55 ";"],
          .token .RBrace 59 60 "}"]]]]]

def coreWs : Workspace :=
  { files := #[{ path := "a.td", tree := coreProgram, errors := [] }], root := 0, fileSet := [0] }

def indexSummary (ws : Workspace) : Option (Nat × Nat × Nat) :=
  match index ws with
  | .ok r => some (r.diagnostics.size, r.symbolMap.recordList.size, r.symbolMap.recordFieldList.size)
  | .error _ => none

/-- the judgement holds of `coreProgram` (checked by evaluation) and the index run succeeds (it
declares 2 records and 3 fields): the hypotheses of `core_no_diagnostics_partial` are satisfiable -/
example : ∃ res, index coreWs = .ok res ∧ res.diagnostics = #[] ∧ res.symbolMap.recordList.size = 2 ∧
    res.symbolMap.recordFieldList.size = 3 := by
  have hs : indexSummary coreWs = some (0, 2, 3) := by decide +kernel
  unfold indexSummary at hs
  cases h : index coreWs with
  | error e => rw [h] at hs; cases hs
  | ok res =>
    rw [h] at hs
    simp only [Option.some.injEq, Prod.mk.injEq] at hs
    refine ⟨res, rfl, ?_, hs.2.1, hs.2.2⟩
    exact core_no_diagnostics_partial coreWs res h coreProgram
      (match Ast.sourceFileStatementList coreProgram with | some sl => sl | none => coreProgram)
      rfl rfl (by decide +kernel)


/-! ### bit ranges: `utils::range_list_width`, `utils::bits_typ` -/

def intNode (s e : Nat) (text : String) : PTree := .node .Integer s e 1 #[.token .IntVal s e text]

/-- `{3-0}` (the lexer reads `-0` as one negative literal) -/
def range_3_0 : PTree :=
  .node .RangeList 0 5 3 #[.token .LBrace 0 1 "{",
    .node .RangePiece 1 4 2 #[intNode 1 2 "3", intNode 2 4 "-0"], .token .RBrace 4 5 "}"]

/-- `{7, 3...0}` -/
def range_7_3_0 : PTree :=
  .node .RangeList 0 11 3 #[.token .LBrace 0 1 "{",
    .node .RangePiece 1 2 2 #[intNode 1 2 "7"], .token .Comma 2 3 ",", .token .Whitespace 3 4 " ",
    .node .RangePiece 4 10 2 #[intNode 4 5 "3", .token .DotDotDot 5 8 "...", intNode 8 9 "0"],
    .token .RBrace 10 11 "}"]

/-- `{15-4}` -/
def range_15_4 : PTree :=
  .node .RangeList 0 6 3 #[.token .LBrace 0 1 "{",
    .node .RangePiece 1 5 2 #[intNode 1 3 "15", intNode 3 5 "-4"], .token .RBrace 5 6 "}"]

/-- the number of bits a range list selects -/
theorem rangeListWidth_examples :
    rangeListWidth range_3_0 = some 4 ∧ rangeListWidth range_7_3_0 = some 5 ∧ rangeListWidth range_15_4 = some 12 := by
  decide +kernel

/-- one selected bit is a `bit`, several are `bits<w>` -/
theorem bitsTyp_one : bitsTyp 1 = .bit := rfl
theorem bitsTyp_many (w : Nat) (h : w ≠ 1) : bitsTyp w = .bits w := by
  unfold bitsTyp
  simp [h]

example : rangeTyp (some range_3_0) = .bits 4 := by
  unfold rangeTyp
  rw [show (some range_3_0).bind rangeListWidth = some 4 from rangeListWidth_examples.1]
  rfl
example : rangeTyp none = .unknown := rfl


/-- `{0}` -/
def range_0 : PTree :=
  .node .RangeList 5 8 3 #[.token .LBrace 5 6 "{",
    .node .RangePiece 6 7 2 #[.node .Integer 6 7 1 #[.token .IntVal 6 7 "0"]], .token .RBrace 7 8 "}"]

/-- `let x{0} = "s";` -/
def fieldLetBit : PTree :=
  .node .FieldLet 0 15 4 #[.token .LetKw 0 3 "let", .token .Whitespace 3 4 " ", identX, range_0, .token .Equal 9 10 "=",
    strValue, .token .Semi 14 15 ";"]

theorem rangeTyp_0 : rangeTyp (some range_0) = .bit := by
  unfold rangeTyp
  rw [show (some range_0).bind rangeListWidth = some 1 by decide +kernel]
  rfl

/-- L2 with a bit range: the value is compared with the selected bits (`bit`), not with the field's
type (`int`) -/
example : (indexFieldLet exR fieldLetBit).run cF = .ok ((), cL.report 0 (8, 11)
    s!"field '{"x"}' of type '{Ty.bit}' is incompatible with type '{Ty.string}'") := by
  rw [fieldLet_value exR_value fieldLetBit cF 0 [] rfl identX rfl "x" ⟨0, 4, 5⟩ rfl 0 rfl 0 field_x .int rfl
    .bit (by rw [show Ast.fieldLetRangeList fieldLetBit = some range_0 from rfl]; exact rangeTyp_0.symm)
    cF cF_own.symm strValue rfl .string cL rfl]
  rfl

/-- `{1, 0}{0}`: a two-bit value of which bit 0 is selected -/
def innerBits : PTree :=
  .node .InnerValue 0 9 5 #[
    .node .Bits 0 6 4 #[.token .LBrace 0 1 "{",
      .node .ValueList 1 5 3 #[intValue, .token .Comma 2 3 ",", intValue], .token .RBrace 5 6 "}"],
    .node .RangeSuffix 6 9 4 #[range_0]]

/-- V3, range suffix: `bits<2>` continues as `rangeTyp {0}` = `bit` -/
example : (indexInnerValue exR innerBits).run c0 = .ok (some .bit, c0) := by
  rw [innerValue_suffixes exR innerBits
    (.node .Bits 0 6 4 #[.token .LBrace 0 1 "{",
      .node .ValueList 1 5 3 #[intValue, .token .Comma 2 3 ",", intValue], .token .RBrace 5 6 "}"]) rfl c0 c0 (.bits 2) rfl 0 [] rfl]
  show Except.ok (suffixWalk 0 (.bits 2) [.node .RangeSuffix 6 9 4 #[range_0]] c0) = _
  unfold suffixWalk suffixStep
  simp only [show (PTree.node SyntaxKind.RangeSuffix 6 9 4 #[range_0]).kind = .RangeSuffix from rfl,
    show Ast.rangeSuffixRangeList (.node .RangeSuffix 6 9 4 #[range_0]) = some range_0 from rfl, rangeTyp_0]
  rfl

/-- inside `defm … : A, A` where `A` is a class (record 0) and there is no multiclass -/
def cDefm : IndexCtx :=
  { c0 with symbolMap := ((SymMap.addRecord {} { name := "A", kind := .cls, defineLoc := ⟨0, 0, 0⟩ } false).2.addDefm
              { name := "d", defineLoc := ⟨0, 0, 0⟩ } false).2,
            scopes := ({} : Scopes).push (.defm 0) }

def identA2 : PTree := .node .Identifier 3 4 1 #[.token .Id 3 4 "A"]
def classRefA2 : PTree := .node .ClassRef 3 4 2 #[identA2]
/-- `: A, A` -/
def parentsAA : PTree :=
  .node .ParentClassList 0 6 3 #[.token .Colon 0 1 ":", classRefA, .token .Comma 1 2 ",", classRefA2]
/-- after the first parent has been reported -/
def cD1 : IndexCtx := cDefm.report 0 (0, 1) ("multiclass not found: " ++ "A")

theorem cDefm_noMulticlass (sm : SymMap) (h : sm.nameToMulticlass = cDefm.symbolMap.nameToMulticlass) :
    sm.findMulticlass "A" = none := by
  unfold SymMap.findMulticlass
  rw [h]
  simp [cDefm, c0, IndexCtx.new, SymMap.addRecord, SymMap.addDefm, SymMap.logDefine]

/-- P2′: the first `A` is looked up as a multiclass (not found, reported); the second `A` names a class
only, so it is resolved as a class - the hypotheses of `defm_later_parent` are satisfiable and its
first alternative is the one that holds -/
example : ∃ c', (indexParentClassList exR parentsAA).run cDefm = .ok ((), c') ∧
    ({ location := ⟨0, 0, 1⟩, message := "multiclass not found: " ++ "A" } : Diagnostic) ∈ c'.diagnostics.toList ∧
    c'.diagnostics.size = 1 := by
  have hfirst : (defmMulticlassParent exR 0 classRefA).run cDefm =
      .ok ((), cD1) := by
    unfold defmMulticlassParent
    have := classRef_multiclass_lookup exR_value exR_typ classRefA cDefm 0 [] rfl identA rfl "A" ⟨0, 0, 1⟩ rfl
    rw [cDefm_noMulticlass _ rfl] at this
    simp only [StateT.run_bind, this, Except.ok_bind]
    rfl
  have hcls : cD1.symbolMap.findClass "A" = some 0 := by
    simp [cD1, IndexCtx.report, cDefm, c0, IndexCtx.new, SymMap.findClass, SymMap.addRecord, SymMap.addDefm, SymMap.logDefine]
  have hsecond : ∃ c2, (resolveClassRefAsClass exR classRefA2).run
      cD1 = .ok (some 0, c2) ∧
      c2.diagnostics = cD1.diagnostics := by
    unfold resolveClassRefAsClass
    have e0 : Ast.classRefName classRefA2 =
        some identA2 := rfl
    have e1 : identOf 0 identA2 = some ("A", ⟨0, 3, 4⟩) := rfl
    simp only [e0, StateT.run_bind, utilsIdentifier_runOf identA2 cD1 0 [] rfl, e1, Except.ok_bind, withSM_run, hcls,
      addReference_run]
    exact ⟨_, rfl, rfl⟩
  obtain ⟨c2, hsecond, hd2⟩ := hsecond
  have hrun : (indexParentClassList exR parentsAA).run cDefm = .ok ((), c2) := by
    unfold indexParentClassList
    have e0 : Ast.parentClassListClasses parentsAA =
        [classRefA, classRefA2] := rfl
    have e1 : cDefm.scopes.currentRecordId = none := rfl
    have e2 : cDefm.scopes.currentMulticlassId = none := rfl
    have e3 : cDefm.scopes.currentDefmId = some 0 := rfl
    have hn := namesClassOnly_run classRefA2
      cD1 0 [] rfl
    have e4 : Ast.classRefName classRefA2 =
        some identA2 := rfl
    have e5 : identOf 0 identA2 = some ("A", ⟨0, 3, 4⟩) := rfl
    rw [e4] at hn
    have hmc : cD1.symbolMap.findMulticlass "A" = none := cDefm_noMulticlass _ rfl
    simp only [e5, hcls, hmc, Option.isNone_none, Option.isSome_some, Bool.and_self] at hn
    simp only [StateT.run_bind, currentRecordId_run, e1, Except.ok_bind, currentMulticlassId_run, e2,
      currentDefmId_run, e3, e0, hfirst, List.forIn_cons, List.forIn_nil, hn, if_true, hsecond]
    rfl
  refine ⟨c2, hrun, ?_, ?_⟩
  · have : c2.diagnostics.toList = cD1.diagnostics.toList := by
      rw [hd2]
    rw [this]
    exact report_mem cDefm 0 (0, 1) _
  · rw [hd2]; rfl

/-- … and `defm_later_parent` applies to that run (second parent, `pre = []`) -/
example (c' : IndexCtx) (hrun : (indexParentClassList exR parentsAA).run cDefm = .ok ((), c')) :
    ∃ c0' c1 c2, (defmMulticlassParent exR 0 classRefA).run cDefm = .ok ((), c0') ∧ AttrRel c0' c1 ∧ AttrRel c2 c' :=
  let ⟨c0', c1, c2, h0, h1, _, h3, _⟩ := defm_later_parent exR_value exR_typ parentsAA cDefm c' 0 [] rfl rfl rfl 0 rfl
    classRefA [] classRefA2 [] rfl hrun
  ⟨c0', c1, c2, h0, h1, h3⟩



/-- a four-statement program of the second core: literals of several kinds, uses of earlier fields
(`width`, `raw`, `idx`), a `bits<4>` field, an anonymous def.  (The three programs below are kept short:
their judgements are evaluated by the kernel through `buildWorkspace`, parser included.) -/
def coreSource : String :=
  "class Reg { int width = 32; int bytes = width; string name = \"r\"; bit live = ?; }\n" ++
  "class Flags { bits<4> mask; int raw = 0; int copy = raw; code init = [{ }]; }\n" ++
  "def r0 { int idx = 0; int next = idx; }\n" ++
  "def { int anon = 7; }\n"

/-- the source is built by `buildWorkspace`, the judgement accepts its root file, and `extra` holds of the
root statement list (a Boolean, evaluated by the kernel for the three programs) -/
def checkedSrc (src : String) (extra : PTree → Bool) : Bool :=
  match buildWorkspace [("/w/core.td", src)] "/w/core.td" none with
  | .ok ws =>
    coreWorkspaceB ws &&
    match (Ast.sourceFileCast (ws.tree ws.root)).bind Ast.sourceFileStatementList with
    | some sl => extra sl
    | none => false
  | .error _ => false

/-- from a checked source to the end-to-end statement: the workspace is built, its index run succeeds
(C03) and - by `core_workspace_no_diagnostics` - reports nothing -/
theorem checked_no_diagnostics (src : String) (extra : PTree → Bool) (hk : checkedSrc src extra = true) :
    ∃ ws res, buildWorkspace [("/w/core.td", src)] "/w/core.td" none = .ok ws ∧
      coreWorkspaceB ws = true ∧ index ws = .ok res ∧ res.diagnostics = #[] := by
  unfold checkedSrc at hk
  cases hb : buildWorkspace [("/w/core.td", src)] "/w/core.td" none with
  | error e => rw [hb] at hk; cases hk
  | ok ws =>
    rw [hb] at hk
    have hk1 : coreWorkspaceB ws = true := (Bool.and_eq_true_iff.1 hk).1
    obtain ⟨res, hres⟩ := Tg.C03.index_never_panics _ _ _ ws hb
    exact ⟨ws, res, rfl, hk1, hres, core_workspace_no_diagnostics ws res hres hk1⟩

/-- the program is accepted by the judgement - by the second checker, not by the first (it has identifier
initialisers) -/
theorem coreSource_checked :
    checkedSrc coreSource (fun sl => coreStatementList2 sl && !coreStatementList sl) = true := by decide +kernel

example : ∃ ws res, buildWorkspace [("/w/core.td", coreSource)] "/w/core.td" none = .ok ws ∧
    coreWorkspaceB ws = true ∧ index ws = .ok res ∧ res.diagnostics = #[] :=
  checked_no_diagnostics _ _ coreSource_checked

/-- a six-statement program in the style of an LLVM target description: a register and an instruction
hierarchy (parents without arguments, two parents, a three-level chain), `let` on inherited fields with
and without bit ranges, uses of inherited fields as initialisers -/
def core3Source : String :=
  "class Reg { string Namespace = \"\"; bits<16> Enc = 0; int Size = 32; }\n" ++
  "class GPR : Reg { let Namespace = \"RV\"; int Width = Size; let Enc{15-5} = 0; }\n" ++
  "class Inst { bits<32> Bits; bit isBranch = 0; }\n" ++
  "class Sched { int Latency = 1; }\n" ++
  "def X1 : GPR { let Enc{4-0} = 1; int Alias = Width; }\n" ++
  "def BEQ : Inst, Sched { let isBranch = 1; let Bits{6-0} = 99; let Latency = 2; int Cost = Latency; }\n"

/-- the program is built by `buildWorkspace` and accepted by the judgement - by the third checker
only (checked by evaluation) -/
theorem core3Source_checked :
    checkedSrc core3Source (fun sl => coreStatementList3 sl && !coreProgramB12 sl) = true := by decide +kernel

/-- its index run succeeds (C03) and - by `core_workspace_no_diagnostics` - reports nothing -/
example : ∃ ws res, buildWorkspace [("/w/core.td", core3Source)] "/w/core.td" none = .ok ws ∧
    coreWorkspaceB ws = true ∧ index ws = .ok res ∧ res.diagnostics = #[] :=
  checked_no_diagnostics _ _ core3Source_checked

/-- the same kind of program with template parameters: defaults, parameters passed on to the parent,
literal arguments, parameters and inherited fields as initialisers, bit ranges set from a parameter -/
def core4Source : String :=
  "class Reg<string n, bits<16> enc = 0> { string AsmName = n; bits<16> Enc = enc; int Size = 32; }\n" ++
  "class GPR<string n, bits<16> enc> : Reg<n, enc> { let Size = 64; int Width = Size; }\n" ++
  "class Inst<string asm, bits<7> opc, int sz = 4> { string Asm = asm; bits<32> Bits; let Bits{6-0} = opc; int Size = sz; }\n" ++
  "class Br<string asm> : Inst<asm, 99> { bit isBranch = 1; }\n" ++
  "def X0 : GPR<\"x0\", 0>;\n" ++
  "def BEQ : Br<\"beq\"> { let Size = 4; }\n"

/-- the program is built by `buildWorkspace` and accepted by the judgement - by the fourth checker
only (checked by evaluation) -/
theorem core4Source_checked :
    checkedSrc core4Source (fun sl => coreStatementList4 sl && !coreStatementList3 sl && !coreProgramB12 sl) = true := by
  decide +kernel

/-- its index run succeeds (C03) and - by `core_workspace_no_diagnostics` - reports nothing -/
example : ∃ ws res, buildWorkspace [("/w/core.td", core4Source)] "/w/core.td" none = .ok ws ∧
    coreWorkspaceB ws = true ∧ index ws = .ok res ∧ res.diagnostics = #[] :=
  checked_no_diagnostics _ _ core4Source_checked

/-- the same kind of program with `defvar`: top-level variables used in class bodies, body variables, a variable
that copies an inherited field, a `let` from a top-level variable -/
def core5Source : String :=
  "defvar XLen = 32;\n" ++
  "class Reg<string n, bits<16> enc = 0> { defvar w = XLen; string AsmName = n; bits<16> Enc = enc; int Size = w; }\n" ++
  "defvar Prefix = \"x\";\n" ++
  "class GPR<string n> : Reg<n> { defvar bytes = 8; let Size = XLen; int Width = bytes; string Alt = Prefix; }\n" ++
  "def X0 : GPR<\"x0\"> { defvar idx = 0; int Index = idx; defvar alias = AsmName; string Alias = alias; }\n"

/-- the program is built by `buildWorkspace` and accepted by the judgement - by the fifth checker only (checked
by evaluation) -/
theorem core5Source_checked :
    checkedSrc core5Source (fun sl => coreStatementList5 sl && !coreProgramB34 sl) = true := by decide +kernel

/-- its index run succeeds (C03) and - by `core_workspace_no_diagnostics` - reports nothing -/
example : ∃ ws res, buildWorkspace [("/w/core.td", core5Source)] "/w/core.td" none = .ok ws ∧
    coreWorkspaceB ws = true ∧ index ws = .ok res ∧ res.diagnostics = #[] :=
  checked_no_diagnostics _ _ core5Source_checked

/-- the same kind of program with lists: `list<string>` / `list<int>` / `list<bit>` fields, list literals as
initialisers and `let` values, a list field as initialiser -/
def core6Source : String :=
  "defvar XLen = 32;\n" ++
  "class Reg<string n> { string AsmName = n; list<string> AltNames = [\"a\", \"b\"]; list<int> CostPerUse = [0]; int Size = XLen; }\n" ++
  "class GPR<string n> : Reg<n> { let CostPerUse = [1, 2, 3]; list<int> Copy = CostPerUse; list<bit> Flags; }\n" ++
  "def X0 : GPR<\"x0\"> { let AltNames = [\"zero\"]; let Flags = [0, 1]; }\n"

/-- the program is built by `buildWorkspace` and accepted by the judgement - by the sixth checker only (checked
by evaluation) -/
theorem core6Source_checked :
    checkedSrc core6Source (fun sl => coreStatementList6 sl && !coreProgramB5 sl) = true := by decide +kernel

/-- its index run succeeds (C03) and - by `core_workspace_no_diagnostics` - reports nothing -/
example : ∃ ws res, buildWorkspace [("/w/core.td", core6Source)] "/w/core.td" none = .ok ws ∧
    coreWorkspaceB ws = true ∧ index ws = .ok res ∧ res.diagnostics = #[] :=
  checked_no_diagnostics _ _ core6Source_checked

/-- fields of class type in the shape of a register / instruction description: a field of the type of an earlier
class, one of a subclass, a copy of a field of the same class type, `?` as initialiser; a def with such a field -/
def core7Source : String :=
  "class Reg { string Name = \"r\"; }\n" ++
  "class GPR : Reg { int Bits = 64; }\n" ++
  "class Inst { Reg Base; GPR Dst = ?; Reg Src = Base; list<int> Ops = [1, 2]; }\n" ++
  "def ADD : Inst { GPR Tmp; Reg Alias = Src; }\n"

/-- the program is built by `buildWorkspace` and accepted by the judgement - by the seventh checker only (checked
by evaluation) -/
theorem core7Source_checked :
    checkedSrc core7Source (fun sl => coreStatementList7 sl && !coreProgramB6 sl) = true := by decide +kernel

/-- its index run succeeds (C03) and - by `core_workspace_no_diagnostics` - reports nothing -/
example : ∃ ws res, buildWorkspace [("/w/core.td", core7Source)] "/w/core.td" none = .ok ws ∧
    coreWorkspaceB ws = true ∧ index ws = .ok res ∧ res.diagnostics = #[] :=
  checked_no_diagnostics _ _ core7Source_checked

/-- registers as values: defs of a subclass as values of fields of the class and of the superclass, in a field
definition and in a `let` -/
def core8Source : String :=
  "class Reg;\n" ++
  "class GPR : Reg;\n" ++
  "def R0 : GPR;\n" ++
  "def R1 : GPR;\n" ++
  "class Inst { Reg r = R0; GPR g = R1; }\n" ++
  "def ADD : Inst { let r = R1; }\n"

/-- the program is built by `buildWorkspace` and accepted by the judgement - by the eighth checker only (checked
by evaluation) -/
theorem core8Source_checked :
    checkedSrc core8Source (fun sl => coreStatementList8 sl && !coreProgramB7 sl) = true := by decide +kernel

/-- its index run succeeds (C03) and - by `core_workspace_no_diagnostics` - reports nothing -/
example : ∃ ws res, buildWorkspace [("/w/core.td", core8Source)] "/w/core.td" none = .ok ws ∧
    coreWorkspaceB ws = true ∧ index ws = .ok res ∧ res.diagnostics = #[] :=
  checked_no_diagnostics _ _ core8Source_checked

/-- a def of the superclass only as the value of a field of the subclass type (the cast fails), a def used before
its declaration and a def as the value of a field of a primitive type are rejected by the judgement -/
example : (match buildWorkspace [("/w/bad.td", "class Reg;\nclass GPR : Reg;\ndef R0 : Reg;\nclass Inst { GPR g = R0; }\n")] "/w/bad.td" none with
    | .ok ws => coreWorkspaceB ws
    | .error _ => true) = false := by decide +kernel
example : (match buildWorkspace [("/w/bad.td", "class Reg;\nclass Inst { Reg r = R0; }\ndef R0 : Reg;\n")] "/w/bad.td" none with
    | .ok ws => coreWorkspaceB ws
    | .error _ => true) = false := by decide +kernel
example : (match buildWorkspace [("/w/bad.td", "class Reg;\ndef R0 : Reg;\nclass Inst { int r = R0; }\n")] "/w/bad.td" none with
    | .ok ws => coreWorkspaceB ws
    | .error _ => true) = false := by decide +kernel

/-- a class used before its declaration and a field of another class type as initialiser are rejected by the
judgement -/
example : (match buildWorkspace [("/w/bad.td", "class Inst { Reg r; }\nclass Reg { }\n")] "/w/bad.td" none with
    | .ok ws => coreWorkspaceB ws
    | .error _ => true) = false := by decide +kernel
example : (match buildWorkspace [("/w/bad.td", "class Reg { }\nclass GPR : Reg { }\nclass Inst { Reg r; GPR g = r; }\n")] "/w/bad.td" none with
    | .ok ws => coreWorkspaceB ws
    | .error _ => true) = false := by decide +kernel

/-- a list with elements of two types and a list of the wrong element type are rejected by the judgement -/
example : (match buildWorkspace [("/w/bad.td", "def d { list<int> a = [1, \"x\"]; }\n")] "/w/bad.td" none with
    | .ok ws => coreWorkspaceB ws
    | .error _ => true) = false := by decide +kernel
example : (match buildWorkspace [("/w/bad.td", "def d { list<int> a = [\"x\"]; }\n")] "/w/bad.td" none with
    | .ok ws => coreWorkspaceB ws
    | .error _ => true) = false := by decide +kernel

/-- an unknown identifier as initialiser and a variable of the wrong type are rejected by the judgement -/
example : (match buildWorkspace [("/w/bad.td", "defvar a = 1;\ndef d { int x = b; }\n")] "/w/bad.td" none with
    | .ok ws => coreWorkspaceB ws
    | .error _ => true) = false := by decide +kernel
example : (match buildWorkspace [("/w/bad.td", "defvar a = \"s\";\ndef d { int x = a; }\n")] "/w/bad.td" none with
    | .ok ws => coreWorkspaceB ws
    | .error _ => true) = false := by decide +kernel

/-- a missing argument without default, an argument of the wrong type, too many arguments and a repeated
parameter name are rejected by the judgement -/
example : (match buildWorkspace [("/w/bad.td", "class A<int x> { int v = x; }\ndef d : A { }\n")] "/w/bad.td" none with
    | .ok ws => coreWorkspaceB ws
    | .error _ => true) = false := by decide +kernel
example : (match buildWorkspace [("/w/bad.td", "class A<int x> { int v = x; }\ndef d : A<\"s\"> { }\n")] "/w/bad.td" none with
    | .ok ws => coreWorkspaceB ws
    | .error _ => true) = false := by decide +kernel
example : (match buildWorkspace [("/w/bad.td", "class A<int x = 1> { }\ndef g : A<2, 3>;\n")] "/w/bad.td" none with
    | .ok ws => coreWorkspaceB ws
    | .error _ => true) = false := by decide +kernel
example : (match buildWorkspace [("/w/bad.td", "class A<int x, int x> { }\n")] "/w/bad.td" none with
    | .ok ws => coreWorkspaceB ws
    | .error _ => true) = false := by decide +kernel

/-- a parent that is declared later, a `let` on an unknown field and a `let` of the wrong type are
rejected by the judgement -/
example : (match buildWorkspace [("/w/bad.td", "class B : A { }\nclass A { int x = 1; }\n")] "/w/bad.td" none with
    | .ok ws => coreWorkspaceB ws
    | .error _ => true) = false := by decide +kernel
example : (match buildWorkspace [("/w/bad.td", "class A { int x = 1; }\ndef d : A { let y = 1; }\n")] "/w/bad.td" none with
    | .ok ws => coreWorkspaceB ws
    | .error _ => true) = false := by decide +kernel
example : (match buildWorkspace [("/w/bad.td", "class A { int x = 1; }\ndef d : A { let x = \"s\"; }\n")] "/w/bad.td" none with
    | .ok ws => coreWorkspaceB ws
    | .error _ => true) = false := by decide +kernel

/-- and a type-incompatible use of an earlier field is rejected by the judgement -/
example : (match buildWorkspace [("/w/bad.td", "class A { string s = \"a\"; int n = s; }\n")] "/w/bad.td" none with
    | .ok ws => coreWorkspaceB ws
    | .error _ => true) = false := by decide +kernel

/-! ### the cast rule between `bit` and `bits<1>`; widths of binary literals; common types -/

/-- one bit is a `bits<1>` and conversely -/
theorem bit_bits1 (sub : Nat → Nat → Bool) :
    Ty.canBeCastedTo sub .bit (.bits 1) = true ∧ Ty.canBeCastedTo sub (.bits 1) .bit = true := ⟨rfl, rfl⟩

example : Castable (fun _ _ => false) .bit (.bits 1) := .bitBits1
example : ¬ Castable (fun _ _ => false) .bit (.bits 2) := by
  rw [← canBeCastedTo_iff]; decide

/-- the value `0b10` -/
def binValue : PTree :=
  .node .Value 0 4 3 #[.node .InnerValue 0 4 2 #[.node .Integer 0 4 1 #[.token .BinaryIntVal 0 4 "0b10"]]]

/-- `utils::binary_literal_width`: a binary literal is as wide as it has digits; a decimal one has no width -/
theorem binaryLiteralWidth_examples :
    binaryLiteralWidth binValue = some 2 ∧ binaryLiteralWidth intValue = none := by decide +kernel

/-- classes `A`, `B : A`, `C : A` -/
def smABC : SymMap :=
  (((SymMap.addRecord {} { name := "A", kind := .cls, defineLoc := ⟨0, 0, 0⟩ } false).2.addRecord
    { name := "B", kind := .cls, parentList := #[0], defineLoc := ⟨0, 0, 0⟩ } false).2.addRecord
    { name := "C", kind := .cls, parentList := #[0], defineLoc := ⟨0, 0, 0⟩ } false).2

theorem optTy_eq {o : Option Ty} {t : Ty} (h : (match o with | some x => x == t | none => false) = true) : o = some t := by
  cases o with
  | none => cases h
  | some x => rw [(Ty.beq_iff_eq x t).1 h]

/-- `Type::common_typ`: two records (and lists of them) that derive from a common class have that
class in common; unrelated primitive types have nothing in common -/
theorem commonTyp_examples :
    smABC.commonTyp (.record 1 "B") (.record 2 "C") = some (.record 0 "A") ∧
    smABC.commonTyp (.list (.record 1 "B")) (.list (.record 2 "C")) = some (.list (.record 0 "A")) ∧
    smABC.canBeCastedTo (.record 1 "B") (.record 2 "C") = false ∧
    smABC.commonTyp .int .string = none := by
  refine ⟨optTy_eq (by decide +kernel), optTy_eq (by decide +kernel), by decide +kernel, rfl⟩


end Tg.C13
