/-
C20, last clause — "Class-name completions in a parent-class position are exactly the classes of the
workspace, each with one snippet placeholder per template parameter."

What the model (`Handlers.completionExec` / `completeClasses`, from `handlers/completion.rs`) does,
stated exactly:

* *parent-class position* is tested as: the left-biased token at the cursor has a parent whose
  parent is a `ClassRef` node (`InClassRefPosition`).
* the class items are one per entry of the global `name_to_class` map - that is one per class
  *name*, not one per class symbol of the arena: a class declared twice contributes one item (the
  later declaration); `redeclared_class_one_item` is the witness that the two readings differ.
  Their order is the reverse of the map's `toList` order (the real `HashMap::values()` order is
  arbitrary).
* an item has the class name as label, kind `Class`, and the snippet
  `name` + `<${1}, …, ${n}>` + `$0`, with `n` the number of template parameters (distinct parameter
  names) and no `<…>` at all when `n = 0`.  The placeholders are bare (`${i}`); the parameter names
  are **not** part of the snippet (so "`${1:p1}`" in the informal statement is not what is emitted).
-/
import TgModel.Lemmas.IdeSemCompletion

namespace Tg.C20
open Tg Tg.Ide Tg.Ide.Handlers

/-- the cursor context that `completion::exec` treats as a parent-class position -/
def InClassRefPosition (root : PTree) (pos : Nat) : Prop :=
  ∃ tok parent pp, tokenAtOffsetLeft root pos = .ok (some tok) ∧ tok.parent = some parent ∧
    parent.parent = some pp ∧ pp.here.kind = .ClassRef

/-- the completion item of the class record `id` -/
def classItem (sm : SymMap) (id : Nat) : CompletionItem :=
  let n := (sm.record id).nameToTemplateArg.size
  { label := (sm.record id).name,
    insertTextSnippet := some ((sm.record id).name ++
      (if n = 0 then "" else "<" ++ ", ".intercalate (placeholders n) ++ ">") ++ "$0"),
    detail := "", kind := .cls }

def isClassItem (i : CompletionItem) : Bool := match i.kind with | .cls => true | _ => false

/-- `complete_classes`: one `classItem` per entry of `name_to_class`, in reversed `toList` order -/
theorem completeClasses_eq (sm : SymMap) :
    completeClasses sm = ((sm.nameToClass.toList.map (·.2)).reverse).map (classItem sm) := by
  unfold completeClasses
  rw [iterClass_eq]
  apply List.map_congr_left
  intro id _
  unfold classItem
  have := placeholders_isEmpty (sm.record id).nameToTemplateArg.size
  unfold placeholders at this
  simp only [this]
  by_cases hn : (sm.record id).nameToTemplateArg.size = 0
  · simp [hn]
  · simp [hn, placeholders]

/-- **the answer in a parent-class position**: the bang operators if the trigger character is `!`
(all of kind `Keyword`), followed by exactly the class items -/
theorem class_completions (an : Analysis) (file pos : Nat) (trig : Option String) (idx : Index.IndexResult)
    (hidx : an.index = .ok idx) (hpos : InClassRefPosition (an.ws.tree file) pos) :
    completionExec an file pos trig =
      .ok (some ((if trig == some "!" then completeBangOperators else []) ++ completeClasses idx.symbolMap)) := by
  obtain ⟨tok, parent, pp, h1, h2, h3, h4⟩ := hpos
  unfold completionExec
  simp only [hidx, h1, h2, h3, h4, bind, Except.bind, pure, Except.pure]
  by_cases ht : (trig == some "!") = true
  · simp [ht]
  · simp [ht]

theorem bang_items_not_class : ∀ i ∈ completeBangOperators, isClassItem i = false := by
  intro i hi
  unfold completeBangOperators at hi
  obtain ⟨k, _, rfl⟩ := List.mem_map.1 hi
  rfl

theorem class_items_class (sm : SymMap) : ∀ i ∈ completeClasses sm, isClassItem i = true := by
  intro i hi
  rw [completeClasses_eq] at hi
  obtain ⟨id, _, rfl⟩ := List.mem_map.1 hi
  rfl

/-- **the class items of the answer are exactly** (as a list) `completeClasses` -/
theorem class_completions_exact (an : Analysis) (file pos : Nat) (trig : Option String) (idx : Index.IndexResult)
    (hidx : an.index = .ok idx) (hpos : InClassRefPosition (an.ws.tree file) pos)
    (items : List CompletionItem) (h : completionExec an file pos trig = .ok (some items)) :
    items.filter isClassItem =
      ((idx.symbolMap.nameToClass.toList.map (·.2)).reverse).map (classItem idx.symbolMap) := by
  rw [class_completions an file pos trig idx hidx hpos] at h
  cases h
  rw [List.filter_append, ← completeClasses_eq]
  have e1 : (if trig == some "!" then completeBangOperators else []).filter isClassItem = [] := by
    rw [List.filter_eq_nil_iff]
    intro i hi
    split at hi
    · simp [bang_items_not_class i hi]
    · cases hi
  have e2 : (completeClasses idx.symbolMap).filter isClassItem = completeClasses idx.symbolMap := by
    rw [List.filter_eq_self]
    exact class_items_class _
  rw [e1, e2, List.nil_append]

/-- one item per class name: `item ∈ completeClasses sm` iff it is the item of the record some class
name maps to; and there are as many items as class names -/
theorem class_item_iff (sm : SymMap) (item : CompletionItem) :
    item ∈ completeClasses sm ↔ ∃ (name : String) (id : Nat), sm.nameToClass[name]? = some id ∧ item = classItem sm id := by
  rw [completeClasses_eq, ← iterClass_eq]
  simp only [List.mem_map, mem_iterClass]
  constructor
  · rintro ⟨id, ⟨name, h⟩, rfl⟩; exact ⟨name, id, h, rfl⟩
  · rintro ⟨name, id, h, rfl⟩; exact ⟨id, ⟨name, h⟩, rfl⟩

theorem class_item_count (sm : SymMap) : (completeClasses sm).length = sm.nameToClass.size := by
  unfold completeClasses
  rw [List.length_map, length_iterClass]

/-- for the symbol map of an index run the label of the item of the class name `name` is `name`
(`index_classMapOK`: `name_to_class` and the record arena agree) -/
theorem class_item_label (ws : Workspace) (res : Index.IndexResult) (h : Index.index ws = .ok res)
    (name : String) (id : Nat) (hid : res.symbolMap.nameToClass[name]? = some id) :
    id < res.symbolMap.recordList.size ∧ (classItem res.symbolMap id).label = name :=
  index_classMapOK ws res h name id hid

/-- the snippet: no `<…>` without template parameters, one bare placeholder per parameter otherwise -/
theorem class_item_snippet (sm : SymMap) (id : Nat) :
    (classItem sm id).insertTextSnippet = some ((sm.record id).name ++
      (match (sm.record id).nameToTemplateArg.size with
        | 0 => ""
        | n + 1 => "<" ++ ", ".intercalate ((List.range (n + 1)).map fun i => "${" ++ toString (i + 1) ++ "}") ++ ">")
      ++ "$0") := by
  unfold classItem
  cases (sm.record id).nameToTemplateArg.size with
  | zero => rfl
  | succ n => simp [placeholders]

/-! ### "classes of the workspace": class names, not class symbols -/

/-- `class A; class A<int x>;` as the indexer registers them -/
def twoA : SymMap :=
  ((SymMap.addRecord {} { name := "A", kind := .cls, defineLoc := ⟨0, 6, 7⟩ } true).2.addRecord
    { name := "A", kind := .cls, nameToTemplateArg := #[("x", 0)], defineLoc := ⟨0, 15, 16⟩ } true).2

/-- **witness**: two class symbols in the arena (both named `A`), one completion item - the one of
the later declaration -/
theorem redeclared_class_one_item :
    twoA.recordList.size = 2 ∧ (completeClasses twoA).length = 1 ∧
    ∀ item ∈ completeClasses twoA, item = classItem twoA 1 := by
  have hsz : twoA.recordList.size = 2 := by
    simp [twoA, SymMap.addRecord, SymMap.logDefine]
  have hmap : twoA.nameToClass = ((∅ : Std.HashMap String Nat).insert "A" 0).insert "A" 1 := by
    simp [twoA, SymMap.addRecord, SymMap.logDefine, pushFileSymbol_nameToClass]
  refine ⟨hsz, ?_, ?_⟩
  · rw [class_item_count, hmap]
    simp [Std.HashMap.size_insert]
  · intro item hi
    obtain ⟨name, id, hid, rfl⟩ := (class_item_iff _ _).1 hi
    rw [hmap] at hid
    simp only [Std.HashMap.getElem?_insert, Std.HashMap.getElem?_empty] at hid
    split at hid
    · cases hid; rfl
    · simp at hid

/-! ### non-vacuity -/

/-- `def d : A;` with the cursor right after `A` (offset 9) -/
def exTree : PTree :=
  .node .SourceFile 0 10 7 #[.node .StatementList 0 10 6 #[.node .Def 0 10 5 #[
    .token .DefKw 0 3 "def", .token .Whitespace 3 4 " ",
    .node .Value 4 6 3 #[.node .InnerValue 4 6 2 #[.node .Identifier 4 6 1 #[.token .Id 4 5 "d", .token .Whitespace 5 6 " "]]],
    .node .RecordBody 6 10 4 #[
      .node .ParentClassList 6 9 3 #[.token .Colon 6 7 ":", .token .Whitespace 7 8 " ",
        .node .ClassRef 8 9 2 #[.node .Identifier 8 9 1 #[.token .Id 8 9 "A"]]],
      .node .Body 9 10 1 #[.token .Semi 9 10 ";"]]]]]

def exAn : Analysis :=
  { ws := { files := #[{ path := "a.td", tree := exTree, errors := [] }], root := 0, fileSet := [0] },
    index := .ok { symbolMap := twoA, diagnostics := #[] }, symState := Thunk.mk fun _ => {} }

/-- the position test of `completion::exec`, as a Boolean -/
def classRefPositionB (root : PTree) (pos : Nat) : Bool :=
  match tokenAtOffsetLeft root pos with
  | .ok (some tok) =>
    match tok.parent with
    | some parent =>
      match parent.parent with
      | some pp => pp.here.kind == .ClassRef
      | none => false
    | none => false
  | _ => false

theorem classRefPositionB_sound (root : PTree) (pos : Nat) (h : classRefPositionB root pos = true) :
    InClassRefPosition root pos := by
  unfold classRefPositionB at h
  split at h
  · rename_i tok htok
    split at h
    · rename_i parent hp
      split at h
      · rename_i pp hpp
        exact ⟨tok, parent, pp, htok, hp, hpp, by simpa using h⟩
      · cases h
    · cases h
  · cases h

theorem ex_position : InClassRefPosition (exAn.ws.tree 0) 9 :=
  classRefPositionB_sound _ _ (by decide +kernel)

/-- in that position (no trigger character) the answer is the single item `A` with snippet `A<${1}>$0` -/
example : ∃ items, completionExec exAn 0 9 none = .ok (some items) ∧
    items.filter isClassItem = [classItem twoA 1] ∧
    (classItem twoA 1).insertTextSnippet = some ("A" ++ ("<" ++ "${1}" ++ ">") ++ "$0") := by
  have h := class_completions exAn 0 9 none _ rfl ex_position
  refine ⟨_, h, ?_, ?_⟩
  · have hx := class_completions_exact exAn 0 9 none _ rfl ex_position _ h
    rw [hx, ← completeClasses_eq]
    obtain ⟨_, hlen, hall⟩ := redeclared_class_one_item
    match hc : completeClasses twoA, hlen with
    | [x], _ =>
      have := hall x (by rw [hc]; exact List.mem_singleton.2 rfl)
      show [x] = _
      rw [this]
  · rw [class_item_snippet]
    have : (twoA.record 1).nameToTemplateArg.size = 1 := by
      simp [twoA, SymMap.addRecord, SymMap.logDefine, SymMap.record]
    rw [this]
    have hn : (twoA.record 1).name = "A" := by
      simp [twoA, SymMap.addRecord, SymMap.logDefine, SymMap.record]
    rw [hn]
    rfl

end Tg.C20
