/-
C02 — Parser totality: lexing, preprocessing and parsing always terminate without panic;
every syntax error has a non-empty message and a range inside the text on character boundaries.

* Termination / no `assert!` panic: `Progress.check` is a verified static checker over the parser
  DSL (`Lemmas/ProgressSound.lean: check_sound`, a total-correctness argument by well-founded
  induction on (remaining input, function rank)); `grammar_checks` runs it on the concrete grammar
  by kernel evaluation.  Summaries/ranks in `GrammarSumms.lean` are *inferred by unverified code*
  and then *validated* by the verified checker.
* No "error token without message" panic: the generic invariant `Inv` (ParserInv.lean).
* Error ranges: `Inv.errs`, generic over all DSL programs.
* Not covered by a theorem (stated, not hidden): panics of the rowan tree builder
  (`finish_node` without open node, stale checkpoint) — `Fine` admits them; the driver reports any
  such panic as a correspondence failure.  The explicit linear work constant is measured
  (step counters on both sides), not proved.
-/
import TgModel.GrammarSumms
import TgModel.Lemmas.ProgressSound
import TgModel.Lemmas.GrammarEof
import TgModel.Lemmas.ParserFinish

namespace Tg.C02
open Progress

/-- the verified checker accepts the grammar (kernel evaluation, ~3 s) -/
theorem grammar_checks :
    Progress.check Grammar.defs grammarSumms grammarRanks Tables.recoverTokens = true := by decide +kernel

theorem checkFn_all (f : Fn) :
    checkFn Grammar.defs grammarSumms (ltOfRanks grammarRanks) Tables.recoverTokens f = true := by
  have h := grammar_checks
  unfold Progress.check at h
  exact List.all_eq_true.mp h f (by cases f <;> decide)

/-- **termination**: for every input there is a fuel with which the parser model finishes —
in a state satisfying the invariant, or at a tree-builder panic; never out of fuel, never at
`assert!(self.eat_if(kind))`, never at "error token without message" -/
theorem parser_terminates (input : List Char) :
    ∃ fuel, Fine (fun s' => Inv input s')
      (exec Grammar.defs Tables.recoverTokens fuel (.call .source_file) (PState.init input)) := by
  have hmem : (⟨.any, [⟨.inS [.Eof], some false, false, false⟩]⟩ : Summ) ∈ grammarSumms .source_file := by
    simp [grammarSumms]
  obtain ⟨n, hn⟩ := check_sound Grammar.defs Tables.recoverTokens grammarSumms grammarRanks input checkFn_all
    (mu (PState.init input)) (grammarRanks .source_file) .source_file _ hmem (PState.init input)
    (Nat.le_refl _) (Nat.le_refl _) (PState.inv_init input) trivial
  refine ⟨n + 1, ?_⟩
  simp only [exec]
  cases hr : exec Grammar.defs Tables.recoverTokens n (Grammar.defs .source_file) (PState.init input) with
  | ok s' => rw [hr] at hn; exact hn.1
  | panic w => rw [hr] at hn; exact hn
  | outOfFuel => rw [hr] at hn; exact hn

/-- … hence with *any* fuel the result is never one of the two parser panics -/
theorem no_parser_panic (input : List Char) (fuel : Nat) :
    exec Grammar.defs Tables.recoverTokens fuel (.call .source_file) (PState.init input) ≠ .panic .assertFailed ∧
    exec Grammar.defs Tables.recoverTokens fuel (.call .source_file) (PState.init input) ≠ .panic .errorTokenWithoutMessage := by
  obtain ⟨n, hn⟩ := parser_terminates input
  have key : ∀ w, exec Grammar.defs Tables.recoverTokens fuel (.call .source_file) (PState.init input) = .panic w → builderWhy w := by
    intro w hw
    have h1 := exec_mono Grammar.defs Tables.recoverTokens fuel _ _ _ hw (by simp) (max fuel n) (Nat.le_max_left _ _)
    have h2 := fine_mono Grammar.defs Tables.recoverTokens hn (Nat.le_max_right fuel n)
    rw [h1] at h2; exact h2
  constructor
  · intro h; exact key _ h
  · intro h; exact key _ h

/-- the message fetch in `save` can never panic: whenever the look-ahead is an `Error` token a
message is parked (lexer or preprocessor), for every DSL program -/
theorem save_never_misses_message (input : List Char) (s : PState) (h : Inv input s) :
    s.save ≠ .panic .errorTokenWithoutMessage := by
  obtain ⟨s1, hs⟩ := PState.save_ok h
  rw [hs]; simp

/-- **error ranges** (generic over all DSL programs): every recorded syntax error covers a
contiguous piece `mid` of the input `pre ++ mid ++ post`, from byte `|pre|` to `|pre|+|mid|` —
inside the text, start ≤ end, on character boundaries -/
theorem error_ranges_wellformed (defs : Defs) (recover : List TokenKind) (input : List Char) (fuel : Nat)
    (p : Prog) (s' : PState) (h : exec defs recover fuel p (PState.init input) = .ok s') :
    ∀ e ∈ s'.errors, ∃ pre mid post, input = pre ++ mid ++ post ∧ e.start = byteLen pre ∧
      e.stop = byteLen pre + byteLen mid :=
  (inv_exec defs recover input fuel p _ s' (PState.inv_init input) h).errs

/-- … and the same for everything `parse` reports: the errors of the grammar run followed by the
error `ParserBase::finish` appends for a message left in the token source, which covers the empty
piece at the very end of the text (`pre = input`, `mid = []`) -/
theorem parse_error_ranges_wellformed (input : List Char) (r : Grammar.ParseResult)
    (h : Grammar.parse input = .ok r) :
    ∀ e ∈ r.errors, ∃ pre mid post, input = pre ++ mid ++ post ∧ e.start = byteLen pre ∧
      e.stop = byteLen pre + byteLen mid := by
  obtain ⟨s, hx, _, _, he, _⟩ := (Grammar.parse_ok_iff input r).mp h
  intro e hmem
  rw [he, List.mem_append, List.mem_reverse] at hmem
  rcases hmem with hmem | hmem
  · exact (inv_exec Grammar.defs Tables.recoverTokens input _ _ _ s (PState.inv_init input) hx).errs e hmem
  · exact PState.endErrors_ok input e hmem

/-- the message `ParserBase::finish` may append is one of the parked messages of the token source
(lexer or preprocessor), hence one of the literals below -/
theorem finish_message_is_parked (s : PState) (e : SynError) (h : e ∈ s.finish.errors) :
    e ∈ s.errors ∨ (s.src.takeError).1 = some e.msg := by
  unfold PState.finish at h
  split at h
  · split at h
    · rename_i m src hte
      simp only [List.mem_cons] at h
      rcases h with rfl | h
      · exact Or.inr (by rw [hte])
      · exact Or.inl h
    · exact Or.inl h
  · exact Or.inl h

/-- every message literal of the syntax crate is non-empty (table regenerated from
lexer.rs / preprocessor.rs / parser.rs / grammar*.rs on every run) -/
theorem messages_nonempty : Tables.messages.all (fun m => !m.isEmpty) = true := by decide +kernel

/-- the message of an unterminated conditional — the one message the preprocessor parks without
an `Error` token, so the one `ParserBase::finish` exists for — is among those literals (this ties
the model's literal to the regenerated table: if the translator lost sight of it, this fails) -/
theorem eof_message_in_table : Tables.eofMessage ∈ Tables.messages := by decide +kernel

/-- the model's end-of-text message is that literal -/
theorem eofMsg_is_table_literal : eofMsg = String.ofList Tables.eofMessage := rfl

/-- `expect(kind)` messages are "expected " followed by the kind's Debug name -/
theorem expected_message_prefix (k : TokenKind) : expectedMsg k = "expected " ++ k.name := rfl

/-- non-vacuity of `parser_terminates`' conclusion: a run that really ends in a state (not a
builder panic) on an input with errors of several kinds -/
example : (match Grammar.parse ['c','l','a','s','s',' ','{',' ','!','x',' ','"','\n','}',' ','d','e','f'] with
    | .ok r => decide (r.errors.length ≥ 3) | _ => false) = true := by decide +kernel

end Tg.C02
