/-
C02, builder part — the parser model never panics, the tree builder included.

`C02.lean` rules out the two panics of `parser.rs` (`assert!(self.eat_if(kind))`, "error token
without message") and proves termination, but admits the panics of the rowan tree builder
(`Fine`).  Here these are ruled out too:

* `finish_node` with no open node (`finishWithoutStart`), `start_node_at` with a stale checkpoint
  (`badCheckpoint`) or without one (`noCheckpoint`): every grammar function closes exactly the
  nodes it opens and uses only its own checkpoints, while they are valid.  This is the abstract
  interpreter `absStep` of `Lemmas/ParserShape.lean` (accepts all 76 grammar functions by kernel
  evaluation); `Lemmas/ParserBuilder.lean: absStep_panic` shows that under its relation `Rel`
  between the abstract stack and the builder the builder's checks succeed;
* `finish` with other than one root (`rootCount`): a run of `source_file` that ends in a state has
  built exactly one root and left no node open (`source_file_run`).

What is proved about the fuel, and what is not.  `exec` is fuel-indexed; the fuel bounds the
*depth* of the run (nesting of calls and sequences, plus one per loop iteration), and
`Grammar.parse` hands it `parseFuel input = 64 * input.length + 4096`.
* `parser_finishes`: for every input there is a fuel with which `source_file` ends in a state
  with exactly one root and no open node (and then with every larger fuel: `parser_finishes_from`);
* `exec_never_panics`: with *any* fuel — `parseFuel input` included — the run does not end in any of
  the panics of the model; hence `parse_no_panic`: `Grammar.parse input` is never `.panic _`
  (`rootCount` included), so it is `.ok _` or `.outOfFuel` (`parse_ok_or_outOfFuel`);
* NOT proved: that `parseFuel input` is enough fuel (`Grammar.parse input ≠ .outOfFuel`).  The
  termination proof (`check_sound`) gives an existential fuel, not a bound; a bound of the form
  `64 * length + 4096` needs a cost analysis of the grammar (depth per consumed token; measured:
  at most 24 per input character on deeply nested `[[[[…`, `{{{{…`, `A<A<A<…`, `!if(!if(…`).
  `parse_never_panics_of_fuel` states the implication: if the run with `parseFuel input` is not
  out of fuel then `Grammar.parse input = .ok r`.
-/
import TgModel.Props.C02
import TgModel.Lemmas.ParserBuilder

namespace Tg.C02
open Progress

/-- the run of the parser model on `input` with the given fuel -/
abbrev run (input : List Char) (fuel : Nat) : Res :=
  exec Grammar.defs Tables.recoverTokens fuel (.call .source_file) (PState.init input)

/-- **no panic, with any fuel**: neither `assert!` / "error token without message" (`C02`) nor a
panic of the tree builder -/
theorem exec_never_panics (input : List Char) (fuel : Nat) (w : Why) : run input fuel ≠ .panic w := by
  intro h
  have hp := (source_file_run input Tables.recoverTokens fuel).2 w h
  obtain ⟨h1, h2⟩ := no_parser_panic input fuel
  rcases hp with rfl | rfl
  · exact h2 h
  · exact h1 h

/-- **the parser model finishes with a tree**: for every input there is a fuel with which the run
ends in a state that satisfies the parser invariant, has exactly one root and no open node -/
theorem parser_finishes (input : List Char) :
    ∃ fuel s t, run input fuel = .ok s ∧ s.b.cur = [t] ∧ s.b.parents = [] ∧ Inv input s := by
  obtain ⟨fuel, hf⟩ := parser_terminates input
  refine ⟨fuel, ?_⟩
  cases hr : run input fuel with
  | ok s =>
    obtain ⟨t, h1, h2⟩ := (source_file_run input Tables.recoverTokens fuel).1 s hr
    have hf' : Fine (fun s' => Inv input s') (run input fuel) := hf
    rw [hr] at hf'
    exact ⟨s, t, rfl, h1, h2, hf'⟩
  | panic w => exact absurd hr (exec_never_panics input fuel w)
  | outOfFuel =>
    have hf' : Fine (fun s' => Inv input s') (run input fuel) := hf
    rw [hr] at hf'
    exact hf'.elim

/-- … and with every larger fuel the run ends in the same state -/
theorem parser_finishes_from (input : List Char) :
    ∃ fuel0 s t, (∀ fuel, fuel0 ≤ fuel → run input fuel = .ok s) ∧ s.b.cur = [t] ∧ s.b.parents = [] := by
  obtain ⟨fuel0, s, t, hr, h1, h2, _⟩ := parser_finishes input
  exact ⟨fuel0, s, t, fun fuel hle => exec_mono _ _ fuel0 _ _ _ hr (by simp) fuel hle, h1, h2⟩

/-- with any fuel: out of fuel, or a state with exactly one root and no open node -/
theorem run_ok_or_outOfFuel (input : List Char) (fuel : Nat) :
    run input fuel = .outOfFuel ∨ ∃ s t, run input fuel = .ok s ∧ s.b.cur = [t] ∧ s.b.parents = [] := by
  cases hr : run input fuel with
  | ok s =>
    obtain ⟨t, h1, h2⟩ := (source_file_run input Tables.recoverTokens fuel).1 s hr
    exact Or.inr ⟨s, t, rfl, h1, h2⟩
  | panic w => exact absurd hr (exec_never_panics input fuel w)
  | outOfFuel => exact Or.inl rfl

/-- **`syntax::parse` never panics**: the result of the model is never `.panic _` — none of
`errorTokenWithoutMessage`, `assertFailed`, `finishWithoutStart`, `badCheckpoint`, `noCheckpoint`,
`rootCount` -/
theorem parse_no_panic (input : List Char) (w : Why) : Grammar.parse input ≠ .panic w := by
  unfold Grammar.parse
  rcases run_ok_or_outOfFuel input (Grammar.parseFuel input) with h | ⟨s, t, h, h1, h2⟩
  · simp only [run] at h
    rw [h]; simp
  · simp only [run] at h
    rw [h]
    simp only [h1, h2]
    simp

/-- `Grammar.parse` returns a tree, or its fuel `parseFuel input` was not enough -/
theorem parse_ok_or_outOfFuel (input : List Char) :
    (∃ r, Grammar.parse input = .ok r) ∨ Grammar.parse input = .outOfFuel := by
  cases hp : Grammar.parse input with
  | ok r => exact Or.inl ⟨r, rfl⟩
  | panic w => exact absurd hp (parse_no_panic input w)
  | outOfFuel => exact Or.inr rfl

/-- `parse_never_panics`, conditional on the fuel: if the run with `parseFuel input` is not out
of fuel, `Grammar.parse input` returns a tree -/
theorem parse_never_panics_of_fuel (input : List Char)
    (hfuel : run input (Grammar.parseFuel input) ≠ .outOfFuel) : ∃ r, Grammar.parse input = .ok r := by
  rcases parse_ok_or_outOfFuel input with h | h
  · exact h
  · exfalso
    unfold Grammar.parse at h
    rcases run_ok_or_outOfFuel input (Grammar.parseFuel input) with h' | ⟨s, t, h', h1, h2⟩
    · exact hfuel h'
    · simp only [run] at h'
      rw [h'] at h
      simp only [h1, h2] at h
      cases h

/-- … in particular whenever `parseFuel input` is at least a fuel with which the run finishes -/
theorem parse_never_panics_of_le (input : List Char) {fuel : Nat} {s : PState} (h : run input fuel = .ok s)
    (hle : fuel ≤ Grammar.parseFuel input) : ∃ r, Grammar.parse input = .ok r := by
  apply parse_never_panics_of_fuel
  have := exec_mono _ _ fuel _ _ _ h (by simp) (Grammar.parseFuel input) hle
  simp only [run] at this ⊢
  rw [this]; simp

/-! ### non-vacuity -/

def isOutOfFuel : Res → Bool
  | .outOfFuel => true
  | _ => false

theorem ne_outOfFuel {r : Res} (h : isOutOfFuel r = false) : r ≠ .outOfFuel := by
  intro he; rw [he] at h; cases h

/-- nested lists, a checkpoint-using construct (`x.f`, `a # b`), a bang operator and syntax errors -/
def exInput2 : List Char :=
  "def d { list<int> y = [[1, 2], [!add(x.f, 3)]]; let z = a # b; } class {".toList

/-- the fuel hypothesis of `parse_never_panics_of_fuel` holds on it -/
theorem ex_fuel : run exInput2 (Grammar.parseFuel exInput2) ≠ .outOfFuel :=
  ne_outOfFuel (by decide +kernel)

example : ∃ r, Grammar.parse exInput2 = .ok r := parse_never_panics_of_fuel _ ex_fuel

/-- the empty input: one root, nothing open -/
example : ∃ s t, run [] 16 = .ok s ∧ s.b.cur = [t] ∧ s.b.parents = [] := by
  rcases run_ok_or_outOfFuel [] 16 with h | h
  · exact absurd h (ne_outOfFuel (by decide +kernel))
  · exact h

end Tg.C02
