/-
C16 on the model of the language server (`TgModel/Ide`): which files `collect_sources` collects
(`buildWorkspace`) and which of them the indexer indexes (`Index.index`).

(a) The file set of a built workspace is duplicate free and is EXACTLY the set of files reachable from the
    root through resolved includes (`Workspace.Reach`: the entries of the `includeMap`s, i.e. every include
    statement anywhere in a tree whose path resolves, `listIncludes`).
(b) The indexer marks a file when it executes an `include` statement that resolves to it.  The files it has
    marked at the end of a successful run (`ctx.indexedFiles`; `ctx` is the final context, the `IndexResult`
    does not contain the list) are duplicate free, belong to the file set, contain the root, and are closed
    under the resolved include statements of TOP-LEVEL statement lists (`topStatements`): the statements the
    indexer executes unconditionally.  So
        reachable through top-level includes  ⊆  indexed  ⊆  file set = reachable through includes.
    Both inclusions can be strict: an include inside a `foreach`/`if`/`let` body is executed only if the
    indexer gets to the body (`foreach = [1] in { include "b.td" }`: the iterator has no name, the body is
    skipped, `b.td` is collected but not indexed: `collected_not_indexed`), and is then indexed although it
    is not a top-level include.
(c) An include statement without an entry in the `includeMap` of the current file is reported as
    `include file not found` at the include statement (site I1 of C13, `Tg.C13.include_not_found`); end to end:
    the result of `Index.index` contains this diagnostic for every unresolved top-level include statement of
    every indexed file (`unresolved_diagnosed_ide`).
-/
import TgModel.Lemmas.IdeCollect
import TgModel.Lemmas.IdeInclude
import TgModel.Lemmas.Ix13NF
import TgModel.Props.C03
import TgModel.Props.C13

namespace Tg.C16
open Tg.Ide Tg.Ide.Index

/-! ### (a) the file set -/

/-- **exact reachability, no duplicates**: the files of a built workspace are exactly the files reachable from
the root through resolved includes, each once; and only collected files have resolved includes -/
theorem fileSet_exact {vfs : List (String × String)} {rootPath : String} {includeDir : Option String}
    {ws : Workspace} (h : buildWorkspace vfs rootPath includeDir = .ok ws) :
    ws.fileSet.Nodup ∧ (∀ f, f ∈ ws.fileSet ↔ ws.Reach f) ∧
    ∀ (g : Nat) (fi : FileInfo) (e : (Nat × Nat) × Nat), ws.file? g = some fi → e ∈ fi.includeMap →
      g ∈ ws.fileSet ∧ e.2 ∈ ws.fileSet :=
  buildWorkspace_reach parserShape h

/-- the same for every input (`buildWorkspace` is total, `C03.buildWorkspace_total`) -/
theorem fileSet_exact_all (vfs : List (String × String)) (rootPath : String) (includeDir : Option String) :
    ∃ ws, buildWorkspace vfs rootPath includeDir = .ok ws ∧
      ws.fileSet.Nodup ∧ ∀ f, f ∈ ws.fileSet ↔ ws.Reach f := by
  obtain ⟨ws, h⟩ := C03.buildWorkspace_total vfs rootPath includeDir
  exact ⟨ws, h, (fileSet_exact h).1, (fileSet_exact h).2.1⟩

/-! ### (b) the indexed files -/

/-- `incTarget` is the `includeTarget` of C13 -/
theorem incTarget_eq (ws : Workspace) (f : Nat) (n : PTree) : incTarget ws f n = C13.includeTarget ws f n := rfl

/-- a file reachable through top-level includes is reachable through includes -/
theorem TopReach.reach {ws : Workspace} {f : Nat} (h : TopReach ws f) : ws.Reach f := by
  induction h with
  | root => exact Workspace.Reach.root
  | @step g t n _ _ _ ht ih =>
    unfold incTarget at ht
    cases hfi : ws.file? g with
    | none => rw [hfi] at ht; cases ht
    | some fi =>
      rw [hfi] at ht
      exact Workspace.Reach.step ih hfi (mem_of_lookup _ _ _ ht)

/-- **the indexed files**: a successful `Index.index` on a built workspace is the run of `indexSourceFile` on
the root tree from the initial context; in its final context `ctx` the list of indexed files has no duplicates
(no file is indexed twice), contains the root, is contained in the file set, and is closed under the resolved
include statements of top-level statement lists — in particular it contains every file reachable from the
root through such includes -/
theorem indexed_files {vfs : List (String × String)} {rootPath : String} {includeDir : Option String}
    {ws : Workspace} (hb : buildWorkspace vfs rootPath includeDir = .ok ws) {res : IndexResult}
    (h : Index.index ws = .ok res) :
    ∃ sf ctx, Ast.sourceFileCast (ws.tree ws.root) = some sf ∧
      (indexSourceFile (mkRec ws.depthBound) sf).run (IndexCtx.new ws) = .ok ((), ctx) ∧
      res = ⟨ctx.symbolMap, ctx.diagnostics⟩ ∧
      ctx.indexedFiles.Nodup ∧
      ws.root ∈ ctx.indexedFiles ∧
      (∀ f ∈ ctx.indexedFiles, f ∈ ws.fileSet) ∧
      (∀ f ∈ ctx.indexedFiles, ∀ n ∈ topStatements ws f, n.kind = .Include →
        ∀ t, incTarget ws f n = some t → t ∈ ctx.indexedFiles) ∧
      (∀ f, TopReach ws f → f ∈ ctx.indexedFiles) := by
  obtain ⟨sf, ctx, h1, h2, h3, h4, h5, h6, h7, h8⟩ := index_files ws res h
  obtain ⟨_, hreach, hinc⟩ := fileSet_exact hb
  refine ⟨sf, ctx, h1, h2, h3, h4, h5, ?_, fun f hf n hn hk => (h7 f hf n hn hk).1, h8⟩
  intro f hf
  rcases h6 f hf with rfl | ⟨src, fi, rng, hfi, hm⟩
  · exact (hreach _).mpr Workspace.Reach.root
  · exact (hinc src fi (rng, f) hfi hm).2

/-- the part that holds for every workspace -/
theorem indexed_files_any (ws : Workspace) (res : IndexResult) (h : Index.index ws = .ok res) :
    ∃ sf ctx, Ast.sourceFileCast (ws.tree ws.root) = some sf ∧
      (indexSourceFile (mkRec ws.depthBound) sf).run (IndexCtx.new ws) = .ok ((), ctx) ∧
      res = ⟨ctx.symbolMap, ctx.diagnostics⟩ ∧
      ctx.indexedFiles.Nodup ∧ ws.root ∈ ctx.indexedFiles ∧
      (∀ g ∈ ctx.indexedFiles, g = ws.root ∨ IsIncludeTarget ws g) ∧
      (∀ f ∈ ctx.indexedFiles, IncDone ws f ctx.indexedFiles res.diagnostics.toList) ∧
      (∀ f, TopReach ws f → f ∈ ctx.indexedFiles) :=
  index_files ws res h

/-- for every input: the workspace is built, the indexer succeeds, and the above holds -/
theorem indexed_files_all (vfs : List (String × String)) (rootPath : String) (includeDir : Option String) :
    ∃ ws res sf ctx, buildWorkspace vfs rootPath includeDir = .ok ws ∧ Index.index ws = .ok res ∧
      Ast.sourceFileCast (ws.tree ws.root) = some sf ∧
      (indexSourceFile (mkRec ws.depthBound) sf).run (IndexCtx.new ws) = .ok ((), ctx) ∧
      res = ⟨ctx.symbolMap, ctx.diagnostics⟩ ∧
      ctx.indexedFiles.Nodup ∧
      (∀ f, TopReach ws f → f ∈ ctx.indexedFiles) ∧
      (∀ f ∈ ctx.indexedFiles, ws.Reach f) := by
  obtain ⟨ws, res, hb, hi⟩ := C03.index_never_panics_all vfs rootPath includeDir
  obtain ⟨sf, ctx, h1, h2, h3, h4, _, h6, _, h8⟩ := indexed_files hb hi
  exact ⟨ws, res, sf, ctx, hb, hi, h1, h2, h3, h4, h8, fun f hf => ((fileSet_exact hb).2.1 f).mp (h6 f hf)⟩

/-! ### (c) unresolved includes -/

/-- **an include statement that was not resolved is diagnosed** (C13, site I1): running the indexer on an
include statement `n` of the current file `f` without entry in the include map appends exactly the diagnostic
`include file not found: <path>` at the range of the statement, in `f`, and changes nothing else -/
theorem include_unresolved (r : Rec) (n : PTree) (c : IndexCtx) (f : Nat) (rest : List Nat)
    (hft : c.fileTrace = f :: rest) (h : incTarget c.ws f n = none) :
    (indexInclude r n).run c = .ok ((), c.report f (nodeRange n)
      ("include file not found: " ++ ((Ast.includePath n).map Ast.stringValue).getD "")) :=
  C13.include_not_found r n c f rest hft h

/-- **end to end**: the result of a successful `Index.index` contains the diagnostic `include file not found`,
at the statement, for every unresolved include statement of the top-level statement list of every indexed
file — in particular of every file reachable from the root through top-level includes -/
theorem unresolved_diagnosed_ide (ws : Workspace) (res : IndexResult) (h : Index.index ws = .ok res) :
    ∃ sf ctx, Ast.sourceFileCast (ws.tree ws.root) = some sf ∧
      (indexSourceFile (mkRec ws.depthBound) sf).run (IndexCtx.new ws) = .ok ((), ctx) ∧
      (∀ f, TopReach ws f → f ∈ ctx.indexedFiles) ∧
      ∀ f ∈ ctx.indexedFiles, ∀ n ∈ topStatements ws f, n.kind = .Include → incTarget ws f n = none →
        ({ location := ⟨f, n.start, n.stop⟩
           message := "include file not found: " ++ ((Ast.includePath n).map Ast.stringValue).getD "" } : Diagnostic)
          ∈ res.diagnostics.toList := by
  obtain ⟨sf, ctx, h1, h2, _, _, _, _, h7, h8⟩ := index_files ws res h
  exact ⟨sf, ctx, h1, h2, h8, fun f hf n hn hk ht => (h7 f hf n hn hk).2 ht⟩

/-! ### (d) the converse: where an `include file not found` diagnostic comes from

Proved with a message-aware pass over the whole indexer (`Lemmas/Ix13Pass.lean`, `Ix13NF.lean`): every other
`error` call of the model - including every `checkNext` call site of the bang operators - reports a message
that is `MsgOK` (at least four characters, not starting with `incl`; checked literal by literal by `msg_ok`). -/

/-- **converse of `unresolved_diagnosed_ide`**: every diagnostic of a successful `Index.index` whose message
starts with the model's literal prefix is the report of an `include` statement `n` that was executed in an
indexed file `f` (the root, or a file some include resolves to) and whose target does not resolve; it sits at
the range of that statement and carries its path -/
theorem not_found_diagnostic_stems_from_include (ws : Workspace) (res : IndexResult) (h : Index.index ws = .ok res)
    (d : Diagnostic) (hd : d ∈ res.diagnostics.toList)
    (hp : "include file not found: ".toList <+: d.message.toList) :
    ∃ f n, (f = ws.root ∨ IsIncludeTarget ws f) ∧ n.kind = .Include ∧ incTarget ws f n = none ∧
      d = { location := ⟨f, n.start, n.stop⟩
            message := "include file not found: " ++ ((Ast.includePath n).map Ast.stringValue).getD "" } :=
  Ix13.nf_converse ws res h d hd (not_msgOK_of_prefix d.message hp)

/-- the same for every diagnostic whose message merely starts with `incl` (or has fewer than four characters) -/
theorem not_msgOK_diagnostic_stems_from_include (ws : Workspace) (res : IndexResult) (h : Index.index ws = .ok res)
    (d : Diagnostic) (hd : d ∈ res.diagnostics.toList) (hm : ¬ MsgOK d.message) :
    ∃ f n, (f = ws.root ∨ IsIncludeTarget ws f) ∧ n.kind = .Include ∧ incTarget ws f n = none ∧
      d = { location := ⟨f, n.start, n.stop⟩
            message := "include file not found: " ++ ((Ast.includePath n).map Ast.stringValue).getD "" } :=
  Ix13.nf_converse ws res h d hd hm

/-- on a built workspace the file is one of the collected files -/
theorem not_found_diagnostic_stems_from_include_built {vfs : List (String × String)} {rootPath : String}
    {includeDir : Option String} {ws : Workspace} (hb : buildWorkspace vfs rootPath includeDir = .ok ws)
    {res : IndexResult} (h : Index.index ws = .ok res) (d : Diagnostic) (hd : d ∈ res.diagnostics.toList)
    (hp : "include file not found: ".toList <+: d.message.toList) :
    ∃ f n, f ∈ ws.fileSet ∧ n.kind = .Include ∧ incTarget ws f n = none ∧
      d = { location := ⟨f, n.start, n.stop⟩
            message := "include file not found: " ++ ((Ast.includePath n).map Ast.stringValue).getD "" } := by
  obtain ⟨f, n, hf, hk, ht, hdd⟩ := not_found_diagnostic_stems_from_include ws res h d hd hp
  refine ⟨f, n, ?_, hk, ht, hdd⟩
  rcases hf with rfl | ⟨src, fi, rng, hfile, he⟩
  · exact ((fileSet_exact hb).2.1 ws.root).2 Workspace.Reach.root
  · exact ((fileSet_exact hb).2.2 src fi (rng, f) hfile he).2

/-! ### non-vacuity -/

/-- the final list of indexed files of a workspace (for the examples) -/
def indexedOf (ws : Workspace) : Option (List Nat) :=
  match Ast.sourceFileCast (ws.tree ws.root) with
  | none => none
  | some sf =>
    match (indexSourceFile (mkRec ws.depthBound) sf).run (IndexCtx.new ws) with
    | .ok (_, ctx) => some ctx.indexedFiles
    | .error _ => none

/-- the file set and the indexed files of the workspace built from `vfs` with root `/a.td` -/
def filesOf (vfs : List (String × String)) : Option (List Nat × Option (List Nat)) :=
  match buildWorkspace vfs "/a.td" none with
  | .ok ws => some (ws.fileSet, indexedOf ws)
  | .error _ => none

/-- an include chain with a cycle and an unresolved include: all three files are collected and indexed once -/
example : filesOf [("/a.td", "include \"b.td\"\ninclude \"nope.td\"\n"), ("/b.td", "include \"c.td\"\n"),
    ("/c.td", "include \"a.td\"\nclass C;\n"), ("/d.td", "class D;\n")] = some ([0, 1, 2], some [2, 1, 0]) := by
  decide +kernel

/-- the unresolved include of that workspace is diagnosed -/
example : (match buildWorkspace [("/a.td", "include \"b.td\"\ninclude \"nope.td\"\n"),
      ("/b.td", "include \"c.td\"\n"), ("/c.td", "include \"a.td\"\nclass C;\n")] "/a.td" none with
    | .ok ws => (match Index.index ws with
      | .ok res => res.diagnostics.toList.map (fun (d : Diagnostic) => (d.location.file, d.location.start, d.location.stop, d.message))
      | .error _ => [])
    | .error _ => []) = [(0, 15, 33, "include file not found: nope.td")] := by
  decide +kernel

/-- **collected, not indexed**: the include in the body of a `foreach` without iterator name is collected by
`collect_sources` (it is an include statement of the tree) but never executed by the indexer, so the inclusion
`indexed ⊆ file set` is strict here -/
theorem collected_not_indexed :
    filesOf [("/a.td", "foreach = [1] in { include \"b.td\" }\n"), ("/b.td", "class B;\n")] =
      some ([0, 1], some [0]) := by
  decide +kernel

/-- **indexed, not a top-level include**: an include in the body of a well-formed `foreach` is executed -/
example : filesOf [("/a.td", "foreach i = [1] in { include \"b.td\" }\n"), ("/b.td", "class B;\n")] =
    some ([0, 1], some [1, 0]) := by
  decide +kernel

end Tg.C16
