/-
C12 — Editor buffers are the source of truth for open documents.
Model: `Session.lean` over `Host.lean`; the file system the analysis sees is
`overlay disk buffers` (after the `fix:` commit that made `Vfs::read_content` consult the open
documents first).
-/
import TgModel.Lemmas.SessionLemmas

namespace Tg.C12
open Host Session

variable {D : Type}

/-- **buffers win**: at every point of every session, each workspace file is analysed with the
latest text the editor sent for it if it was ever opened — also when it is reached only through
an include — and with its on-disk text otherwise -/
theorem buffers_win (env : Env) (diag : DiagFn D) (fuel : Nat) (disk : Fs) (h : List (Path × Text))
    (hne : h ≠ []) (d : Db) (hd : (run env diag fuel disk h).db = some d) (q : Path) (hq : q ∈ d.files) :
    d.content q = overlay disk (run env diag fuel disk h).buffers q ∧ (d.content q).isSome = true := by
  obtain ⟨t, ht⟩ := workspace_has_content env diag fuel disk h hne d hd q hq
  have := content_is_overlay env diag fuel disk h d hd q t ht
  exact ⟨by rw [ht, this], by simp [ht]⟩

/-- the overlay is the latest text sent for an opened document … -/
theorem opened_uses_latest_buffer (env : Env) (diag : DiagFn D) (fuel : Nat) (disk : Fs)
    (pre : List (Path × Text)) (p : Path) (t : Text) (post : List (Path × Text)) (hpost : ∀ e ∈ post, e.1 ≠ p) :
    overlay disk (run env diag fuel disk (pre ++ (p, t) :: post)).buffers p = some t := by
  simp [overlay, buffers_latest env diag fuel disk pre p t post hpost]

/-- … and the disk text for a document that was never opened; in particular re-analysing after an
edit to one document never replaces another open document's text with its on-disk version -/
theorem unopened_uses_disk (env : Env) (diag : DiagFn D) (fuel : Nat) (disk : Fs) (h : List (Path × Text))
    (p : Path) (hp : ∀ e ∈ h, e.1 ≠ p) : overlay disk (run env diag fuel disk h).buffers p = disk p := by
  simp [overlay, buffers_unopened env diag fuel disk h p hp]

end Tg.C12
