/-
C11 — Published diagnostics converge to the diagnostics of the final state.
Model: `Session.lean`: every update publishes one notification per workspace file with a global
version counter and (after the `fix:` commit) clears the documents that left the workspace;
updates run to completion one after the other (the main loop waits for the previous snapshot
task before it writes, see C08).  Diagnostics are an arbitrary function of the observable inputs.
-/
import TgModel.Lemmas.SessionLemmas

namespace Tg.C11
open Host Session

variable {D : Type}

/-- **convergence**: once the server is idle, the diagnostics most recently published for each
workspace file are those of the final state; a document outside the final workspace has no entry or
an empty one (no stale problems) -/
theorem converges (env : Env) (diag : DiagFn D) (fuel : Nat) (disk : Fs) (h : List (Path × Text))
    (hne : h ≠ []) (d : Db) (hd : (run env diag fuel disk h).db = some d) :
    (∀ f ∈ d.files, ∃ pb, (run env diag fuel disk h).view f = some pb ∧ pb.diags = diag (observe d) f) ∧
    (∀ f, f ∉ d.files → (run env diag fuel disk h).view f = none ∨
        ∃ pb, (run env diag fuel disk h).view f = some pb ∧ pb.diags = []) := by
  obtain ⟨h1, h2⟩ := view_converged env diag fuel disk h hne d hd
  exact ⟨fun f hf => by obtain ⟨pb, a, b, _⟩ := h1 f hf; exact ⟨pb, a, b⟩, h2⟩

/-- **versions never decrease**: in the stream of notifications (newest first) every older
notification carries a version ≤ every newer one -/
theorem versions_monotone (env : Env) (diag : DiagFn D) (fuel : Nat) (disk : Fs) (h : List (Path × Text)) :
    ((run env diag fuel disk h).log.map (·.2)).Pairwise (fun newer older => older ≤ newer) :=
  (log_versions_sorted env diag fuel disk h).1

end Tg.C11
